import ComposeVerif.Lemmas.Select
/-!
# C15 — the callback sequence of `ForEachService` (`walkC`) and the accessors (round 5)
-/
namespace CV.Sel

/-! ## the recording walk refines the walk -/

theorem loopC_forget {svcs : AL Svc} {pol : Policy}
    {recC : List String → AL Dep → List String → List String → WalkC} {rec : List String → AL Dep → List String → Walk}
    (h : ∀ ns d seen calls, (recC ns d seen calls).forget = rec ns d seen) :
    ∀ ns seen calls, (walkLoopC recC svcs pol ns seen calls).forget = walkLoop rec svcs pol ns seen := by
  intro ns
  induction ns with
  | nil => intro seen calls; rfl
  | cons n ns ih =>
    intro seen calls
    unfold walkLoopC walkLoop
    cases hs : lookup n svcs with
    | none => exact ih _ _
    | some s =>
      simp only []
      by_cases hseen : n ∈ seen
      · simp only [hseen, if_true]; exact ih _ _
      · simp only [hseen, if_false]
        by_cases hd : (nextOf svcs pol n s).isEmpty = true
        · simp only [hd, if_true]; exact ih _ _
        · simp only [hd, Bool.false_eq_true, if_false]
          have := h (keys (nextOf svcs pol n s)) (nextOf svcs pol n s) (n :: seen) calls
          cases hr : recC (keys (nextOf svcs pol n s)) (nextOf svcs pol n s) (n :: seen) calls with
          | ok s2 c2 =>
            rw [hr] at this; simp only [WalkC.forget] at this; rw [← this]; exact ih _ _
          | noSuchService =>
            rw [hr] at this; simp only [WalkC.forget] at this; rw [← this]; rfl
          | outOfFuel =>
            rw [hr] at this; simp only [WalkC.forget] at this; rw [← this]; rfl

theorem walkC_forget (svcs : AL Svc) (pol : Policy) :
    ∀ fuel names parent seen calls, (walkC svcs pol fuel names parent seen calls).forget = walk svcs pol fuel names parent seen := by
  intro fuel
  induction fuel with
  | zero => intros; rfl
  | succ f ih =>
    intro names parent seen calls
    unfold walkC walk
    simp only []
    by_cases hf : (if names.isEmpty then keys svcs else names).any (missingFatal svcs parent) = true
    · rw [if_pos hf, if_pos hf]; rfl
    · rw [if_neg hf, if_neg hf]
      exact loopC_forget (fun ns d seen calls => ih ns d seen calls) _ _ _

/-! ## every marked service is called exactly once -/

theorem loopC_perm {svcs : AL Svc} {pol : Policy}
    {recC : List String → AL Dep → List String → List String → WalkC}
    (h : ∀ ns d stack seen calls s2 c2, recC ns d seen calls = .ok s2 c2 →
      (stack ++ calls).Perm seen → seen.Nodup → (stack ++ c2).Perm s2 ∧ s2.Nodup) :
    ∀ ns stack seen calls s2 c2, walkLoopC recC svcs pol ns seen calls = .ok s2 c2 →
      (stack ++ calls).Perm seen → seen.Nodup → (stack ++ c2).Perm s2 ∧ s2.Nodup := by
  intro ns
  induction ns with
  | nil =>
    intro stack seen calls s2 c2 hw hp hn
    simp only [walkLoopC, WalkC.ok.injEq] at hw
    obtain ⟨rfl, rfl⟩ := hw
    exact ⟨hp, hn⟩
  | cons n ns ih =>
    intro stack seen calls s2 c2 hw hp hn
    unfold walkLoopC at hw
    cases hs : lookup n svcs with
    | none => simp only [hs] at hw; exact ih _ _ _ _ _ hw hp hn
    | some s =>
      simp only [hs] at hw
      by_cases hseen : n ∈ seen
      · simp only [hseen, if_true] at hw; exact ih _ _ _ _ _ hw hp hn
      · simp only [hseen, if_false] at hw
        by_cases hd : (nextOf svcs pol n s).isEmpty = true
        · simp only [hd, if_true] at hw
          refine ih stack (n :: seen) (calls ++ [n]) _ _ hw ?_ (List.nodup_cons.2 ⟨hseen, hn⟩)
          have : (stack ++ (calls ++ [n])).Perm (n :: (stack ++ calls)) := by
            rw [← List.append_assoc]; exact List.perm_append_singleton _ _
          exact this.trans (List.Perm.cons n hp)
        · simp only [hd, Bool.false_eq_true, if_false] at hw
          cases hr : recC (keys (nextOf svcs pol n s)) (nextOf svcs pol n s) (n :: seen) calls with
          | noSuchService => simp [hr] at hw
          | outOfFuel => simp [hr] at hw
          | ok s3 c3 =>
            simp only [hr] at hw
            have R := h _ _ (n :: stack) _ _ _ _ hr (List.Perm.cons n hp) (List.nodup_cons.2 ⟨hseen, hn⟩)
            refine ih stack s3 (c3 ++ [n]) _ _ hw ?_ R.2
            have : (stack ++ (c3 ++ [n])).Perm (n :: (stack ++ c3)) := by
              rw [← List.append_assoc]; exact List.perm_append_singleton _ _
            exact this.trans R.1

theorem walkC_perm (svcs : AL Svc) (pol : Policy) :
    ∀ fuel names parent stack seen calls s2 c2, walkC svcs pol fuel names parent seen calls = .ok s2 c2 →
      (stack ++ calls).Perm seen → seen.Nodup → (stack ++ c2).Perm s2 ∧ s2.Nodup := by
  intro fuel
  induction fuel with
  | zero => intro names parent stack seen calls s2 c2 h; simp [walkC] at h
  | succ f ih =>
    intro names parent stack seen calls s2 c2 h
    unfold walkC at h
    simp only [] at h
    by_cases hf : (if names.isEmpty then keys svcs else names).any (missingFatal svcs parent) = true
    · rw [if_pos hf] at h; cases h
    · rw [if_neg hf] at h
      exact loopC_perm (fun ns d stack seen calls s2 c2 => ih ns d stack seen calls s2 c2) _ _ _ _ _ _ h

/-! ## the callback order: post-order of the depth-first walk -/

/-- `y` comes strictly before (an occurrence of) `x` in `l` -/
def Before (l : List String) (y x : String) : Prop := ∃ a b, l = a ++ x :: b ∧ y ∈ a

theorem Before.append_right {l : List String} {y x : String} (h : Before l y x) (m : List String) : Before (l ++ m) y x := by
  obtain ⟨a, b, e, hy⟩ := h
  exact ⟨a, b ++ m, by rw [e]; simp, hy⟩

theorem Before.append_left {m : List String} {y x : String} (h : Before m y x) (l : List String) : Before (l ++ m) y x := by
  obtain ⟨a, b, e, hy⟩ := h
  exact ⟨l ++ a, b, by rw [e]; simp, List.mem_append_right _ hy⟩

theorem Before.of_mem {l m : List String} {y x : String} (hy : y ∈ l) (hx : x ∈ m) : Before (l ++ m) y x := by
  obtain ⟨a, b, e⟩ := List.append_of_mem hx
  exact ⟨l ++ a, b, by rw [e]; simp, List.mem_append_left _ hy⟩

theorem takeWhile_ne_append {a b : List String} {x : String} (h : x ∉ a) :
    (a ++ x :: b).takeWhile (fun z => z != x) = a := by
  induction a with
  | nil => simp [List.takeWhile]
  | cons c a ih =>
    have hc : c ≠ x := fun e => h (by simp [e])
    have ha : x ∉ a := fun e => h (List.mem_cons_of_mem _ e)
    simp [List.takeWhile, hc, ih ha]

theorem before_of_Before {l : List String} (nd : l.Nodup) {y x : String} (h : Before l y x) : before l y x = true := by
  obtain ⟨a, b, e, hy⟩ := h
  subst e
  have hx : x ∉ a := by
    intro c
    have := (List.nodup_append.1 nd).2.2 x c x (by simp)
    exact this rfl
  unfold before
  rw [takeWhile_ne_append hx]
  simpa using hy

/-- what one (sub-)walk adds to the callback sequence -/
def Topo (svcs : AL Svc) (pol : Policy) (seen calls s2 c2 : List String) : Prop :=
  ∃ new, c2 = calls ++ new ∧ (∀ x ∈ new, x ∈ s2 ∧ x ∉ seen) ∧ (∀ y ∈ s2, y ∈ seen ∨ y ∈ new) ∧
    ∀ x ∈ new, ∀ y, Edge svcs pol x y → y ∈ seen ∨ Before new y x ∨ Star svcs pol y x

theorem walkC_post {svcs : AL Svc} (nd : (keys svcs).Nodup) (nk : NamesOKs svcs) (pol : Policy)
    {fuel : Nat} {names : List String} {parent : AL Dep} {seen calls s2 c2 : List String}
    (h : walkC svcs pol fuel names parent seen calls = .ok s2 c2) :
    Post svcs pol (if names.isEmpty then keys svcs else names) seen s2 := by
  have := walkC_forget svcs pol fuel names parent seen calls
  rw [h] at this
  exact walk_post nd nk pol _ _ _ _ _ this.symm

theorem loopC_post {svcs : AL Svc} (nd : (keys svcs).Nodup) (nk : NamesOKs svcs) (pol : Policy)
    {f : Nat} {ns seen calls s2 c2 : List String}
    (h : walkLoopC (walkC svcs pol f) svcs pol ns seen calls = .ok s2 c2) : Post svcs pol ns seen s2 := by
  have := loopC_forget (svcs := svcs) (pol := pol) (walkC_forget svcs pol f) ns seen calls
  rw [h] at this
  refine loop_post nd nk (fun ns d seen r hne hr => ?_) _ _ _ this.symm
  have P := walk_post nd nk pol f ns d seen r hr
  have e : ns.isEmpty = false := by cases ns <;> simp_all
  simpa [e] using P

theorem loopC_topo {svcs : AL Svc} (nd : (keys svcs).Nodup) (nk : NamesOKs svcs) (pol : Policy) (f : Nat)
    (ih : ∀ names parent seen calls s2 c2, walkC svcs pol f names parent seen calls = .ok s2 c2 → Topo svcs pol seen calls s2 c2) :
    ∀ ns seen calls s2 c2, walkLoopC (walkC svcs pol f) svcs pol ns seen calls = .ok s2 c2 → Topo svcs pol seen calls s2 c2 := by
  intro ns
  induction ns with
  | nil =>
    intro seen calls s2 c2 h
    simp only [walkLoopC, WalkC.ok.injEq] at h
    obtain ⟨rfl, rfl⟩ := h
    refine ⟨[], by simp, ?_, fun y hy => .inl hy, ?_⟩
    · intro x hx; cases hx
    · intro x hx; cases hx
  | cons n ns ihn =>
    intro seen calls s2 c2 h
    have h0 := h
    unfold walkLoopC at h
    cases hs : lookup n svcs with
    | none => simp only [hs] at h; exact ihn _ _ _ _ h
    | some s =>
      simp only [hs] at h
      by_cases hseen : n ∈ seen
      · simp only [hseen, if_true] at h; exact ihn _ _ _ _ h
      · simp only [hseen, if_false] at h
        by_cases hd : (nextOf svcs pol n s).isEmpty = true
        · simp only [hd, if_true] at h
          have P2 := loopC_post nd nk pol h
          obtain ⟨new2, e2, a2, b2, c2'⟩ := ihn _ _ _ _ h
          refine ⟨n :: new2, by rw [e2]; simp, ?_, ?_, ?_⟩
          · intro x hx
            rcases List.mem_cons.1 hx with e | e
            · subst e; exact ⟨P2.mono _ (by simp), hseen⟩
            · exact ⟨(a2 x e).1, fun c => (a2 x e).2 (List.mem_cons_of_mem _ c)⟩
          · intro y hy
            rcases b2 y hy with e | e
            · rcases List.mem_cons.1 e with e' | e'
              · exact .inr (by simp [e'])
              · exact .inl e'
            · exact .inr (List.mem_cons_of_mem _ e)
          · intro x hx y hxy
            rcases List.mem_cons.1 hx with e | e
            · subst e
              have := ((edge_iff_next nd nk hs).1 hxy).1
              rw [List.isEmpty_iff] at hd
              rw [hd] at this
              cases this
            · rcases c2' x e y hxy with q | q | q
              · rcases List.mem_cons.1 q with e' | e'
                · subst e'
                  exact .inr (.inl (Before.of_mem (l := [y]) (by simp) e))
                · exact .inl e'
              · exact .inr (.inl (q.append_left [n]))
              · exact .inr (.inr q)
        · simp only [hd, Bool.false_eq_true, if_false] at h
          cases hr : walkC svcs pol f (keys (nextOf svcs pol n s)) (nextOf svcs pol n s) (n :: seen) calls with
          | noSuchService => simp [hr] at h
          | outOfFuel => simp [hr] at h
          | ok s3 c3 =>
            simp only [hr] at h
            have hne : (keys (nextOf svcs pol n s)).isEmpty = false := by
              cases hh : nextOf svcs pol n s with
              | nil => rw [hh] at hd; simp at hd
              | cons a b => simp [keys]
            have P1 := walkC_post nd nk pol hr
            simp only [hne, Bool.false_eq_true, if_false] at P1
            have P2 := loopC_post nd nk pol h
            obtain ⟨new1, e1, a1, b1, t1⟩ := ih _ _ _ _ _ _ hr
            obtain ⟨new2, e2, a2, b2, t2⟩ := ihn _ _ _ _ h
            have hn3 : n ∈ s3 := P1.mono n (by simp)
            refine ⟨new1 ++ n :: new2, by rw [e2, e1]; simp, ?_, ?_, ?_⟩
            · intro x hx
              rcases List.mem_append.1 hx with e | e
              · exact ⟨P2.mono _ (a1 x e).1, fun c => (a1 x e).2 (List.mem_cons_of_mem _ c)⟩
              · rcases List.mem_cons.1 e with e' | e'
                · subst e'; exact ⟨P2.mono _ hn3, hseen⟩
                · exact ⟨(a2 x e').1, fun c => (a2 x e').2 (P1.mono _ (List.mem_cons_of_mem _ c))⟩
            · intro y hy
              rcases b2 y hy with e | e
              · rcases b1 y e with e' | e'
                · rcases List.mem_cons.1 e' with e'' | e''
                  · exact .inr (by simp [e''])
                  · exact .inl e''
                · exact .inr (List.mem_append_left _ e')
              · exact .inr (List.mem_append_right _ (List.mem_cons_of_mem _ e))
            · intro x hx y hxy
              rcases List.mem_append.1 hx with e | e
              · -- x was called by the recursive call on the dependencies of n
                rcases t1 x e y hxy with q | q | q
                · rcases List.mem_cons.1 q with e' | e'
                  · subst e'
                    rcases P1.sound x (a1 x e).1 with c | ⟨r, hr1, hr2, hr3⟩
                    · exact absurd c (a1 x e).2
                    · exact .inr (.inr (Star.head ((edge_iff_next nd nk hs).2 ⟨hr1, hr2⟩) hr3))
                  · exact .inl e'
                · exact .inr (.inl (q.append_right _))
                · exact .inr (.inr q)
              · rcases List.mem_cons.1 e with e' | e'
                · -- x = n: its dependencies were roots of the recursive call
                  subst e'
                  have hy := (edge_iff_next nd nk hs).1 hxy
                  rcases b1 y (P1.roots y hy.1 hy.2) with c | c
                  · rcases List.mem_cons.1 c with c' | c'
                    · subst c'; exact .inr (.inr (.refl _))
                    · exact .inl c'
                  · exact .inr (.inl ⟨new1, new2, rfl, c⟩)
                · -- x is called later in the loop
                  have hsplit : new1 ++ n :: new2 = (new1 ++ [n]) ++ new2 := by simp
                  rcases t2 x e' y hxy with q | q | q
                  · rcases b1 y q with c | c
                    · rcases List.mem_cons.1 c with c' | c'
                      · subst c'
                        exact .inr (.inl (by rw [hsplit]; exact Before.of_mem (by simp) e'))
                      · exact .inl c'
                    · exact .inr (.inl (by rw [hsplit]; exact Before.of_mem (by simp [c]) e'))
                  · exact .inr (.inl (by rw [hsplit]; exact q.append_left _))
                  · exact .inr (.inr q)

theorem walkC_topo {svcs : AL Svc} (nd : (keys svcs).Nodup) (nk : NamesOKs svcs) (pol : Policy) :
    ∀ fuel names parent seen calls s2 c2, walkC svcs pol fuel names parent seen calls = .ok s2 c2 →
      Topo svcs pol seen calls s2 c2 := by
  intro fuel
  induction fuel with
  | zero => intro names parent seen calls s2 c2 h; simp [walkC] at h
  | succ f ih =>
    intro names parent seen calls s2 c2 h
    unfold walkC at h
    simp only [] at h
    by_cases hf : (if names.isEmpty then keys svcs else names).any (missingFatal svcs parent) = true
    · rw [if_pos hf] at h; cases h
    · rw [if_neg hf] at h
      exact loopC_topo nd nk pol f ih _ _ _ _ _ h

end CV.Sel
