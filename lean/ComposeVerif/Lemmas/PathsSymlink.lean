import ComposeVerif.Model.PathsSymlink
/-! The repaired `ResolveSymbolicLink` ends on a link-free path, hence is idempotent (C12). -/
namespace CV.Paths.Sym

/-- no non-empty prefix `done ++ q.take k` (1 ≤ k) of `done ++ q` is a link -/
def LinkFreeFrom (fs : FS) (done q : P) : Prop := ∀ k, 1 ≤ k → k ≤ q.length → fs (done ++ q.take k) = none

def LinkFree (fs : FS) (p : P) : Prop := LinkFreeFrom fs [] p

/-- `EvalSymlinks` returns physical paths: no prefix of a target is itself a symbolic link -/
def Physical (fs : FS) : Prop := ∀ p t, fs p = some (some t) → LinkFree fs t

theorem firstLink_none_iff (fs : FS) : ∀ (q done : P), firstLink fs done q = none ↔ LinkFreeFrom fs done q
  | [], done => by simp [firstLink, LinkFreeFrom]; intro k h1 h2; omega
  | c :: rest, done => by
    simp only [firstLink]
    cases h : fs (done ++ [c]) with
    | some t =>
      simp only [reduceCtorEq, false_iff]
      intro hf
      have := hf 1 (by omega) (by simp)
      simp [h] at this
    | none =>
      simp only
      rw [firstLink_none_iff fs rest (done ++ [c])]
      constructor
      · intro hf k h1 h2
        cases k with
        | zero => omega
        | succ k =>
          cases k with
          | zero => simpa using h
          | succ k =>
            have := hf (k + 1) (by omega) (by simp at h2; omega)
            simpa [List.append_assoc] using this
      · intro hf k h1 h2
        have := hf (k + 1) (by omega) (by simp; omega)
        simpa [List.append_assoc] using this

/-- what `firstLink` returns: the link is a proper extension of `done`, everything shorter is not a link -/
theorem firstLink_some (fs : FS) : ∀ (q done link rest : P) (t : Option P),
    firstLink fs done q = some (link, t, rest) →
      ∃ k, 1 ≤ k ∧ k ≤ q.length ∧ link = done ++ q.take k ∧ rest = q.drop k ∧ fs link = some t ∧
        ∀ j, 1 ≤ j → j < k → fs (done ++ q.take j) = none
  | [], done, link, rest, t, h => by simp [firstLink] at h
  | c :: q, done, link, rest, t, h => by
    simp only [firstLink] at h
    cases hc : fs (done ++ [c]) with
    | some t' =>
      rw [hc] at h
      simp only [Option.some.injEq, Prod.mk.injEq] at h
      obtain ⟨rfl, rfl, rfl⟩ := h
      exact ⟨1, by omega, by simp, by simp, by simp, hc, fun j h1 h2 => by omega⟩
    | none =>
      rw [hc] at h
      obtain ⟨k, h1, h2, h3, h4, h5, h6⟩ := firstLink_some fs q (done ++ [c]) link rest t h
      refine ⟨k + 1, by omega, by simp; omega, by simp [h3, List.append_assoc], by simp [h4], h5, ?_⟩
      intro j hj1 hj2
      cases j with
      | zero => omega
      | succ j =>
        cases j with
        | zero => simpa using hc
        | succ j =>
          have := h6 (j + 1) (by omega) (by omega)
          simpa [List.append_assoc] using this

/-- a link-free path is returned as it is -/
theorem loop_of_linkFree (fs : FS) (p : P) (h : LinkFree fs p) : ∀ fuel, loop fs fuel p = .ok p
  | 0 => rfl
  | fuel + 1 => by
    have : firstLink fs [] p = none := (firstLink_none_iff fs p []).mpr h
    simp [loop, round, this]

/-- invariant of the loop: a link-free prefix `A` followed by at most `fuel` components -/
theorem loop_linkFree (fs : FS) (hph : Physical fs) :
    ∀ (fuel : Nat) (A R : P) (r : P), LinkFree fs A → R.length ≤ fuel → loop fs fuel (A ++ R) = .ok r → LinkFree fs r
  | 0, A, R, r, hA, hR, h => by
    have : R = [] := by cases R with | nil => rfl | cons _ _ => simp at hR
    subst this
    simp only [loop, List.append_nil, Res.ok.injEq] at h
    subst h; exact hA
  | fuel + 1, A, R, r, hA, hR, h => by
    simp only [loop, round] at h
    cases hf : firstLink fs [] (A ++ R) with
    | none =>
      rw [hf] at h
      simp only [Res.ok.injEq] at h
      subst h
      exact (firstLink_none_iff fs _ []).mp hf
    | some x =>
      obtain ⟨link, t, rest⟩ := x
      rw [hf] at h
      obtain ⟨k, h1, h2, h3, h4, h5, h6⟩ := firstLink_some fs _ [] link rest t hf
      -- the link lies beyond the link-free prefix
      have hk : A.length < k := by
        apply Nat.lt_of_not_le
        intro hle
        have := hA k h1 hle
        rw [h3] at h5
        simp only [List.nil_append] at h5 this
        rw [List.take_append_of_le_length hle] at h5
        rw [h5] at this; cases this
      cases t with
      | none => simp at h
      | some t =>
        simp only at h
        have hrest : rest.length < R.length := by
          rw [h4]; simp only [List.length_drop, List.length_append] at h2 ⊢; omega
        by_cases he : t ++ rest = A ++ R
        · -- `resolved == path` cannot happen with physical targets: `t` would be a link-free path ending at a link
          exfalso
          have htf := hph link t h5
          have hlk : k ≤ (t ++ rest).length := by rw [he]; exact h2
          rw [h3] at h5
          simp only [List.nil_append] at h5
          rw [← he] at h5
          by_cases hkt : k ≤ t.length
          · have := htf k h1 hkt
            simp only [List.nil_append] at this
            rw [List.take_append_of_le_length hkt] at h5
            rw [h5] at this; cases this
          · -- t shorter than k: then rest has to be longer than it is
            have e1 : t.length + rest.length = A.length + R.length := by
              have := congrArg List.length he
              simpa using this
            have e2 : rest.length = A.length + R.length - k := by rw [h4]; simp
            have e3 : k ≤ A.length + R.length := by simpa using h2
            omega
        · simp only [he, if_false] at h
          exact loop_linkFree fs hph fuel t rest r (hph link t h5) (by omega) h

end CV.Paths.Sym
