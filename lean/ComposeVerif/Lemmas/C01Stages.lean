import ComposeVerif.Model.C01Stages
/-!
Helper lemmas for C01: the tree walkers that run before schema validation.
-/
namespace CV.C01

/-! ## `convertToStringKeysRecursive` -/

mutual
theorem convert_stringKeyed : ∀ (v v' : GoVal), convert v = .ok v' → stringKeyed v' = true
  | .map kvs, v', h => by
    unfold convert at h
    cases hk : convertKVs kvs with
    | error e => simp [hk, bind, Except.bind] at h
    | ok kvs' =>
      simp only [hk, bind, Except.bind, pure, Except.pure, Except.ok.injEq] at h
      subst h
      unfold stringKeyed
      exact convertKVs_stringKeyed kvs kvs' hk
  | .imap kvs, v', h => by
    unfold convert at h
    cases hk : convertIKVs kvs with
    | error e => simp [hk, bind, Except.bind] at h
    | ok kvs' =>
      simp only [hk, bind, Except.bind, pure, Except.pure, Except.ok.injEq] at h
      subst h
      unfold stringKeyed
      exact convertIKVs_stringKeyed kvs kvs' hk
  | .seq xs, v', h => by
    unfold convert at h
    cases hk : convertList xs with
    | error e => simp [hk, bind, Except.bind] at h
    | ok ys =>
      simp only [hk, bind, Except.bind, pure, Except.pure, Except.ok.injEq] at h
      subst h
      have := convertList_stringKeyed xs ys hk
      cases ys with
      | nil => simp [stringKeyed]
      | cons a b => simpa [stringKeyed] using this
  | .null, v', h => by simp only [convert, pure, Except.pure, Except.ok.injEq] at h; subst h; simp [stringKeyed]
  | .bool _, v', h => by simp only [convert, pure, Except.pure, Except.ok.injEq] at h; subst h; simp [stringKeyed]
  | .int _, v', h => by simp only [convert, pure, Except.pure, Except.ok.injEq] at h; subst h; simp [stringKeyed]
  | .float _, v', h => by simp only [convert, pure, Except.pure, Except.ok.injEq] at h; subst h; simp [stringKeyed]
  | .str _, v', h => by simp only [convert, pure, Except.pure, Except.ok.injEq] at h; subst h; simp [stringKeyed]
  | .nilseq, v', h => by simp only [convert, pure, Except.pure, Except.ok.injEq] at h; subst h; simp [stringKeyed]
theorem convertKVs_stringKeyed : ∀ (kvs kvs' : List (String × GoVal)), convertKVs kvs = .ok kvs' → stringKeyedKVs kvs' = true
  | [], kvs', h => by simp only [convertKVs, pure, Except.pure, Except.ok.injEq] at h; subst h; simp [stringKeyedKVs]
  | (k, v) :: r, kvs', h => by
    unfold convertKVs at h
    cases hv : convert v with
    | error e => simp [hv, bind, Except.bind] at h
    | ok v' =>
      cases hr : convertKVs r with
      | error e => simp [hv, hr, bind, Except.bind] at h
      | ok r' =>
        simp only [hv, hr, bind, Except.bind, pure, Except.pure, Except.ok.injEq] at h
        subst h
        simp [stringKeyedKVs, convert_stringKeyed v v' hv, convertKVs_stringKeyed r r' hr]
theorem convertIKVs_stringKeyed : ∀ (kvs : List (GoVal × GoVal)) (kvs' : List (String × GoVal)), convertIKVs kvs = .ok kvs' → stringKeyedKVs kvs' = true
  | [], kvs', h => by simp only [convertIKVs, pure, Except.pure, Except.ok.injEq] at h; subst h; simp [stringKeyedKVs]
  | (k, v) :: r, kvs', h => by
    unfold convertIKVs at h
    split at h
    · cases hv : convert v with
      | error e => simp [hv, bind, Except.bind] at h
      | ok v' =>
        cases hr : convertIKVs r with
        | error e => simp [hv, hr, bind, Except.bind] at h
        | ok r' =>
          simp only [hv, hr, bind, Except.bind, pure, Except.pure, Except.ok.injEq] at h
          subst h
          simp [stringKeyedKVs, convert_stringKeyed v v' hv, convertIKVs_stringKeyed r r' hr]
    · cases h
theorem convertList_stringKeyed : ∀ (xs ys : List GoVal), convertList xs = .ok ys → stringKeyedList ys = true
  | [], ys, h => by simp only [convertList, pure, Except.pure, Except.ok.injEq] at h; subst h; simp [stringKeyedList]
  | v :: r, ys, h => by
    unfold convertList at h
    cases hv : convert v with
    | error e => simp [hv, bind, Except.bind] at h
    | ok v' =>
      cases hr : convertList r with
      | error e => simp [hv, hr, bind, Except.bind] at h
      | ok r' =>
        simp only [hv, hr, bind, Except.bind, pure, Except.pure, Except.ok.injEq] at h
        subst h
        simp [stringKeyedList, convert_stringKeyed v v' hv, convertList_stringKeyed r r' hr]
end

/-- converting a mapping (either flavour) yields a `map[string]interface{}` or an error -/
theorem convert_map_shape (raw v' : GoVal) (hraw : (∃ kvs, raw = .map kvs) ∨ (∃ kvs, raw = .imap kvs))
    (h : convert raw = .ok v') : ∃ kvs', v' = .map kvs' := by
  rcases hraw with ⟨kvs, rfl⟩ | ⟨kvs, rfl⟩
  · unfold convert at h
    cases hk : convertKVs kvs with
    | error e => simp [hk, bind, Except.bind] at h
    | ok kvs' =>
      simp only [hk, bind, Except.bind, pure, Except.pure, Except.ok.injEq] at h
      exact ⟨kvs', h.symm⟩
  · unfold convert at h
    cases hk : convertIKVs kvs with
    | error e => simp [hk, bind, Except.bind] at h
    | ok kvs' =>
      simp only [hk, bind, Except.bind, pure, Except.pure, Except.ok.injEq] at h
      exact ⟨kvs', h.symm⟩

/-! ## `fixEmptyNotNull` -/

mutual
theorem fixEmpty_noNil : ∀ (v : GoVal), stringKeyed v = true → noNil (fixEmpty v) = true
  | .nilseq, _ => by simp [fixEmpty, noNil, noNilList]
  | .seq xs, h => by
    simp only [stringKeyed] at h
    simp only [fixEmpty, noNil]
    exact fixEmptyList_noNil xs h
  | .map kvs, h => by
    simp only [stringKeyed] at h
    simp only [fixEmpty, noNil]
    exact fixEmptyKVs_noNil kvs h
  | .imap _, h => by simp [stringKeyed] at h
  | .null, _ => by simp [fixEmpty, noNil]
  | .bool _, _ => by simp [fixEmpty, noNil]
  | .int _, _ => by simp [fixEmpty, noNil]
  | .float _, _ => by simp [fixEmpty, noNil]
  | .str _, _ => by simp [fixEmpty, noNil]
theorem fixEmptyList_noNil : ∀ (xs : List GoVal), stringKeyedList xs = true → noNilList (fixEmptyList xs) = true
  | [], _ => by simp [fixEmptyList, noNilList]
  | v :: r, h => by
    simp only [stringKeyedList, Bool.and_eq_true] at h
    simp [fixEmptyList, noNilList, fixEmpty_noNil v h.1, fixEmptyList_noNil r h.2]
theorem fixEmptyKVs_noNil : ∀ (kvs : List (String × GoVal)), stringKeyedKVs kvs = true → noNilKVs (fixEmptyKVs kvs) = true
  | [], _ => by simp [fixEmptyKVs, noNilKVs]
  | (k, v) :: r, h => by
    simp only [stringKeyedKVs, Bool.and_eq_true] at h
    simp [fixEmptyKVs, noNilKVs, fixEmpty_noNil v h.1, fixEmptyKVs_noNil r h.2]
end

mutual
theorem fixEmpty_stringKeyed : ∀ (v : GoVal), stringKeyed v = true → stringKeyed (fixEmpty v) = true
  | .nilseq, _ => by simp [fixEmpty, stringKeyed, stringKeyedList]
  | .seq xs, h => by
    simp only [stringKeyed] at h
    simp only [fixEmpty, stringKeyed]
    exact fixEmptyList_stringKeyed xs h
  | .map kvs, h => by
    simp only [stringKeyed] at h
    simp only [fixEmpty, stringKeyed]
    exact fixEmptyKVs_stringKeyed kvs h
  | .imap _, h => by simp [stringKeyed] at h
  | .null, _ => by simp [fixEmpty, stringKeyed]
  | .bool _, _ => by simp [fixEmpty, stringKeyed]
  | .int _, _ => by simp [fixEmpty, stringKeyed]
  | .float _, _ => by simp [fixEmpty, stringKeyed]
  | .str _, _ => by simp [fixEmpty, stringKeyed]
theorem fixEmptyList_stringKeyed : ∀ (xs : List GoVal), stringKeyedList xs = true → stringKeyedList (fixEmptyList xs) = true
  | [], _ => by simp [fixEmptyList, stringKeyedList]
  | v :: r, h => by
    simp only [stringKeyedList, Bool.and_eq_true] at h
    simp [fixEmptyList, stringKeyedList, fixEmpty_stringKeyed v h.1, fixEmptyList_stringKeyed r h.2]
theorem fixEmptyKVs_stringKeyed : ∀ (kvs : List (String × GoVal)), stringKeyedKVs kvs = true → stringKeyedKVs (fixEmptyKVs kvs) = true
  | [], _ => by simp [fixEmptyKVs, stringKeyedKVs]
  | (k, v) :: r, h => by
    simp only [stringKeyedKVs, Bool.and_eq_true] at h
    simp [fixEmptyKVs, stringKeyedKVs, fixEmpty_stringKeyed v h.1, fixEmptyKVs_stringKeyed r h.2]
end

/-! ## `omitEmpty` leaves no nil slice behind -/

mutual
theorem omitEmpty_noNil (pats : List (List String)) : ∀ (v : GoVal) (p : TPath), noNil (omitEmpty pats v p) = true
  | .map kvs, p => by simp only [omitEmpty, noNil]; exact omitKVs_noNil pats kvs p
  | .seq xs, p => by simp only [omitEmpty, noNil]; exact omitList_noNil pats xs p
  | .nilseq, _ => by simp [omitEmpty, noNil, noNilList]
  | .imap _, _ => by simp [omitEmpty, noNil]
  | .null, _ => by simp [omitEmpty, noNil]
  | .bool _, _ => by simp [omitEmpty, noNil]
  | .int _, _ => by simp [omitEmpty, noNil]
  | .float _, _ => by simp [omitEmpty, noNil]
  | .str _, _ => by simp [omitEmpty, noNil]
theorem omitKVs_noNil (pats : List (List String)) : ∀ (kvs : List (String × GoVal)) (p : TPath), noNilKVs (omitKVs pats kvs p) = true
  | [], _ => by simp [omitKVs, noNilKVs]
  | (k, v) :: r, p => by
    unfold omitKVs
    split
    · exact omitKVs_noNil pats r p
    · simp [noNilKVs, omitEmpty_noNil pats v (p.next k), omitKVs_noNil pats r p]
theorem omitList_noNil (pats : List (List String)) : ∀ (xs : List GoVal) (p : TPath), noNilList (omitList pats xs p) = true
  | [], _ => by simp [omitList, noNilList]
  | v :: r, p => by
    unfold omitList
    split
    · exact omitList_noNil pats r p
    · simp [noNilList, omitEmpty_noNil pats v (p.next "[]"), omitList_noNil pats r p]
end

end CV.C01
