import ComposeVerif.Lemmas.TemplateSeg
/-!
# Locality of matches: `run_split`

If `Y` has no newline and is empty or ends with `}`, and the first line of `Z` contains no `}`,
then every regex match that starts in `Y` is the same in `Y ++ Z` as in `Y` (`matchDollar_local`),
hence `run (Y ++ Z) = seq (run Y) (run Z)`.  This is what makes the over-long greedy match of
`${NAME op .*}` harmless: `repl` handles the tail `Y` of the match by a nested `Substitute`.
-/
namespace CV.Template

theorem spanName_fst_all (A : Str) : ∀ c ∈ (spanName A).1, isNameChar c = true := by
  induction A with
  | nil => simp [spanName]
  | cons a A ih =>
    unfold spanName
    split
    · intro c hc
      simp at hc
      rcases hc with rfl | hc
      · assumption
      · exact ih c hc
    · simp

theorem spanName_local (A B : Str) (h : (spanName A).2 ≠ []) :
    spanName (A ++ B) = ((spanName A).1, (spanName A).2 ++ B) := by
  induction A with
  | nil => simp [spanName] at h
  | cons a A ih =>
    by_cases ha : isNameChar a = true
    · rw [List.cons_append, spanName_cons ha, spanName_cons ha]
      rw [spanName_cons ha] at h
      rw [ih h]
    · simp [spanName, ha]

/-- `Y` is empty or ends with `}` -/
def EndsClose (Y : Str) : Prop := Y = [] ∨ ∃ P, Y = P ++ ['}']

theorem endsClose_tail {c : Char} {Y : Str} (h : EndsClose (c :: Y)) : EndsClose Y := by
  rcases h with h | ⟨P, hP⟩
  · cases h
  · cases P with
    | nil => simp at hP; exact Or.inl hP.2
    | cons p P => simp at hP; exact Or.inr ⟨P, hP.2⟩

theorem endsClose_suffix {A B : Str} (h : EndsClose (A ++ B)) : EndsClose B := by
  induction A with
  | nil => exact h
  | cons a A ih => exact ih (endsClose_tail h)

theorem endsClose_ne_nil_last {Y : Str} (h : EndsClose Y) (hne : Y ≠ []) : ∃ P, Y = P ++ ['}'] := by
  rcases h with h | h
  · exact absurd h hne
  · exact h

theorem noNL_tail {c : Char} {Y : Str} (h : noNL (c :: Y)) : noNL Y := fun x hx => h x (List.mem_cons_of_mem _ hx)

theorem noNL_suffix {A B : Str} (h : noNL (A ++ B)) : noNL B := fun x hx => h x (List.mem_append_right _ hx)
theorem noNL_prefix {A B : Str} (h : noNL (A ++ B)) : noNL A := fun x hx => h x (List.mem_append_left _ hx)

theorem spanName_snd_ne_nil {A : Str} (hne : A ≠ []) (h : EndsClose A) : (spanName A).2 ≠ [] := by
  intro h2
  obtain ⟨P, hP⟩ := endsClose_ne_nil_last h hne
  have hall := spanName_fst_all A
  have happ := spanName_append A
  rw [h2, List.append_nil] at happ
  rw [happ, hP] at hall
  have := hall '}' (by simp)
  revert this; decide

/-- the greedy match on text that ends with `}` and has no newline is not changed by appending text
    whose first line has no `}` -/
theorem lastCloseLen_local (r3 Z : Str) (hnl : noNL r3) (hend : ∃ P, r3 = P ++ ['}']) (hZ : lastCloseLen Z = none) :
    lastCloseLen r3 = some r3.length ∧ lastCloseLen (r3 ++ Z) = some r3.length := by
  obtain ⟨P, rfl⟩ := hend
  have hP : noNL P := noNL_prefix hnl
  constructor
  · have := lastCloseLen_close P [] hP lastCloseLen_nil
    simpa using this
  · have := lastCloseLen_close P Z hP hZ
    simpa using this

end CV.Template
namespace CV.Template

theorem isOpChar_ne_close {o : Char} (h : isOpChar o = true) : o ≠ '}' := by
  intro hc; subst hc; revert h; decide

/-- the tail of `matchBraced` after the name has been split off -/
def afterName (n r r2 : Str) : M × Str × Str :=
  match r2 with
  | '}' :: r3 => (.braced n, n ++ ['}'], r3)
  | ':' :: o :: r3 =>
    if isOpChar o then
      match lastCloseLen r3 with
      | some k => (.braced (n ++ ':' :: o :: (r3.take (k - 1))), n ++ ':' :: o :: r3.take k, r3.drop k)
      | none => (.invalid, [], r)
    else (.invalid, [], r)
  | o :: r3 =>
    if isOpChar o then
      match lastCloseLen r3 with
      | some k => (.braced (n ++ o :: (r3.take (k - 1))), n ++ o :: r3.take k, r3.drop k)
      | none => (.invalid, [], r)
    else (.invalid, [], r)
  | [] => (.invalid, [], r)

theorem matchBraced_eq (r : Str) : matchBraced r =
    match r with
    | [] => (.invalid, [], r)
    | c :: _ => if isNameStart c then afterName (spanName r).1 r (spanName r).2 else (.invalid, [], r) := by
  unfold matchBraced afterName
  rfl

theorem take_append_len (A B : Str) : (A ++ B).take A.length = A := List.take_left' rfl
theorem drop_append_len (A B : Str) : (A ++ B).drop A.length = B := List.drop_left' rfl

theorem afterName_op_local (n r o r3 Z) (ho : isOpChar o = true) (hnl : noNL r3) (hend : EndsClose (o :: r3))
    (hZ : lastCloseLen Z = none) (pre : Str) :
    (match lastCloseLen (r3 ++ Z) with
      | some k => ((M.braced (n ++ pre ++ ((r3 ++ Z).take (k - 1))), n ++ pre ++ (r3 ++ Z).take k, (r3 ++ Z).drop k) : M × Str × Str)
      | none => (.invalid, [], r ++ Z)) =
    ((match lastCloseLen r3 with
      | some k => ((M.braced (n ++ pre ++ (r3.take (k - 1))), n ++ pre ++ r3.take k, r3.drop k) : M × Str × Str)
      | none => (.invalid, [], r)).1,
     (match lastCloseLen r3 with
      | some k => ((M.braced (n ++ pre ++ (r3.take (k - 1))), n ++ pre ++ r3.take k, r3.drop k) : M × Str × Str)
      | none => (.invalid, [], r)).2.1,
     (match lastCloseLen r3 with
      | some k => ((M.braced (n ++ pre ++ (r3.take (k - 1))), n ++ pre ++ r3.take k, r3.drop k) : M × Str × Str)
      | none => (.invalid, [], r)).2.2 ++ Z) := by
  have hne : r3 ≠ [] := by
    intro h; subst h
    rcases hend with h | ⟨P, hP⟩
    · cases h
    · cases P with
      | nil => simp at hP; exact isOpChar_ne_close ho hP
      | cons p P => simp at hP
  have hl := lastCloseLen_local r3 Z hnl (endsClose_ne_nil_last (endsClose_tail hend) hne) hZ
  rw [hl.1, hl.2]
  simp only [take_append_len, drop_append_len, List.take_length, List.drop_length, List.nil_append]
  have : (r3 ++ Z).take (r3.length - 1) = r3.take (r3.length - 1) := by
    rw [List.take_append_of_le_length (by omega)]
  rw [this]

end CV.Template
namespace CV.Template

theorem afterName_local (n r r2 Z : Str) (hne : r2 ≠ []) (hnl : noNL r2) (hend : EndsClose r2)
    (hZ : lastCloseLen Z = none) :
    afterName n (r ++ Z) (r2 ++ Z) = ((afterName n r r2).1, (afterName n r r2).2.1, (afterName n r r2).2.2 ++ Z) := by
  cases r2 with
  | nil => exact absurd rfl hne
  | cons a t =>
    by_cases ha : a = '}'
    · subst ha; simp [afterName]
    · by_cases hcol : a = ':'
      · subst hcol
        cases t with
        | nil =>
          rcases hend with h | ⟨P, hP⟩
          · cases h
          · cases P with
            | nil => simp at hP
            | cons p P => simp at hP
        | cons o r3 =>
          simp only [List.cons_append, afterName]
          by_cases ho : isOpChar o = true
          · simp only [ho, if_true]
            have := afterName_op_local n r o r3 Z ho (noNL_tail (noNL_tail hnl)) (endsClose_tail hend) hZ [':', o]
            simpa using this
          · simp [ho]
      · have hmatch : ∀ (t' r' : Str), afterName n r' (a :: t') =
            if isOpChar a then
              match lastCloseLen t' with
              | some k => (.braced (n ++ a :: (t'.take (k - 1))), n ++ a :: t'.take k, t'.drop k)
              | none => (.invalid, [], r')
            else (.invalid, [], r') := by
          intro t' r'
          unfold afterName
          split
          · rename_i heq; simp at heq; exact absurd heq.1 ha
          · rename_i heq; simp at heq; exact absurd heq.1 hcol
          · rename_i heq; simp at heq; obtain ⟨rfl, rfl⟩ := heq; rfl
          · rename_i heq; simp at heq
        rw [List.cons_append, hmatch, hmatch]
        by_cases ho : isOpChar a = true
        · simp only [ho, if_true]
          have := afterName_op_local n r a t Z ho (noNL_tail hnl) hend hZ [a]
          simpa using this
        · simp [ho]

theorem matchBraced_local (Y Z : Str) (hne : Y ≠ []) (hnl : noNL Y) (hend : EndsClose Y)
    (hZ : lastCloseLen Z = none) :
    matchBraced (Y ++ Z) = ((matchBraced Y).1, (matchBraced Y).2.1, (matchBraced Y).2.2 ++ Z) := by
  cases Y with
  | nil => exact absurd rfl hne
  | cons c Y' =>
    rw [matchBraced_eq (c :: Y'), matchBraced_eq (c :: Y' ++ Z)]
    simp only [List.cons_append]
    by_cases hc : isNameStart c = true
    · simp only [hc, if_true]
      have h2 := spanName_snd_ne_nil hne hend
      have hloc := spanName_local (c :: Y') Z h2
      simp only [List.cons_append] at hloc
      rw [hloc]
      have happ := spanName_append (c :: Y')
      have hnl2 : noNL (spanName (c :: Y')).2 := by
        apply noNL_suffix (A := (spanName (c :: Y')).1); rw [happ]; exact hnl
      have hend2 : EndsClose (spanName (c :: Y')).2 := by
        apply endsClose_suffix (A := (spanName (c :: Y')).1); rw [happ]; exact hend
      exact afterName_local _ (c :: Y') _ Z h2 hnl2 hend2 hZ
    · simp [hc]

end CV.Template
namespace CV.Template

theorem matchDollar_start (c : Char) (r : Str) (hc : isNameStart c = true) :
    matchDollar ('$' :: c :: r) =
      some (.named (spanName (c :: r)).1, '$' :: (spanName (c :: r)).1, (spanName (c :: r)).2) := by
  have h1 : c ≠ '$' := by intro h; subst h; revert hc; decide
  have h2 : c ≠ '{' := by intro h; subst h; revert hc; decide
  unfold matchDollar
  split
  · rename_i heq; simp at heq; exact absurd heq.1 h1
  · rename_i heq; simp at heq; exact absurd heq.1 h2
  · rename_i c' r' _ _ heq
    simp at heq
    obtain ⟨rfl, rfl⟩ := heq
    simp [hc]
  · rename_i h; exact absurd rfl (h c r)

theorem matchDollar_other (c : Char) (r : Str) (h1 : c ≠ '$') (h2 : c ≠ '{') (hc : isNameStart c = false) :
    matchDollar ('$' :: c :: r) = none :=
  matchDollar_lone (c :: r) (by intro x hx; simp at hx; subst hx; exact ⟨h1, h2, hc⟩)

def appRest (Z : Str) (x : M × Str × Str) : M × Str × Str := (x.1, x.2.1, x.2.2 ++ Z)

theorem matchDollar_local (Y1 Z : Str) (hnl : noNL ('$' :: Y1)) (hend : EndsClose ('$' :: Y1))
    (hZ : lastCloseLen Z = none) :
    matchDollar ('$' :: (Y1 ++ Z)) = (matchDollar ('$' :: Y1)).map (appRest Z) := by
  cases Y1 with
  | nil =>
    rcases hend with h | ⟨P, hP⟩
    · cases h
    · cases P with
      | nil => simp at hP
      | cons p P => simp at hP
  | cons c Y2 =>
    have hend1 := endsClose_tail hend
    have hnl1 := noNL_tail hnl
    rw [List.cons_append]
    by_cases h1 : c = '$'
    · subst h1; simp [matchDollar, appRest]
    · by_cases h2 : c = '{'
      · subst h2
        have hne : Y2 ≠ [] := by
          intro h; subst h
          rcases hend1 with h | ⟨P, hP⟩
          · cases h
          · cases P with
            | nil => simp at hP
            | cons p P => simp at hP
        rw [matchDollar_brace, matchDollar_brace,
          matchBraced_local Y2 Z hne (noNL_tail hnl1) (endsClose_tail hend1) hZ]
        simp [appRest]
      · by_cases hc : isNameStart c = true
        · rw [matchDollar_start c _ hc, matchDollar_start c _ hc]
          have h2' := spanName_snd_ne_nil (A := c :: Y2) (by simp) hend1
          have hloc := spanName_local (c :: Y2) Z h2'
          simp only [List.cons_append] at hloc
          rw [hloc]
          simp [appRest]
        · have hc' : isNameStart c = false := by simpa using hc
          rw [matchDollar_other c _ h1 h2 hc', matchDollar_other c _ h1 h2 hc']
          rfl

/-- splitting after a `}` that is the last one on its line never cuts a match -/
theorem run_split (env : Env) (Z : Str) (hZ : lastCloseLen Z = none) :
    ∀ (n : Nat) (Y : Str), Y.length ≤ n → noNL Y → EndsClose Y → run env (Y ++ Z) = seq (run env Y) (run env Z) := by
  intro n
  induction n with
  | zero =>
    intro Y hl _ _
    have : Y = [] := List.eq_nil_of_length_eq_zero (by omega)
    subst this
    simp [run_nil, seq_ok_nil]
  | succ n ih =>
    intro Y hl hnl hend
    cases Y with
    | nil => simp [run_nil, seq_ok_nil]
    | cons c Y1 =>
      simp only [List.length_cons] at hl
      by_cases hc : c = '$'
      · subst hc
        have hloc := matchDollar_local Y1 Z hnl hend hZ
        rw [List.cons_append]
        cases hm : matchDollar ('$' :: Y1) with
        | none =>
          rw [hm] at hloc
          rw [run_dollar_none env _ hloc, run_dollar_none env _ hm,
            ih Y1 (by omega) (noNL_tail hnl) (endsClose_tail hend), seq_assoc]
        | some x =>
          obtain ⟨k, m, rest⟩ := x
          rw [hm] at hloc
          simp only [Option.map_some, appRest] at hloc
          obtain ⟨h1, h2, _⟩ := matchDollar_spec hm
          have hlen : m.length + rest.length = Y1.length + 1 := by
            have := congrArg List.length h1; simpa using this
          have hnl' : noNL rest := by apply noNL_suffix (A := m); rw [h1]; exact hnl
          have hend' : EndsClose rest := by apply endsClose_suffix (A := m); rw [h1]; exact hend
          rw [run_dollar_some env _ hloc, run_dollar_some env _ hm,
            ih rest (by omega) hnl' hend', seq_assoc]
      · rw [List.cons_append, run_cons_lit env c _ hc, run_cons_lit env c _ hc,
          ih Y1 (by omega) (noNL_tail hnl) (endsClose_tail hend), seq_assoc]

end CV.Template
