import ComposeVerif.Spec.Secrets
/-! Helper lemmas for C20: association lists, `AllStr`, `processExtensions` preserves `AllStr`. -/
namespace CV.Secrets
open CV CV.Val

/-! ### association lists -/

theorem lookup_insert_self (k : String) (v : Val) (kvs : KVs) : Val.lookup k (Val.insert k v kvs) = some v := by
  induction kvs with
  | nil => simp [Val.insert, Val.lookup]
  | cons e r ih =>
    obtain ⟨k', v'⟩ := e
    by_cases h : k = k'
    · simp [Val.insert, Val.lookup, h]
    · simp [Val.insert, Val.lookup, h, ih]

theorem lookup_insert_ne {k k' : String} (h : k ≠ k') (v : Val) (kvs : KVs) :
    Val.lookup k (Val.insert k' v kvs) = Val.lookup k kvs := by
  induction kvs with
  | nil => simp [Val.insert, Val.lookup, h]
  | cons e r ih =>
    obtain ⟨k'', v''⟩ := e
    by_cases h2 : k' = k''
    · subst h2; simp [Val.insert, Val.lookup, h]
    · by_cases h3 : k = k''
      · simp [Val.insert, Val.lookup, h2, h3]
      · simp [Val.insert, Val.lookup, h2, h3, ih]

theorem lookup_erase_ne {k k' : String} (h : k ≠ k') (kvs : KVs) : Val.lookup k (Val.erase k' kvs) = Val.lookup k kvs := by
  induction kvs with
  | nil => simp [Val.erase, Val.lookup]
  | cons e r ih =>
    obtain ⟨k'', v''⟩ := e
    by_cases h2 : k' = k''
    · subst h2; simp [Val.erase, Val.lookup, h, ih]
    · by_cases h3 : k = k''
      · simp [Val.erase, Val.lookup, h2, h3]
      · simp [Val.erase, Val.lookup, h2, h3, ih]

theorem lookup_erase_self (k : String) (kvs : KVs) : Val.lookup k (Val.erase k kvs) = none := by
  induction kvs with
  | nil => simp [Val.erase, Val.lookup]
  | cons e r ih =>
    obtain ⟨k'', v''⟩ := e
    by_cases h2 : k = k''
    · subst h2; simp [Val.erase, ih]
    · simp [Val.erase, Val.lookup, h2, ih]

/-! ### `AllStr` -/

theorem AllStrKV_lookup {P : String → Prop} {kvs : KVs} (h : AllStrKV P kvs) {k : String} {v : Val}
    (hl : Val.lookup k kvs = some v) : AllStr P v := by
  induction kvs with
  | nil => simp [Val.lookup] at hl
  | cons e r ih =>
    obtain ⟨k', v'⟩ := e
    simp only [AllStrKV] at h
    by_cases hk : k = k'
    · simp [Val.lookup, hk] at hl; subst hl; exact h.2.1
    · simp [Val.lookup, hk] at hl; exact ih h.2.2 hl

theorem AllStrKV_insert {P : String → Prop} {kvs : KVs} (h : AllStrKV P kvs) {k : String} {v : Val}
    (hk : P k) (hv : AllStr P v) : AllStrKV P (Val.insert k v kvs) := by
  induction kvs with
  | nil => simp [Val.insert, AllStrKV, hk, hv]
  | cons e r ih =>
    obtain ⟨k', v'⟩ := e
    simp only [AllStrKV] at h
    by_cases hkk : k = k'
    · simp [Val.insert, hkk, AllStrKV, hv, h.2.2, h.1]
    · simp [Val.insert, hkk, AllStrKV, h.1, h.2.1, ih h.2.2]

theorem AllStrKV_erase {P : String → Prop} {kvs : KVs} (h : AllStrKV P kvs) (k : String) : AllStrKV P (Val.erase k kvs) := by
  induction kvs with
  | nil => simp [Val.erase, AllStrKV]
  | cons e r ih =>
    obtain ⟨k', v'⟩ := e
    simp only [AllStrKV] at h
    by_cases hkk : k = k'
    · simp [Val.erase, hkk]; exact hkk ▸ ih h.2.2
    · simp [Val.erase, hkk, AllStrKV, h.1, h.2.1, ih h.2.2]

theorem AllStrKV_filter {P : String → Prop} {kvs : KVs} (h : AllStrKV P kvs) (f : String × Val → Bool) :
    AllStrKV P (kvs.filter f) := by
  induction kvs with
  | nil => simp [AllStrKV]
  | cons e r ih =>
    obtain ⟨k', v'⟩ := e
    simp only [AllStrKV] at h
    by_cases hf : f (k', v') = true
    · simp [List.filter, hf, AllStrKV, h.1, h.2.1, ih h.2.2]
    · simp [List.filter, hf, ih h.2.2]

theorem AllStrKV_append {P : String → Prop} {a b : KVs} (ha : AllStrKV P a) (hb : AllStrKV P b) : AllStrKV P (a ++ b) := by
  induction a with
  | nil => simpa using hb
  | cons e r ih =>
    obtain ⟨k', v'⟩ := e
    simp only [AllStrKV] at ha
    simp [AllStrKV, ha.1, ha.2.1, ih ha.2.2]

theorem AllStrKV_extrasOf {P : String → Prop} {kvs : KVs} (h : AllStrKV P kvs) (skip : Bool) : AllStrKV P (extrasOf skip kvs) := by
  unfold extrasOf
  split
  · simp [AllStrKV]
  · exact AllStrKV_filter h _

theorem AllStrKV_withExtras {P : String → Prop} {ex keep : KVs} (hx : P extKey) (he : AllStrKV P ex) (hk : AllStrKV P keep) :
    AllStrKV P (withExtras ex keep) := by
  unfold withExtras
  split
  · exact hk
  · exact AllStrKV_insert hk hx (by simpa [AllStr] using he)

/-! ### `processExtensions` invents no string (beyond the `#extensions` key) -/

mutual
theorem AllStr_pxVal {P : String → Prop} (hx : P extKey) : ∀ (p : TPath) (v : Val), AllStr P v → AllStr P (pxVal p v)
  | p, .map kvs, h => by
    simp only [pxVal, AllStr] at h ⊢
    exact AllStrKV_withExtras hx (AllStrKV_extrasOf h _) (AllStrKV_pxKVs hx p _ kvs h)
  | p, .seq xs, h => by
    simp only [pxVal, AllStr] at h ⊢
    exact AllStrL_pxSeq hx p 0 xs h
  | _, .null, _ => by simp [pxVal, AllStr]
  | _, .bool _, h => by simpa [pxVal, AllStr] using h
  | _, .int _, h => by simpa [pxVal, AllStr] using h
  | _, .float _, h => by simpa [pxVal, AllStr] using h
  | _, .str _, h => by simpa [pxVal, AllStr] using h
theorem AllStrKV_pxKVs {P : String → Prop} (hx : P extKey) : ∀ (p : TPath) (skip : Bool) (kvs : KVs), AllStrKV P kvs → AllStrKV P (pxKVs p skip kvs)
  | _, _, [], _ => by simp [pxKVs, AllStrKV]
  | p, skip, (k, v) :: r, h => by
    simp only [AllStrKV] at h
    simp only [pxKVs]
    split
    · exact AllStrKV_pxKVs hx p skip r h.2.2
    · simp only [AllStrKV]
      exact ⟨h.1, AllStr_pxVal hx _ v h.2.1, AllStrKV_pxKVs hx p skip r h.2.2⟩
theorem AllStrL_pxSeq {P : String → Prop} (hx : P extKey) : ∀ (p : TPath) (i : Nat) (xs : List Val), AllStrL P xs → AllStrL P (pxSeq p i xs)
  | _, _, [], _ => by simp [pxSeq, AllStrL]
  | p, i, .map kvs :: xs, h => by
    simp only [AllStrL, AllStr] at h
    simp only [pxSeq, AllStrL, AllStr]
    exact ⟨AllStrKV_withExtras hx (AllStrKV_extrasOf h.1 _) (AllStrKV_pxKVs hx _ _ kvs h.1), AllStrL_pxSeq hx p (i + 1) xs h.2⟩
  | p, i, .null :: xs, h => by
    simp only [AllStrL] at h; simp only [pxSeq, AllStrL]; exact ⟨h.1, AllStrL_pxSeq hx p (i + 1) xs h.2⟩
  | p, i, .bool _ :: xs, h => by
    simp only [AllStrL] at h; simp only [pxSeq, AllStrL]; exact ⟨h.1, AllStrL_pxSeq hx p (i + 1) xs h.2⟩
  | p, i, .int _ :: xs, h => by
    simp only [AllStrL] at h; simp only [pxSeq, AllStrL]; exact ⟨h.1, AllStrL_pxSeq hx p (i + 1) xs h.2⟩
  | p, i, .float _ :: xs, h => by
    simp only [AllStrL] at h; simp only [pxSeq, AllStrL]; exact ⟨h.1, AllStrL_pxSeq hx p (i + 1) xs h.2⟩
  | p, i, .str _ :: xs, h => by
    simp only [AllStrL] at h; simp only [pxSeq, AllStrL]; exact ⟨h.1, AllStrL_pxSeq hx p (i + 1) xs h.2⟩
  | p, i, .seq _ :: xs, h => by
    simp only [AllStrL] at h; simp only [pxSeq, AllStrL]; exact ⟨h.1, AllStrL_pxSeq hx p (i + 1) xs h.2⟩
end

/-! ### first-occurrence exemption -/

theorem ObjOkF_of_AllStrKV {P : String → Prop} {c : String} {kvs : KVs} (h : AllStrKV P kvs) : ObjOkF P c kvs := by
  induction kvs with
  | nil => simp [ObjOkF]
  | cons e r ih =>
    obtain ⟨k, v⟩ := e
    simp only [AllStrKV] at h
    simp only [ObjOkF]
    refine ⟨h.1, ?_⟩
    split
    · exact ⟨.inr h.2.1, h.2.2⟩
    · exact ⟨h.2.1, ih h.2.2⟩

theorem ObjOkF_insert_carrier {P : String → Prop} {c : String} {kvs : KVs} (h : AllStrKV P kvs) (hc : P c) (s : String) :
    ObjOkF P c (Val.insert c (.str s) kvs) := by
  induction kvs with
  | nil => simp [Val.insert, ObjOkF, hc, isStr, AllStrKV]
  | cons e r ih =>
    obtain ⟨k, v⟩ := e
    simp only [AllStrKV] at h
    by_cases hk : c = k
    · subst hk; simp [Val.insert, ObjOkF, hc, isStr, h.2.2]
    · have hk' : ¬ k = c := fun h => hk h.symm
      simp [Val.insert, hk, ObjOkF, hk', h.1, h.2.1, ih h.2.2]

theorem ObjOkF_insert_other {P : String → Prop} {c : String} {kvs : KVs} (h : ObjOkF P c kvs) {k : String} {v : Val}
    (hkc : k ≠ c) (hk : P k) (hv : AllStr P v) : ObjOkF P c (Val.insert k v kvs) := by
  induction kvs with
  | nil => simp [Val.insert, ObjOkF, hkc, hk, hv]
  | cons e r ih =>
    obtain ⟨k', v'⟩ := e
    simp only [ObjOkF] at h
    by_cases hkk : k = k'
    · subst hkk
      simp only [Val.insert, if_true, ObjOkF, if_neg hkc] at h ⊢
      exact ⟨hk, hv, h.2.2⟩
    · simp only [Val.insert, if_neg hkk, ObjOkF]
      refine ⟨h.1, ?_⟩
      by_cases hc : k' = c
      · simp only [if_pos hc] at h ⊢
        exact ⟨h.2.1, AllStrKV_insert h.2.2 hk hv⟩
      · simp only [if_neg hc] at h ⊢
        exact ⟨h.2.1, ih h.2.2⟩

theorem ObjOkF_lookup_ne {P : String → Prop} {c : String} {kvs : KVs} (h : ObjOkF P c kvs) {k : String} {v : Val}
    (hl : Val.lookup k kvs = some v) (hkc : k ≠ c) : AllStr P v := by
  induction kvs with
  | nil => simp [Val.lookup] at hl
  | cons e r ih =>
    obtain ⟨k', v'⟩ := e
    simp only [ObjOkF] at h
    by_cases hkk : k = k'
    · subst hkk
      simp [Val.lookup] at hl; subst hl
      simp only [if_neg hkc] at h
      exact h.2.1
    · simp [Val.lookup, hkk] at hl
      by_cases hc : k' = c
      · simp only [if_pos hc] at h
        exact AllStrKV_lookup h.2.2 hl
      · simp only [if_neg hc] at h
        exact ih h.2.2 hl

theorem ObjOkF_filter {P : String → Prop} {c : String} {kvs : KVs} (h : ObjOkF P c kvs) (f : String × Val → Bool) :
    ObjOkF P c (kvs.filter f) := by
  induction kvs with
  | nil => simp [ObjOkF]
  | cons e r ih =>
    obtain ⟨k, v⟩ := e
    simp only [ObjOkF] at h
    by_cases hc : k = c
    · simp only [if_pos hc] at h
      by_cases hf : f (k, v) = true
      · simp only [List.filter, hf, ObjOkF, if_pos hc]
        exact ⟨h.1, h.2.1, AllStrKV_filter h.2.2 f⟩
      · simp only [List.filter, hf]
        exact ObjOkF_of_AllStrKV (AllStrKV_filter h.2.2 f)
    · simp only [if_neg hc] at h
      by_cases hf : f (k, v) = true
      · simp only [List.filter, hf, ObjOkF, if_neg hc]
        exact ⟨h.1, h.2.1, ih h.2.2⟩
      · simp only [List.filter, hf]
        exact ih h.2.2

/-- when the carrier is not an `x-` key (configs: `content`), the extras never contain it -/
theorem AllStrKV_filter_of_ObjOkF {P : String → Prop} {c : String} {kvs : KVs} (h : ObjOkF P c kvs)
    (f : String × Val → Bool) (hf : ∀ v, f (c, v) = false) : AllStrKV P (kvs.filter f) := by
  induction kvs with
  | nil => simp [AllStrKV]
  | cons e r ih =>
    obtain ⟨k, v⟩ := e
    simp only [ObjOkF] at h
    by_cases hc : k = c
    · subst hc
      simp only [if_true] at h
      simp only [List.filter, hf v]
      exact AllStrKV_filter h.2.2 f
    · simp only [if_neg hc] at h
      by_cases hfk : f (k, v) = true
      · simp only [List.filter, hfk, AllStrKV]
        exact ⟨h.1, h.2.1, ih h.2.2⟩
      · simp only [List.filter, hfk]
        exact ih h.2.2

theorem ObjOkF_erase_carrier {P : String → Prop} {c : String} {kvs : KVs} (h : ObjOkF P c kvs) : AllStrKV P (Val.erase c kvs) := by
  induction kvs with
  | nil => simp [Val.erase, AllStrKV]
  | cons e r ih =>
    obtain ⟨k, v⟩ := e
    simp only [ObjOkF] at h
    by_cases hc : k = c
    · subst hc
      simp only [if_true] at h
      simp only [Val.erase, if_true]
      exact AllStrKV_erase h.2.2 k
    · simp only [if_neg hc] at h
      have hc' : ¬ c = k := fun h => hc h.symm
      simp only [Val.erase, if_neg hc', AllStrKV]
      exact ⟨h.1, h.2.1, ih h.2.2⟩

/-- if the first entry keyed by the carrier is not a string (or there is none), nothing is exempt -/
theorem AllStrKV_of_ObjOkF_lookup {P : String → Prop} {c : String} {kvs : KVs} (h : ObjOkF P c kvs)
    (hl : ∀ s, Val.lookup c kvs ≠ some (.str s)) : AllStrKV P kvs := by
  induction kvs with
  | nil => simp [AllStrKV]
  | cons e r ih =>
    obtain ⟨k, v⟩ := e
    simp only [ObjOkF] at h
    by_cases hc : k = c
    · subst hc
      simp only [if_true] at h
      simp only [AllStrKV]
      refine ⟨h.1, ?_, h.2.2⟩
      rcases h.2.1 with hs | hs
      · cases v with
        | str s0 => exact absurd (by simp [Val.lookup]) (hl s0)
        | _ => simp [isStr] at hs
      · exact hs
    · simp only [if_neg hc] at h
      have hc' : ¬ c = k := fun h => hc h.symm
      simp only [AllStrKV]
      refine ⟨h.1, h.2.1, ih h.2.2 ?_⟩
      intro s hs
      exact hl s (by simp [Val.lookup, hc', hs])

theorem isStr_pxVal {p : TPath} {v : Val} (h : isStr v) : isStr (pxVal p v) := by
  cases v <;> simp [isStr] at h ⊢
  simp [pxVal, isStr]

theorem ObjOkF_pxKVs {P : String → Prop} {c : String} (hx : P extKey) (p : TPath) (skip : Bool) {kvs : KVs}
    (h : ObjOkF P c kvs) : ObjOkF P c (pxKVs p skip kvs) := by
  induction kvs with
  | nil => simp [pxKVs, ObjOkF]
  | cons e r ih =>
    obtain ⟨k, v⟩ := e
    simp only [ObjOkF] at h
    simp only [pxKVs]
    by_cases hc : k = c
    · simp only [if_pos hc] at h
      split
      · exact ObjOkF_of_AllStrKV (AllStrKV_pxKVs hx p skip r h.2.2)
      · simp only [ObjOkF, if_pos hc]
        refine ⟨h.1, ?_, AllStrKV_pxKVs hx p skip r h.2.2⟩
        rcases h.2.1 with hs | hs
        · exact .inl (isStr_pxVal hs)
        · exact .inr (AllStr_pxVal hx _ v hs)
    · simp only [if_neg hc] at h
      split
      · exact ih h.2.2
      · simp only [ObjOkF, if_neg hc]
        exact ⟨h.1, AllStr_pxVal hx _ v h.2.1, ih h.2.2⟩

theorem ObjOkF_extrasOf {P : String → Prop} {c : String} {kvs : KVs} (h : ObjOkF P c kvs) (skip : Bool) :
    ObjOkF P c (extrasOf skip kvs) := by
  unfold extrasOf
  split
  · simp [ObjOkF]
  · exact ObjOkF_filter h _

/-! ### stages, object level -/

theorem ValOkF_resolveObj {P : String → Prop} {c : String} (hc : P c) (env : Env) {v : Val} (h : AllStr P v) :
    ValOkF P c (resolveObj c env v) := by
  cases v with
  | map kvs =>
    simp only [AllStr] at h
    simp only [resolveObj]
    split
    · split
      · exact ObjOkF_of_AllStrKV h
      · split
        · exact ObjOkF_insert_carrier h hc _
        · exact ObjOkF_of_AllStrKV h
    · exact ObjOkF_of_AllStrKV h
  | _ => simpa [resolveObj, ValOkF] using h

theorem ObjOkF_setNameKVs {P : String → Prop} {c : String} (hcn : c ≠ "name") (hn : P "name") {pname key : String}
    (hkey : P key) (hgen : P (pname ++ "_" ++ key)) {kvs : KVs} (h : ObjOkF P c kvs) :
    ObjOkF P c (setNameKVs pname key kvs) := by
  unfold setNameKVs
  split
  · refine ObjOkF_insert_other h (fun h => hcn h.symm) hn ?_
    simp only [AllStr]
    split
    · exact hkey
    · exact hgen
  · exact h

/-! ### the raw object after `processExtensions`, after the hook; the struct decode -/

theorem ExtOk_of_AllStr {P : String → Prop} {v : Val} (h : AllStr P v) : ExtOk P v := by
  cases v with
  | map ex => simp only [AllStr] at h; exact ObjOkF_of_AllStrKV h
  | _ => simpa [ExtOk] using h

theorem lookup_withExtras_ne {k : String} (h : k ≠ extKey) (ex keep : KVs) :
    Val.lookup k (withExtras ex keep) = Val.lookup k keep := by
  unfold withExtras
  split
  · rfl
  · exact lookup_insert_ne h _ _

/-- the object of a resource after `processExtensions` (any path, skipped or not) -/
theorem RawOk_pxObj {P : String → Prop} {c : String} (hx : P extKey) (hce : c ≠ extKey) (p : TPath) (skip : Bool) {kvs : KVs}
    (h : ObjOkF P c kvs) (hex : ObjOkF P xValue (extrasOf skip kvs)) :
    RawOk P c (withExtras (extrasOf skip kvs) (pxKVs p skip kvs)) := by
  have hkeep := ObjOkF_pxKVs (c := c) hx p skip h
  constructor
  · intro k v hl _ _ hkc hke
    rw [lookup_withExtras_ne hke] at hl
    exact ObjOkF_lookup_ne hkeep hl hkc
  · intro v hl
    unfold withExtras at hl
    split at hl
    · exact ExtOk_of_AllStr (ObjOkF_lookup_ne hkeep hl (fun h => hce h.symm))
    · rw [lookup_insert_self] at hl
      cases hl
      exact hex

/-- after the hook the `#extensions` mapping is clean -/
def ExtClean (P : String → Prop) (kvs : KVs) : Prop := ∀ m, Val.lookup extKey kvs = some (.map m) → AllStrKV P m

theorem xValue_ne_extKey : xValue ≠ extKey := by decide
theorem Content_ne_extKey : "Content" ≠ extKey := by decide

theorem RawOk_hook {P : String → Prop} {c : String} {kvs : KVs} (h : RawOk P c kvs) :
    RawOk P c (hook kvs) ∧ ExtClean P (hook kvs) := by
  unfold hook
  split
  · rename_i ext hext
    have hExt : ObjOkF P xValue ext := h.2 _ hext
    split
    · rename_i val hval
      have hclean : AllStrKV P (Val.erase xValue ext) := ObjOkF_erase_carrier hExt
      simp only
      split
      · constructor
        · constructor
          · intro k v hl h1 h2 h3 h4
            rw [lookup_erase_ne h4, lookup_insert_ne h2] at hl
            exact h.1 k v hl h1 h2 h3 h4
          · intro v hl
            rw [lookup_erase_self] at hl
            cases hl
        · intro m hl
          rw [lookup_erase_self] at hl
          cases hl
      · constructor
        · constructor
          · intro k v hl h1 h2 h3 h4
            rw [lookup_insert_ne h4, lookup_insert_ne h2] at hl
            exact h.1 k v hl h1 h2 h3 h4
          · intro v hl
            rw [lookup_insert_self] at hl
            cases hl
            exact ObjOkF_of_AllStrKV hclean
        · intro m hl
          rw [lookup_insert_self] at hl
          cases hl
          exact hclean
    · rename_i hno
      refine ⟨h, ?_⟩
      intro m hl
      rw [hext] at hl
      cases hl
      exact AllStrKV_of_ObjOkF_lookup hExt (fun s hs => hno s hs)
  · rename_i hno
    refine ⟨h, ?_⟩
    intro m hl
    exact absurd hl (hno m)

/-- for configs the hook does not run: the extras never held the carrier, so `#extensions` is clean as it is -/
theorem ExtClean_of_RawOk_config {P : String → Prop} {kvs : KVs} (h : RawOk P "content" kvs)
    (hex : ∀ m, Val.lookup extKey kvs = some (.map m) → AllStrKV P m) : ExtClean P kvs := hex

theorem OptP_strField {P : String → Prop} {c : String} {kvs : KVs} (h : RawOk P c kvs) {k s : String}
    (hs : strField k kvs = some s) (h1 : k ≠ xValue) (h2 : k ≠ "Content") (h3 : k ≠ c) (h4 : k ≠ extKey) : OptP P s := by
  unfold strField at hs
  split at hs
  · cases hs; exact .inl rfl
  · cases hs; exact .inl rfl
  · rename_i s' hl
    cases hs
    exact .inr (by simpa [AllStr] using h.1 k _ hl h1 h2 h3 h4)
  · rename_i i hl
    cases hs
    exact .inr (by simpa [AllStr] using h.1 k _ hl h1 h2 h3 h4)
  · cases hs

theorem StrMapOk_strMapEntries {P : String → Prop} (he : P "") : ∀ {m : KVs} {l : List (String × String)},
    AllStrKV P m → strMapEntries m = some l → StrMapOk P l
  | [], l, _, h => by simp [strMapEntries] at h; subst h; simp [StrMapOk]
  | (k, .str s) :: r, l, hm, h => by
    simp only [AllStrKV, AllStr] at hm
    simp only [strMapEntries, Option.map_eq_some_iff] at h
    obtain ⟨l', hl', rfl⟩ := h
    simp only [StrMapOk]
    exact ⟨hm.1, hm.2.1, StrMapOk_strMapEntries he hm.2.2 hl'⟩
  | (k, .int i) :: r, l, hm, h => by
    simp only [AllStrKV, AllStr] at hm
    simp only [strMapEntries, Option.map_eq_some_iff] at h
    obtain ⟨l', hl', rfl⟩ := h
    simp only [StrMapOk]
    exact ⟨hm.1, hm.2.1, StrMapOk_strMapEntries he hm.2.2 hl'⟩
  | (k, .null) :: r, l, hm, h => by
    simp only [AllStrKV, AllStr] at hm
    simp only [strMapEntries, Option.map_eq_some_iff] at h
    obtain ⟨l', hl', rfl⟩ := h
    simp only [StrMapOk]
    exact ⟨hm.1, he, StrMapOk_strMapEntries he hm.2.2 hl'⟩
  | (_, .bool _) :: _, _, _, h => by simp [strMapEntries] at h
  | (_, .float _) :: _, _, _, h => by simp [strMapEntries] at h
  | (_, .seq _) :: _, _, _, h => by simp [strMapEntries] at h
  | (_, .map _) :: _, _, _, h => by simp [strMapEntries] at h

theorem StrMapOk_strMapField {P : String → Prop} (he : P "") {c : String} {kvs : KVs} (h : RawOk P c kvs) {k : String} {l : List (String × String)}
    (hs : strMapField k kvs = some l) (h1 : k ≠ xValue) (h2 : k ≠ "Content") (h3 : k ≠ c) (h4 : k ≠ extKey) : StrMapOk P l := by
  unfold strMapField at hs
  split at hs
  · cases hs; simp [StrMapOk]
  · cases hs; simp [StrMapOk]
  · rename_i m hl
    have := h.1 k _ hl h1 h2 h3 h4
    simp only [AllStr] at this
    exact StrMapOk_strMapEntries he this hs
  · cases hs

/-! labels: mapping form and list form -/

theorem P_labelVal {P : String → Prop} (he : P "") {v : Val} {s : String} (hv : AllStr P v) (h : labelVal v = some s) : P s := by
  cases v <;> simp only [labelVal, Option.some.injEq, reduceCtorEq] at h <;> subst h
  · exact he
  · simpa [AllStr] using hv
  · simpa [AllStr] using hv
  · simpa [AllStr] using hv
  · simpa [AllStr] using hv

theorem StrMapOk_labelEntries {P : String → Prop} (he : P "") : ∀ {m : KVs} {l : List (String × String)},
    AllStrKV P m → labelEntries m = some l → StrMapOk P l
  | [], l, _, h => by simp [labelEntries] at h; subst h; simp [StrMapOk]
  | (k, v) :: r, l, hm, h => by
    simp only [AllStrKV] at hm
    simp only [labelEntries] at h
    split at h
    · rename_i s l' hs hl'
      cases h
      simp only [StrMapOk]
      exact ⟨hm.1, P_labelVal he hm.2.1 hs, StrMapOk_labelEntries he hm.2.2 hl'⟩
    · cases h

theorem StrMapOk_putStr {P : String → Prop} {k v : String} (hk : P k) (hv : P v) :
    ∀ {acc : List (String × String)}, StrMapOk P acc → StrMapOk P (putStr k v acc)
  | [], _ => by simp [putStr, StrMapOk, hk, hv]
  | (k', v') :: r, h => by
    simp only [StrMapOk] at h
    simp only [putStr]
    split
    · simp only [StrMapOk]; exact ⟨hk, hv, h.2.2⟩
    · simp only [StrMapOk]; exact ⟨h.1, h.2.1, StrMapOk_putStr hk hv h.2.2⟩

theorem P_sprintScalar {P : String → Prop} (hnil : P "<nil>") {v : Val} {s : String} (hv : AllStr P v) (h : sprintScalar v = some s) : P s := by
  cases v <;> simp only [sprintScalar, Option.some.injEq, reduceCtorEq] at h <;> subst h
  · simpa [Val.fmtV] using hnil
  · simpa [AllStr] using hv
  · simpa [AllStr] using hv
  · simpa [AllStr, Val.fmtV] using hv
  · simpa [AllStr, Val.fmtV] using hv

theorem StrMapOk_labelList {P : String → Prop} (hnil : P "<nil>") (hcut : CutClosed P) :
    ∀ {xs : List Val} {acc l : List (String × String)}, AllStrL P xs → StrMapOk P acc → labelList xs acc = some l → StrMapOk P l
  | [], acc, l, _, ha, h => by simp [labelList] at h; subst h; exact ha
  | x :: xs, acc, l, hx, ha, h => by
    simp only [AllStrL] at hx
    simp only [labelList] at h
    split at h
    · rename_i s hs
      have hp := hcut s (P_sprintScalar hnil hx.1 hs)
      exact StrMapOk_labelList hnil hcut hx.2 (StrMapOk_putStr hp.1 hp.2 ha) h
    · cases h

theorem StrMapOk_labelsField {P : String → Prop} (he : P "") (hnil : P "<nil>") (hcut : CutClosed P) {c : String} {kvs : KVs}
    (h : RawOk P c kvs) {l : List (String × String)} (hs : labelsField kvs = some l) (h3 : "labels" ≠ c) : StrMapOk P l := by
  unfold labelsField at hs
  split at hs
  · cases hs; simp [StrMapOk]
  · cases hs; simp [StrMapOk]
  · rename_i m hl
    have := h.1 "labels" _ hl (by decide) (by decide) h3 (by decide)
    simp only [AllStr] at this
    exact StrMapOk_labelEntries he this hs
  · rename_i xs hl
    have := h.1 "labels" _ hl (by decide) (by decide) h3 (by decide)
    simp only [AllStr] at this
    exact StrMapOk_labelList hnil hcut this (by simp [StrMapOk]) hs
  · cases hs

theorem AllStrKV_extField {P : String → Prop} {kvs : KVs} (h : ExtClean P kvs) {m : KVs} (hs : extField kvs = some m) : AllStrKV P m := by
  unfold extField at hs
  split at hs
  · cases hs; simp [AllStrKV]
  · cases hs; simp [AllStrKV]
  · rename_i m' hl
    cases hs
    exact h _ hl
  · cases hs

/-- what the struct decode reads satisfies `P`, except possibly the content -/
theorem CleanBut_decodeFields {P : String → Prop} (hemp : P "") (hnil : P "<nil>") (hcut : CutClosed P)
    {c : String} (hc : c = xValue ∨ c = "content") {kvs : KVs}
    (h : RawOk P c kvs) (he : ExtClean P kvs) {o : FileObj} (hd : decodeFields kvs = .ok o) : o.CleanBut P := by
  unfold decodeFields at hd
  split at hd
  · rename_i name file environment content external labels driver driverOpts templateDriver extensions h1 h2 h3 _ _ h6 h7 h8 h9 h10
    split at hd
    · cases hd
      rcases hc with rfl | rfl
      · exact ⟨OptP_strField h h1 (by decide) (by decide) (by decide) (by decide),
          OptP_strField h h2 (by decide) (by decide) (by decide) (by decide),
          OptP_strField h h3 (by decide) (by decide) (by decide) (by decide),
          StrMapOk_labelsField hemp hnil hcut h h6 (by decide),
          OptP_strField h h7 (by decide) (by decide) (by decide) (by decide),
          StrMapOk_strMapField hemp h h8 (by decide) (by decide) (by decide) (by decide),
          OptP_strField h h9 (by decide) (by decide) (by decide) (by decide),
          AllStrKV_extField he h10⟩
      · exact ⟨OptP_strField h h1 (by decide) (by decide) (by decide) (by decide),
          OptP_strField h h2 (by decide) (by decide) (by decide) (by decide),
          OptP_strField h h3 (by decide) (by decide) (by decide) (by decide),
          StrMapOk_labelsField hemp hnil hcut h h6 (by decide),
          OptP_strField h h7 (by decide) (by decide) (by decide) (by decide),
          StrMapOk_strMapField hemp h h8 (by decide) (by decide) (by decide) (by decide),
          OptP_strField h h9 (by decide) (by decide) (by decide) (by decide),
          AllStrKV_extField he h10⟩
    · cases hd
  · cases hd

/-! ### rendering -/

theorem AllStrKV_optStr {P : String → Prop} {k s : String} (hk : P k) (hs : OptP P s) : AllStrKV P (optStr k s) := by
  unfold optStr
  split
  · simp [AllStrKV]
  · rename_i hne
    rcases hs with h | h
    · exact absurd h hne
    · simp [AllStrKV, AllStr, hk, h]

theorem AllStrKV_optBool {P : String → Prop} {k : String} (hk : P k) (ht : P "true") (b : Bool) : AllStrKV P (optBool k b) := by
  unfold optBool
  split
  · simp only [AllStrKV, AllStr, Val.fmtV, if_true]; exact ⟨hk, ht, trivial⟩
  · simp [AllStrKV]

theorem AllStrKV_strMap {P : String → Prop} : ∀ {m : List (String × String)}, StrMapOk P m →
    AllStrKV P (m.map fun kv => (kv.1, Val.str kv.2))
  | [], _ => by simp [AllStrKV]
  | (k, v) :: r, h => by
    simp only [StrMapOk] at h
    simp only [List.map, AllStrKV, AllStr]
    exact ⟨h.1, h.2.1, AllStrKV_strMap h.2.2⟩

theorem AllStrKV_optStrMap {P : String → Prop} {k : String} {m : List (String × String)} (hk : P k) (hm : StrMapOk P m) :
    AllStrKV P (optStrMap k m) := by
  unfold optStrMap
  split
  · simp [AllStrKV]
  · simp only [AllStrKV, AllStr]
    exact ⟨hk, AllStrKV_strMap hm, trivial⟩

theorem AllStrKV_fields {P : String → Prop} (hv : ∀ k ∈ vocabulary, P k) {o : FileObj} (h : o.CleanBut P) (hc : OptP P o.content) :
    AllStrKV P o.fields := by
  unfold FileObj.fields
  have v := fun k (hk : k ∈ vocabulary) => hv k hk
  refine AllStrKV_append (AllStrKV_append (AllStrKV_append (AllStrKV_append (AllStrKV_append (AllStrKV_append
    (AllStrKV_append (AllStrKV_append ?_ ?_) ?_) ?_) ?_) ?_) ?_) ?_) ?_
  · exact AllStrKV_optStr (v _ (by decide)) h.name
  · exact AllStrKV_optStr (v _ (by decide)) h.file
  · exact AllStrKV_optStr (v _ (by decide)) h.environment
  · exact AllStrKV_optStr (v _ (by decide)) hc
  · exact AllStrKV_optBool (v _ (by decide)) (v _ (by decide)) _
  · exact AllStrKV_optStrMap (v _ (by decide)) h.labels
  · exact AllStrKV_optStr (v _ (by decide)) h.driver
  · exact AllStrKV_optStrMap (v _ (by decide)) h.driverOpts
  · exact AllStrKV_optStr (v _ (by decide)) h.templateDriver

theorem CleanBut_setContent {P : String → Prop} {o : FileObj} (h : o.CleanBut P) (s : String) : FileObj.CleanBut P { o with content := s } :=
  ⟨h.name, h.file, h.environment, h.labels, h.driver, h.driverOpts, h.templateDriver, h.extensions⟩

theorem CleanBut_setFlag {P : String → Prop} {o : FileObj} (h : o.CleanBut P) (b : Bool) : FileObj.CleanBut P { o with marshallContent := b } :=
  ⟨h.name, h.file, h.environment, h.labels, h.driver, h.driverOpts, h.templateDriver, h.extensions⟩

theorem AllStr_render_obj {P : String → Prop} (hv : ∀ k ∈ vocabulary, P k) {o : FileObj} (h : o.CleanBut P) (hc : OptP P o.content) :
    AllStr P o.toYaml ∧ AllStr P o.toJson := by
  simp only [FileObj.toYaml, FileObj.toJson, AllStr]
  exact ⟨AllStrKV_append (AllStrKV_fields hv h hc) h.extensions, AllStrKV_fields hv h hc⟩

/-- a secret whose flag is off renders without any trace of its content -/
theorem AllStr_renderSecret {P : String → Prop} (hv : ∀ k ∈ vocabulary, P k) {o : FileObj} (h : o.CleanBut P)
    (hf : o.marshallContent = false) (r : Renderer) : AllStr P (renderSecret r o) := by
  have hb : secretBlank o = { o with content := "" } := by simp [secretBlank, hf]
  have := AllStr_render_obj hv (CleanBut_setContent h "") (.inl rfl)
  cases r
  · simp only [renderSecret, secretYaml, hb]; exact this.1
  · simp only [renderSecret, secretJson, hb]; exact this.2

/-- a config renders cleanly when its content is clean or its source variable is named -/
theorem AllStr_renderConfig {P : String → Prop} (hv : ∀ k ∈ vocabulary, P k) {o : FileObj} (h : o.CleanBut P)
    (hl : o.environment ≠ "" ∨ OptP P o.content) (r : Renderer) : AllStr P (renderConfig r o) := by
  by_cases he : o.environment = ""
  · have hb : configBlank o = o := by simp [configBlank, he]
    have hc : OptP P o.content := hl.resolve_left (fun h => h he)
    have := AllStr_render_obj hv h hc
    cases r
    · simp only [renderConfig, configYaml, hb]; exact this.1
    · simp only [renderConfig, configJson, hb]; exact this.2
  · have hb : configBlank o = { o with content := "" } := by simp [configBlank, he]
    have := AllStr_render_obj hv (CleanBut_setContent h "") (.inl rfl)
    cases r
    · simp only [renderConfig, configYaml, hb]; exact this.1
    · simp only [renderConfig, configJson, hb]; exact this.2

end CV.Secrets
