import ComposeVerif.Model.ExtendsClone
/-! lemmas about `deepClone` on the heap: value preserved, every container fresh, writes elsewhere are invisible -/
namespace CV.Extends.Clone
open CV

/-- the addresses `A` were all allocated in the window `[n, m)`, each once -/
def Fresh (n m : Nat) (A : List Nat) : Prop := n ≤ m ∧ (∀ a ∈ A, n ≤ a ∧ a < m) ∧ A.Nodup

theorem Fresh.nil (n : Nat) : Fresh n n [] := ⟨Nat.le_refl n, by simp, List.nodup_nil⟩

theorem Fresh.append {n m k : Nat} {A B : List Nat} (h1 : Fresh n m A) (h2 : Fresh m k B) : Fresh n k (A ++ B) := by
  refine ⟨Nat.le_trans h1.1 h2.1, ?_, ?_⟩
  · intro a ha
    rcases List.mem_append.mp ha with h | h
    · have := h1.2.1 a h; exact ⟨this.1, Nat.lt_of_lt_of_le this.2 h2.1⟩
    · have := h2.2.1 a h; exact ⟨Nat.le_trans h1.1 this.1, this.2⟩
  · rw [List.nodup_append]
    refine ⟨h1.2.2, h2.2.2, ?_⟩
    intro a ha b hb hab
    subst hab
    have x := h1.2.1 a ha
    have y := h2.2.1 a hb
    omega

theorem Fresh.cons {n m : Nat} {A : List Nat} (h : Fresh (n + 1) m A) : Fresh n m (n :: A) := by
  refine ⟨by have := h.1; omega, ?_, ?_⟩
  · intro a ha
    rcases List.mem_cons.mp ha with rfl | h'
    · exact ⟨Nat.le_refl _, by have := h.1; omega⟩
    · have := h.2.1 a h'; exact ⟨by omega, this.2⟩
  · refine List.nodup_cons.mpr ⟨?_, h.2.2⟩
    intro hm
    have := h.2.1 n hm
    omega

mutual
  theorem clone_erase : ∀ (v : HVal) (n : Nat), erase (clone n v).1 = erase v
    | .leaf _, _ => by simp [clone, erase]
    | .seq _ xs, n => by simp [clone, erase, cloneL_erase xs (n + 1)]
    | .map _ kvs, n => by simp [clone, erase, cloneK_erase kvs (n + 1)]
  theorem cloneL_erase : ∀ (xs : List HVal) (n : Nat), eraseL (cloneL n xs).1 = eraseL xs
    | [], _ => by simp [cloneL, eraseL]
    | x :: r, n => by simp [cloneL, eraseL, clone_erase x n, cloneL_erase r _]
  theorem cloneK_erase : ∀ (kvs : List (String × HVal)) (n : Nat), eraseK (cloneK n kvs).1 = eraseK kvs
    | [], _ => by simp [cloneK, eraseK]
    | (k, x) :: r, n => by simp [cloneK, eraseK, clone_erase x n, cloneK_erase r _]
end

mutual
  theorem clone_fresh : ∀ (v : HVal) (n : Nat), Fresh n (clone n v).2 (addrs (clone n v).1)
    | .leaf _, n => by simp only [clone, addrs]; exact Fresh.nil n
    | .seq _ xs, n => by simp only [clone, addrs]; exact (cloneL_fresh xs (n + 1)).cons
    | .map _ kvs, n => by simp only [clone, addrs]; exact (cloneK_fresh kvs (n + 1)).cons
  theorem cloneL_fresh : ∀ (xs : List HVal) (n : Nat), Fresh n (cloneL n xs).2 (addrsL (cloneL n xs).1)
    | [], n => by simp only [cloneL, addrsL]; exact Fresh.nil n
    | x :: r, n => by simp only [cloneL, addrsL]; exact (clone_fresh x n).append (cloneL_fresh r _)
  theorem cloneK_fresh : ∀ (kvs : List (String × HVal)) (n : Nat), Fresh n (cloneK n kvs).2 (addrsK (cloneK n kvs).1)
    | [], n => by simp only [cloneK, addrsK]; exact Fresh.nil n
    | (k, x) :: r, n => by simp only [cloneK, addrsK]; exact (clone_fresh x n).append (cloneK_fresh r _)
end

mutual
  /-- one allocation per container -/
  theorem clone_count : ∀ (v : HVal) (n : Nat), (clone n v).2 = n + (addrs v).length
    | .leaf _, n => by simp [clone, addrs]
    | .seq _ xs, n => by simp only [clone, addrs, List.length_cons, cloneL_count xs (n + 1)]; omega
    | .map _ kvs, n => by simp only [clone, addrs, List.length_cons, cloneK_count kvs (n + 1)]; omega
  theorem cloneL_count : ∀ (xs : List HVal) (n : Nat), (cloneL n xs).2 = n + (addrsL xs).length
    | [], n => by simp [cloneL, addrsL]
    | x :: r, n => by simp only [cloneL, addrsL, List.length_append, cloneL_count r _, clone_count x n]; omega
  theorem cloneK_count : ∀ (kvs : List (String × HVal)) (n : Nat), (cloneK n kvs).2 = n + (addrsK kvs).length
    | [], n => by simp [cloneK, addrsK]
    | (k, x) :: r, n => by simp only [cloneK, addrsK, List.length_append, cloneK_count r _, clone_count x n]; omega
end

mutual
  /-- a write to an address the tree does not contain leaves the tree as it is -/
  theorem write_not_mem : ∀ (v : HVal) (a : Nat) (c : HVal), a ∉ addrs v → write a c v = v
    | .leaf _, _, _, _ => by simp [write]
    | .seq b xs, a, c, h => by
      simp only [addrs, List.mem_cons, not_or] at h
      have hb : b ≠ a := fun e => h.1 e.symm
      simp [write, hb, writeL_not_mem xs a c h.2]
    | .map b kvs, a, c, h => by
      simp only [addrs, List.mem_cons, not_or] at h
      have hb : b ≠ a := fun e => h.1 e.symm
      simp [write, hb, writeK_not_mem kvs a c h.2]
  theorem writeL_not_mem : ∀ (xs : List HVal) (a : Nat) (c : HVal), a ∉ addrsL xs → writeL a c xs = xs
    | [], _, _, _ => by simp [writeL]
    | x :: r, a, c, h => by
      simp only [addrsL, List.mem_append, not_or] at h
      simp [writeL, write_not_mem x a c h.1, writeL_not_mem r a c h.2]
  theorem writeK_not_mem : ∀ (kvs : List (String × HVal)) (a : Nat) (c : HVal), a ∉ addrsK kvs → writeK a c kvs = kvs
    | [], _, _, _ => by simp [writeK]
    | (k, x) :: r, a, c, h => by
      simp only [addrsK, List.mem_append, not_or] at h
      simp [writeK, write_not_mem x a c h.1, writeK_not_mem r a c h.2]
end

end CV.Extends.Clone
