import ComposeVerif.Model.Marshal
/-! Helper lemmas for C09: decimal text round trip, string containers. -/
namespace CV.Marshal
open CV

/-! ### decimal digits -/

theorem digitChar_val : ∀ d, d < 10 → (digitChar d).toNat - 48 = d := by decide

theorem digitChar_isDigit : ∀ d, d < 10 → isDigit (digitChar d) = true := by decide

theorem natDigitsAux_fold (f : Nat) : ∀ n acc, n < f →
    (natDigitsAux f n acc).foldl (fun a c => a * 10 + (c.toNat - 48)) 0
      = acc.foldl (fun a c => a * 10 + (c.toNat - 48)) n := by
  induction f with
  | zero => intro n acc h; omega
  | succ f ih =>
    intro n acc h
    unfold natDigitsAux
    split
    · next hlt => simp [List.foldl, digitChar_val n hlt]
    · next hge =>
      have h1 : n / 10 < f := by omega
      rw [ih (n / 10) _ h1]
      have h2 : n % 10 < 10 := Nat.mod_lt _ (by decide)
      simp only [List.foldl, digitChar_val _ h2]
      congr 1
      omega

theorem natDigitsAux_all (f : Nat) : ∀ n acc, acc.all isDigit = true → (natDigitsAux f n acc).all isDigit = true := by
  induction f with
  | zero => intro n acc h; simpa [natDigitsAux] using h
  | succ f ih =>
    intro n acc h
    unfold natDigitsAux
    split
    · next hlt => simp [List.all_cons, digitChar_isDigit n hlt, h]
    · next hge =>
      apply ih
      have h2 : n % 10 < 10 := Nat.mod_lt _ (by decide)
      simp [List.all_cons, digitChar_isDigit _ h2, h]

theorem natDigitsAux_ne_nil (f : Nat) : ∀ n acc, acc ≠ [] ∨ 0 < f → natDigitsAux f n acc ≠ [] := by
  induction f with
  | zero => intro n acc h; rcases h with h | h <;> simp_all [natDigitsAux]
  | succ f ih =>
    intro n acc _
    unfold natDigitsAux
    split
    · simp
    · exact ih _ _ (Or.inl (by simp))

theorem digitsVal_natDigits (n : Nat) : digitsVal (natDigits n) = n := by
  unfold digitsVal natDigits
  rw [natDigitsAux_fold (n + 1) n [] (by omega)]
  rfl

/-- the decimal text of a natural number parses back to it -/
theorem parseNat_natDigits (n : Nat) : parseNat? (natDigits n) = some n := by
  have h1 : (natDigits n).all isDigit = true := natDigitsAux_all _ _ _ (by rfl)
  have h2 : natDigits n ≠ [] := natDigitsAux_ne_nil _ _ _ (Or.inr (by omega))
  have h3 : (natDigits n).isEmpty = false := by
    cases h : natDigits n with
    | nil => exact absurd h h2
    | cons _ _ => rfl
  simp [parseNat?, h1, h3, digitsVal_natDigits]

/-! ### string containers -/

theorem allStr_scalar : ∀ xs : List Val, allStr xs = true → xs.all isScalar = true := by
  intro xs
  induction xs with
  | nil => intro _; rfl
  | cons x r ih =>
    intro h
    cases x <;> simp_all [allStr, isScalar]

theorem allStr_sprint : ∀ xs : List Val, allStr xs = true → xs.map (fun x => Val.str (sprint x)) = xs := by
  intro xs
  induction xs with
  | nil => intro _; rfl
  | cons x r ih =>
    intro h
    cases x <;> simp_all [allStr, sprint, Val.fmtV]

theorem allStrVals_scalar : ∀ kvs : List (String × Val), allStrVals kvs = true → (kvs.map Prod.snd).all isScalar = true := by
  intro kvs
  induction kvs with
  | nil => intro _; rfl
  | cons p r ih =>
    intro h
    obtain ⟨k, v⟩ := p
    cases v with
    | str s =>
      simp only [allStrVals] at h
      simp only [List.map_cons, List.all_cons, ih h]
      rfl
    | _ => simp [allStrVals] at h

theorem allStrVals_sprint : ∀ kvs : List (String × Val), allStrVals kvs = true →
    kvs.map entryStr = kvs := by
  intro kvs
  induction kvs with
  | nil => intro _; rfl
  | cons p r ih =>
    intro h
    obtain ⟨k, v⟩ := p
    cases v <;> simp_all [allStrVals, sprint, Val.fmtV, entryStr]

theorem allStrOrNullVals_scalar : ∀ kvs : List (String × Val), allStrOrNullVals kvs = true → (kvs.map Prod.snd).all isScalar = true := by
  intro kvs
  induction kvs with
  | nil => intro _; rfl
  | cons p r ih =>
    intro h
    obtain ⟨k, v⟩ := p
    cases v with
    | str s =>
      simp only [allStrOrNullVals] at h
      simp only [List.map_cons, List.all_cons, ih h]
      rfl
    | null =>
      simp only [allStrOrNullVals] at h
      simp only [List.map_cons, List.all_cons, ih h]
      rfl
    | _ => simp [allStrOrNullVals] at h

theorem allStrOrNullVals_sprint : ∀ kvs : List (String × Val), allStrOrNullVals kvs = true →
    kvs.map entryPtr = kvs := by
  intro kvs
  induction kvs with
  | nil => intro _; rfl
  | cons p r ih =>
    intro h
    obtain ⟨k, v⟩ := p
    cases v <;> simp_all [allStrOrNullVals, sprint, Val.fmtV, entryPtr]

/-! ### signed decimal text -/

theorem natDigits_head (n : Nat) : ∃ c cs, natDigits n = c :: cs ∧ isDigit c = true := by
  have h1 : (natDigits n).all isDigit = true := natDigitsAux_all _ _ _ (by rfl)
  have h2 : natDigits n ≠ [] := natDigitsAux_ne_nil _ _ _ (Or.inr (by omega))
  cases h : natDigits n with
  | nil => exact absurd h h2
  | cons c cs =>
    rw [h] at h1
    simp only [List.all_cons, Bool.and_eq_true] at h1
    exact ⟨c, cs, rfl, h1.1⟩

theorem parseInt_natDigits (n : Nat) : parseInt? (natDigits n) = some (n : Int) := by
  obtain ⟨c, cs, hc, hd⟩ := natDigits_head n
  have hm : c ≠ '-' := by intro e; subst e; revert hd; decide
  have hp : c ≠ '+' := by intro e; subst e; revert hd; decide
  have := parseNat_natDigits n
  rw [hc] at this ⊢
  unfold parseInt?
  split
  · next r heq => injection heq with h1 _; exact absurd h1 hm
  · next r heq => injection heq with h1 _; exact absurd h1 hp
  · simp [this]

theorem parseInt_fmtInt (i : Int) : parseInt? (fmtInt i).toList = some i := by
  cases i with
  | ofNat n => simp [fmtInt, parseInt_natDigits]
  | negSucc n =>
    simp only [fmtInt, String.toList_ofList, parseInt?, parseNat_natDigits]
    congr 1

/-! ### assignment of distinct keys -/

theorem insert_fresh (k : String) (v : Val) : ∀ acc : List (String × Val), k ∉ acc.map Prod.fst →
    Val.insert k v acc = acc ++ [(k, v)] := by
  intro acc
  induction acc with
  | nil => intro _; rfl
  | cons p r ih =>
    intro h
    obtain ⟨k', v'⟩ := p
    simp only [List.map_cons, List.mem_cons, not_or] at h
    simp only [Val.insert, h.1, if_false, List.cons_append, ih h.2]

theorem foldl_insert_nodup : ∀ (kvs acc : List (String × Val)),
    (acc.map Prod.fst ++ kvs.map Prod.fst).Nodup →
    kvs.foldl (fun acc (kv : String × Val) => Val.insert kv.1 kv.2 acc) acc = acc ++ kvs := by
  intro kvs
  induction kvs with
  | nil => intro acc _; simp
  | cons p r ih =>
    intro acc h
    obtain ⟨k, v⟩ := p
    have hk : k ∉ acc.map Prod.fst := by
      intro hm
      have := List.nodup_append.mp h
      exact this.2.2 k hm k (by simp) rfl
    simp only [List.foldl_cons, insert_fresh k v acc hk]
    rw [ih]
    · simp
    · simpa [List.map_append, List.append_assoc] using h

/-- assigning distinct keys one after the other just lists them -/
theorem assignAll_nodup (kvs : List (String × Val)) (h : (kvs.map Prod.fst).Nodup) : assignAll kvs = kvs := by
  unfold assignAll
  rw [foldl_insert_nodup kvs [] (by simpa using h)]
  simp


/-! ### cutting at a separator -/

theorem indexOfGo_sep (c : Char) (b : List Char) : ∀ (a : List Char) (i : Nat), c ∉ a →
    CV.indexOfGo [c] (a ++ c :: b) i = some (i + a.length) := by
  intro a
  induction a with
  | nil => intro i _; simp [CV.indexOfGo, List.isPrefixOf]
  | cons x r ih =>
    intro i h
    have hx : x ≠ c := fun e => h (by simp [e])
    have hr : c ∉ r := fun m => h (List.mem_cons_of_mem _ m)
    simp only [List.cons_append, CV.indexOfGo, List.isPrefixOf]
    have : (c == x) = false := by simpa using fun e => hx e.symm
    simp only [this, Bool.false_and, Bool.false_eq_true, if_false]
    rw [ih (i + 1) hr]
    simp only [List.length_cons]
    congr 1
    omega

theorem indexOf_sep (c : Char) (a b : List Char) (h : c ∉ a) : CV.indexOf [c] (a ++ c :: b) = some a.length := by
  unfold CV.indexOf
  rw [indexOfGo_sep c b a 0 h]
  simp

theorem indexOfGo_none (c : Char) : ∀ (a : List Char) (i : Nat), c ∉ a → CV.indexOfGo [c] a i = none := by
  intro a
  induction a with
  | nil => intro i _; simp [CV.indexOfGo]
  | cons x r ih =>
    intro i h
    have hx : x ≠ c := fun e => h (by simp [e])
    have hr : c ∉ r := fun m => h (List.mem_cons_of_mem _ m)
    simp only [CV.indexOfGo, List.isPrefixOf]
    have : (c == x) = false := by simpa using fun e => hx e.symm
    simp only [this, Bool.false_and, Bool.false_eq_true, if_false]
    exact ih (i + 1) hr

/-- cutting `id=rest` at the first `=` when the id has none -/
theorem cutEq_join (a b : String) (h : '=' ∉ a.toList) : cutEq (a ++ "=" ++ b) = (a, b, true) := by
  unfold cutEq
  have h1 : (a ++ "=" ++ b).toList = a.toList ++ '=' :: b.toList := by
    simp [String.toList_append]
  simp only [h1, indexOf_sep '=' a.toList b.toList h]
  simp

/-! ### ssh keys -/

theorem mapOut_map {α : Type} (f : Val → Out) (g : α → Val) (h : α → Val) (hf : ∀ x, f (g x) = .ok (h x)) :
    ∀ xs : List α, mapOut f (xs.map g) = .ok (xs.map h) := by
  intro xs
  induction xs with
  | nil => rfl
  | cons x r ih => simp [mapOut, hf, ih]

def sshVal (k : String × String) : Val := mkSSHKey k.1 k.2
def sshLine (k : String × String) : Val := .str (sshShort k.1 k.2)
def sshEnt (k : String × String) : String × Val := (k.1, if k.2 = "" ∧ k.1 = "default" then .null else .str k.2)

theorem marshalY_SSHKey_val (k : String × String) : marshalY_SSHKey (sshVal k) = .ok (sshLine k) := by
  simp [marshalY_SSHKey, sshVal, sshLine, mkSSHKey, getStr, Val.lookup]

theorem cutEq_default : cutEq "default" = ("default", "", false) := by decide

theorem sshEntry_line (k : String × String) (h : '=' ∉ k.1.toList) : sshEntry (sshLine k) = .ok (sshEnt k) := by
  obtain ⟨i, p⟩ := k
  simp only [sshLine, sshShort, sshEnt]
  by_cases hd : p = "" ∧ i = "default"
  · obtain ⟨hp, hi⟩ := hd
    subst hp hi
    simp [sshEntry, cutEq_default]
  · simp only [hd, if_false, sshEntry, cutEq_join i p h]
    simp

theorem sshEntries_lines : ∀ ks : List (String × String), (∀ k ∈ ks, '=' ∉ k.1.toList) →
    sshEntries (ks.map sshLine) = .ok (ks.map sshEnt) := by
  intro ks
  induction ks with
  | nil => intro _; rfl
  | cons k r ih =>
    intro h
    have h1 := sshEntry_line k (h k (List.mem_cons_self ..))
    have h2 := ih (fun k' hm => h k' (List.mem_cons_of_mem _ hm))
    simp [sshEntries, h1, h2, bind, Except.bind, pure, Except.pure]

theorem sshEnt_back (k : String × String) :
    (fun (x : String × Val) => mkSSHKey x.1 (match x.2 with | .null => "" | p => sprint p)) (sshEnt k) = sshVal k := by
  obtain ⟨i, p⟩ := k
  simp only [sshEnt, sshVal]
  by_cases hd : p = "" ∧ i = "default"
  · simp [hd]
  · simp [hd, sprint, Val.fmtV]

/-- ssh keys: every list of keys with distinct ids free of `=` survives both renderings -/
theorem roundtrip_SSHConfig (ks : List (String × String)) (hnd : (ks.map Prod.fst).Nodup)
    (heq : ∀ k ∈ ks, '=' ∉ k.1.toList) :
    (marshalY_SSHConfig (.seq (ks.map sshVal))).bind decode_SSHConfig = .ok (.seq (ks.map sshVal)) := by
  have hm := mapOut_map marshalY_SSHKey sshVal sshLine marshalY_SSHKey_val ks
  simp only [marshalY_SSHConfig, hm, Out.bind, decode_SSHConfig, sshEntries_lines ks heq]
  have hk : ((ks.map sshEnt).map Prod.fst).Nodup := by
    have : (ks.map sshEnt).map Prod.fst = ks.map Prod.fst := by
      simp [List.map_map, sshEnt, Function.comp_def]
    rw [this]; exact hnd
  rw [assignAll_nodup _ hk]
  congr 2
  rw [List.map_map]
  apply List.map_congr_left
  intro k _
  exact sshEnt_back k

/-! ### extra_hosts -/

abbrev HEnt := String × List String

def entVal (e : HEnt) : String × Val := (e.1, .seq (e.2.map Val.str))
def entLines (e : HEnt) : List String := e.2.map (joinHost e.1)

/-- a well-formed address: no comma (it would be split) and no enclosing brackets (they would be stripped) -/
def ipOK (ip : String) : Prop := ',' ∉ ip.toList ∧ stripBrackets ip = ip

/-- a well-formed entry: a non-empty host name without `:` or `=`, at least one address, every address well-formed -/
def entOK (e : HEnt) : Prop :=
  e.1 ≠ "" ∧ ':' ∉ e.1.toList ∧ '=' ∉ e.1.toList ∧ e.2 ≠ [] ∧ ∀ ip ∈ e.2, ipOK ip

theorem strsOf_strs : ∀ l : List String, strsOf (l.map Val.str) = l := by
  intro l; induction l with
  | nil => rfl
  | cons x r ih => simp [strsOf, ih]

theorem hostLines_ents : ∀ es : List HEnt, hostLines (es.map entVal) = es.flatMap entLines := by
  intro es; induction es with
  | nil => rfl
  | cons e r ih =>
    obtain ⟨h, ips⟩ := e
    simp [hostLines, entVal, entLines, strsOf_strs, ih]

theorem splitOnChar_none (c : Char) : ∀ cs : List Char, c ∉ cs → splitOnChar c cs = [cs] := by
  intro cs; induction cs with
  | nil => intro _; rfl
  | cons x r ih =>
    intro h
    have hx : x ≠ c := fun e => h (by simp [e])
    have hr : c ∉ r := fun m => h (List.mem_cons_of_mem _ m)
    have := ih hr
    unfold splitOnChar at this ⊢
    simp only [List.foldr_cons, this, hx, if_false]

theorem splitComma_none (ip : String) (h : ',' ∉ ip.toList) : splitComma ip = [ip] := by
  simp [splitComma, splitOnChar_none ',' ip.toList h]

theorem cutHost_join (h ip : String) (hh : '=' ∉ h.toList) : cutHost (joinHost h ip) = some (h, ip) := by
  unfold cutHost joinHost
  have h1 : (h ++ "=" ++ ip).toList = h.toList ++ '=' :: ip.toList := by simp [String.toList_append]
  simp only [h1, indexOf_sep '=' h.toList ip.toList hh]
  simp

theorem addHost_fresh (h : String) (l : List String) : ∀ acc : List HEnt, h ∉ acc.map Prod.fst →
    addHost h l acc = acc ++ [(h, l)] := by
  intro acc; induction acc with
  | nil => intro _; rfl
  | cons p r ih =>
    intro hm
    obtain ⟨h', l'⟩ := p
    simp only [List.map_cons, List.mem_cons, not_or] at hm
    simp only [addHost, hm.1, if_false, List.cons_append, ih hm.2]

theorem addHost_last (h : String) (l0 l : List String) : ∀ acc : List HEnt, h ∉ acc.map Prod.fst →
    addHost h l (acc ++ [(h, l0)]) = acc ++ [(h, l0 ++ l)] := by
  intro acc; induction acc with
  | nil => intro _; simp [addHost]
  | cons p r ih =>
    intro hm
    obtain ⟨h', l'⟩ := p
    simp only [List.map_cons, List.mem_cons, not_or] at hm
    simp only [List.cons_append, addHost, hm.1, if_false, ih hm.2]

/-- reading the remaining lines of one host appends its addresses to the entry already opened at the end -/
theorem hostsFromLines_more (h : String) (hh : '=' ∉ h.toList) (rest : List String) :
    ∀ (ips l0 : List String) (acc : List HEnt), h ∉ acc.map Prod.fst → (∀ ip ∈ ips, ipOK ip) →
      hostsFromLines (ips.map (joinHost h) ++ rest) (acc ++ [(h, l0)]) = hostsFromLines rest (acc ++ [(h, l0 ++ ips)]) := by
  intro ips; induction ips with
  | nil => intro l0 acc _ _; simp
  | cons ip r ih =>
    intro l0 acc hm hok
    have hip := hok ip (List.mem_cons_self ..)
    simp only [List.map_cons, List.cons_append, hostsFromLines, cutHost_join h ip hh, splitComma_none ip hip.1,
      addHost_last h l0 [ip] acc hm]
    rw [ih (l0 ++ [ip]) acc hm (fun ip' hm' => hok ip' (List.mem_cons_of_mem _ hm'))]
    simp

/-- reading all the lines of one well-formed host adds exactly its entry -/
theorem hostsFromLines_ent (e : HEnt) (he : entOK e) (rest : List String) (acc : List HEnt) (hm : e.1 ∉ acc.map Prod.fst) :
    hostsFromLines (entLines e ++ rest) acc = hostsFromLines rest (acc ++ [e]) := by
  obtain ⟨h, ips⟩ := e
  obtain ⟨_, _, heq, hne, hok⟩ := he
  cases ips with
  | nil => exact absurd rfl hne
  | cons ip r =>
    have hip := hok ip (List.mem_cons_self ..)
    simp only [entLines, List.map_cons, List.cons_append, hostsFromLines, cutHost_join h ip heq, splitComma_none ip hip.1,
      addHost_fresh h [ip] acc hm]
    have := hostsFromLines_more h heq rest r [ip] acc hm (fun ip' hm' => hok ip' (List.mem_cons_of_mem _ hm'))
    simpa using this

theorem hostsFromLines_ents : ∀ (es acc : List HEnt), (∀ e ∈ es, entOK e) →
    (acc.map Prod.fst ++ es.map Prod.fst).Nodup →
    hostsFromLines (es.flatMap entLines) acc = .ok (acc ++ es) := by
  intro es; induction es with
  | nil => intro acc _ _; simp [hostsFromLines]
  | cons e r ih =>
    intro acc hok hnd
    have hm : e.1 ∉ acc.map Prod.fst := by
      intro hmem
      have := List.nodup_append.mp hnd
      exact this.2.2 e.1 hmem e.1 (by simp) rfl
    simp only [List.flatMap_cons]
    rw [hostsFromLines_ent e (hok e (List.mem_cons_self ..)) _ acc hm]
    rw [ih (acc ++ [e]) (fun e' hm' => hok e' (List.mem_cons_of_mem _ hm'))]
    · simp
    · simpa [List.map_append, List.append_assoc] using hnd

theorem badHost_ok (e : HEnt) (he : entOK e) : badHost e.1 = false := by
  obtain ⟨h1, h2, h3, _, _⟩ := he
  simp only [badHost, Bool.or_eq_false_iff, beq_eq_false_iff_ne, ne_eq, List.any_eq_false]
  refine ⟨h1, ?_⟩
  intro c hc
  simp only [Bool.or_eq_true, beq_iff_eq, not_or]
  exact ⟨fun e => h2 (e ▸ hc), fun e => h3 (e ▸ hc)⟩

theorem cleanupHosts_ok (es : List HEnt) (hok : ∀ e ∈ es, entOK e) : cleanupHosts es = .ok (.map (es.map entVal)) := by
  have hb : es.any (fun p => badHost p.1) = false := by
    simp only [List.any_eq_false]
    intro e he
    simp [badHost_ok e (hok e he)]
  simp only [cleanupHosts, hb, Bool.false_eq_true, if_false]
  congr 2
  apply List.map_congr_left
  intro e he
  obtain ⟨h, ips⟩ := e
  simp only [entVal]
  congr 2
  apply List.map_congr_left
  intro ip hip
  have := (hok (h, ips) he).2.2.2.2 ip hip
  simp [this.2]

theorem strs_scalar : ∀ l : List String, (l.map Val.str).all isScalar = true := by
  intro l; induction l with
  | nil => rfl
  | cons x r ih => simp [isScalar, ih]

theorem sprint_strs : ∀ l : List String, (l.map Val.str).map sprint = l := by
  intro l; induction l with
  | nil => rfl
  | cons x r ih => simpa [sprint, Val.fmtV] using ih

/-- reading back the lines of any list of well-formed entries with distinct hosts gives that list -/
theorem decode_hostLines (es : List HEnt) (hok : ∀ e ∈ es, entOK e) (hnd : (es.map Prod.fst).Nodup) :
    decode_HostsList (.seq ((hostLines (es.map entVal)).map Val.str)) = .ok (.map (es.map entVal)) := by
  simp only [decode_HostsList, strs_scalar, Bool.not_true, Bool.false_eq_true, if_false, sprint_strs, hostLines_ents]
  rw [hostsFromLines_ents es [] hok (by simpa using hnd)]
  simp [cleanupHosts_ok es hok]

/-- the marshaller's ordering of the entries, on typed entries -/
def insertH (e : HEnt) : List HEnt → List HEnt
  | [] => [e]
  | x :: r => if e.1 ++ "=" ≤ x.1 ++ "=" then e :: x :: r else x :: insertH e r

def sortH (l : List HEnt) : List HEnt := l.foldr insertH []

theorem insertEntry_map (e : HEnt) : ∀ l : List HEnt, insertEntry (entVal e) (l.map entVal) = (insertH e l).map entVal := by
  intro l; induction l with
  | nil => rfl
  | cons x r ih =>
    simp only [List.map_cons, insertEntry, insertH]
    by_cases h : e.1 ++ "=" ≤ x.1 ++ "="
    · have h' : (entVal e).1 ++ "=" ≤ (entVal x).1 ++ "=" := h
      simp [h, h']
    · have h' : ¬ ((entVal e).1 ++ "=" ≤ (entVal x).1 ++ "=") := h
      simp [h, h', ih]

theorem sortEntries_map : ∀ l : List HEnt, sortEntries (l.map entVal) = (sortH l).map entVal := by
  intro l; induction l with
  | nil => rfl
  | cons x r ih =>
    simp only [List.map_cons, sortEntries, sortH, List.foldr_cons] at ih ⊢
    rw [ih, insertEntry_map]

theorem insertH_perm (e : HEnt) : ∀ l : List HEnt, (insertH e l).Perm (e :: l) := by
  intro l; induction l with
  | nil => exact List.Perm.refl _
  | cons x r ih =>
    simp only [insertH]
    split
    · exact List.Perm.refl _
    · exact (List.Perm.cons x ih).trans (List.Perm.swap e x r)

theorem sortH_perm : ∀ l : List HEnt, (sortH l).Perm l := by
  intro l; induction l with
  | nil => exact List.Perm.refl _
  | cons x r ih =>
    simp only [sortH, List.foldr_cons] at ih ⊢
    exact (insertH_perm x _).trans (List.Perm.cons x ih)

/-- **extra_hosts**: every mapping of distinct well-formed hosts to non-empty lists of well-formed addresses reloads
    to the same mapping (entries in the marshaller's order, each host's addresses in their own order) -/
theorem roundtrip_HostsList (es : List HEnt) (hok : ∀ e ∈ es, entOK e) (hnd : (es.map Prod.fst).Nodup) :
    (marshal_HostsList (.map (es.map entVal))).bind decode_HostsList = .ok (.map ((sortH es).map entVal)) := by
  simp only [marshal_HostsList, Out.bind, sortEntries_map]
  have hp := sortH_perm es
  apply decode_hostLines
  · intro e he; exact hok e (hp.mem_iff.mp he)
  · exact (hp.map Prod.fst).nodup_iff.mpr hnd

end CV.Marshal
