import ComposeVerif.Model.Marshal
/-! Helper lemmas for C09: decimal text round trip, string containers. -/
namespace CV.Marshal
open CV

/-! ### decimal digits -/

theorem digitChar_val : ∀ d, d < 10 → (digitChar d).toNat - 48 = d := by decide

theorem digitChar_isDigit : ∀ d, d < 10 → isDigit (digitChar d) = true := by decide

theorem natDigitsAux_fold (f : Nat) : ∀ n acc, n < f →
    (natDigitsAux f n acc).foldl (fun a c => a * 10 + (c.toNat - 48)) 0
      = acc.foldl (fun a c => a * 10 + (c.toNat - 48)) n := by
  induction f with
  | zero => intro n acc h; omega
  | succ f ih =>
    intro n acc h
    unfold natDigitsAux
    split
    · next hlt => simp [List.foldl, digitChar_val n hlt]
    · next hge =>
      have h1 : n / 10 < f := by omega
      rw [ih (n / 10) _ h1]
      have h2 : n % 10 < 10 := Nat.mod_lt _ (by decide)
      simp only [List.foldl, digitChar_val _ h2]
      congr 1
      omega

theorem natDigitsAux_all (f : Nat) : ∀ n acc, acc.all isDigit = true → (natDigitsAux f n acc).all isDigit = true := by
  induction f with
  | zero => intro n acc h; simpa [natDigitsAux] using h
  | succ f ih =>
    intro n acc h
    unfold natDigitsAux
    split
    · next hlt => simp [List.all_cons, digitChar_isDigit n hlt, h]
    · next hge =>
      apply ih
      have h2 : n % 10 < 10 := Nat.mod_lt _ (by decide)
      simp [List.all_cons, digitChar_isDigit _ h2, h]

theorem natDigitsAux_ne_nil (f : Nat) : ∀ n acc, acc ≠ [] ∨ 0 < f → natDigitsAux f n acc ≠ [] := by
  induction f with
  | zero => intro n acc h; rcases h with h | h <;> simp_all [natDigitsAux]
  | succ f ih =>
    intro n acc _
    unfold natDigitsAux
    split
    · simp
    · exact ih _ _ (Or.inl (by simp))

theorem digitsVal_natDigits (n : Nat) : digitsVal (natDigits n) = n := by
  unfold digitsVal natDigits
  rw [natDigitsAux_fold (n + 1) n [] (by omega)]
  rfl

/-- the decimal text of a natural number parses back to it -/
theorem parseNat_natDigits (n : Nat) : parseNat? (natDigits n) = some n := by
  have h1 : (natDigits n).all isDigit = true := natDigitsAux_all _ _ _ (by rfl)
  have h2 : natDigits n ≠ [] := natDigitsAux_ne_nil _ _ _ (Or.inr (by omega))
  have h3 : (natDigits n).isEmpty = false := by
    cases h : natDigits n with
    | nil => exact absurd h h2
    | cons _ _ => rfl
  simp [parseNat?, h1, h3, digitsVal_natDigits]

/-! ### string containers -/

theorem allStr_scalar : ∀ xs : List Val, allStr xs = true → xs.all isScalar = true := by
  intro xs
  induction xs with
  | nil => intro _; rfl
  | cons x r ih =>
    intro h
    cases x <;> simp_all [allStr, isScalar]

theorem allStr_sprint : ∀ xs : List Val, allStr xs = true → xs.map (fun x => Val.str (sprint x)) = xs := by
  intro xs
  induction xs with
  | nil => intro _; rfl
  | cons x r ih =>
    intro h
    cases x <;> simp_all [allStr, sprint, Val.fmtV]

theorem allStrVals_scalar : ∀ kvs : List (String × Val), allStrVals kvs = true → (kvs.map Prod.snd).all isScalar = true := by
  intro kvs
  induction kvs with
  | nil => intro _; rfl
  | cons p r ih =>
    intro h
    obtain ⟨k, v⟩ := p
    cases v with
    | str s =>
      simp only [allStrVals] at h
      simp only [List.map_cons, List.all_cons, ih h]
      rfl
    | _ => simp [allStrVals] at h

theorem allStrVals_sprint : ∀ kvs : List (String × Val), allStrVals kvs = true →
    kvs.map entryStr = kvs := by
  intro kvs
  induction kvs with
  | nil => intro _; rfl
  | cons p r ih =>
    intro h
    obtain ⟨k, v⟩ := p
    cases v <;> simp_all [allStrVals, sprint, Val.fmtV, entryStr]

theorem allStrOrNullVals_scalar : ∀ kvs : List (String × Val), allStrOrNullVals kvs = true → (kvs.map Prod.snd).all isScalar = true := by
  intro kvs
  induction kvs with
  | nil => intro _; rfl
  | cons p r ih =>
    intro h
    obtain ⟨k, v⟩ := p
    cases v with
    | str s =>
      simp only [allStrOrNullVals] at h
      simp only [List.map_cons, List.all_cons, ih h]
      rfl
    | null =>
      simp only [allStrOrNullVals] at h
      simp only [List.map_cons, List.all_cons, ih h]
      rfl
    | _ => simp [allStrOrNullVals] at h

theorem allStrOrNullVals_sprint : ∀ kvs : List (String × Val), allStrOrNullVals kvs = true →
    kvs.map entryPtr = kvs := by
  intro kvs
  induction kvs with
  | nil => intro _; rfl
  | cons p r ih =>
    intro h
    obtain ⟨k, v⟩ := p
    cases v <;> simp_all [allStrOrNullVals, sprint, Val.fmtV, entryPtr]

end CV.Marshal
