import ComposeVerif.Model.C11Pipeline
import ComposeVerif.Lemmas.C11Top
import ComposeVerif.Lemmas.C11Walk
/-! cross-stage lemmas for `Props/C11Stages.lean`: what one defaulting stage leaves of the fixed points of the others -/
namespace CV.C11
open CV CV.Val

/-! ### A. the walker is the identity where no row of the table matches -/

/-- no row matches `q` or any path below it (`q` is at least two parts long, so `Next` appends) -/
def Quiet (tbl : List (List String × String)) (q : TPath) : Prop :=
  2 ≤ q.length ∧ ∀ l, TPath.firstMatch tbl (q ++ l) = none

theorem next_of_long {q : TPath} (h : 2 ≤ q.length) (k : String) :
    q.next k = q ++ [k.replace "." TPath.ghost] := by
  unfold TPath.next
  have : q ≠ TPath.root := by
    intro e; rw [e] at h; simp [TPath.root] at h
  simp [this]

theorem Quiet.next {tbl : List (List String × String)} {q : TPath} (h : Quiet tbl q) (k : String) :
    Quiet tbl (q.next k) := by
  rw [next_of_long h.1]
  refine ⟨by have := h.1; simp only [List.length_append, List.length_cons, List.length_nil]; omega, fun l => ?_⟩
  rw [List.append_assoc]
  exact h.2 _

mutual
theorem setDefaults_quiet (tbl : List (List String × String)) :
    ∀ (v : Val) (q : TPath), Quiet tbl q → setDefaults tbl q v = .ok v
  | v, q, hq => by
    have hm : TPath.firstMatch tbl q = none := by simpa using hq.2 []
    unfold setDefaults
    simp only [hm]
    cases v with
    | map kvs => simp only [setDefaultsKVs_quiet tbl kvs q hq]
    | seq xs => simp only [setDefaultsList_quiet tbl xs q hq]
    | _ => rfl
theorem setDefaultsKVs_quiet (tbl : List (List String × String)) :
    ∀ (kvs : List (String × Val)) (q : TPath), Quiet tbl q → setDefaultsKVs tbl q kvs = .ok kvs
  | [], _, _ => by simp [setDefaultsKVs]
  | (k, v) :: r, q, hq => by
    rw [setDefaultsKVs]
    simp only [setDefaults_quiet tbl v (q.next k) (hq.next k), setDefaultsKVs_quiet tbl r q hq]
theorem setDefaultsList_quiet (tbl : List (List String × String)) :
    ∀ (xs : List Val) (q : TPath), Quiet tbl q → setDefaultsList tbl q xs = .ok xs
  | [], _, _ => by simp [setDefaultsList]
  | v :: r, q, hq => by
    rw [setDefaultsList]
    simp only [setDefaults_quiet tbl v (q.next "[]") (hq.next "[]"), setDefaultsList_quiet tbl r q hq]
end

/-! ### B. the walker on a mapping, entry by entry -/

theorem setDefaultsKVs_fixed_iff (tbl : List (List String × String)) (p : TPath) :
    ∀ kvs : List (String × Val), setDefaultsKVs tbl p kvs = .ok kvs ↔
      ∀ kv ∈ kvs, setDefaults tbl (p.next kv.1) kv.2 = .ok kv.2
  | [] => by simp [setDefaultsKVs]
  | (k, v) :: r => by
    have ih := setDefaultsKVs_fixed_iff tbl p r
    rw [setDefaultsKVs]
    constructor
    · intro h
      cases hv : setDefaults tbl (p.next k) v with
      | ok w =>
        simp only [hv] at h
        cases hr : setDefaultsKVs tbl p r with
        | ok r' =>
          simp only [hr, Out.ok.injEq, List.cons.injEq, Prod.mk.injEq, true_and] at h
          obtain ⟨hw, hr'⟩ := h
          subst hw; subst hr'
          intro kv hkv
          rcases List.mem_cons.mp hkv with e | e
          · subst e; exact hv
          · exact (ih.mp hr) kv e
        | err e => simp [hr] at h
        | panic s => simp [hr] at h
      | err e => simp [hv] at h
      | panic s => simp [hv] at h
    · intro h
      have hv := h (k, v) (List.mem_cons_self)
      have hr := ih.mpr (fun kv hkv => h kv (List.mem_cons_of_mem _ hkv))
      simp only at hv
      simp only [hv, hr]

theorem mem_of_setDefaultsKVs (tbl : List (List String × String)) (p : TPath) :
    ∀ (kvs kvs' : List (String × Val)), setDefaultsKVs tbl p kvs = .ok kvs' →
      ∀ b ∈ kvs', ∃ a ∈ kvs, a.1 = b.1 ∧ setDefaults tbl (p.next a.1) a.2 = .ok b.2
  | [], kvs', h => by
    simp only [setDefaultsKVs, Out.ok.injEq] at h; subst h; intro b hb; cases hb
  | (k, v) :: r, kvs', h => by
    rw [setDefaultsKVs] at h
    cases hv : setDefaults tbl (p.next k) v with
    | ok w =>
      simp only [hv] at h
      cases hr : setDefaultsKVs tbl p r with
      | ok r' =>
        simp only [hr, Out.ok.injEq] at h
        subst h
        intro b hb
        rcases List.mem_cons.mp hb with e | e
        · subst e; exact ⟨(k, v), List.mem_cons_self, rfl, hv⟩
        · obtain ⟨a, ha, h1, h2⟩ := mem_of_setDefaultsKVs tbl p r r' hr b e
          exact ⟨a, List.mem_cons_of_mem _ ha, h1, h2⟩
      | err e => simp [hr] at h
      | panic s => simp [hr] at h
    | err e => simp [hv] at h
    | panic s => simp [hv] at h

/-! ### C. `Canonical` on the attributes of a service, entry by entry -/

/-- the attribute is left alone by the canonical transformer registered for it -/
def AttrCanon (k : String) (v : Val) : Prop :=
  (k = "depends_on" → transformDependsOn v = .ok v) ∧ (k = "env_file" → transformEnvFile v = .ok v)

theorem canonSvcAttrs_fixed_iff : ∀ s : List (String × Val),
    canonSvcAttrs s = .ok s ↔ ∀ kv ∈ s, AttrCanon kv.1 kv.2
  | [] => by simp [canonSvcAttrs]
  | (k, v) :: r => by
    have ih := canonSvcAttrs_fixed_iff r
    simp only [canonSvcAttrs, List.mem_cons, forall_eq_or_imp]
    rw [← ih]
    by_cases h1 : k = "depends_on"
    · have h2 : k ≠ "env_file" := by rw [h1]; decide
      simp only [AttrCanon, h1, if_true, true_implies, show ¬ ("depends_on" = "env_file") by decide, false_implies, and_true]
      cases hv : transformDependsOn v with
      | ok w =>
        simp only
        cases hr : canonSvcAttrs r with
        | ok r' => simp
        | err e => simp
        | panic x => simp
      | err e => simp
      | panic x => simp
    · by_cases h2 : k = "env_file"
      · simp only [AttrCanon, h2, show ¬ ("env_file" = "depends_on") by decide, if_false, if_true, false_implies, true_implies, true_and]
        cases hv : transformEnvFile v with
        | ok w =>
          simp only
          cases hr : canonSvcAttrs r with
          | ok r' => simp
          | err e => simp
          | panic x => simp
        | err e => simp
        | panic x => simp
      · simp only [AttrCanon, h1, h2, if_false, false_implies, and_self, true_and]
        cases hr : canonSvcAttrs r with
        | ok r' => simp
        | err e => simp
        | panic x => simp

/-! ### D. a canonical `depends_on` stays canonical when `Normalize` adds the implied entries -/

/-- every entry is a mapping that already has `condition` and `required` -/
def CanonDeps (deps : KVs) : Prop := ∀ kv ∈ deps, ∃ d, kv.2 = .map d ∧ depDefaults d = d

theorem map_eq_self_iff {α : Type} (f : α → α) : ∀ l : List α, l.map f = l ↔ ∀ x ∈ l, f x = x
  | [] => by simp
  | a :: r => by simp [map_eq_self_iff f r]

theorem transformDependsOn_fixed_iff (deps : KVs) :
    transformDependsOn (.map deps) = .ok (.map deps) ↔ CanonDeps deps := by
  simp only [transformDependsOn]
  unfold CanonDeps
  constructor
  · intro h
    by_cases hall : (deps.all fun kv => isMap kv.2) = true
    · simp only [hall, if_true, Out.ok.injEq, Val.map.injEq] at h
      have hp := (map_eq_self_iff _ deps).mp h
      intro kv hkv
      have h1 := hp kv hkv
      have h2 := List.all_eq_true.mp hall kv hkv
      obtain ⟨k, v⟩ := kv
      cases v with
      | map d =>
        simp only [depDefaultsV, Prod.mk.injEq, Val.map.injEq, true_and] at h1
        exact ⟨d, rfl, h1⟩
      | _ => simp [isMap] at h2
    · simp only [hall] at h
      simp at h
  · intro h
    have hall : (deps.all fun kv => isMap kv.2) = true := by
      apply List.all_eq_true.mpr
      intro kv hkv
      obtain ⟨d, hd, _⟩ := h kv hkv
      rw [hd]; rfl
    simp only [hall, if_true, Out.ok.injEq, Val.map.injEq]
    apply (map_eq_self_iff _ deps).mpr
    intro kv hkv
    obtain ⟨d, hd, hdd⟩ := h kv hkv
    obtain ⟨k, v⟩ := kv
    simp only at hd
    subst hd
    simp [depDefaultsV, hdd]

theorem depEntry_canon (r : Bool) : ∃ d, depEntry r = .map d ∧ depDefaults d = d :=
  ⟨_, rfl, by simp [depDefaults, setIfAbsent, lookup]⟩

theorem mem_insert_cases {k : String} {v : Val} : ∀ {m : KVs} {x : String × Val}, x ∈ insert k v m → x ∈ m ∨ x = (k, v)
  | [], x, h => by simp [Val.insert] at h; exact .inr h
  | (k', v') :: r, x, h => by
    by_cases hk : k = k'
    · simp only [Val.insert, hk, if_true, List.mem_cons] at h
      rcases h with e | e
      · exact .inr (by rw [e, hk])
      · exact .inl (List.mem_cons_of_mem _ e)
    · simp only [Val.insert, hk, if_false, List.mem_cons] at h
      rcases h with e | e
      · exact .inl (by rw [e]; exact List.mem_cons_self)
      · rcases mem_insert_cases e with e' | e'
        · exact .inl (List.mem_cons_of_mem _ e')
        · exact .inr e'

theorem mem_setIfAbsent_cases {k : String} {v : Val} {m : KVs} {x : String × Val} (h : x ∈ setIfAbsent k v m) :
    x ∈ m ∨ x = (k, v) := by
  unfold setIfAbsent at h
  cases hl : lookup k m with
  | some y => simp only [hl] at h; exact .inl h
  | none => simp only [hl] at h; exact mem_insert_cases h

theorem canonDeps_addDeps : ∀ (ks : List (String × Val)) (deps : KVs),
    (∀ ke ∈ ks, ∃ r, ke.2 = depEntry r) → CanonDeps deps → CanonDeps (addDeps ks deps)
  | [], deps, _, hd => hd
  | ke :: ks, deps, hk, hd => by
    show CanonDeps (addDeps ks (addDep ke.1 ke.2 deps))
    apply canonDeps_addDeps ks _ (fun x hx => hk x (List.mem_cons_of_mem _ hx))
    intro kv hkv
    rcases mem_setIfAbsent_cases hkv with e | e
    · exact hd kv e
    · obtain ⟨r, hr⟩ := hk ke List.mem_cons_self
      rw [e]; simp only; rw [hr]; exact depEntry_canon r

theorem impliedList_vals (s : KVs) : ∀ ke ∈ impliedList s, ∃ r, ke.2 = depEntry r := by
  intro ke h
  unfold impliedList at h
  rcases List.mem_append.mp h with h | h
  · simp only [linkDeps, List.mem_map] at h
    obtain ⟨l, _, e⟩ := h
    exact ⟨true, by rw [← e]⟩
  · rcases List.mem_append.mp h with h | h
    · simp only [nsDeps, List.mem_filterMap] at h
      obtain ⟨ns, _, e⟩ := h
      unfold nsDep at e
      split at e
      · split at e
        · simp only [Option.some.injEq] at e; exact ⟨true, by rw [← e]⟩
        · cases e
      · cases e
    · simp only [vfDeps, List.mem_filterMap] at h
      obtain ⟨v, _, e⟩ := h
      unfold vfDep at e
      split at e
      · cases e
      · simp only [Option.some.injEq] at e; exact ⟨false, by rw [← e]⟩

theorem mem_of_lookup {k : String} {v : Val} : ∀ {m : KVs}, lookup k m = some v → (k, v) ∈ m
  | [], h => by simp [lookup] at h
  | (k', v') :: r, h => by
    by_cases hk : k = k'
    · simp only [lookup, hk, if_true, Option.some.injEq] at h
      rw [hk, ← h]; exact List.mem_cons_self
    · simp only [lookup, hk, if_false] at h
      exact List.mem_cons_of_mem _ (mem_of_lookup h)

/-! ### E. where the entries of a normalised service come from -/

theorem mem_nnService {s : KVs} {x : String × Val} (h : x ∈ nnService s) : x ∈ s ∨ x = ("networks", defaultNet) := by
  unfold nnService at h
  split at h
  · exact .inl h
  · split at h
    · exact mem_insert_cases h
    · exact mem_insert_cases h
    · exact .inl h

theorem mem_normService (clean : String → String) (env : Env) {t : KVs} {x : String × Val}
    (h : x ∈ normService clean env t) :
    (∃ kv ∈ t, x = (kv.1, svcAttr clean env kv.1 kv.2)) ∨ x = ("depends_on", .map (impliedDeps t)) := by
  unfold normService setDeps at h
  have hm : ∀ y, y ∈ mapAt (svcAttr clean env) t → ∃ kv ∈ t, y = (kv.1, svcAttr clean env kv.1 kv.2) := by
    intro y hy
    simp only [mapAt, List.mem_map] at hy
    obtain ⟨kv, hkv, e⟩ := hy
    exact ⟨kv, hkv, e.symm⟩
  split at h
  · exact .inl (hm x h)
  · rename_i d r hd
    rcases mem_insert_cases h with e | e
    · exact .inl (hm x e)
    · exact .inr (by rw [e, hd])

/-- after `Normalize` the build section has a `context`: the default handler of `SetDefaultValues` finds nothing to add -/
theorem defaultBuildContext_normBuildV (env : Env) (v : Val) :
    defaultBuildContext (normBuildV env v) = .ok (normBuildV env v) := by
  cases v with
  | map b =>
    simp only [normBuildV, defaultBuildContext]
    have : ∃ y, lookup "context" (normBuild env b) = some y := by
      unfold normBuild
      rw [lookup_normBuildArgs_ne env (by decide), lookup_dockerfileDefault_ne (by decide), lookup_setIfNil]
      simp only [Spec.filledNil, if_true]
      split <;> exact ⟨_, rfl⟩
    obtain ⟨y, hy⟩ := this
    rw [setIfAbsent_of_some hy]
  | _ => rfl

end CV.C11
