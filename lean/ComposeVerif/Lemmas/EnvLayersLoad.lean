import ComposeVerif.Model.EnvLayersLoad
import ComposeVerif.Lemmas.EnvLayers
/-! helper lemmas for `Props/C16Load.lean` -/
namespace CV.EnvLayers
open CV.EnvLayers.Spec

theorem lookup_map_snd {β γ : Type} (g : β → γ) (k : Key) (m : List (Key × β)) :
    lookup k (m.map fun kv => (kv.1, g kv.2)) = (lookup k m).map g := by
  induction m with
  | nil => rfl
  | cons p r ih =>
    obtain ⟨a, b⟩ := p
    by_cases h : a = k <;> simp [lookup, h, ih]

theorem distinct_decodeLabels (yl : YLabels) : Distinct (decodeLabels yl) := by
  cases yl with
  | absent => exact distinct_nil
  | list items => exact distinct_overrideBy _ _ distinct_nil
  | map kvs => exact distinct_overrideBy _ _ distinct_nil


theorem loadEnvFiles_distinct (penv : List (Key × Str)) (fs : FS) (efs : List EnvFile) (acc res : List (Key × Str))
    (hd : Distinct acc) (h : loadEnvFiles penv fs efs acc = .ok res) : Distinct res := by
  induction efs generalizing acc with
  | nil =>
    simp only [loadEnvFiles, Except.ok.injEq] at h
    exact h ▸ hd
  | cons f r ih =>
    simp only [loadEnvFiles] at h
    cases hf : loadEnvFile fs f (envChain penv acc) with
    | error e => rw [hf] at h; cases h
    | ok vars =>
      rw [hf] at h
      exact ih _ (distinct_overrideBy _ _ hd) h

/-- pointwise value of a resolved environment in terms of the accumulated files -/
theorem lookup_resolved_env (penv acc : List (Key × Str)) (env : List (Key × Option Str)) (hd : Distinct env) (k : Key) :
    lookup k (overrideBy (toMWE acc) (resolveMWE (fun n => lookup n penv) env)) =
      match (lookup k env).map (rv penv k) with
      | some v => some v
      | none => (lookup k acc).map some := by
  rw [lookup_overrideBy k _ _ (distinct_resolveMWE _ _ hd), lookup_resolveMWE_rv, lookup_toMWE]
  cases Option.map (rv penv k) (lookup k env) <;> rfl

theorem resolveServiceEnv_of_files (penv : List (Key × Str)) (fs : FS) (d : Bool) (s : Service) (acc : List (Key × Str))
    (hl : loadEnvFiles penv fs s.envFiles [] = .ok acc) :
    resolveServiceEnv penv fs d s = .ok { s with
      environment := overrideBy (toMWE acc) (resolveMWE (fun k => lookup k penv) s.environment)
      envFiles := if d then [] else s.envFiles } := by
  unfold resolveServiceEnv
  rw [hl]

def errsOf {α : Type} (rs : List (Str × Except Err α)) : List Err :=
  rs.filterMap fun p => match p.2 with | .error e => some e | .ok _ => none

theorem firstErr_eq_head {α : Type} (rs : List (Str × Except Err α)) : firstErr rs = (errsOf rs).head? := by
  induction rs with
  | nil => rfl
  | cons p r ih =>
    obtain ⟨n, x⟩ := p
    cases x with
    | error e => simp [firstErr, errsOf]
    | ok a =>
      simp only [firstErr, ih, errsOf, List.filterMap_cons]

theorem collect_eq {α : Type} (rs : List (Str × Except Err α)) :
    (∃ r, collect rs = .ok r ∧ errsOf rs = []) ∨ (collect rs = .error (errsOf rs) ∧ errsOf rs ≠ []) := by
  unfold collect
  simp only
  split
  · rename_i h
    exact Or.inl ⟨_, rfl, List.isEmpty_iff.1 h⟩
  · rename_i h
    exact Or.inr ⟨rfl, fun hn => h (List.isEmpty_iff.2 hn)⟩


/-! ### any registry of env_file formats -/

theorem filesValGFrom_append (penv : List (Key × Str)) (fs : FS) (base : Key → Option Str) (l1 l2 : List EnvFile) :
    ∀ k, filesValGFrom penv fs base (l1 ++ l2) k = filesValGFrom penv fs (filesValGFrom penv fs base l2) l1 k := by
  induction l1 with
  | nil => intro k; rfl
  | cons x r ih =>
    intro k
    have e : filesValGFrom penv fs base (r ++ l2) = filesValGFrom penv fs (filesValGFrom penv fs base l2) r := funext ih
    simp only [List.cons_append, filesValGFrom, e]

theorem loadEnvFiles_specG (penv : List (Key × Str)) (fs : FS) (efs : List EnvFile) (acc res : List (Key × Str))
    (h : loadEnvFiles penv fs efs acc = .ok res) :
    ∀ k, lookup k res = filesValGFrom penv fs (fun n => lookup n acc) efs.reverse k := by
  induction efs generalizing acc with
  | nil =>
    simp only [loadEnvFiles, Except.ok.injEq] at h
    subst h
    exact fun k => rfl
  | cons f r ih =>
    simp only [loadEnvFiles] at h
    cases hl : loadEnvFile fs f (envChain penv acc) with
    | error e => rw [hl] at h; cases h
    | ok vars =>
      rw [hl] at h
      intro k
      rw [ih _ h k, List.reverse_cons, filesValGFrom_append]
      congr 1
      funext n
      simp only [filesValGFrom, layerVal, ← envChain_eq, hl]
      rw [lookup_overrideBy_rev]
      unfold orElse
      cases lookup n vars.reverse <;> rfl

/-! ### the label map of any run, through the `len(labels) == 0` test -/

theorem eq_nil_of_lookup_none {β : Type} (m : List (Key × β)) (h : ∀ k, lookup k m = none) : m = [] := by
  cases m with
  | nil => rfl
  | cons p r =>
    obtain ⟨a, b⟩ := p
    have := h a
    simp [lookup] at this

theorem loadLabelFiles_distinct (fs : FS) (ps : List Str) (acc res : List (Key × Str))
    (hd : Distinct acc) (h : loadLabelFiles fs ps acc = .ok res) : Distinct res := by
  induction ps generalizing acc with
  | nil =>
    simp only [loadLabelFiles, Except.ok.injEq] at h
    exact h ▸ hd
  | cons f r ih =>
    simp only [loadLabelFiles] at h
    cases hf : loadLabelFile fs f (labelChain acc) with
    | error e => rw [hf] at h; cases h
    | ok vars =>
      rw [hf] at h
      exact ih _ (distinct_overrideBy _ _ hd) h

end CV.EnvLayers
