import ComposeVerif.Model.Encode
import ComposeVerif.Spec.RoundTrip
/-! Helper lemmas for C09: the tag-driven struct encoding renders every field under its own key. -/
namespace CV.Encode
open CV CV.TypeDesc CV.Marshal

/-- the field takes part in the keyed rendering (not skipped, not an inlined extension map) -/
def keyed (fmt : Fmt) (fd : FieldDesc) : Bool := !skipOf fmt fd && !(fmt == .yaml && fd.yamlInline)

/-- no inlined extension map contributes entries (JSON: always; YAML: the extension maps are nil) -/
def NoInline (fmt : Fmt) (fds : List FieldDesc) (fs : List (String × Val)) : Prop :=
  ∀ fd ∈ fds, skipOf fmt fd = false → fmt = .yaml → fd.yamlInline = true → field fs fd.goName = .null

theorem lookup_cons_ne {k k' : String} {t : Val} {out : List (String × Val)} (h : k ≠ k') :
    Val.lookup k ((k', t) :: out) = Val.lookup k out := by
  simp [Val.lookup, h]

theorem lookup_cons_eq {k : String} {t : Val} {out : List (String × Val)} :
    Val.lookup k ((k, t) :: out) = some t := by
  simp [Val.lookup]

/-- every key of the rendering is the key of a keyed field -/
theorem encodeFields_keys (fmt : Fmt) (enc : TyExpr → Val → Out) (zero : TyExpr → Val → Bool) :
    ∀ (fds : List FieldDesc) (fs out : List (String × Val)), NoInline fmt fds fs →
      encodeFieldsWith fmt enc zero fds fs = .ok (.map out) →
      ∀ k ∈ out.map Prod.fst, k ∈ (fds.filter (keyed fmt)).map (keyOf fmt) := by
  intro fds
  induction fds with
  | nil =>
    intro fs out _ h k hk
    simp [encodeFieldsWith] at h
    subst h
    simp at hk
  | cons fd rest ih =>
    intro fs out hni h k hk
    have hni' : NoInline fmt rest fs := fun fd' hm => hni fd' (List.mem_cons_of_mem _ hm)
    unfold encodeFieldsWith at h
    simp only [] at h
    by_cases hs : skipOf fmt fd = true
    · simp only [hs, if_true] at h
      have := ih fs out hni' h k hk
      simp only [List.filter_cons, keyed, hs]
      simpa using this
    · have hs' : skipOf fmt fd = false := by simpa using hs
      simp only [hs', Bool.false_eq_true, if_false] at h
      by_cases hin : (fmt = .yaml ∧ fd.yamlInline = true)
      · obtain ⟨hy, hi⟩ := hin
        subst hy
        have hnull := hni fd (List.mem_cons_self ..) hs' rfl hi
        simp only [hi, and_self, if_true, hnull] at h
        have hrest : encodeFieldsWith .yaml enc zero rest fs = .ok (.map out) := by
          revert h
          generalize encodeFieldsWith Fmt.yaml enc zero rest fs = r
          intro h
          cases r with
          | ok v => cases v <;> simp_all
          | err c => simp_all
          | unmodelled w => simp_all
        have := ih fs out hni' hrest k hk
        simp only [List.filter_cons, keyed, hs', hi]
        simpa using this
      · simp only [hin, if_false] at h
        have hkeyed : keyed fmt fd = true := by
          simp only [keyed, hs', Bool.not_false, Bool.true_and, Bool.not_eq_true', Bool.and_eq_false_iff]
          by_cases hy : fmt = .yaml
          · right
            have : ¬ fd.yamlInline = true := fun hi => hin ⟨hy, hi⟩
            simpa using this
          · left
            simpa using hy
        by_cases hz : (omitOf fmt fd && zero fd.ty (field fs fd.goName)) = true
        · simp only [hz, if_true] at h
          have := ih fs out hni' h k hk
          simp only [List.filter_cons, hkeyed, if_true, List.map_cons, List.mem_cons]
          exact Or.inr this
        · simp only [hz, Bool.false_eq_true, if_false] at h
          cases he : enc fd.ty (field fs fd.goName) with
          | ok t =>
            cases hr : encodeFieldsWith fmt enc zero rest fs with
            | ok v =>
              cases v with
              | map out' =>
                simp only [he, hr] at h
                have ho : out = (keyOf fmt fd, t) :: out' := by
                  injection h with h; injection h with h; exact h.symm
                subst ho
                simp only [List.map_cons, List.mem_cons] at hk
                simp only [List.filter_cons, hkeyed, if_true, List.map_cons, List.mem_cons]
                rcases hk with hk | hk
                · exact Or.inl hk
                · exact Or.inr (ih fs out' hni' hr k hk)
              | _ => simp [he, hr] at h
            | err c => simp [he, hr] at h
            | unmodelled w => simp [he, hr] at h
          | err c => simp [he] at h
          | unmodelled w => simp [he] at h

/-- is the field left out of the rendering by `omitempty`? -/
def omitted (fmt : Fmt) (zero : TyExpr → Val → Bool) (fs : List (String × Val)) (fd : FieldDesc) : Bool :=
  omitOf fmt fd && zero fd.ty (field fs fd.goName)

/-- one step of the field loop, as an equation on successful renderings -/
theorem encodeFields_cons (fmt : Fmt) (enc : TyExpr → Val → Out) (zero : TyExpr → Val → Bool)
    (fd : FieldDesc) (rest : List FieldDesc) (fs out : List (String × Val))
    (hni : NoInline fmt (fd :: rest) fs)
    (h : encodeFieldsWith fmt enc zero (fd :: rest) fs = .ok (.map out)) :
    ∃ out', encodeFieldsWith fmt enc zero rest fs = .ok (.map out') ∧
      ((keyed fmt fd = true ∧ omitted fmt zero fs fd = false ∧
          ∃ t, enc fd.ty (field fs fd.goName) = .ok t ∧ out = (keyOf fmt fd, t) :: out')
       ∨ ((keyed fmt fd = false ∨ omitted fmt zero fs fd = true) ∧ out = out')) := by
  unfold encodeFieldsWith at h
  simp only [] at h
  by_cases hs : skipOf fmt fd = true
  · simp only [hs, if_true] at h
    exact ⟨out, h, Or.inr ⟨Or.inl (by simp [keyed, hs]), rfl⟩⟩
  · have hs' : skipOf fmt fd = false := by simpa using hs
    simp only [hs', Bool.false_eq_true, if_false] at h
    by_cases hin : (fmt = .yaml ∧ fd.yamlInline = true)
    · obtain ⟨hy, hi⟩ := hin
      subst hy
      have hnull := hni fd (List.mem_cons_self ..) hs' rfl hi
      simp only [hi, and_self, if_true, hnull] at h
      have hrest : encodeFieldsWith .yaml enc zero rest fs = .ok (.map out) := by
        revert h
        generalize encodeFieldsWith Fmt.yaml enc zero rest fs = r
        intro h
        cases r with
        | ok v => cases v <;> simp_all
        | err c => simp_all
        | unmodelled w => simp_all
      exact ⟨out, hrest, Or.inr ⟨Or.inl (by simp [keyed, hi]), rfl⟩⟩
    · simp only [hin, if_false] at h
      have hkeyed : keyed fmt fd = true := by
        simp only [keyed, hs', Bool.not_false, Bool.true_and, Bool.not_eq_true', Bool.and_eq_false_iff]
        by_cases hy : fmt = .yaml
        · right
          have : ¬ fd.yamlInline = true := fun hi => hin ⟨hy, hi⟩
          simpa using this
        · left
          simpa using hy
      by_cases hz : (omitOf fmt fd && zero fd.ty (field fs fd.goName)) = true
      · simp only [hz, if_true] at h
        exact ⟨out, h, Or.inr ⟨Or.inr hz, rfl⟩⟩
      · simp only [hz, Bool.false_eq_true, if_false] at h
        have hz' : omitted fmt zero fs fd = false := by simpa [omitted] using hz
        cases he : enc fd.ty (field fs fd.goName) with
        | ok t =>
          cases hr : encodeFieldsWith fmt enc zero rest fs with
          | ok v =>
            cases v with
            | map out' =>
              simp only [he, hr] at h
              have ho : out = (keyOf fmt fd, t) :: out' := by
                injection h with h; injection h with h; exact h.symm
              exact ⟨out', rfl, Or.inl ⟨hkeyed, hz', t, rfl, ho⟩⟩
            | _ => simp [he, hr] at h
          | err c => simp [he, hr] at h
          | unmodelled w => simp [he, hr] at h
        | err c => simp [he] at h
        | unmodelled w => simp [he] at h

theorem lookup_none_of_not_mem {k : String} : ∀ {out : List (String × Val)}, k ∉ out.map Prod.fst → Val.lookup k out = none := by
  intro out
  induction out with
  | nil => intro _; rfl
  | cons p r ih =>
    intro h
    obtain ⟨k', v⟩ := p
    simp only [List.map_cons, List.mem_cons, not_or] at h
    simp only [Val.lookup, h.1, if_false]
    exact ih h.2

/-- **every field is rendered under its own key, or left out exactly when `omitempty` applies to a zero value** -/
theorem encodeFields_field (fmt : Fmt) (enc : TyExpr → Val → Out) (zero : TyExpr → Val → Bool) :
    ∀ (fds : List FieldDesc) (fs out : List (String × Val)), NoInline fmt fds fs →
      ((fds.filter (keyed fmt)).map (keyOf fmt)).Nodup →
      encodeFieldsWith fmt enc zero fds fs = .ok (.map out) →
      ∀ fd ∈ fds, keyed fmt fd = true →
        (omitted fmt zero fs fd = true ∧ Val.lookup (keyOf fmt fd) out = none) ∨
        (omitted fmt zero fs fd = false ∧ ∃ t, enc fd.ty (field fs fd.goName) = .ok t ∧ Val.lookup (keyOf fmt fd) out = some t) := by
  intro fds
  induction fds with
  | nil => intro fs out _ _ _ fd hm; cases hm
  | cons hd rest ih =>
    intro fs out hni hnd h fd hm hk
    have hni' : NoInline fmt rest fs := fun fd' hm' => hni fd' (List.mem_cons_of_mem _ hm')
    obtain ⟨out', hrest, hcase⟩ := encodeFields_cons fmt enc zero hd rest fs out hni h
    have hkeys := encodeFields_keys fmt enc zero rest fs out' hni' hrest
    -- distinctness of the keys of the rest, and of the head's key from them when the head is keyed
    have hnd_rest : ((rest.filter (keyed fmt)).map (keyOf fmt)).Nodup := by
      by_cases hkh : keyed fmt hd = true
      · simp only [List.filter_cons, hkh, if_true, List.map_cons, List.nodup_cons] at hnd
        exact hnd.2
      · have : keyed fmt hd = false := by simpa using hkh
        simpa [List.filter_cons, this] using hnd
    have hhead_fresh : keyed fmt hd = true → keyOf fmt hd ∉ out'.map Prod.fst := by
      intro hkh hin
      simp only [List.filter_cons, hkh, if_true, List.map_cons, List.nodup_cons] at hnd
      exact hnd.1 (hkeys _ hin)
    rcases List.mem_cons.mp hm with heq | hmr
    · -- the field is the head
      subst heq
      rcases hcase with ⟨_, hom, t, het, hout⟩ | ⟨hor, hout⟩
      · right
        exact ⟨hom, t, het, by rw [hout]; exact lookup_cons_eq⟩
      · left
        rcases hor with hnk | hom
        · rw [hk] at hnk; cases hnk
        · exact ⟨hom, by rw [hout]; exact lookup_none_of_not_mem (hhead_fresh hk)⟩
    · -- the field is further down: the head's entry (if any) has another key
      have hrec := ih fs out' hni' hnd_rest hrest fd hmr hk
      rcases hcase with ⟨hkh, _, t, _, hout⟩ | ⟨_, hout⟩
      · have hne : keyOf fmt fd ≠ keyOf fmt hd := by
          intro heq
          simp only [List.filter_cons, hkh, if_true, List.map_cons, List.nodup_cons] at hnd
          apply hnd.1
          rw [← heq]
          exact List.mem_map.mpr ⟨fd, List.mem_filter.mpr ⟨hmr, hk⟩, rfl⟩
        rw [hout, lookup_cons_ne hne]
        exact hrec
      · rw [hout]
        exact hrec

/-! ### linking the Boolean descriptor facts of `Spec/RoundTrip.lean` to the hypotheses above -/
open CV.RoundTrip

theorem nodupB_nodup : ∀ l : List String, nodupB l = true → l.Nodup := by
  intro l
  induction l with
  | nil => intro _; exact List.nodup_nil
  | cons x r ih =>
    intro h
    simp only [nodupB, Bool.and_eq_true, Bool.not_eq_true', List.contains_eq_mem, decide_eq_false_iff_not] at h
    exact List.nodup_cons.mpr ⟨h.1, ih h.2⟩

theorem renderedYamlKeys_eq (s : StructDesc) :
    renderedYamlKeys s = (s.fields.filter (keyed .yaml)).map (keyOf .yaml) := by
  unfold renderedYamlKeys
  induction s.fields with
  | nil => rfl
  | cons fd r ih =>
    obtain ⟨gn, ty, ex, yk, ys, yo, yi, jk, js, jo⟩ := fd
    simp only [List.filterMap_cons, List.filter_cons]
    cases ex <;> cases ys <;> cases yi <;> first | exact ih | exact congrArg (List.cons yk) ih

theorem renderedJsonKeys_eq (s : StructDesc) :
    renderedJsonKeys s = (s.fields.filter (keyed .json)).map (keyOf .json) := by
  unfold renderedJsonKeys
  induction s.fields with
  | nil => rfl
  | cons fd r ih =>
    obtain ⟨gn, ty, ex, yk, ys, yo, yi, jk, js, jo⟩ := fd
    simp only [List.filterMap_cons, List.filter_cons]
    cases ex <;> cases js <;> first | exact ih | exact congrArg (List.cons jk) ih

end CV.Encode
