import ComposeVerif.Model.SecretsOpts
import ComposeVerif.Lemmas.SecretsFlow
/-!
# C20 — lemmas for the load under options (round 6): the caller's decoders of known extensions, `SkipNormalization`
-/
namespace CV.Secrets
open CV CV.Val

/-- the caller's decoders invent no tainted string: what a registered Go type makes of an untainted value is untainted -/
def DecOk (P : String → Prop) (k : KnownExt) : Prop := ∀ n v v', k.dec n v = some v' → AllStr P v → AllStr P v'

/-- the carrier key never reaches the caller's decoders: the test is in the code, or the key is not registered -/
def CarrierSafe (guard : Bool) (k : KnownExt) : Prop := guard = true ∨ k.names.contains xValue = false

/-- `RawOk_pxObj` for any `extras` mapping put back under `#extensions` -/
theorem RawOk_withExtras {P : String → Prop} {c : String} (hx : P extKey) (hce : c ≠ extKey) (p : TPath) (skip : Bool) {kvs ex : KVs}
    (h : ObjOkF P c kvs) (hex : ObjOkF P xValue ex) :
    RawOk P c (withExtras ex (pxKVs p skip kvs)) := by
  have hkeep := ObjOkF_pxKVs (c := c) hx p skip h
  constructor
  · intro k v hl _ _ hkc hke
    rw [lookup_withExtras_ne hke] at hl
    exact ObjOkF_lookup_ne hkeep hl hkc
  · intro v hl
    unfold withExtras at hl
    split at hl
    · exact ExtOk_of_AllStr (ObjOkF_lookup_ne hkeep hl (fun h => hce h.symm))
    · rw [lookup_insert_self] at hl
      cases hl
      exact hex

theorem decodeKnown_cons_ok {g : Bool} {k : KnownExt} {n : String} {v : Val} {r ex' : KVs}
    (h : decodeKnown g k ((n, v) :: r) = .ok ex') :
    ∃ v' r', ex' = (n, v') :: r' ∧ decodeKnown g k r = .ok r' ∧
      (v' = v ∨ (¬ (g = true ∧ n = xValue) ∧ k.dec n v = some v')) := by
  simp only [decodeKnown] at h
  split at h
  · cases hr : decodeKnown g k r with
    | ok r' => rw [hr] at h; simp only [Out.bind] at h; cases h; exact ⟨v, r', rfl, rfl, .inl rfl⟩
    | err e => rw [hr] at h; simp [Out.bind] at h
    | panic s => rw [hr] at h; simp [Out.bind] at h
  · rename_i hc
    split at h
    · cases h
    · rename_i v' hv
      cases hr : decodeKnown g k r with
      | ok r' =>
        rw [hr] at h; simp only [Out.bind] at h; cases h
        refine ⟨v', r', rfl, rfl, .inr ⟨?_, hv⟩⟩
        rintro ⟨rfl, rfl⟩
        simp at hc
      | err e => rw [hr] at h; simp [Out.bind] at h
      | panic s => rw [hr] at h; simp [Out.bind] at h

theorem AllStrKV_decodeKnown {P : String → Prop} {g : Bool} {k : KnownExt} (hk : DecOk P k) :
    ∀ {ex ex' : KVs}, AllStrKV P ex → decodeKnown g k ex = .ok ex' → AllStrKV P ex'
  | [], ex', _, h => by simp only [decodeKnown] at h; cases h; simp [AllStrKV]
  | (n, v) :: r, ex', ha, h => by
    obtain ⟨v', r', rfl, hr, hv⟩ := decodeKnown_cons_ok h
    simp only [AllStrKV] at ha ⊢
    refine ⟨ha.1, ?_, AllStrKV_decodeKnown hk ha.2.2 hr⟩
    rcases hv with rfl | ⟨_, hd⟩
    · exact ha.2.1
    · exact hk n v v' hd ha.2.1

/-- the loop over `extras` keeps the confinement of the taint under the carrier key -/
theorem ObjOkF_decodeKnown {P : String → Prop} {g : Bool} {k : KnownExt} (hk : DecOk P k) (hs : CarrierSafe g k) :
    ∀ {ex ex' : KVs}, ObjOkF P xValue ex → decodeKnown g k ex = .ok ex' → ObjOkF P xValue ex'
  | [], ex', _, h => by simp only [decodeKnown] at h; cases h; simp [ObjOkF]
  | (n, v) :: r, ex', ho, h => by
    by_cases hn : n = xValue
    · subst hn
      -- the carrier entry is kept as it is
      have hcond : ((g && xValue == xValue) || !k.names.contains xValue) = true := by
        rcases hs with rfl | hs
        · simp
        · rw [hs]; simp
      simp only [decodeKnown, hcond, if_true] at h
      simp only [ObjOkF, if_true] at ho
      cases hr : decodeKnown g k r with
      | ok r' =>
        rw [hr] at h; simp only [Out.bind] at h; cases h
        simp only [ObjOkF, if_true]
        exact ⟨ho.1, ho.2.1, AllStrKV_decodeKnown hk ho.2.2 hr⟩
      | err e => rw [hr] at h; simp [Out.bind] at h
      | panic s => rw [hr] at h; simp [Out.bind] at h
    · obtain ⟨v', r', rfl, hr, hv⟩ := decodeKnown_cons_ok h
      simp only [ObjOkF, hn, if_false] at ho ⊢
      refine ⟨ho.1, ?_, ObjOkF_decodeKnown hk hs ho.2.2 hr⟩
      rcases hv with rfl | ⟨_, hd⟩
      · exact ho.2.1
      · exact hk n v v' hd ho.2.1

/-- with nothing registered the loop is the identity -/
theorem decodeKnown_none (g : Bool) : ∀ ex : KVs, decodeKnown g {} ex = .ok ex
  | [] => rfl
  | (n, v) :: r => by simp [decodeKnown, decodeKnown_none g r, Out.bind]

theorem pxObjK_none (g : Bool) (p : TPath) (kvs : KVs) : pxObjK g {} p kvs = .ok (pxVal p (.map kvs)) := by
  simp [pxObjK, decodeKnown_none, Out.bind, pxVal]

theorem pxEntryK_none (g : Bool) (p : TPath) (n : String) (v : Val) : pxEntryK g {} p n v = .ok (pxVal (childPath p n v) v) := by
  cases v <;> simp [pxEntryK, pxObjK_none, childPath]

theorem decodeObjsK_none (g : Bool) (f : Val → Out FileObj) (p : TPath) :
    ∀ objs : KVs, decodeObjsK g {} f p objs = decodeObjs f (pxKVs p true objs)
  | [] => by simp [decodeObjsK, decodeObjs, pxKVs]
  | (n, v) :: r => by
    simp only [decodeObjsK, pxEntryK_none, Out.bind, decodeObjsK_none g f p r, pxKVs, Bool.not_true, Bool.false_and,
      Bool.false_eq_true, if_false, decodeObjs]
    generalize f (pxVal (childPath p n v) v) = a
    generalize decodeObjs f (pxKVs p true r) = b
    cases a <;> cases b <;> rfl

/-! ### one secret / config object through `processExtensions` with known extensions and the decode -/

theorem secret_obj_cleanK {P : String → Prop} (hx : P extKey) (hemp : P "") (hnil : P "<nil>") (hcut : CutClosed P)
    {g : Bool} {k : KnownExt} (hk : DecOk P k) (hs : CarrierSafe g k) {p : TPath} {kvs : KVs} (h : ObjOkF P xValue kvs)
    {o : FileObj} (hd : (pxObjK g k p kvs).bind decodeSecret = .ok o) : o.CleanBut P ∧ o.marshallContent = false := by
  unfold pxObjK at hd
  cases he : decodeKnown g k (extrasOf (isUserDefined p) kvs) with
  | ok ex =>
    rw [he] at hd
    simp only [Out.bind, decodeSecret] at hd
    have hex := ObjOkF_decodeKnown hk hs (ObjOkF_extrasOf h _) he
    have hraw := RawOk_withExtras (c := xValue) hx xValue_ne_extKey p (isUserDefined p) h hex
    obtain ⟨hr, hc⟩ := RawOk_hook hraw
    refine ⟨CleanBut_decodeFields hemp hnil hcut (.inl rfl) hr hc hd, ?_⟩
    unfold decodeFields at hd
    split at hd
    · split at hd
      · cases hd; rfl
      · cases hd
    · cases hd
  | err e => rw [he] at hd; simp [Out.bind] at hd
  | panic s => rw [he] at hd; simp [Out.bind] at hd

theorem config_obj_cleanX {P : String → Prop} (hx : P extKey) (hemp : P "") (hnil : P "<nil>") (hcut : CutClosed P) {p : TPath} {kvs ex : KVs} (h : ObjOkF P "content" kvs)
    (hexA : AllStrKV P ex)
    (hl : CfgLink P kvs) {o : FileObj} (hd : decodeConfig (.map (withExtras ex (pxKVs p (isUserDefined p) kvs))) = .ok o) :
    o.CleanBut P ∧ (o.environment ≠ "" ∨ OptP P o.content) := by
  simp only [decodeConfig] at hd
  have hkeep := ObjOkF_pxKVs (c := "content") hx p (isUserDefined p) h
  have hraw := RawOk_withExtras (c := "content") hx (by decide) p (isUserDefined p) h (ObjOkF_of_AllStrKV hexA)
  have hclean : ExtClean P (withExtras ex (pxKVs p (isUserDefined p) kvs)) := by
    intro m hm
    unfold withExtras at hm
    split at hm
    · have := ObjOkF_lookup_ne hkeep hm (by decide)
      simpa [AllStr] using this
    · rw [lookup_insert_self] at hm
      cases hm
      exact hexA
  refine ⟨CleanBut_decodeFields hemp hnil hcut (.inr rfl) hraw hclean hd, ?_⟩
  -- what the decode read for `environment` and `content`
  have lk : ∀ k, k ≠ extKey → isExtKey k = false →
      Val.lookup k (withExtras ex (pxKVs p (isUserDefined p) kvs)) =
        (Val.lookup k kvs).map (fun v => pxVal (childPath p k v) v) := by
    intro k h1 h2
    rw [lookup_withExtras_ne h1, lookup_pxKVs p _ h2]
  unfold decodeFields at hd
  split at hd
  · rename_i name file environment content external labels driver driverOpts templateDriver extensions h1 h2 h3 h4 _ h6 h7 h8 h9 h10
    split at hd
    · cases hd
      simp only
      rcases hl with hc | ⟨e, he, hne⟩
      · right
        unfold contentField at h4
        split at h4
        · rename_i v hv
          unfold strField at h4
          rw [hv] at h4
          rw [lk "content" (by decide) isExtKey_content] at hv
          cases hv0 : Val.lookup "content" kvs with
          | none => simp [hv0] at hv
          | some v0 =>
            simp only [hv0, Option.map_some, Option.some.injEq] at hv
            have hcl := AllStr_pxVal hx (childPath p "content" v0) v0 (hc v0 hv0)
            rw [hv] at hcl
            cases v <;> simp at h4
            · exact .inl h4
            · subst h4; exact .inr (by simpa [AllStr] using hcl)
            · subst h4; exact .inr (by simpa [AllStr] using hcl)
        · rename_i hnone
          unfold strField at h4
          split at h4
          · cases h4; exact .inl rfl
          · cases h4; exact .inl rfl
          · rename_i s hs
            cases h4
            rw [lookup_withExtras_ne (by decide)] at hs
            exact .inr (by simpa [AllStr] using ObjOkF_lookup_ne hkeep hs (by decide))
          · rename_i i hs
            cases h4
            rw [lookup_withExtras_ne (by decide)] at hs
            exact .inr (by simpa [AllStr] using ObjOkF_lookup_ne hkeep hs (by decide))
          · cases h4
      · left
        unfold strField at h3
        rw [lk "environment" (by decide) isExtKey_environment, he] at h3
        simp only [Option.map_some, pxVal] at h3
        cases h3
        exact hne
    · cases hd
  · cases hd

theorem config_obj_cleanK {P : String → Prop} (hx : P extKey) (hemp : P "") (hnil : P "<nil>") (hcut : CutClosed P)
    {g : Bool} {k : KnownExt} (hk : DecOk P k) {p : TPath} {kvs : KVs} (h : ObjOkF P "content" kvs) (hl : CfgLink P kvs)
    {o : FileObj} (hd : (pxObjK g k p kvs).bind decodeConfig = .ok o) :
    o.CleanBut P ∧ (o.environment ≠ "" ∨ OptP P o.content) := by
  unfold pxObjK at hd
  cases he : decodeKnown g k (extrasOf (isUserDefined p) kvs) with
  | ok ex =>
    rw [he] at hd
    simp only [Out.bind] at hd
    have hexA : AllStrKV P (extrasOf (isUserDefined p) kvs) := by
      unfold extrasOf
      split
      · simp [AllStrKV]
      · exact AllStrKV_filter_of_ObjOkF h _ (fun v => by simpa using isExtKey_content)
    exact config_obj_cleanX hx hemp hnil hcut h (AllStrKV_decodeKnown hk hexA he) hl hd
  | err e => rw [he] at hd; simp [Out.bind] at hd
  | panic s => rw [he] at hd; simp [Out.bind] at hd

/-! ### entries of a section (a resource that is not a mapping: only possible with `SkipNormalization`) -/

theorem forall_decodeObjsK {Q2 : String → Val → Prop} {Q3 : String → FileObj → Prop} (g : Bool) (k : KnownExt)
    (f : Val → Out FileObj) (p : TPath)
    (step : ∀ n v o, Q2 n v → (pxEntryK g k p n v).bind f = .ok o → Q3 n o) :
    ∀ {objs : KVs} {l : List (String × FileObj)}, decodeObjsK g k f p objs = .ok l →
      (∀ e ∈ objs, Q2 e.1 e.2) → ∀ e ∈ l, Q3 e.1 e.2
  | [], l, h, _ => by simp [decodeObjsK] at h; subst h; simp
  | (n, v) :: r, l, h, hq => by
    simp only [decodeObjsK] at h
    simp only [List.forall_mem_cons] at hq
    split at h <;> try (cases h; done)
    rename_i o r' h1 h2
    cases h
    simp only [List.forall_mem_cons]
    exact ⟨step n v o hq.1 h1, forall_decodeObjsK g k f p step h2 hq.2⟩

theorem CleanBut_default {P : String → Prop} : FileObj.CleanBut P {} :=
  ⟨.inl rfl, .inl rfl, .inl rfl, by simp [StrMapOk], .inl rfl, by simp [StrMapOk], .inl rfl, by simp [AllStrKV]⟩

theorem secret_entry_cleanK {P : String → Prop} (hx : P extKey) (hemp : P "") (hnil : P "<nil>") (hcut : CutClosed P)
    {g : Bool} {k : KnownExt} (hk : DecOk P k) (hs : CarrierSafe g k) {p : TPath} {n : String} {v : Val}
    (h : ValOkF P xValue v) {o : FileObj} (hd : (pxEntryK g k p n v).bind decodeSecret = .ok o) :
    o.CleanBut P ∧ o.marshallContent = false := by
  cases v with
  | map kvs => exact secret_obj_cleanK hx hemp hnil hcut hk hs h hd
  | null => simp only [pxEntryK, pxVal, Out.bind, decodeSecret] at hd; cases hd; exact ⟨CleanBut_default, rfl⟩
  | seq xs => simp [pxEntryK, pxVal, Out.bind, decodeSecret] at hd
  | _ => simp [pxEntryK, pxVal, Out.bind, decodeSecret] at hd

theorem config_entry_cleanK {P : String → Prop} (hx : P extKey) (hemp : P "") (hnil : P "<nil>") (hcut : CutClosed P)
    {g : Bool} {k : KnownExt} (hk : DecOk P k) {p : TPath} {n : String} {v : Val}
    (h : ValOkF P "content" v) (hl : ∀ kvs, v = .map kvs → CfgLink P kvs) {o : FileObj}
    (hd : (pxEntryK g k p n v).bind decodeConfig = .ok o) :
    o.CleanBut P ∧ (o.environment ≠ "" ∨ OptP P o.content) := by
  cases v with
  | map kvs => exact config_obj_cleanK hx hemp hnil hcut hk h (hl kvs rfl) hd
  | null =>
    simp only [pxEntryK, pxVal, Out.bind, decodeConfig] at hd; cases hd
    exact ⟨CleanBut_default, .inr (.inl rfl)⟩
  | seq xs => simp [pxEntryK, pxVal, Out.bind, decodeConfig] at hd
  | _ => simp [pxEntryK, pxVal, Out.bind, decodeConfig] at hd

end CV.Secrets
