import ComposeVerif.Lemmas.TravInvS
/-!
# C13, round 6 — who handles which vertex

The caller of `walk` loops over the extremities (vertices without prerequisite), the coordinator over the successors of
finished vertices (which have a prerequisite): nobody competes with the caller, so its readiness test always succeeds
and its claim always wins — the branches `ready.M:not-ready` / `enter.M:lost` of `Trav.step?` are unreachable (the label
coverage of the tie leaves exactly these two out).  Needs `post ⊆ pre⁻¹` (`GraphOK` has the other inclusion).
-/
set_option linter.unusedSimpArgs false
set_option linter.unusedVariables false
namespace CV.Trav

/-- the vertices a scheduling goroutine still holds: its current one and the rest of its list -/
def schedVs : Option Sched → List V
  | none => []
  | some ⟨t, .next⟩ => t
  | some ⟨t, .ready v⟩ => v :: t
  | some ⟨t, .enter v⟩ => v :: t
  | some ⟨t, .spawn v⟩ => v :: t

/-- … those it has not claimed yet -/
def pendVs : Option Sched → List V
  | none => []
  | some ⟨t, .next⟩ => t
  | some ⟨t, .ready v⟩ => v :: t
  | some ⟨t, .enter v⟩ => v :: t
  | some ⟨t, .spawn _⟩ => t

/-- the caller only handles vertices without prerequisite, the coordinator only vertices with one; so nobody competes
with the caller for a vertex: what it has not claimed yet is still `absent` -/
structure InvM (g : Graph) (s : St) : Prop where
  mExt : ∀ v ∈ schedVs s.m, g.pre v = []
  cInner : ∀ v ∈ schedVs s.cSched, g.pre v ≠ []
  mNodup : (schedVs s.m).Nodup
  mAbsent : ∀ v ∈ pendVs s.m, s.status v = .absent

theorem pendVs_sub (x : Option Sched) : ∀ v ∈ pendVs x, v ∈ schedVs x := by
  intro v hv
  match x, hv with
  | some ⟨t, .next⟩, hv => exact hv
  | some ⟨t, .ready u⟩, hv => exact hv
  | some ⟨t, .enter u⟩, hv => exact hv
  | some ⟨t, .spawn u⟩, hv => exact List.mem_cons_of_mem _ hv

theorem init_invM (g : Graph) (hg : GraphOK g) : InvM g (init g) := by
  refine ⟨?_, ?_, ?_, ?_⟩
  · intro v hv
    simp only [init, schedVs, List.mem_filter] at hv
    simpa using hv.2
  · intro v hv; simp [init, schedVs] at hv
  · simp only [init, schedVs]; exact hg.nodup.filter _
  · intro v hv; simp [init]

theorem invM_step {g : Graph} {lim : Option Nat} {s s' : St} {l : Label} (hpp : ∀ v u, u ∈ g.post v → v ∈ g.pre u)
    (h : Step g lim s l s') (hA : InvA s) (hI : InvM g s) : InvM g s' := by
  obtain ⟨h1, h2, h3, h4⟩ := hI
  cases h with
  | @schedNext w todo v hs hv =>
    cases w with
    | M =>
      have hm : s.m = some ⟨todo, .next⟩ := hs
      simp only [hm, schedVs, pendVs] at h1 h3 h4
      refine ⟨?_, by simpa [putSched] using h2, ?_, ?_⟩
      · intro u hu
        simp only [putSched, schedVs, List.mem_cons] at hu
        rcases hu with rfl | hu
        · exact h1 _ hv
        · exact h1 _ (List.mem_of_mem_erase hu)
      · simp only [putSched, schedVs, List.nodup_cons]
        exact ⟨fun hx => (List.Nodup.mem_erase_iff h3).mp hx |>.1 rfl, h3.erase v⟩
      · intro u hu
        simp only [putSched, pendVs, List.mem_cons] at hu
        rcases hu with rfl | hu
        · exact h4 _ hv
        · exact h4 _ (List.mem_of_mem_erase hu)
    | C =>
      have hc := (getSched_C_some hs).2
      simp only [hc, schedVs] at h2
      refine ⟨by simpa [putSched] using h1, ?_, by simpa [putSched] using h3, by simpa [putSched] using h4⟩
      intro u hu
      simp only [putSched, schedVs, List.mem_cons] at hu
      rcases hu with rfl | hu
      · exact h2 _ hv
      · exact h2 _ (List.mem_of_mem_erase hu)
  | @schedEnd w hs =>
    cases w with
    | M => exact ⟨by simp [putSched, schedVs], by simpa [putSched] using h2, by simp [putSched, schedVs], by simp [putSched, pendVs]⟩
    | C => exact ⟨by simpa [putSched] using h1, by simp [putSched, schedVs], by simpa [putSched] using h3, by simpa [putSched] using h4⟩
  | @readyT w todo v hs _ =>
    cases w with
    | M =>
      have hm : s.m = some ⟨todo, .ready v⟩ := hs
      simp only [hm, schedVs, pendVs] at h1 h3 h4
      exact ⟨by simpa [putSched, schedVs] using h1, by simpa [putSched] using h2, by simpa [putSched, schedVs] using h3,
        by simpa [putSched, pendVs] using h4⟩
    | C =>
      have hc := (getSched_C_some hs).2
      simp only [hc, schedVs] at h2
      exact ⟨by simpa [putSched] using h1, by simpa [putSched, schedVs] using h2, by simpa [putSched] using h3,
        by simpa [putSched] using h4⟩
  | @readyF w todo v hs _ =>
    cases w with
    | M =>
      have hm : s.m = some ⟨todo, .ready v⟩ := hs
      simp only [hm, schedVs, pendVs] at h1 h3 h4
      exact ⟨fun u hu => h1 u (List.mem_cons_of_mem _ (by simpa [putSched, schedVs] using hu)), by simpa [putSched] using h2,
        by simpa [putSched, schedVs] using (List.nodup_cons.mp h3).2,
        fun u hu => h4 u (List.mem_cons_of_mem _ (by simpa [putSched, pendVs] using hu))⟩
    | C =>
      have hc := (getSched_C_some hs).2
      simp only [hc, schedVs] at h2
      exact ⟨by simpa [putSched] using h1, fun u hu => h2 u (List.mem_cons_of_mem _ (by simpa [putSched, schedVs] using hu)),
        by simpa [putSched] using h3, by simpa [putSched] using h4⟩
  | @enterT w todo v hs habs =>
    cases w with
    | M =>
      have hm : s.m = some ⟨todo, .enter v⟩ := hs
      simp only [hm, schedVs, pendVs] at h1 h3 h4
      refine ⟨by simpa [putSched, schedVs] using h1, by simpa [putSched] using h2, by simpa [putSched, schedVs] using h3, ?_⟩
      intro u hu
      have hu' : u ∈ todo := by simpa [putSched, pendVs] using hu
      have hne : u ≠ v := fun e => (List.nodup_cons.mp h3).1 (e ▸ hu')
      simp only [putSched, setStatus, hne, if_false]
      exact h4 u (List.mem_cons_of_mem _ hu')
    | C =>
      have hc := (getSched_C_some hs).2
      have hv : g.pre v ≠ [] := h2 v (by simp [hc, schedVs])
      simp only [hc, schedVs] at h2
      refine ⟨by simpa [putSched] using h1, by simpa [putSched, schedVs] using h2, by simpa [putSched] using h3, ?_⟩
      intro u hu
      have hu' : u ∈ pendVs s.m := by simpa [putSched] using hu
      have hne : u ≠ v := fun e => hv (e ▸ h1 u (pendVs_sub _ u hu'))
      simp only [putSched, setStatus, hne, if_false]
      exact h4 u hu'
  | @enterF w todo v hs _ =>
    cases w with
    | M =>
      have hm : s.m = some ⟨todo, .enter v⟩ := hs
      simp only [hm, schedVs, pendVs] at h1 h3 h4
      exact ⟨fun u hu => h1 u (List.mem_cons_of_mem _ (by simpa [putSched, schedVs] using hu)), by simpa [putSched] using h2,
        by simpa [putSched, schedVs] using (List.nodup_cons.mp h3).2,
        fun u hu => h4 u (List.mem_cons_of_mem _ (by simpa [putSched, pendVs] using hu))⟩
    | C =>
      have hc := (getSched_C_some hs).2
      simp only [hc, schedVs] at h2
      exact ⟨by simpa [putSched] using h1, fun u hu => h2 u (List.mem_cons_of_mem _ (by simpa [putSched, schedVs] using hu)),
        by simpa [putSched] using h3, by simpa [putSched] using h4⟩
  | @spawn w todo v hs _ =>
    cases w with
    | M =>
      have hm : s.m = some ⟨todo, .spawn v⟩ := hs
      simp only [hm, schedVs, pendVs] at h1 h3 h4
      exact ⟨fun u hu => h1 u (List.mem_cons_of_mem _ (by simpa [putSched, schedVs] using hu)), by simpa [putSched] using h2,
        by simpa [putSched, schedVs] using (List.nodup_cons.mp h3).2,
        fun u hu => h4 u (by simpa [putSched, pendVs] using hu)⟩
    | C =>
      have hc := (getSched_C_some hs).2
      simp only [hc, schedVs] at h2
      exact ⟨by simpa [putSched] using h1, fun u hu => h2 u (List.mem_cons_of_mem _ (by simpa [putSched, schedVs] using hu)),
        by simpa [putSched] using h3, by simpa [putSched] using h4⟩
  | wBeginSkip _ _ => exact ⟨h1, h2, h3, h4⟩
  | wBegin _ _ => exact ⟨h1, h2, h3, h4⟩
  | wReturn _ => exact ⟨h1, h2, h3, h4⟩
  | @wDone v e hw =>
    refine ⟨h1, h2, h3, ?_⟩
    intro u hu
    have hne : u ≠ v := fun e' => hA.worker_status (mem_of_wpc hw) (e' ▸ h4 u hu)
    simp only [setStatus, hne, if_false]
    exact h4 u hu
  | wSend _ => exact ⟨h1, h2, h3, h4⟩
  | wExit _ => exact ⟨h1, h2, h3, h4⟩
  | cRecvLast _ _ _ _ => exact ⟨h1, h2, h3, h4⟩
  | @cRecvMore v rest _ _ _ _ =>
    refine ⟨h1, ?_, h3, h4⟩
    intro u hu
    have hu' : u ∈ g.post v := by simpa [schedVs] using hu
    exact List.ne_nil_of_mem (hpp v u hu')
  | cCtxDone _ _ _ _ => exact ⟨h1, h2, h3, h4⟩
  | extCancel _ => exact ⟨h1, h2, h3, h4⟩

theorem reach_invM {g : Graph} {lim : Option Nat} (hg : GraphOK g) (hpp : ∀ v u, u ∈ g.post v → v ∈ g.pre u) {s : St}
    (h : Reach g lim s) : InvM g s := by
  induction h with
  | init => exact init_invM g hg
  | step hr hs ih => exact invM_step hpp (step?_sound hs) (reach_inv hg hr).a ih

end CV.Trav
