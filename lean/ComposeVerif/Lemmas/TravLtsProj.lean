import ComposeVerif.Lemmas.TravLts
import ComposeVerif.Lemmas.TravProj
/-!
# C13, round 6 — chains of `depends_on` edges of a project and the prerequisite chains of the graph `walk` runs on
-/
namespace CV.TravProj
open CV.DepGraph CV.Trav

/-- `a` depends on `b` through a chain `a → m₁ → … → b` of `depends_on` edges between enabled services whose
intermediate services satisfy `vis` (are visited, i.e. not skipped by the root selection) -/
inductive DependsVia (p : Proj) (vis : Name → Prop) : Name → Name → Prop
  | one {a b : Name} : b ∈ depAdj p a → DependsVia p vis a b
  | cons {a m b : Name} : m ∈ depAdj p a → vis m → DependsVia p vis m b → DependsVia p vis a b

theorem preChain_of_dependsVia_fwd {p : Proj} {g : Graph} (hpre : ∀ v d, d ∈ g.pre v ↔ d ∈ depAdj p v) {a b : Name}
    (hc : DependsVia p (fun m => g.skip m = false) a b) : PreChain g b a := by
  induction hc with
  | one hab => exact .one ((hpre _ _).mpr hab)
  | cons ham hvis _ ih => exact .cons ih hvis ((hpre _ _).mpr ham)

theorem preChain_of_dependsVia_rev {p : Proj} {g : Graph} (hpre : ∀ v d, d ∈ g.pre v ↔ v ∈ depAdj p d) {a b : Name}
    (hc : DependsVia p (fun m => g.skip m = false) a b) : PreChain g a b := by
  induction hc with
  | one hab => exact .one ((hpre _ _).mpr hab)
  | cons ham hvis _ ih => exact preChain_left ((hpre _ _).mpr ham) hvis ih

end CV.TravProj
