import ComposeVerif.Model.ShortTransform
/-!
# `transform.Canonical(dict, ignoreParseError)`: the flag only forgives (C08, round 6)

`opts.SkipInterpolation` is handed to `transform.Canonical` as `ignoreParseError` (a short form that still holds `${…}`
cannot be parsed yet).  Over C03's model `CV.Short.transform` (read-only use): whatever the strict walk (`ign = false`)
accepts, the lenient walk (`ign = true`) accepts with the same result.  Used by `Props/C08Whole.load_on_ok_imp_off_ok`.
-/
namespace CV.Short
open CV

theorem transformVolumeMount_mono (v r : Val) (h : transformVolumeMount false v = .ok r) :
    transformVolumeMount true v = .ok r := by
  cases v <;> simp only [transformVolumeMount] at h ⊢ <;> try exact h
  split at h
  · simp at h
  · exact h

theorem transformDeviceMapping_mono (v r : Val) (h : transformDeviceMapping false v = .ok r) :
    transformDeviceMapping true v = .ok r := by
  cases v <;> simp only [transformDeviceMapping] at h ⊢ <;> try exact h
  split at h <;> first | exact h | simp at h

theorem portEntries_strict_some : ∀ (l acc : List Val), portEntries false l acc ≠ none
  | [], acc => by simp [portEntries]
  | .int i :: r, acc => by
    simp only [portEntries]; split
    · simp
    · exact portEntries_strict_some r _
  | .str s :: r, acc => by
    simp only [portEntries]; split
    · simp
    · exact portEntries_strict_some r _
  | .map m :: r, acc => by simp only [portEntries]; exact portEntries_strict_some r _
  | .null :: r, acc => by simp [portEntries]
  | .bool _ :: r, acc => by simp [portEntries]
  | .float _ :: r, acc => by simp [portEntries]
  | .seq _ :: r, acc => by simp [portEntries]

theorem portEntries_mono : ∀ (l acc res : List Val), portEntries false l acc = some (.ok res) →
    portEntries true l acc = some (.ok res)
  | [], acc, res, h => by simpa [portEntries] using h
  | .int i :: r, acc, res, h => by
    simp only [portEntries] at h ⊢
    split at h
    · simp at h
    · exact portEntries_mono r _ res h
  | .str s :: r, acc, res, h => by
    simp only [portEntries] at h ⊢
    split at h
    · simp at h
    · exact portEntries_mono r _ res h
  | .map m :: r, acc, res, h => by
    simp only [portEntries] at h ⊢; exact portEntries_mono r _ res h
  | .null :: r, acc, res, h => by simp [portEntries] at h
  | .bool _ :: r, acc, res, h => by simp [portEntries] at h
  | .float _ :: r, acc, res, h => by simp [portEntries] at h
  | .seq _ :: r, acc, res, h => by simp [portEntries] at h

theorem transformPorts_mono (v r : Val) (h : transformPorts false v = .ok r) : transformPorts true v = .ok r := by
  cases v <;> simp only [transformPorts] at h ⊢ <;> try exact h
  rename_i l
  cases hp : portEntries false l [] with
  | none => exact absurd hp (portEntries_strict_some l [])
  | some o =>
    rw [hp] at h
    cases o with
    | ok res => simp only [portEntries_mono l [] res hp]; exact h
    | err e => simp at h
    | panic e => simp at h

theorem kvList_strict_some : ∀ (l : List Val) (acc : Val.KVs), kvList false l acc ≠ none
  | [], acc => by simp [kvList]
  | .str s :: r, acc => by
    simp only [kvList]; split
    · simp
    · exact kvList_strict_some r _
  | .map _ :: r, acc => by simp [kvList]
  | .int _ :: r, acc => by simp [kvList]
  | .null :: r, acc => by simp [kvList]
  | .bool _ :: r, acc => by simp [kvList]
  | .float _ :: r, acc => by simp [kvList]
  | .seq _ :: r, acc => by simp [kvList]

theorem kvList_mono : ∀ (l : List Val) (acc res : Val.KVs), kvList false l acc = some (.ok res) →
    kvList true l acc = some (.ok res)
  | [], acc, res, h => by simpa [kvList] using h
  | .str s :: r, acc, res, h => by
    simp only [kvList] at h ⊢
    split at h
    · simp at h
    · exact kvList_mono r _ res h
  | .map _ :: r, acc, res, h => by simp [kvList] at h
  | .int _ :: r, acc, res, h => by simp [kvList] at h
  | .null :: r, acc, res, h => by simp [kvList] at h
  | .bool _ :: r, acc, res, h => by simp [kvList] at h
  | .float _ :: r, acc, res, h => by simp [kvList] at h
  | .seq _ :: r, acc, res, h => by simp [kvList] at h

theorem transformKeyValue_mono (v r : Val) (h : transformKeyValue false v = .ok r) : transformKeyValue true v = .ok r := by
  cases v <;> simp only [transformKeyValue] at h ⊢ <;> try exact h
  rename_i l
  cases hp : kvList false l [] with
  | none => exact absurd hp (kvList_strict_some l [])
  | some o =>
    rw [hp] at h
    cases o with
    | ok res => simp only [kvList_mono l [] res hp]; exact h
    | err e => simp at h
    | panic e => simp at h

/-- every non-recursing handler: what the strict reading accepts, the lenient reading accepts with the same result -/
theorem leaf_mono (hd : Option String) (v r : Val) (h : leaf hd false v = .ok r) : leaf hd true v = .ok r := by
  cases hd with
  | none => exact h
  | some n =>
    by_cases h1 : n = "transformKeyValue"
    · subst h1; simp [leaf] at h ⊢; exact transformKeyValue_mono v r h
    by_cases h2 : n = "transformVolumeMount"
    · subst h2; simp [leaf] at h ⊢; exact transformVolumeMount_mono v r h
    by_cases h3 : n = "transformDeviceMapping"
    · subst h3; simp [leaf] at h ⊢; exact transformDeviceMapping_mono v r h
    by_cases h4 : n = "transformPorts"
    · subst h4; simp [leaf] at h ⊢; exact transformPorts_mono v r h
    simp only [leaf, h1, h2, h3, h4, if_false] at h ⊢
    exact h

theorem bindOut_ok {α β : Type} (o : Out α) (f : α → Out β) (b : β) (h : bindOut o f = .ok b) :
    ∃ a, o = .ok a ∧ f a = .ok b := by
  cases o with
  | ok a => exact ⟨a, rfl, h⟩
  | err e => simp [bindOut] at h
  | panic e => simp [bindOut] at h

mutual
theorem transform_mono : ∀ (v : Val) (p : TPath) (r : Val), transform false p v = .ok r → transform true p v = .ok r
  | .map m, p, r, h => by
    simp only [transform] at h ⊢
    split at h
    · rename_i hr
      simp only [hr, if_true]
      obtain ⟨m', hm, hp⟩ := bindOut_ok _ _ _ h
      rw [transformKVs_mono m p m' hm]; exact hp
    · rename_i hr
      simp only [hr]
      exact leaf_mono _ _ _ h
  | .seq l, p, r, h => by
    simp only [transform] at h ⊢
    split at h
    · rename_i hr
      simp only [hr, if_true]
      obtain ⟨l', hl, hp⟩ := bindOut_ok _ _ _ h
      rw [transformSeq_mono l p l' hl]; exact hp
    · rename_i hr
      simp only [hr, if_false]
      exact leaf_mono _ _ _ h
  | .null, p, r, h => by simp only [transform] at h ⊢; exact leaf_mono _ _ _ h
  | .bool _, p, r, h => by simp only [transform] at h ⊢; exact leaf_mono _ _ _ h
  | .int _, p, r, h => by simp only [transform] at h ⊢; exact leaf_mono _ _ _ h
  | .float _, p, r, h => by simp only [transform] at h ⊢; exact leaf_mono _ _ _ h
  | .str _, p, r, h => by simp only [transform] at h ⊢; exact leaf_mono _ _ _ h
theorem transformKVs_mono : ∀ (m : Val.KVs) (p : TPath) (r : Val.KVs), transformKVs false p m = .ok r →
    transformKVs true p m = .ok r
  | [], p, r, h => by simpa [transformKVs] using h
  | (k, e) :: rest, p, r, h => by
    simp only [transformKVs] at h ⊢
    cases ht : transform false (TPath.nextK p k) e with
    | ok t =>
      rw [ht] at h
      cases hr : transformKVs false p rest with
      | ok r' =>
        rw [hr] at h
        simp only [transform_mono e _ t ht, transformKVs_mono rest p r' hr]; exact h
      | err x => rw [hr] at h; simp at h
      | panic x => rw [hr] at h; simp at h
    | err x => rw [ht] at h; simp at h
    | panic x => rw [ht] at h; simp at h
theorem transformSeq_mono : ∀ (l : List Val) (p : TPath) (r : List Val), transformSeq false p l = .ok r →
    transformSeq true p l = .ok r
  | [], p, r, h => by simpa [transformSeq] using h
  | e :: rest, p, r, h => by
    simp only [transformSeq] at h ⊢
    cases ht : transform false (TPath.nextK p "[]") e with
    | ok t =>
      rw [ht] at h
      cases hr : transformSeq false p rest with
      | ok r' =>
        rw [hr] at h
        simp only [transform_mono e _ t ht, transformSeq_mono rest p r' hr]; exact h
      | err x => rw [hr] at h; simp at h
      | panic x => rw [hr] at h; simp at h
    | err x => rw [ht] at h; simp at h
    | panic x => rw [ht] at h; simp at h
end

/-- **`Canonical`'s flag only forgives**: a tree the strict walk accepts is accepted by the lenient walk, same result -/
theorem canonical_mono (v r : Val) (h : canonical false v = .ok r) : canonical true v = .ok r :=
  transform_mono v TPath.root r h

end CV.Short
