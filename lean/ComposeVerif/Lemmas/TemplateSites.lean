import ComposeVerif.Model.TemplateSites
/-! helper lemmas for `Props/C07Sites.lean`: lookups in merged Go maps -/
namespace CV.Template.Sites

theorem mlookup_append (m n : GoMap) (k : Str) :
    mlookup (m ++ n) k = match mlookup m k with | some v => some v | none => mlookup n k := by
  induction m with
  | nil => simp [mlookup]
  | cons p r ih =>
    obtain ⟨k', v⟩ := p
    by_cases h : k' = k
    · simp [mlookup, h]
    · simp [mlookup, h, ih]

theorem mlookup_mergeStep (m : GoMap) (kv : Str × Str) (k : Str) :
    mlookup (mergeStep m kv) k =
      match mlookup m k with
      | some v => some v
      | none => if kv.1 = k then some kv.2 else none := by
  unfold mergeStep
  cases h : mlookup m kv.1 with
  | some x =>
    simp only
    cases hk : mlookup m k with
    | some v => rfl
    | none =>
      by_cases e : kv.1 = k
      · subst e; rw [h] at hk; cases hk
      · simp [e]
  | none =>
    simp only [mlookup_append]
    cases hk : mlookup m k with
    | some v => rfl
    | none => simp [mlookup]

theorem mlookup_merge (m o : GoMap) (k : Str) :
    mlookup (merge m o) k = match mlookup m k with | some v => some v | none => mlookup o k := by
  unfold merge
  induction o generalizing m with
  | nil => cases h : mlookup m k <;> simp [mlookup, h]
  | cons kv r ih =>
    simp only [List.foldl_cons]
    rw [ih (mergeStep m kv), mlookup_mergeStep]
    obtain ⟨k', v⟩ := kv
    cases hk : mlookup m k with
    | some x => rfl
    | none =>
      by_cases e : k' = k
      · simp [mlookup, e]
      · simp [mlookup, e]

theorem lookup_includeChain (e : GoMap) (fs : List GoMap) (k : Str) :
    mlookup (includeChain e fs) k = layered (e :: fs) k := by
  induction fs generalizing e with
  | nil => cases h : mlookup e k <;> simp [includeChain, layered, h]
  | cons f r ih =>
    simp only [includeChain, includeEnv]
    rw [ih (merge e f)]
    simp only [layered, mlookup_merge]
    cases mlookup e k <;> rfl

end CV.Template.Sites
