import ComposeVerif.Lemmas.Locked
/-!
# Termination measure of the mutex-protected sections (`Model/Locked.lean`)

`cost s t` = the number of primitive steps goroutine `t` still has to take; every step of `t` lowers it by one and leaves
the cost of every other goroutine unchanged.  Helper lemmas only; the property theorems are in `Props/C19Conc.lean`.
-/
namespace CV.Locked

variable {σ Tid : Type} [DecidableEq Tid]

/-- primitive steps goroutine `t` still has to take -/
def cost (s : St σ Tid) (t : Tid) : Nat :=
  match s.pc t with
  | .out => 4 * (s.rest t).length
  | .holding => 4 * (s.rest t).tail.length + 3
  | .loaded _ => 4 * (s.rest t).tail.length + 2
  | .written => 4 * (s.rest t).tail.length + 1

def mu (threads : List Tid) (s : St σ Tid) : Nat := (threads.map (cost s)).sum

/-- the goroutine a label belongs to -/
def tidOf : Label Tid → Tid
  | .lock t => t | .read t => t | .write t => t | .unlock t => t

theorem cost_step {locked : Bool} {s s' : St σ Tid} {l : Label Tid} (h : step? locked s l = some s') :
    cost s' (tidOf l) + 1 = cost s (tidOf l) ∧ ∀ u, u ≠ tidOf l → cost s' u = cost s u := by
  cases l with
  | lock t =>
    simp only [step?] at h
    split at h
    · rename_i f r hpc hr
      split at h
      · cases h
      · cases h
        refine ⟨?_, ?_⟩
        · simp [cost, tidOf, hpc, hr, upd]; omega
        · intro u hu; simp [cost, tidOf] at hu ⊢; simp [upd, hu]
    · cases h
  | read t =>
    simp only [step?] at h
    split at h
    · rename_i hpc
      cases h
      refine ⟨?_, ?_⟩
      · simp [cost, tidOf, hpc, upd]
      · intro u hu; simp [cost, tidOf] at hu ⊢; simp [upd, hu]
    · cases h
  | write t =>
    simp only [step?] at h
    split at h
    · rename_i x f r hpc hr
      cases h
      refine ⟨?_, ?_⟩
      · simp [cost, tidOf, hpc, hr, upd]
      · intro u hu; simp [cost, tidOf] at hu ⊢; simp [upd, hu]
    · cases h
  | unlock t =>
    simp only [step?] at h
    split at h
    · rename_i hpc
      cases h
      refine ⟨?_, ?_⟩
      · simp [cost, tidOf, hpc, upd]
      · intro u hu; simp [cost, tidOf] at hu ⊢; simp [upd, hu]
    · cases h

theorem sum_map_point (threads : List Tid) (hN : threads.Nodup) (f g : Tid → Nat) (t : Tid) (ht : t ∈ threads)
    (h1 : g t + 1 = f t) (h2 : ∀ u, u ≠ t → g u = f u) : (threads.map g).sum + 1 = (threads.map f).sum := by
  induction threads with
  | nil => cases ht
  | cons a r ih =>
    simp only [List.map_cons, List.sum_cons]
    have hN' := List.nodup_cons.mp hN
    by_cases hat : a = t
    · subst hat
      have : r.map g = r.map f := List.map_congr_left (fun u hu => h2 u (fun e => hN'.1 (e ▸ hu)))
      rw [this]; omega
    · have htr : t ∈ r := by
        rcases List.mem_cons.mp ht with e | e
        · exact absurd e.symm hat
        · exact e
      have := ih hN'.2 htr
      rw [h2 a hat]; omega

/-- a goroutine without sections never moves -/
theorem idle_stays {locked : Bool} {prog : Tid → List (σ → σ)} {m0 : σ} {s : St σ Tid} (hR : Reach locked prog m0 s)
    {t : Tid} (ht : prog t = []) : inCS (s.pc t) = false ∧ s.rest t = [] := by
  induction hR with
  | init => exact ⟨rfl, ht⟩
  | @step s s' l _ hst ih =>
    obtain ⟨hp, hr⟩ := ih
    have hpc : s.pc t = .out := by
      cases h : s.pc t <;> simp [h, inCS] at hp ⊢
    by_cases e : tidOf l = t
    · -- `t` cannot step: it is outside a section and has nothing left
      exfalso
      cases l <;> simp only [tidOf] at e <;> subst e <;> simp [step?, hpc, hr] at hst
    · cases l <;> simp only [tidOf] at e <;> simp only [step?] at hst <;>
        (repeat' split at hst) <;> (try cases hst) <;> simp [upd, Ne.symm e, hp, hr]

theorem step_tid_has_work {locked : Bool} {prog : Tid → List (σ → σ)} {m0 : σ} {s s' : St σ Tid} {l : Label Tid}
    (hR : Reach locked prog m0 s) (h : step? locked s l = some s') : prog (tidOf l) ≠ [] := by
  intro hp
  obtain ⟨hc, hr⟩ := idle_stays hR hp
  have hpc : s.pc (tidOf l) = .out := by
    cases h' : s.pc (tidOf l) <;> simp [h', inCS] at hc ⊢
  cases l <;> simp only [tidOf] at hpc hr <;> simp [step?, hpc, hr] at h

/-- a property that every section keeps, and that the section `f0` of goroutine `t0` establishes, holds after every serial
    execution in which `t0` has run all its sections -/
theorem serial_establishes (P : σ → Prop) (prog : Tid → List (σ → σ)) (hS : ∀ t, ∀ f ∈ prog t, ∀ m, P m → P (f m))
    (t0 : Tid) (f0 : σ → σ) (hf0 : f0 ∈ prog t0) (hE : ∀ m, P (f0 m)) (sched : List Tid) (m : σ)
    (hdone : (serial prog sched m).2 t0 = []) : P (serial prog sched m).1 := by
  induction sched generalizing prog m with
  | nil =>
    simp only [serial] at hdone
    rw [hdone] at hf0; cases hf0
  | cons t sched ih =>
    simp only [serial] at hdone ⊢
    split at hdone
    · next f r hf =>
      have hS' : ∀ u, ∀ g ∈ upd prog t r u, ∀ m', P m' → P (g m') := by
        intro u g hg m' hm'
        by_cases e : u = t
        · subst e; simp only [upd_same] at hg
          exact hS u g (by rw [hf]; exact List.mem_cons_of_mem _ hg) m' hm'
        · rw [upd_other _ _ e] at hg; exact hS u g hg m' hm'
      by_cases e : t0 = t
      · subst e
        rw [hf] at hf0
        rcases List.mem_cons.mp hf0 with h | h
        · subst h
          exact serial_preserves P (upd prog t0 r) hS' sched (f0 m) (hE m)
        · exact ih (upd prog t0 r) hS' (by simp only [upd_same]; exact h) (f m) hdone
      · exact ih (upd prog t r) hS' (by rw [upd_other _ _ e]; exact hf0) (f m) hdone
    · exact ih prog hS hf0 m hdone

end CV.Locked
