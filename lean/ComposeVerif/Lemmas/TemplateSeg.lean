import ComposeVerif.Lemmas.TemplateMatch
import ComposeVerif.Spec.Template
/-!
# Per-segment lemmas for the C07 refinement

The matcher on rendered segments (`matchBraced_var`, `matchBraced_op`, `matchDollar_named`, …),
the brace counter on balanced text (`Neutral`, `firstClose_braces`), and the behaviour of `run`
on a literal, `$$`, a lone `$`, and `$NAME`.
-/
namespace CV.Template

theorem validName_cases {n : Str} (h : validName n = true) :
    ∃ c cs, n = c :: cs ∧ isNameStart c = true ∧ ∀ x ∈ n, isNameChar x = true := by
  cases n with
  | nil => simp [validName] at h
  | cons c cs =>
    simp only [validName, Bool.and_eq_true, List.all_eq_true] at h
    refine ⟨c, cs, rfl, h.1, ?_⟩
    intro x hx
    cases hx with
    | head => exact isNameChar_of_start h.1
    | tail _ hx => exact h.2 x hx

theorem op_head_not_name (o : Op) (X : Str) : ∀ c, (o.str ++ X).head? = some c → isNameChar c = false := by
  cases o <;> simp [Op.str] <;> decide

theorem matchBraced_var (n X : Str) (hn : validName n = true) :
    matchBraced (n ++ '}' :: X) = (.braced n, n ++ ['}'], X) := by
  obtain ⟨c, cs, rfl, hc, hall⟩ := validName_cases hn
  have hsp := spanName_name (c :: cs) ('}' :: X) hall (by simp; decide)
  unfold matchBraced
  simp only [List.cons_append] at hsp ⊢
  simp only [hc, if_true, hsp]
  rfl

theorem matchBraced_op (n : Str) (o : Op) (r3 : Str) (hn : validName n = true) :
    matchBraced (n ++ (o.str ++ r3)) = match lastCloseLen r3 with
      | some k => (.braced (n ++ (o.str ++ r3.take (k - 1))), n ++ (o.str ++ r3.take k), r3.drop k)
      | none => (.invalid, [], n ++ (o.str ++ r3)) := by
  obtain ⟨c, cs, rfl, hc, hall⟩ := validName_cases hn
  have hsp := spanName_name (c :: cs) (o.str ++ r3) hall (op_head_not_name o r3)
  unfold matchBraced
  simp only [List.cons_append] at hsp ⊢
  simp only [hc, if_true, hsp]
  cases o <;> simp only [Op.str, List.cons_append, List.nil_append]
  all_goals (simp [isOpChar]; try (cases lastCloseLen r3 <;> rfl))

end CV.Template
namespace CV.Template

theorem noNameHead_iff (X : Str) : noNameHead X = true ↔ ∀ c, X.head? = some c → isNameChar c = false := by
  cases X <;> simp [noNameHead]

theorem matchDollar_brace (r : Str) :
    matchDollar ('$' :: '{' :: r) = some ((matchBraced r).1, '$' :: '{' :: (matchBraced r).2.1, (matchBraced r).2.2) := by
  simp [matchDollar]

theorem matchDollar_esc (r : Str) : matchDollar ('$' :: '$' :: r) = some (.escaped, ['$', '$'], r) := by
  simp [matchDollar]

theorem matchDollar_named (n X : Str) (hn : validName n = true) (hX : noNameHead X = true) :
    matchDollar ('$' :: (n ++ X)) = some (.named n, '$' :: n, X) := by
  obtain ⟨c, cs, rfl, hc, hall⟩ := validName_cases hn
  have hsp := spanName_name (c :: cs) X hall ((noNameHead_iff X).1 hX)
  have h1 : c ≠ '$' := by intro h; subst h; revert hc; decide
  have h2 : c ≠ '{' := by intro h; subst h; revert hc; decide
  simp only [List.cons_append] at hsp ⊢
  unfold matchDollar
  split
  · rename_i heq; simp at heq; exact absurd heq.1 h1
  · rename_i heq; simp at heq; exact absurd heq.1 h2
  · rename_i c' r' _ _ heq
    simp at heq
    obtain ⟨rfl, rfl⟩ := heq
    simp [hc, hsp]
  · rename_i h; exact absurd rfl (h c (cs ++ X))

theorem matchDollar_lone (X : Str)
    (hX : ∀ c, X.head? = some c → c ≠ '$' ∧ c ≠ '{' ∧ isNameStart c = false) :
    matchDollar ('$' :: X) = none := by
  unfold matchDollar
  split
  · rename_i heq; simp at heq; subst heq; exact absurd rfl (hX '$' rfl).1
  · rename_i heq; simp at heq; subst heq; exact absurd rfl (hX '{' rfl).2.1
  · rename_i c r _ _ heq
    simp at heq; subst heq
    simp [(hX c rfl).2.2]
  · rfl

theorem subOf_no_brace (m : Str) (h : ∀ c ∈ m, c ≠ '{' ∧ c ≠ '}') : subOf m = m := by
  have := firstCloseGo_skip m [] 0 0 h
  simp [firstCloseGo] at this
  simp [subOf, firstClose, this]

theorem rrepl_esc (env : Env) : rrepl env ['$', '$'] = .ok ['$'] := by
  rw [rrepl, replK, subOf_no_brace _ (by simp)]
  simp [matchDollar]

theorem rrepl_named (env : Env) (n : Str) (hn : validName n = true) :
    rrepl env ('$' :: n) = .ok ((env n).getD []) := by
  have hall := validName_cases hn
  obtain ⟨c, cs, rfl, hc, hall⟩ := hall
  rw [rrepl, replK, subOf_no_brace]
  · have := matchDollar_named (c :: cs) [] hn rfl
    rw [List.append_nil] at this
    rw [this]
  · intro x hx
    cases hx with
    | head => simp
    | tail _ hx =>
      have := not_nameChar_special (hall x hx)
      exact ⟨this.2.1, this.2.2.1⟩

theorem run_lit (env : Env) (s X : Str) (hs : ∀ c ∈ s, c ≠ '$') :
    run env (s ++ X) = seq (.ok s) (run env X) := by
  induction s with
  | nil => simp [seq_ok_nil]
  | cons c cs ih =>
    rw [List.cons_append, run_cons_lit env c _ (hs c (List.mem_cons_self ..)),
      ih (fun x hx => hs x (List.mem_cons_of_mem _ hx)), seq_ok_ok]
    rfl

theorem run_esc (env : Env) (X : Str) : run env ('$' :: '$' :: X) = seq (.ok ['$']) (run env X) := by
  rw [run_dollar_some env _ (matchDollar_esc X), rrepl_esc]

theorem run_lone (env : Env) (X : Str)
    (hX : ∀ c, X.head? = some c → c ≠ '$' ∧ c ≠ '{' ∧ isNameStart c = false) :
    run env ('$' :: X) = seq (.ok ['$']) (run env X) :=
  run_dollar_none env X (matchDollar_lone X hX)

theorem run_named (env : Env) (n X : Str) (hn : validName n = true) (hX : noNameHead X = true) :
    run env ('$' :: (n ++ X)) = seq (.ok ((env n).getD [])) (run env X) := by
  rw [run_dollar_some env _ (matchDollar_named n X hn hX), rrepl_named env n hn]

end CV.Template
namespace CV.Template

/-- text over which the brace counter of `getFirstBraceClosingIndex` returns to its value without reaching zero -/
def Neutral (a : Str) : Prop :=
  ∀ (rest : Str) (i : Nat) (o : Int), 1 ≤ o → firstCloseGo (a ++ rest) i o = firstCloseGo rest (i + a.length) o

def NoBrace (a : Str) : Prop := ∀ c ∈ a, c ≠ '{' ∧ c ≠ '}'

theorem neutral_noBrace {a : Str} (h : NoBrace a) : Neutral a := fun rest i o _ => firstCloseGo_skip a rest i o h

theorem neutral_nil : Neutral [] := neutral_noBrace (by intro c hc; cases hc)

theorem neutral_append {a b : Str} (ha : Neutral a) (hb : Neutral b) : Neutral (a ++ b) := by
  intro rest i o ho
  rw [List.append_assoc, ha _ _ _ ho, hb _ _ _ ho, List.length_append, Nat.add_assoc]

theorem firstCloseGo_open1 (rest : Str) (i : Nat) (o : Int) :
    firstCloseGo ('{' :: rest) i o = firstCloseGo rest (i + 1) (o + 1) := by
  rw [firstCloseGo]

theorem firstCloseGo_open (c : Char) (hc : c ≠ '{' ∧ c ≠ '}') (rest : Str) (i : Nat) (o : Int) :
    firstCloseGo ('{' :: c :: rest) i o = firstCloseGo rest (i + 2) (o + 1) := by
  rw [firstCloseGo_open1]
  have := firstCloseGo_skip [c] rest (i + 1) (o + 1) (by intro x hx; simp at hx; subst hx; exact hc)
  simpa using this

theorem firstCloseGo_close (rest : Str) (i : Nat) (o : Int) :
    firstCloseGo ('}' :: rest) i o = if o - 1 == 0 then some i else firstCloseGo rest (i + 1) (o - 1) := by
  rw [firstCloseGo]

theorem neutral_braces (c : Char) (hc : c ≠ '{' ∧ c ≠ '}') {mid a : Str} (hm : NoBrace mid) (ha : Neutral a) :
    Neutral ('{' :: c :: (mid ++ (a ++ ['}']))) := by
  intro rest i o ho
  simp only [List.cons_append, List.append_assoc]
  rw [firstCloseGo_open c hc, firstCloseGo_skip _ _ _ _ hm, ha _ _ _ (by omega), List.nil_append, firstCloseGo_close]
  have h0 : (o + 1 - 1 == 0) = false := by
    rw [beq_eq_false_iff_ne]; omega
  have e1 : o + 1 - 1 = o := by omega
  rw [h0, e1]
  simp only [Bool.false_eq_true, if_false]
  congr 1
  simp; omega

theorem neutral_cons {c : Char} {a : Str} (hc : c ≠ '{' ∧ c ≠ '}') (ha : Neutral a) : Neutral (c :: a) :=
  neutral_append (a := [c]) (neutral_noBrace (by intro x hx; simp at hx; subst hx; exact hc)) ha

/-- the brace counter on `${` c mid a `}` Y stops at the brace that closes the `${` -/
theorem firstClose_braces (c : Char) (hc : c ≠ '{' ∧ c ≠ '}') {mid a : Str} (Y : Str) (hm : NoBrace mid) (ha : Neutral a) :
    firstClose ('$' :: '{' :: c :: (mid ++ (a ++ '}' :: Y))) = some (3 + mid.length + a.length) := by
  unfold firstClose
  rw [firstCloseGo]
  · rw [firstCloseGo_open c hc, firstCloseGo_skip _ _ _ _ hm, ha _ _ _ (by omega), firstCloseGo_close]
    simp
  all_goals (intros; simp_all)

theorem subOf_restOf_braces (c : Char) (hc : c ≠ '{' ∧ c ≠ '}') {mid a : Str} (Y : Str) (hm : NoBrace mid) (ha : Neutral a) :
    subOf ('$' :: '{' :: c :: (mid ++ (a ++ '}' :: Y))) = '$' :: '{' :: c :: (mid ++ (a ++ ['}'])) ∧
    restOf ('$' :: '{' :: c :: (mid ++ (a ++ '}' :: Y))) = Y := by
  have h := firstClose_braces c hc Y hm ha
  unfold subOf restOf
  rw [h]
  have e : '$' :: '{' :: c :: (mid ++ (a ++ '}' :: Y)) = ('$' :: '{' :: c :: (mid ++ (a ++ ['}']))) ++ Y := by simp
  have l : ('$' :: '{' :: c :: (mid ++ (a ++ ['}']))).length = 3 + mid.length + a.length + 1 := by
    simp; omega
  simp only
  rw [e, ← l]
  exact ⟨List.take_left' rfl, List.drop_left' rfl⟩

end CV.Template

namespace CV.Template

theorem containsStr_name (o : Op) (n : Str) (hall : ∀ x ∈ n, isNameChar x = true) : containsStr o.str n = false := by
  obtain ⟨p0, pt, hp, hp0⟩ := op_head o
  rw [hp, containsStr, indexOf_none_of_no_head]
  · rfl
  · intro c hc
    have := not_nameChar_special (hall c hc)
    rcases hp0 with rfl | rfl | rfl | rfl <;> simp [this]

theorem noBrace_name {n : Str} (hall : ∀ x ∈ n, isNameChar x = true) : NoBrace n := by
  intro c hc
  have := not_nameChar_special (hall c hc)
  exact ⟨this.2.1, this.2.2.1⟩

theorem rrepl_braced (env : Env) (n : Str) (hn : validName n = true) :
    rrepl env ('$' :: '{' :: (n ++ ['}'])) = .ok ((env n).getD []) := by
  obtain ⟨c, cs, rfl, hc, hall⟩ := validName_cases hn
  have hcs : NoBrace cs := noBrace_name (fun x hx => hall x (List.mem_cons_of_mem _ hx))
  have hsr := subOf_restOf_braces c (noBrace_name hall c (List.mem_cons_self ..)) (mid := cs) (a := []) [] hcs neutral_nil
  simp only [List.nil_append] at hsr
  rw [rrepl, replK]
  simp only [List.cons_append]
  rw [hsr.1]
  have hm := matchDollar_brace ((c :: cs) ++ '}' :: [])
  rw [matchBraced_var (c :: cs) [] hn] at hm
  simp only [List.cons_append] at hm
  rw [hm]
  simp only [containsStr_name _ _ hall]
  rfl

theorem run_braced (env : Env) (n X : Str) (hn : validName n = true) :
    run env ('$' :: '{' :: (n ++ '}' :: X)) = seq (.ok ((env n).getD [])) (run env X) := by
  have hm := matchDollar_brace (n ++ '}' :: X)
  rw [matchBraced_var n X hn] at hm
  rw [run_dollar_some env _ hm, rrepl_braced env n hn]

end CV.Template
