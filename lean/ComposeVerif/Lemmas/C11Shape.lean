import ComposeVerif.Lemmas.C11Top
/-! The result of `Normalize` satisfies again every type assertion `Normalize` makes (C11):
so `normalize d = ok d'` implies `normalize d' = ok d'`. -/
namespace CV.C11
open CV CV.Val CV.C11.Spec

theorem lookup_normService_attr (clean : String → String) (env : Env) {k : String} (hk : k ≠ "depends_on") (s : KVs) :
    lookup k (normService clean env s) = (lookup k s).map (svcAttr clean env k) := by
  unfold normService setDeps
  split
  · exact lookup_mapAt _ _ _
  · rw [lookup_insert_ne hk]; exact lookup_mapAt _ _ _

/-! ### services -/

theorem shapeNNService_step (clean : String → String) (env : Env) (x : Val) (h : shapeNNService x = true) :
    shapeNNService (normServiceV clean env (nnServiceV x)) = true := by
  cases x with
  | map s =>
    simp only [nnServiceV, normServiceV, shapeNNService]
    rw [lookup_normService_other clean env (by decide) (by decide) (by decide) (by decide) (by decide),
        lookup_normService_other clean env (by decide) (by decide) (by decide) (by decide) (by decide)]
    rcases netSettled_nnService s with hs | ⟨n, hn, _⟩
    · simp [hs]
    · simp only [shapeNNService] at h
      rw [hn]
      -- `networks` of the result is the `default` mapping or the (map-shaped) one that was there
      unfold nnService at hn
      by_cases hm : (lookup "network_mode" s).isSome = true
      · simp only [hm, if_true] at hn
        rw [lookup_nnService_ne (by decide)]
        simp [hm]
      · simp only [hm] at hn h
        cases hl : lookup "networks" s with
        | none =>
          simp only [hl, Bool.false_eq_true, if_false, lookup_insert_self, Option.some.injEq] at hn
          subst hn; simp [defaultNet]
        | some v =>
          cases v with
          | map m =>
            cases m with
            | nil =>
              simp only [hl, Bool.false_eq_true, if_false, lookup_insert_self, Option.some.injEq] at hn
              subst hn; simp [defaultNet]
            | cons e r =>
              simp only [hl, Bool.false_eq_true, if_false, Option.some.injEq] at hn
              subst hn; simp
          | _ => simp [hl] at h
  | _ => simp [shapeNNService] at h

theorem shapeVolume_clean (clean : String → String) (v : Val) (h : shapeVolume v = true) :
    shapeVolume (cleanVolume clean v) = true := by
  cases v with
  | map vol => simp [cleanVolume, shapeVolume, lookup_insert_self]
  | _ => simp [shapeVolume] at h

theorem shapeService_step (clean : String → String) (env : Env) (x : Val) (h : shapeService x = true) :
    shapeService (normServiceV clean env (nnServiceV x)) = true := by
  cases x with
  | map s =>
    simp only [shapeService, Bool.and_eq_true] at h
    obtain ⟨⟨⟨⟨hb, hd⟩, hl⟩, hv⟩, hvf⟩ := h
    simp only [nnServiceV, normServiceV, shapeService, Bool.and_eq_true]
    have fr : ∀ k, k ≠ "networks" → k ≠ "pull_policy" → k ≠ "build" → k ≠ "environment" → k ≠ "volumes" →
        k ≠ "depends_on" → lookup k (normService clean env (nnService s)) = lookup k s := by
      intro k h0 h1 h2 h3 h4 h5
      rw [lookup_normService_other clean env h1 h2 h3 h4 h5, lookup_nnService_ne h0]
    refine ⟨⟨⟨⟨?_, ?_⟩, ?_⟩, ?_⟩, ?_⟩
    · -- build
      rw [lookup_normService_attr clean env (by decide), lookup_nnService_ne (by decide)]
      cases hbv : lookup "build" s with
      | none => rfl
      | some b => cases b <;> simp [hbv] at hb ⊢ <;> simp [svcAttr, normBuildV]
    · -- depends_on
      rw [lookup_normService_depends_on]
      cases hi : impliedDeps (nnService s) with
      | nil => simp only; rw [lookup_nnService_ne (by decide)]; exact hd
      | cons e r => rfl
    · rw [fr "links" (by decide) (by decide) (by decide) (by decide) (by decide) (by decide)]; exact hl
    · -- volumes
      rw [lookup_normService_attr clean env (by decide), lookup_nnService_ne (by decide)]
      cases hvv : lookup "volumes" s with
      | none => rfl
      | some v =>
        cases v <;> simp [hvv] at hv ⊢ <;> simp [svcAttr, normVolumesV]
        rename_i xs
        intro a ha
        exact shapeVolume_clean clean a (hv a ha)
    · rw [fr "volumes_from" (by decide) (by decide) (by decide) (by decide) (by decide) (by decide)]; exact hvf
  | _ => simp [shapeService] at h

/-! ### top level -/

theorem shapeResource_named (pj : Option Val) (k : String) (v : Val) (h : shapeResource v = true) :
    shapeResource (nameResource pj k v) = true := by
  cases v <;> simp [shapeResource] at h ⊢ <;> simp [nameResource]

theorem all_shapeResource_mapAt (pj : Option Val) (m : KVs) (h : (m.all fun kv => shapeResource kv.2) = true) :
    ((mapAt (nameResource pj) m).all fun kv => shapeResource kv.2) = true := by
  simp only [mapAt, List.all_map, List.all_eq_true, Function.comp] at h ⊢
  intro kv hkv
  exact shapeResource_named pj kv.1 kv.2 (h kv hkv)

/-- the value stored under a top-level key of the normal form -/
theorem lookup_normalizePure (clean : String → String) (env : Env) (d : KVs) {k : String} (hk : k ≠ "networks") :
    lookup k (normalizePure clean env d) = (lookup k d).map (topH clean env (lookup "name" d) k) := by
  rw [normalizePure_eq]
  split
  · exact lookup_mapAt _ _ _
  · rw [lookup_insert_ne hk]; exact lookup_mapAt _ _ _

theorem lookup_networks_normalizePure (clean : String → String) (env : Env) (d : KVs) :
    lookup "networks" (normalizePure clean env d) =
      match nnNetworks d with
      | [] => (lookup "networks" d).map (nameSectionV (lookup "name" d))
      | e :: t => some (.map (mapAt (nameResource (lookup "name" d)) (e :: t))) := by
  rw [normalizePure_eq]
  split
  · rename_i h; rw [h]
    have hf : topH clean env (lookup "name" d) "networks" = nameSectionV (lookup "name" d) :=
      funext (topH_networks clean env _)
    rw [lookup_mapAt, hf]
  · rename_i e t h; rw [h]
    simp [lookup_insert_self]

theorem shapeSection_iff (d : KVs) (r : String) :
    shapeSection d r = (match lookup r d with
      | none => true
      | some (.map top) => top.all fun kv => shapeResource kv.2
      | some _ => false) := rfl

theorem shapeSection_named_of (pj : Option Val) (o : Option Val)
    (h : (match o with
      | none => true
      | some (.map top) => top.all fun kv => shapeResource kv.2
      | some _ => false) = true) :
    (match o.map (nameSectionV pj) with
      | none => true
      | some (.map top) => top.all fun kv => shapeResource kv.2
      | some _ => false) = true := by
  cases o with
  | none => rfl
  | some v =>
    cases v <;> simp at h ⊢
    rename_i m
    simp only [nameSectionV]
    have := all_shapeResource_mapAt pj m (by simpa using h)
    simpa using this

theorem mem_insert {k : String} {v : Val} {m : KVs} {kv : String × Val} (h : kv ∈ Val.insert k v m) :
    kv = (k, v) ∨ kv ∈ m := by
  induction m with
  | nil => simp only [Val.insert, List.mem_singleton] at h; exact .inl h
  | cons e r ih =>
    obtain ⟨k', v'⟩ := e
    by_cases hke : k = k'
    · simp only [Val.insert, hke, if_true, List.mem_cons] at h
      rcases h with h | h
      · exact .inl (by rw [h, hke])
      · exact .inr (List.mem_cons_of_mem _ h)
    · simp only [Val.insert, hke, if_false, List.mem_cons] at h
      rcases h with h | h
      · exact .inr (by rw [h]; exact List.mem_cons_self ..)
      · rcases ih h with h1 | h1
        · exact .inl h1
        · exact .inr (List.mem_cons_of_mem _ h1)

theorem all_shapeResource_nnNetworks (d : KVs) (h : shapeSection d "networks" = true) :
    ((nnNetworks d).all fun kv => shapeResource kv.2) = true := by
  have hdecl : ((declaredNetworks d).all fun kv => shapeResource kv.2) = true := by
    unfold declaredNetworks
    rw [shapeSection_iff] at h
    cases hl : lookup "networks" d with
    | none => rfl
    | some v => cases v <;> simp [hl] at h ⊢ <;> exact h
  unfold nnNetworks
  simp only
  split
  · -- `default: null` was added
    simp only [List.all_eq_true] at hdecl ⊢
    intro kv hkv
    rcases mem_insert hkv with h1 | h1
    · rw [h1]; rfl
    · exact hdecl kv h1
  · exact hdecl

theorem shapeNames_normalizePure (clean : String → String) (env : Env) (d : KVs) (h : shapeNames d = true) :
    shapeNames (normalizePure clean env d) = true := by
  simp only [shapeNames, resourceNames, List.all_cons, List.all_nil, Bool.and_true, Bool.and_eq_true] at h ⊢
  obtain ⟨h1, h2, h3, h4⟩ := h
  have other : ∀ r, r ≠ "networks" → r ≠ "services" → resourceNames.contains r = true → shapeSection d r = true →
      shapeSection (normalizePure clean env d) r = true := by
    intro r hr hs hres hsec
    rw [shapeSection_iff, lookup_normalizePure clean env d hr]
    have hf : topH clean env (lookup "name" d) r = nameSectionV (lookup "name" d) := by
      funext v
      unfold topH namesTop
      rw [hres]
      simp [nnTop, nsTop, hs]
    rw [hf]
    exact shapeSection_named_of _ _ (by rw [← shapeSection_iff]; exact hsec)
  refine ⟨?_, other _ (by decide) (by decide) (by decide) h2, other _ (by decide) (by decide) (by decide) h3,
    other _ (by decide) (by decide) (by decide) h4⟩
  rw [shapeSection_iff, lookup_networks_normalizePure]
  cases hn : nnNetworks d with
  | nil =>
    simp only
    exact shapeSection_named_of _ _ (by rw [← shapeSection_iff]; exact h1)
  | cons e t =>
    simp only
    rw [← hn]
    exact all_shapeResource_mapAt _ _ (all_shapeResource_nnNetworks d h1)

theorem shapeNN_normalizePure (clean : String → String) (env : Env) (d : KVs) (h : shapeNN d = true) :
    shapeNN (normalizePure clean env d) = true := by
  simp only [shapeNN, Bool.and_eq_true] at h ⊢
  obtain ⟨hn, hs⟩ := h
  constructor
  · rw [lookup_networks_normalizePure]
    cases hnn : nnNetworks d with
    | nil =>
      simp only
      cases hl : lookup "networks" d with
      | none => rfl
      | some v => cases v <;> simp [hl] at hn ⊢ <;> simp [nameSectionV]
    | cons e t => rfl
  · rw [lookup_normalizePure clean env d (by decide)]
    have hf : topH clean env (lookup "name" d) "services" = fun v => nsTop clean env "services" (nnTop "services" v) :=
      funext (topH_services clean env _)
    rw [hf]
    cases hl : lookup "services" d with
    | none => rfl
    | some v =>
      cases v <;> simp [hl] at hs ⊢ <;> simp [nnTop, nsTop, mapVals]
      rename_i svcs
      intro a b hab
      exact shapeNNService_step clean env b (hs a b hab)

theorem shapeServices_normalizePure (clean : String → String) (env : Env) (d : KVs)
    (_hnn : shapeNN d = true) (h : shapeServices d = true) :
    shapeServices (normalizePure clean env d) = true := by
  unfold shapeServices at h ⊢
  rw [lookup_normalizePure clean env d (by decide)]
  have hf : topH clean env (lookup "name" d) "services" = fun v => nsTop clean env "services" (nnTop "services" v) :=
    funext (topH_services clean env _)
  rw [hf]
  cases hl : lookup "services" d with
  | none => rfl
  | some v =>
    cases v <;> simp [hl] at h ⊢ <;> simp [nnTop, nsTop, mapVals]
    rename_i svcs
    intro a b hab
    exact shapeService_step clean env b (h a b hab)

/-- **the normal form is a fixed point of `Normalize`, panics included** -/
theorem normalize_ok_fixed (clean : String → String) (hclean : ∀ s, clean (clean s) = clean s)
    (env : Env) (henv : envLookup env "" = none) (d d' : KVs) (h : normalize clean env d = .ok d') :
    normalize clean env d' = .ok d' := by
  unfold normalize at h
  cases h1 : shapeNN d <;> simp [h1] at h
  cases h2 : shapeServices d <;> simp [h2] at h
  cases h3 : shapeNames d <;> simp [h3] at h
  subst h
  unfold normalize
  rw [shapeNN_normalizePure clean env d h1, shapeServices_normalizePure clean env d h1 h2,
      shapeNames_normalizePure clean env d h3]
  simp [normalizePure_idem clean hclean env henv]

end CV.C11
