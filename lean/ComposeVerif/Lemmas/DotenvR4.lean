import ComposeVerif.Lemmas.DotenvMore
/-!
# Helper lemmas for C18, round 4 (additions only)

* E.1 the result map of ANY parse has distinct keys; `fromFiles` on arbitrary file contents
  (left-to-right fold, error keeps the accumulated map, distinct keys, what `get` returns);
* E.2 double-quoted values that need escape processing: an encoder `dqEncode` with
  `expandEscapes (raw (dqEncode u)) = u`, composed with `value_dq_template`.
-/
namespace CV.Dotenv
open CV CV.Template

/-! ## E.1 arbitrary inputs: distinct keys, several files -/

theorem parseLoop_keys_nodup : ∀ (fuel : Nat) (src : Str) (m : Map) (lk : Env) (r : Map),
    parseLoop fuel src m lk = .ok r → (m.map Prod.fst).Nodup → (r.map Prod.fst).Nodup
  | 0, _, _, _, _, h, _ => by cases h
  | fuel + 1, src, m, lk, r, h, hm => by
    unfold parseLoop at h
    rw [stmtStart_eq _ _ (Nat.lt_succ_self _)] at h
    simp only at h
    generalize stmtL false src = cs at h
    by_cases he : cs.isEmpty = true
    · simp only [he, if_true] at h
      cases h; exact hm
    · simp only [he, Bool.false_eq_true, if_false] at h
      rcases locateKey_total cs with ⟨e, hk⟩ | ⟨key, left, inh, hk, _⟩
      · rw [hk] at h; cases h
      · rw [hk] at h
        simp only at h
        split at h
        · cases h
        · split at h
          · split at h
            · exact parseLoop_keys_nodup fuel left _ lk r h (put_keys_nodup_lemma m key _ hm)
            · exact parseLoop_keys_nodup fuel left m lk r h hm
          · rcases extractValue_total left m lk with ⟨p, hx, _⟩ | ⟨e, hx⟩ | ⟨v, left', hx, _⟩
            · rw [hx] at h; cases h
            · rw [hx] at h; cases h
            · rw [hx] at h
              simp only at h
              exact parseLoop_keys_nodup fuel left' _ lk r h (put_keys_nodup_lemma m key v hm)

theorem parse_keys_nodup_lemma (src : Str) (lk : Env) (r : Map) (h : parse src lk = .ok r) : (r.map Prod.fst).Nodup :=
  parseLoop_keys_nodup _ src [] lk r h (by simp)

theorem mergeInto_keys_nodup : ∀ (env m : Map), (m.map Prod.fst).Nodup → ((mergeInto m env).map Prod.fst).Nodup
  | [], m, h => h
  | (k, v) :: env, m, h => by
    rw [mergeInto]
    exact mergeInto_keys_nodup env _ (put_keys_nodup_lemma m k v h)

theorem fromFiles_keys_nodup_lemma (cur : Env) : ∀ (fs : List Str) (m r : Map),
    fromFiles cur fs m = .ok r → (m.map Prod.fst).Nodup → (r.map Prod.fst).Nodup
  | [], m, r, h, hm => by
    rw [fromFiles] at h; cases h; exact hm
  | f :: fs, m, r, h, hm => by
    rw [fromFiles] at h
    generalize parse (stripBOM f) (envOf cur m) = o at h
    cases o with
    | ok env => exact fromFiles_keys_nodup_lemma cur fs _ r h (mergeInto_keys_nodup env m hm)
    | err e pm => cases h
    | panic s => cases h

/-- files are read left to right and the only state carried from one file to the next is the map -/
theorem fromFiles_append_lemma (cur : Env) : ∀ (a b : List Str) (m : Map),
    fromFiles cur (a ++ b) m = (fromFiles cur a m).andThen (fun m' => fromFiles cur b m')
  | [], b, m => rfl
  | f :: a, b, m => by
    rw [List.cons_append, fromFiles, fromFiles]
    generalize parse (stripBOM f) (envOf cur m) = o
    cases o with
    | ok env => exact fromFiles_append_lemma cur a b _
    | err e pm => rfl
    | panic s => rfl

/-- one file, whatever it contains: if it parses, its variables are merged over the accumulated ones -/
theorem fromFiles_single_ok (cur : Env) (f : Str) (m env : Map) (h : parse (stripBOM f) (envOf cur m) = .ok env) :
    fromFiles cur [f] m = .ok (mergeInto m env) := by
  rw [fromFiles, h]
  rfl

/-- … and if it does not, the error is reported with the map accumulated before it -/
theorem fromFiles_single_err (cur : Env) (f : Str) (m pm : Map) (e : PErr) (h : parse (stripBOM f) (envOf cur m) = .err e pm) :
    fromFiles cur [f] m = .err e m := by
  rw [fromFiles, h]

theorem readFiles_render_lemma (lk : Env) : ∀ (fs : List (Bool × List Line)) (m : Map),
    (∀ f ∈ fs, WF f.2 = true) →
    readFiles lk (fs.map fun f => withBOM f.1 (render f.2)) m = evalReadFrom lk (fs.map Prod.snd) m
  | [], m, _ => rfl
  | (b, ls) :: fs, m, h => by
    have hwf : WF ls = true := h (b, ls) (by simp)
    simp only [List.map_cons]
    rw [readFiles, evalReadFrom, stripBOM_render b ls hwf, parse_render_lemma lk ls hwf]
    generalize evalLines lk ls = o
    cases o with
    | ok env => exact readFiles_render_lemma lk fs _ (fun f hf => h f (by simp [hf]))
    | err e pm => rfl
    | panic s => rfl

/-! ## E.2 double-quoted values that need escape processing -/

/-- write arbitrary text between double quotes: the quote as `\"`, the backslash as `\\`, everything else as it is
    (in particular `$`, so that substitutions stay substitutions) -/
def dqEncode : Str → List QItem
  | [] => []
  | c :: s => (if c == '"' then QItem.quote else if c == '\\' then QItem.esc '\\' else QItem.chr c) :: dqEncode s

theorem dqEncode_wf : ∀ s : Str, (dqEncode s).all (QItem.wf '"') = true
  | [] => rfl
  | c :: s => by
    rw [dqEncode, List.all_cons, dqEncode_wf s, Bool.and_true]
    by_cases h1 : (c == '"') = true
    · simp [h1, QItem.wf]
    · by_cases h2 : (c == '\\') = true
      · simp only [h1, h2, Bool.false_eq_true, if_false, if_true, QItem.wf]; decide
      · simp only [h1, h2, Bool.false_eq_true, if_false, QItem.wf]
        simp only [beq_iff_eq] at h1 h2
        simp [h1, h2]

theorem expEsc_dqEncode : ∀ s : Str, expEsc 0 (rawItems '"' (dqEncode s)) = s
  | [] => rfl
  | c :: s => by
    have ih := expEsc_dqEncode s
    rw [dqEncode, rawItems]
    by_cases h1 : (c == '"') = true
    · have hc : c = '"' := by simpa using h1
      subst hc
      simp only [beq_self_eq_true, if_true, QItem.raw, List.cons_append, List.nil_append]
      simp only [expEsc, show (('"' : Char) == '\\') = false by decide, Bool.false_eq_true, if_false, ih]
    · by_cases h2 : (c == '\\') = true
      · have hc : c = '\\' := by simpa using h2
        subst hc
        simp only [show (('\\' : Char) == '"') = false by decide, Bool.false_eq_true, if_false, beq_self_eq_true, if_true,
          QItem.raw, List.cons_append, List.nil_append]
        simp only [expEsc, beq_self_eq_true, if_true, show simpleEscape '\\' = some ['\\'] by decide,
          List.cons_append, List.nil_append, ih]
      · simp only [h1, h2, Bool.false_eq_true, if_false, QItem.raw, List.cons_append, List.nil_append]
        simp only [expEsc, h2, Bool.false_eq_true, if_false, ih]

theorem expandEscapes_dqEncode (s : Str) : expandEscapes (rawItems '"' (dqEncode s)) = s :=
  expEsc_dqEncode s

theorem value_dq_encoded_lemma (env : Env) (t : List Seg) (h : Template.WF t = true) :
    (Value.dq (dqEncode (renderL t))).eval env = evalOut env t :=
  value_dq_template_lemma env _ t (expandEscapes_dqEncode _) h

/-- `\$` in front: the dotenv escape of the dollar sign is the template escape `$$` -/
theorem value_dq_dollar_lemma (env : Env) (t : List Seg) (h : Template.WF (Seg.esc :: t) = true) :
    (Value.dq (QItem.esc '$' :: dqEncode (renderL t))).eval env = evalOut env (Seg.esc :: t) := by
  apply value_dq_template_lemma env _ (Seg.esc :: t) _ h
  rw [rawItems, QItem.raw]
  simp only [List.cons_append, List.nil_append]
  rw [expandEscapes_simple_lemma '$' ['$', '$'] _ (by decide), expandEscapes_dqEncode]
  rfl

end CV.Dotenv
