import ComposeVerif.Lemmas.SecretsInclude
/-! Helper lemmas for C20 (round 5): permutations of the keys of one resource object (a Go map: distinct keys). -/
namespace CV.Secrets
open CV CV.Val

/-- the keys of an object are pairwise distinct (a Go map) -/
def KeysNodup (kvs : KVs) : Prop := (kvs.map Prod.fst).Nodup

theorem KeysNodup_perm {a b : KVs} (h : a.Perm b) : KeysNodup a ↔ KeysNodup b :=
  (h.map Prod.fst).nodup_iff

theorem lookup_perm {k : String} : ∀ {a b : KVs}, a.Perm b → KeysNodup a → Val.lookup k a = Val.lookup k b := by
  intro a b h
  induction h with
  | nil => intro _; rfl
  | cons x _ ih =>
    intro hn
    obtain ⟨k', v'⟩ := x
    simp only [KeysNodup, List.map, List.nodup_cons] at hn
    simp only [Val.lookup]
    split
    · rfl
    · exact ih hn.2
  | swap x y l =>
    intro hn
    obtain ⟨kx, vx⟩ := x
    obtain ⟨ky, vy⟩ := y
    simp only [KeysNodup, List.map, List.nodup_cons, List.mem_cons] at hn
    have hne : ky ≠ kx := fun h => hn.1 (.inl h)
    simp only [Val.lookup]
    by_cases h1 : k = ky
    · subst h1; simp [hne]
    · by_cases h2 : k = kx
      · subst h2; simp [h1]
      · simp [h1, h2]
  | trans h1 _ ih1 ih2 =>
    intro hn
    rw [ih1 hn, ih2 ((KeysNodup_perm h1).1 hn)]

theorem insert_perm (k : String) (v : Val) : ∀ {a b : KVs}, a.Perm b → KeysNodup a →
    (Val.insert k v a).Perm (Val.insert k v b) := by
  intro a b h
  induction h with
  | nil => intro _; exact List.Perm.refl _
  | cons x hp ih =>
    intro hn
    obtain ⟨k', v'⟩ := x
    simp only [KeysNodup, List.map, List.nodup_cons] at hn
    simp only [Val.insert]
    split
    · exact List.Perm.cons _ hp
    · exact List.Perm.cons _ (ih hn.2)
  | swap x y l =>
    intro hn
    obtain ⟨kx, vx⟩ := x
    obtain ⟨ky, vy⟩ := y
    simp only [KeysNodup, List.map, List.nodup_cons, List.mem_cons] at hn
    have hne : ky ≠ kx := fun h => hn.1 (.inl h)
    by_cases h1 : k = ky
    · subst h1
      simp only [Val.insert, if_true, if_neg hne]
      exact List.Perm.swap _ _ _
    · by_cases h2 : k = kx
      · subst h2
        simp only [Val.insert, if_true, if_neg h1]
        exact List.Perm.swap _ _ _
      · simp only [Val.insert, if_neg h1, if_neg h2]
        exact List.Perm.swap _ _ _
  | trans h1 _ ih1 ih2 =>
    intro hn
    exact (ih1 hn).trans (ih2 ((KeysNodup_perm h1).1 hn))

theorem mem_keys_insert {k k' : String} {v : Val} : ∀ {kvs : KVs},
    k' ∈ (Val.insert k v kvs).map Prod.fst → k' = k ∨ k' ∈ kvs.map Prod.fst
  | [], h => by simp [Val.insert] at h; exact .inl h
  | (k2, v2) :: r, h => by
    by_cases hk : k = k2
    · subst hk
      simp only [Val.insert, if_true, List.map, List.mem_cons] at h ⊢
      rcases h with h | h
      · exact .inl h
      · exact .inr (.inr h)
    · simp only [Val.insert, if_neg hk, List.map, List.mem_cons] at h ⊢
      rcases h with h | h
      · exact .inr (.inl h)
      · rcases mem_keys_insert h with h | h
        · exact .inl h
        · exact .inr (.inr h)

theorem KeysNodup_insert (k : String) (v : Val) : ∀ {kvs : KVs}, KeysNodup kvs → KeysNodup (Val.insert k v kvs)
  | [], _ => by simp [Val.insert, KeysNodup]
  | (k2, v2) :: r, h => by
    simp only [KeysNodup, List.map, List.nodup_cons] at h
    by_cases hk : k = k2
    · subst hk
      simp only [Val.insert, if_true, KeysNodup, List.map, List.nodup_cons]
      exact h
    · simp only [Val.insert, if_neg hk, KeysNodup, List.map, List.nodup_cons]
      refine ⟨fun hm => ?_, KeysNodup_insert k v h.2⟩
      rcases mem_keys_insert hm with hm | hm
      · exact hk hm.symm
      · exact h.1 hm

/-! ### the typed layer -/

theorem keysInDomain_perm {a b : KVs} (h : a.Perm b) : keysInDomain a = keysInDomain b := by
  unfold keysInDomain
  exact h.all_eq

/-- the struct decode reads the raw object through look-ups only (and a test over all keys): it does not depend on the
order of the keys -/
theorem decodeFields_perm {a b : KVs} (h : a.Perm b) (hn : KeysNodup a) : decodeFields a = decodeFields b := by
  have L : ∀ k, Val.lookup k a = Val.lookup k b := fun k => lookup_perm h hn
  unfold decodeFields failClass rejects
  simp only [strField, contentField, boolField, labelsField, strMapField, extField, strRejects, contentRejects, boolRejects,
    labelsRejects, strMapRejects, extRejects, L, keysInDomain_perm h]
  rfl

theorem erase_eq_filter (k : String) : ∀ l : KVs, Val.erase k l = l.filter (fun kv => !(kv.1 == k))
  | [] => rfl
  | (k', v) :: r => by
    by_cases h : k = k'
    · subst h; simp [Val.erase, erase_eq_filter k r]
    · have : (k' == k) = false := by simpa using fun h' => h h'.symm
      simp [Val.erase, h, this, erase_eq_filter k r]

theorem erase_perm (k : String) {a b : KVs} (h : a.Perm b) : (Val.erase k a).Perm (Val.erase k b) := by
  rw [erase_eq_filter, erase_eq_filter]; exact h.filter _

theorem KeysNodup_erase (k : String) {a : KVs} (h : KeysNodup a) : KeysNodup (Val.erase k a) := by
  rw [erase_eq_filter]
  exact h.sublist ((List.filter_sublist (l := a)).map Prod.fst)

/-- `secretConfigDecoderHook` on permuted raw objects gives permuted raw objects -/
theorem hook_perm {a b : KVs} (h : a.Perm b) (hn : KeysNodup a) : (hook a).Perm (hook b) ∧ KeysNodup (hook a) := by
  unfold hook
  rw [← lookup_perm (k := extKey) h hn]
  split
  · split
    · have h1 := insert_perm "Content" (Val.str ‹String›) h hn
      have n1 := KeysNodup_insert "Content" (Val.str ‹String›) hn
      simp only
      split
      · exact ⟨erase_perm _ h1, KeysNodup_erase _ n1⟩
      · exact ⟨insert_perm _ _ h1 n1, KeysNodup_insert _ _ n1⟩
    · exact ⟨h, hn⟩
  · exact ⟨h, hn⟩

/-- the typed secret / config does not depend on the order of the keys of the raw object handed to the decode -/
theorem decodeSecret_perm {a b : KVs} (h : a.Perm b) (hn : KeysNodup a) : decodeSecret (.map a) = decodeSecret (.map b) := by
  simp only [decodeSecret]
  exact decodeFields_perm (hook_perm h hn).1 (hook_perm h hn).2

theorem decodeConfig_perm {a b : KVs} (h : a.Perm b) (hn : KeysNodup a) : decodeConfig (.map a) = decodeConfig (.map b) := by
  simp only [decodeConfig]
  exact decodeFields_perm h hn
end CV.Secrets
