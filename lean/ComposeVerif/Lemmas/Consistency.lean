import ComposeVerif.Spec.Consistency
/-! Helper lemmas for C10: each model rule decides its `Holds` clause; the per-service check is their conjunction. -/
namespace CV.Consistency

@[simp] theorem guard_none {c : Bool} {e : Err} : guard c e = none ↔ c = false := by
  unfold guard; cases c <;> simp

theorem guard_some {c : Bool} {e e' : Err} : guard c e = some e' ↔ c = true ∧ e = e' := by
  unfold guard; cases c <;> simp

theorem orE_none {a b : Option Err} : orE a b = none ↔ a = none ∧ b = none := by
  unfold orE; cases a <;> simp

theorem orE_some {a b : Option Err} {e : Err} : orE a b = some e ↔ a = some e ∨ (a = none ∧ b = some e) := by
  unfold orE; cases a <;> simp

theorem rImage_iff (p : Proj) (s : Svc) : rImage s = none ↔ Holds p s .image := by
  simp only [rImage, guard_none, Holds]
  cases h : s.build <;> simp

theorem rNetworks_iff (p : Proj) (s : Svc) : rNetworks p s = none ↔ Holds p s .networks := by
  simp [rNetworks, Holds]

theorem rVolumes_iff (p : Proj) (s : Svc) : rVolumes p s = none ↔ Holds p s .volumes := by
  simp [rVolumes, Holds, volOK]
  grind

theorem rSecrets_iff (p : Proj) (s : Svc) : rSecrets p s = none ↔ Holds p s .secrets := by
  simp [rSecrets, Holds]

theorem rConfigs_iff (p : Proj) (s : Svc) : rConfigs p s = none ↔ Holds p s .configs := by
  simp [rConfigs, Holds]

theorem rBuildSecrets_iff (p : Proj) (s : Svc) : rBuildSecrets p s = none ↔ Holds p s .buildSecrets := by
  simp only [rBuildSecrets, Holds]
  cases h : s.build <;> simp

theorem rDependsOn_iff (p : Proj) (s : Svc) : rDependsOn p s = none ↔ Holds p s .dependsOn := by
  simp [rDependsOn, Holds, depOK]

theorem rServiceRef_iff (p : Proj) (s : Svc) : rServiceRef p s = none ↔ Holds p s .serviceRef := by
  simp only [rServiceRef, Holds]
  cases h : serviceRef s.networkMode <;> simp

theorem rDockerfile_iff (p : Proj) (s : Svc) : rDockerfile s = none ↔ Holds p s .exclDockerfile := by
  simp only [rDockerfile, Holds]
  cases h : s.build <;> simp
  grind

theorem rNetworkMode_iff (p : Proj) (s : Svc) : rNetworkMode s = none ↔ Holds p s .exclNetworkMode := by
  simp [rNetworkMode, Holds]
  grind

theorem rContainerName_iff (p : Proj) (s : Svc) : rContainerName s = none ↔ Holds p s .exclContainerName := by
  simp [rContainerName, Holds]
  grind

theorem rScale_iff (p : Proj) (s : Svc) : rScale s = none ↔ Holds p s .pairScale := by
  simp only [rScale, Holds]
  cases h1 : s.scale <;> cases h2 : s.deploy <;> simp
  rename_i sc d
  cases h3 : d.replicas <;> simp <;> grind

theorem rCpus_iff (p : Proj) (s : Svc) : rCpus s = none ↔ Holds p s .pairCpus := by
  simp only [rCpus, Holds]
  cases h2 : s.deploy <;> simp
  rename_i d
  cases h3 : d.limits <;> simp <;> grind

theorem rMemLimit_iff (p : Proj) (s : Svc) : rMemLimit s = none ↔ Holds p s .pairMemLimit := by
  simp only [rMemLimit, Holds]
  cases h2 : s.deploy <;> simp
  rename_i d
  cases h3 : d.limits <;> simp <;> grind

theorem rMemReservation_iff (p : Proj) (s : Svc) : rMemReservation s = none ↔ Holds p s .pairMemReservation := by
  simp only [rMemReservation, Holds]
  cases h2 : s.deploy <;> simp
  rename_i d
  cases h3 : d.reservationsMem <;> simp <;> grind

theorem rPids_iff (p : Proj) (s : Svc) : rPids s = none ↔ Holds p s .pairPids := by
  simp only [rPids, Holds]
  cases h2 : s.deploy <;> simp
  rename_i d
  cases h3 : d.limits <;> simp <;> grind

theorem rPlatform_iff (p : Proj) (s : Svc) : rPlatform s = none ↔ Holds p s .xPlatform := by
  simp only [rPlatform, Holds]
  cases h : s.build <;> simp

theorem rHealthcheck_iff (p : Proj) (s : Svc) : rHealthcheck s = none ↔ Holds p s .xHealthcheck := by
  simp only [rHealthcheck, Holds]
  cases h : s.hc with
  | none => simp
  | some l => cases l <;> simp

theorem rWatch_iff (p : Proj) (s : Svc) : rWatch s = none ↔ Holds p s .xWatch := by
  simp [rWatch, Holds, watchOK]

/-- each rule function decides exactly its clause of the specification -/
theorem ruleCheck_iff (p : Proj) (s : Svc) (r : Rule) : ruleCheck p s r = none ↔ Holds p s r := by
  cases r <;> simp only [ruleCheck]
  · exact rImage_iff p s
  · exact rNetworks_iff p s
  · exact rVolumes_iff p s
  · exact rSecrets_iff p s
  · exact rConfigs_iff p s
  · exact rBuildSecrets_iff p s
  · exact rDependsOn_iff p s
  · exact rServiceRef_iff p s
  · exact rDockerfile_iff p s
  · exact rNetworkMode_iff p s
  · exact rContainerName_iff p s
  · exact rScale_iff p s
  · exact rCpus_iff p s
  · exact rMemLimit_iff p s
  · exact rMemReservation_iff p s
  · exact rPids_iff p s
  · exact rPlatform_iff p s
  · exact rHealthcheck_iff p s
  · exact rWatch_iff p s

/-- the loop body passes iff every rule function passes -/
theorem checkSvc_none_iff_rules (p : Proj) (s : Svc) : checkSvc p s = none ↔ ∀ r, ruleCheck p s r = none := by
  simp only [checkSvc, orE_none]
  constructor
  · intro h r
    cases r <;> simp only [ruleCheck] <;> simp only [h]
  · intro h
    exact ⟨h .image, h .exclDockerfile, h .xPlatform, h .exclNetworkMode, h .networks, h .xHealthcheck, h .dependsOn,
      h .serviceRef, h .volumes, h .buildSecrets, h .configs, h .secrets, h .pairScale, h .pairCpus, h .pairMemLimit,
      h .pairMemReservation, h .pairPids, h .exclContainerName, h .xWatch⟩

theorem checkSvc_none_iff (p : Proj) (s : Svc) : checkSvc p s = none ↔ ∀ r, Holds p s r := by
  rw [checkSvc_none_iff_rules]
  exact forall_congr' fun r => ruleCheck_iff p s r

/-- the class reported for a service is the class of one of its failing rule functions -/
theorem checkSvc_some (p : Proj) (s : Svc) (e : Err) (h : checkSvc p s = some e) : ∃ r, ruleCheck p s r = some e := by
  simp only [checkSvc, orE_some] at h
  rcases h with h | ⟨-, h | ⟨-, h | ⟨-, h | ⟨-, h | ⟨-, h | ⟨-, h | ⟨-, h | ⟨-, h | ⟨-, h | ⟨-, h | ⟨-, h | ⟨-, h | ⟨-, h | ⟨-, h | ⟨-, h | ⟨-, h | ⟨-, h | ⟨-, h⟩⟩⟩⟩⟩⟩⟩⟩⟩⟩⟩⟩⟩⟩⟩⟩⟩⟩
  · exact ⟨.image, h⟩
  · exact ⟨.exclDockerfile, h⟩
  · exact ⟨.xPlatform, h⟩
  · exact ⟨.exclNetworkMode, h⟩
  · exact ⟨.networks, h⟩
  · exact ⟨.xHealthcheck, h⟩
  · exact ⟨.dependsOn, h⟩
  · exact ⟨.serviceRef, h⟩
  · exact ⟨.volumes, h⟩
  · exact ⟨.buildSecrets, h⟩
  · exact ⟨.configs, h⟩
  · exact ⟨.secrets, h⟩
  · exact ⟨.pairScale, h⟩
  · exact ⟨.pairCpus, h⟩
  · exact ⟨.pairMemLimit, h⟩
  · exact ⟨.pairMemReservation, h⟩
  · exact ⟨.pairPids, h⟩
  · exact ⟨.exclContainerName, h⟩
  · exact ⟨.xWatch, h⟩

/-! ## the order of the rules and the class each one reports -/

/-- the rules of the loop body of `checkConsistency`, in source order -/
def svcRuleOrder : List Rule :=
  [.image, .exclDockerfile, .xPlatform, .exclNetworkMode, .networks, .xHealthcheck, .dependsOn, .serviceRef, .volumes,
   .buildSecrets, .configs, .secrets, .pairScale, .pairCpus, .pairMemLimit, .pairMemReservation, .pairPids,
   .exclContainerName, .xWatch]

/-- the error class of each rule -/
def ruleErr : Rule → Err
  | .image => .noImage | .exclDockerfile => .dockerfileExclusive | .xPlatform => .platformMismatch
  | .exclNetworkMode => .networkModeExclusive | .networks => .undefinedNetwork | .xHealthcheck => .healthcheck
  | .dependsOn => .undefinedDependency | .serviceRef => .networkModeService | .volumes => .undefinedVolume
  | .buildSecrets => .undefinedBuildSecret | .configs => .undefinedConfig | .secrets => .undefinedSecret
  | .pairScale => .scaleReplicas | .pairCpus => .cpus | .pairMemLimit => .memLimit
  | .pairMemReservation => .memReservation | .pairPids => .pidsLimit | .exclContainerName => .containerNameScale
  | .xWatch => .watchTarget

/-- the loop body applies the rules in the order `svcRuleOrder` and reports the first failure -/
theorem checkSvc_findSome (p : Proj) (s : Svc) : checkSvc p s = svcRuleOrder.findSome? (ruleCheck p s) := by
  have hcons : ∀ (a : Rule) (l : List Rule), (a :: l).findSome? (ruleCheck p s) = orE (ruleCheck p s a) (l.findSome? (ruleCheck p s)) := by
    intro a l
    cases h : ruleCheck p s a <;> simp [List.findSome?_cons, orE, h]
  have hnil : ∀ a : Option Err, orE a none = a := by intro a; cases a <;> rfl
  simp only [svcRuleOrder, hcons, List.findSome?_nil, hnil, ruleCheck, checkSvc]

/-- a rule function reports its own class and nothing else -/
theorem ruleCheck_err (p : Proj) (s : Svc) (r : Rule) (e : Err) (h : ruleCheck p s r = some e) : e = ruleErr r := by
  cases r <;> simp only [ruleCheck, ruleErr] at h ⊢
  all_goals first
    | (simp only [rImage, rNetworks, rVolumes, rSecrets, rConfigs, rDependsOn, rNetworkMode, rContainerName, rWatch, guard_some] at h; exact h.2.symm)
    | skip
  · -- buildSecrets
    simp only [rBuildSecrets] at h; split at h
    · exact ((guard_some.mp h).2).symm
    · cases h
  · -- serviceRef
    simp only [rServiceRef] at h; split at h
    · exact ((guard_some.mp h).2).symm
    · cases h
  · simp only [rDockerfile] at h; split at h
    · cases h
    · exact ((guard_some.mp h).2).symm
  · simp only [rScale] at h; split at h
    · split at h
      · exact ((guard_some.mp h).2).symm
      · cases h
    · cases h
  · simp only [rCpus] at h; split at h
    · split at h
      · exact ((guard_some.mp h).2).symm
      · cases h
    · cases h
  · simp only [rMemLimit] at h; split at h
    · split at h
      · exact ((guard_some.mp h).2).symm
      · cases h
    · cases h
  · simp only [rMemReservation] at h; split at h
    · split at h
      · exact ((guard_some.mp h).2).symm
      · cases h
    · cases h
  · simp only [rPids] at h; split at h
    · split at h
      · exact ((guard_some.mp h).2).symm
      · cases h
    · cases h
  · simp only [rPlatform] at h; split at h
    · cases h
    · exact ((guard_some.mp h).2).symm
  · simp only [rHealthcheck] at h; split at h
    · exact ((guard_some.mp h).2).symm
    · cases h

theorem checkSecret_iff (s : Secret) : checkSecret s = none ↔ (s.external = true ∨ s.file ≠ "" ∨ s.environment ≠ "") := by
  simp [checkSecret]
  grind

theorem findSome_none_iff {α : Type} (l : List α) (f : α → Option Err) : l.findSome? f = none ↔ ∀ x ∈ l, f x = none := by
  simp

end CV.Consistency
