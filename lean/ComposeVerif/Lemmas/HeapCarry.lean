import ComposeVerif.Lemmas.Heap
import ComposeVerif.Spec.Heap
import ComposeVerif.Spec.HeapCarry
/-! helper lemmas for C14: field access commutes with `erase` and with writes that keep the field -/
namespace CV.Heap

theorem kidOf_eraseKids (k : Key) : ∀ ks : List (Key × GoVal), kidOf k (eraseKids ks) = (kidOf k ks).map erase
  | [] => by simp [eraseKids, kidOf]
  | (j, w) :: r => by
    simp only [eraseKids, kidOf]
    split
    · simp
    · exact kidOf_eraseKids k r

theorem erase_getFld (f : Nat) (v : GoVal) : erase (getFld f v) = getFld f (erase v) := by
  cases v with
  | struct ks =>
    simp only [getFld, erase, kidOf_eraseKids]
    cases kidOf (.fld f) ks <;> simp [erase]
  | ptr b w =>
    cases w with
    | struct ks =>
      simp only [getFld, erase, kidOf_eraseKids]
      cases kidOf (.fld f) ks <;> simp [erase]
    | _ => simp [getFld, erase]
  | _ => simp [getFld, erase]

theorem kidOf_writeKids (k : Key) (a : Nat) (c : Cell) : ∀ ks : List (Key × GoVal),
    kidOf k (writeKids a c ks) = (kidOf k ks).map (write a c)
  | [] => by simp [writeKids, kidOf]
  | (j, w) :: r => by
    simp only [writeKids, kidOf]
    split
    · simp
    · exact kidOf_writeKids k a c r

theorem Keeps.carries {a0 g : Nat} : ∀ {ws : List (Nat × Cell)} {ks : List (Key × GoVal)}, Keeps a0 g ws ks →
    getFld g (writes ws (.ptr a0 (.struct ks))) = getFld g (.ptr a0 (.struct ks)) := by
  intro ws ks h
  induction h with
  | nil ks => rfl
  | @other a cell r ks hne hnot _ ih =>
    have hw : write a cell (.ptr a0 (.struct ks)) = .ptr a0 (.struct (writeKids a cell ks)) := by
      simp only [write]
      rw [if_neg (fun h => hne h.symm)]
    simp only [writes, hw, ih]
    simp only [getFld, kidOf_writeKids]
    cases hk : kidOf (.fld g) ks with
    | none => rfl
    | some v =>
      simp only [hk, Option.getD_some] at hnot
      simp [write_not_mem v a cell hnot]
  | @root ks' r ks hk _ ih =>
    have hw : write a0 (.pointee (.struct ks')) (.ptr a0 (.struct ks)) = .ptr a0 (.struct ks') := by
      simp [write]
    simp only [writes, hw, ih]
    simp only [getFld, hk]

end CV.Heap
