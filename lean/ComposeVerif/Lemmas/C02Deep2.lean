import ComposeVerif.Lemmas.MapOrder
import ComposeVerif.Model.Merge
import ComposeVerif.Lemmas.Merge
namespace CV.Deep
open CV CV.Val CV.Merge CV.Det

variable {β : Type}

/-! ### two association lists with distinct keys and the same lookups are permutations of each other -/

theorem find_append_none {k : String} {l1 l2 : AL β} (h : find k l1 = none) : find k (l1 ++ l2) = find k l2 := by
  induction l1 with
  | nil => rfl
  | cons hd tl ih =>
    obtain ⟨k', v⟩ := hd
    simp only [find] at h
    simp only [List.cons_append, find]
    split
    · next heq => simp [heq] at h
    · next hne => simp only [hne, if_false] at h; exact ih h

theorem find_append_some {k : String} {v : β} {l1 l2 : AL β} (h : find k l1 = some v) : find k (l1 ++ l2) = some v := by
  induction l1 with
  | nil => simp [find] at h
  | cons hd tl ih =>
    obtain ⟨k', v'⟩ := hd
    simp only [find] at h
    simp only [List.cons_append, find]
    split
    · next heq => simpa [heq] using h
    · next hne => simp only [hne, if_false] at h; exact ih h

/-- split a list at the entry that `find` returns -/
theorem find_split {k : String} {v : β} {l : AL β} (h : find k l = some v) :
    ∃ l1 l2, l = l1 ++ (k, v) :: l2 ∧ find k l1 = none := by
  induction l with
  | nil => simp [find] at h
  | cons hd tl ih =>
    obtain ⟨k', v'⟩ := hd
    simp only [find] at h
    by_cases heq : k = k'
    · subst heq
      simp only [if_true, Option.some.injEq] at h
      subst h
      exact ⟨[], tl, rfl, rfl⟩
    · simp only [heq, if_false] at h
      obtain ⟨l1, l2, hl, hn⟩ := ih h
      refine ⟨(k', v') :: l1, l2, by rw [hl]; rfl, ?_⟩
      simp [find, heq, hn]

theorem perm_of_find_eq : ∀ (l l' : AL β), (akeys l).Nodup → (akeys l').Nodup → (∀ k, find k l = find k l') → l.Perm l' := by
  intro l
  induction l with
  | nil =>
    intro l' _ _ h
    cases l' with
    | nil => exact List.Perm.refl _
    | cons hd tl =>
      obtain ⟨k, v⟩ := hd
      have := h k
      simp [find] at this
  | cons hd tl ih =>
    obtain ⟨k, v⟩ := hd
    intro l' hn hn' h
    have hk : find k l' = some v := by rw [← h k]; simp [find]
    obtain ⟨l1, l2, hl, hnone⟩ := find_split hk
    subst hl
    have hn1 : (akeys tl).Nodup := by simp only [akeys, List.map_cons, List.nodup_cons] at hn; exact hn.2
    have hktl : find k tl = none := find_none_tail_of_nodup hn
    have hperm : (l1 ++ (k, v) :: l2).Perm ((k, v) :: (l1 ++ l2)) := List.perm_middle
    have hn2 : (akeys ((k, v) :: (l1 ++ l2))).Nodup := ((hperm.map Prod.fst).nodup_iff).mp hn'
    have hn3 : (akeys (l1 ++ l2)).Nodup := by simp only [akeys, List.map_cons, List.nodup_cons] at hn2; exact hn2.2
    have hk12 : find k (l1 ++ l2) = none := find_none_tail_of_nodup hn2
    have hrest : ∀ k', find k' tl = find k' (l1 ++ l2) := by
      intro k'
      by_cases hkk : k' = k
      · subst hkk; rw [hktl, hk12]
      · have h1 := h k'
        simp only [find, hkk, if_false] at h1
        rw [h1, find_perm hn2 hperm k']
        simp [find, hkk]
    exact (List.Perm.cons (k, v) (ih (l1 ++ l2) hn1 hn3 hrest)).trans hperm.symm

/-! ### C04's sorts are the sorted arrangement -/

theorem insertStr_eq (s : String) (l : List String) : Merge.insertStr s l = insertBy strLe s l := by
  induction l with
  | nil => rfl
  | cons t r ih => simp only [Merge.insertStr, insertBy, strLe, decide_eq_true_eq, ih]

theorem sortStrs_eq (l : List String) : Merge.sortStrs l = Det.sortStrs l := by
  induction l with
  | nil => rfl
  | cons s r ih => simp only [Merge.sortStrs, Det.sortStrs, isort, insertStr_eq] at ih ⊢; rw [ih]

theorem insertKS_eq (e : String × String) (l : List (String × String)) : Merge.insertKS e l = insertBy keyLe e l := by
  induction l with
  | nil => rfl
  | cons t r ih => simp only [Merge.insertKS, insertBy, keyLe, decide_eq_true_eq, ih]

theorem sortKS_eq (l : List (String × String)) : Merge.sortKS l = isort keyLe l := by
  induction l with
  | nil => rfl
  | cons s r ih => simp only [Merge.sortKS, isort, insertKS_eq, ih]

theorem sortKS_perm {l l' : List (String × String)} (hn : (l.map Prod.fst).Nodup) (hp : l'.Perm l) :
    Merge.sortKS l' = Merge.sortKS l := by
  rw [sortKS_eq, sortKS_eq]
  apply isort_eq_of_perm keyLe_trans keyLe_total _ hp
  intro a b ha hb hab hba
  have hfst : a.1 = b.1 := by
    simp only [keyLe, decide_eq_true_eq] at hab hba
    exact String.le_antisymm hab hba
  exact eq_of_mem_of_fst_eq hn ha hb hfst

theorem find_eq_lookup (k : String) (a : KVs) : find k a = lookup k a := by
  induction a with
  | nil => rfl
  | cons hd tl ih => obtain ⟨k', v⟩ := hd; simp only [find, lookup, ih]

theorem akeys_eq_keys (a : KVs) : akeys a = keys a := rfl

end CV.Deep
