/-!
# Interleaving of loads that write no shared state

A memory is a function from locations to values.  Every location is owned by one load (thread) or by nobody
(`owner x = none`: shared state — package-level variables, the caller's maps).  A load is a step function on the
whole memory.  If every load writes only locations it owns, and what it writes depends only on its own and the
shared locations, then under ANY interleaving each load ends with exactly the state it reaches when run alone,
and the shared state is untouched.
-/
namespace CV.Interleave

variable {Loc Val Tid : Type}

structure Sys (Loc Val Tid : Type) where
  owner : Loc → Option Tid
  step : Tid → (Loc → Val) → (Loc → Val)

/-- a step of `t` changes only locations owned by `t` (in particular: no shared location) -/
def WritesOwn (S : Sys Loc Val Tid) : Prop :=
  ∀ t m x, S.owner x ≠ some t → S.step t m x = m x

/-- what `t` sees: its own locations and the shared ones -/
def Agree (S : Sys Loc Val Tid) (t : Tid) (m m' : Loc → Val) : Prop :=
  ∀ x, (S.owner x = some t ∨ S.owner x = none) → m x = m' x

/-- what `t` writes depends only on what it sees -/
def ReadsOwnOrShared (S : Sys Loc Val Tid) : Prop :=
  ∀ t m m', Agree S t m m' → ∀ x, S.owner x = some t → S.step t m x = S.step t m' x

def exec (S : Sys Loc Val Tid) : List Tid → (Loc → Val) → (Loc → Val)
  | [], m => m
  | t :: rest, m => exec S rest (S.step t m)

def solo (S : Sys Loc Val Tid) (t : Tid) : Nat → (Loc → Val) → (Loc → Val)
  | 0, m => m
  | k + 1, m => solo S t k (S.step t m)

theorem agree_refl (S : Sys Loc Val Tid) (t : Tid) (m : Loc → Val) : Agree S t m m := fun _ _ => rfl

theorem agree_trans {S : Sys Loc Val Tid} {t : Tid} {a b c : Loc → Val} (h1 : Agree S t a b) (h2 : Agree S t b c) :
    Agree S t a c := fun x hx => (h1 x hx).trans (h2 x hx)

theorem agree_step_self {S : Sys Loc Val Tid} (hW : WritesOwn S) (hR : ReadsOwnOrShared S) {t : Tid} {m m' : Loc → Val}
    (h : Agree S t m m') : Agree S t (S.step t m) (S.step t m') := by
  intro x hx
  rcases hx with hx | hx
  · exact hR t m m' h x hx
  · have hne : S.owner x ≠ some t := by rw [hx]; simp
    rw [hW t m x hne, hW t m' x hne]; exact h x (.inr hx)

theorem agree_step_other {S : Sys Loc Val Tid} (hW : WritesOwn S) {t u : Tid} (hne : u ≠ t) (m : Loc → Val) :
    Agree S t (S.step u m) m := by
  intro x hx
  apply hW u m x
  rcases hx with hx | hx
  · rw [hx]; intro e; injection e with e; exact hne e.symm
  · rw [hx]; simp

theorem agree_solo {S : Sys Loc Val Tid} (hW : WritesOwn S) (hR : ReadsOwnOrShared S) {t : Tid} (k : Nat) :
    ∀ {m m' : Loc → Val}, Agree S t m m' → Agree S t (solo S t k m) (solo S t k m') := by
  induction k with
  | zero => intro m m' h; exact h
  | succ k ih => intro m m' h; exact ih (agree_step_self hW hR h)

theorem exec_agree_solo [DecidableEq Tid] {S : Sys Loc Val Tid} (hW : WritesOwn S) (hR : ReadsOwnOrShared S) (t : Tid) :
    ∀ (sched : List Tid) (m : Loc → Val), Agree S t (exec S sched m) (solo S t (sched.count t) m) := by
  intro sched
  induction sched with
  | nil => intro m; exact agree_refl S t m
  | cons u rest ih =>
    intro m
    by_cases hu : u = t
    · subst hu
      simp only [exec, List.count_cons_self, solo]
      exact ih (S.step u m)
    · have hc : (u :: rest).count t = rest.count t := by
        simp [hu]
      rw [hc]
      simp only [exec]
      exact agree_trans (ih (S.step u m)) (agree_solo hW hR _ (agree_step_other hW hu m))

/-- locations of a process that runs several loads: package-level variables of the library (shared, owned by no load) and
    everything else (`priv`: load-local values, the caller's own data) -/
inductive PLoc (L : Type) where
  | global (pkg var : String)
  | priv (l : L)
deriving DecidableEq

end CV.Interleave
