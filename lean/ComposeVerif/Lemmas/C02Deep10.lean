import ComposeVerif.Lemmas.C02Deep9
namespace CV.Deep
open CV CV.Merge
open CV.Val (lookup insert keys KVs)

theorem OutEqv.mono {α : Type} {R S : α → α → Prop} (h : ∀ a b, R a b → S a b) {x y : Out α} (hx : OutEqv R x y) :
    OutEqv S x y := by
  cases x <;> cases y <;> simp only [OutEqv] at hx ⊢
  · exact h _ _ hx

theorem specialStep_ipam_rel (mk : KVs → KVs → TPath → Out KVs) (p : TPath) (hmk : MkCongr mk p) (hwf : MkWF mk p)
    {e e' o o' : Val} (he : Eqv e e') (ho : Eqv o o') (we : WF e) (we' : WF e') (wo : WF o) (wo' : WF o') :
    OutEqv EqvW (specialStep mk .ipam e o p) (specialStep mk .ipam e' o' p) := by
  simp only [specialStep]
  exact ipamStep_rel mk p hmk hwf he ho we we' wo wo'

/-- **`mergeYaml`, every rule, every path, every fuel**: it respects the equivalence and preserves well-formedness -/
theorem mergeYaml_full : ∀ (n : Nat) (p : TPath), Congr (mergeYaml n) p ∧ PresWF (mergeYaml n) p := by
  intro n
  induction n with
  | zero =>
    intro p
    refine ⟨?_, ?_⟩
    · intro e e' v v' _ _ _ _ _ _; simp [mergeYaml, OutEqv]
    · intro e v z _ _ h; simp [mergeYaml] at h
  | succ n ih =>
    intro p
    have hmk : MkCongr (mergeKVsWith (mergeYaml n)) p := by
      intro a a' b b' hab hbb wa wa' wb wb'
      exact mergeKVsWith_congr (mergeYaml n) p (fun k => (ih (next p k)).1) a a' b b' hab hbb wa wa' wb wb'
    have hwf : MkWF (mergeKVsWith (mergeYaml n)) p :=
      mergeKVsWith_wf (mergeYaml n) p (fun k => (ih (next p k)).2)
    refine ⟨?_, ?_⟩
    · intro e e' o o' he ho we we' wo wo'
      simp only [mergeYaml, mergeStep]
      cases hr : ruleAt p with
      | none => exact defaultStep_eqv _ p hmk he ho we we' wo wo'
      | some r =>
        by_cases hi : r = .ipam
        · subst hi
          exact OutEqv.mono (fun _ _ h => h.1) (specialStep_ipam_rel _ p hmk hwf he ho we we' wo wo')
        · exact specialStep_eqv _ p hmk r hi he ho we we' wo wo'
    · intro e o z we wo h
      simp only [mergeYaml, mergeStep] at h
      cases hr : ruleAt p with
      | none => rw [hr] at h; exact defaultStep_wf _ p hwf we wo h
      | some r =>
        rw [hr] at h
        by_cases hi : r = .ipam
        · subst hi
          have := specialStep_ipam_rel _ p hmk hwf (Eqv.refl e we) (Eqv.refl o wo) we we wo wo
          simp only [] at h
          rw [h] at this
          exact this.2.1
        · exact specialStep_wf _ p hwf r hi we wo h

end CV.Deep
