import ComposeVerif.Model.Reset
import ComposeVerif.Lemmas.Merge
/-! Lemmas about `!reset` / `!override` path recording (`resolveMap`) and `Apply` (`applyKVs`). -/
namespace CV.Reset
open CV CV.Val CV.Merge

theorem pmatch_refl : ∀ (q : List String), TPath.pmatch q q = true
  | [] => rfl
  | a :: r => by simp [TPath.pmatch, pmatch_refl r]

theorem matchesAny_of_mem {paths : List TPath} {q : TPath} (h : q ∈ paths) : matchesAny paths q = true := by
  simp only [matchesAny, List.any_eq_true]
  exact ⟨q, h, pmatch_refl q⟩

/-- `Apply` deletes every key whose path matches a recorded path … -/
theorem applyKVs_removed (paths : List TPath) (p : TPath) (k : String) (h : matchesAny paths (next p k) = true) :
    ∀ kvs : KVs, lookup k (applyKVs paths kvs p) = none := by
  intro kvs
  induction kvs with
  | nil => simp [applyKVs, lookup]
  | cons hd tl ih =>
    obtain ⟨k', e⟩ := hd
    simp only [applyKVs]
    split
    · exact ih
    · next hm =>
      simp only [lookup]
      by_cases hk : k = k'
      · subst hk; exact absurd h hm
      · simp only [hk, if_false]; exact ih

/-- … and keeps every other key (descending into its value) -/
theorem applyKVs_kept (paths : List TPath) (p : TPath) (k : String) (h : matchesAny paths (next p k) = false) :
    ∀ kvs : KVs, lookup k (applyKVs paths kvs p) = (lookup k kvs).map fun e => applyNull paths e (next p k) := by
  intro kvs
  induction kvs with
  | nil => simp [applyKVs, lookup]
  | cons hd tl ih =>
    obtain ⟨k', e⟩ := hd
    simp only [applyKVs]
    split
    · next hm =>
      simp only [lookup]
      by_cases hk : k = k'
      · subst hk; rw [h] at hm; cases hm
      · simp only [hk, if_false]; exact ih
    · simp only [lookup]
      by_cases hk : k = k'
      · subst hk; simp
      · simp only [hk, if_false]; exact ih

theorem resolve_reset (x : YNode) (q : TPath) (h : x.tag = .reset) : resolve x q = (none, [q]) := by
  cases x with
  | scalar t v => simp only [YNode.tag] at h; subst h; simp [resolve]
  | seq t xs => simp only [YNode.tag] at h; subst h; simp [resolve]
  | map t es => simp only [YNode.tag] at h; subst h; simp [resolve]

theorem resolve_override (x : YNode) (q : TPath) (h : x.tag = .override) : resolve x q = (some x, [q]) := by
  cases x with
  | scalar t v => simp only [YNode.tag] at h; subst h; simp [resolve]
  | seq t xs => simp only [YNode.tag] at h; subst h; simp [resolve]
  | map t es => simp only [YNode.tag] at h; subst h; simp [resolve]

theorem lookup_decodeKV_cons_ne {k k' : String} (hk : k ≠ k') (y : YNode) (r : List (String × YNode)) :
    lookup k (decodeKV ((k', y) :: r)) = lookup k (decodeKV r) := by
  simp [decodeKV, lookup, hk]

/-- the resolved mapping only has keys of the original mapping -/
theorem resolveMap_absent (p : TPath) (k : String) : ∀ es : List (String × YNode), k ∉ es.map Prod.fst →
    lookup k (decodeKV (resolveMap es p).1) = none := by
  intro es
  induction es with
  | nil => intro _; simp [resolveMap, decodeKV, lookup]
  | cons hd tl ih =>
    obtain ⟨k', y⟩ := hd
    intro h
    simp only [List.map_cons, List.mem_cons, not_or] at h
    simp only [resolveMap]
    cases (resolve y (next p k')).1 with
    | none => exact ih h.2
    | some y' => simp only; rw [lookup_decodeKV_cons_ne h.1]; exact ih h.2

theorem resolveMap_paths_mono (p : TPath) (q : TPath) (hd : String × YNode) (tl : List (String × YNode))
    (h : q ∈ (resolveMap tl p).2) : q ∈ (resolveMap (hd :: tl) p).2 := by
  obtain ⟨k', y⟩ := hd
  simp only [resolveMap, List.mem_append]
  exact .inr h

/-- a `!reset` entry is dropped from the document and its path is recorded -/
theorem resolveMap_reset (p : TPath) (k : String) (x : YNode) (ht : x.tag = .reset) :
    ∀ es : List (String × YNode), (es.map Prod.fst).Nodup → (k, x) ∈ es →
      lookup k (decodeKV (resolveMap es p).1) = none ∧ next p k ∈ (resolveMap es p).2 := by
  intro es
  induction es with
  | nil => intro _ h; cases h
  | cons hd tl ih =>
    obtain ⟨k', y⟩ := hd
    intro hnd hmem
    simp only [List.map_cons, List.nodup_cons] at hnd
    rcases List.mem_cons.mp hmem with heq | htl
    · cases heq
      constructor
      · simp only [resolveMap, resolve_reset x _ ht]
        exact resolveMap_absent p k tl hnd.1
      · simp only [resolveMap, resolve_reset x _ ht, List.mem_append, List.mem_singleton, true_or]
    · have hne : k ≠ k' := by
        intro h; subst h
        exact hnd.1 (List.mem_map.mpr ⟨(k, x), htl, rfl⟩)
      obtain ⟨h1, h2⟩ := ih hnd.2 htl
      constructor
      · simp only [resolveMap]
        cases (resolve y (next p k')).1 with
        | none => exact h1
        | some y' => simp only; rw [lookup_decodeKV_cons_ne hne]; exact h1
      · exact resolveMap_paths_mono p _ _ _ h2

/-- an `!override` entry stays in the document as written and its path is recorded -/
theorem resolveMap_override (p : TPath) (k : String) (x : YNode) (ht : x.tag = .override) :
    ∀ es : List (String × YNode), (es.map Prod.fst).Nodup → (k, x) ∈ es →
      lookup k (decodeKV (resolveMap es p).1) = some (decode x) ∧ next p k ∈ (resolveMap es p).2 := by
  intro es
  induction es with
  | nil => intro _ h; cases h
  | cons hd tl ih =>
    obtain ⟨k', y⟩ := hd
    intro hnd hmem
    simp only [List.map_cons, List.nodup_cons] at hnd
    rcases List.mem_cons.mp hmem with heq | htl
    · cases heq
      constructor
      · simp [resolveMap, resolve_override x _ ht, decodeKV, lookup]
      · simp only [resolveMap, resolve_override x _ ht, List.mem_append, List.mem_singleton, true_or]
    · have hne : k ≠ k' := by
        intro h; subst h
        exact hnd.1 (List.mem_map.mpr ⟨(k, x), htl, rfl⟩)
      obtain ⟨h1, h2⟩ := ih hnd.2 htl
      constructor
      · simp only [resolveMap]
        cases (resolve y (next p k')).1 with
        | none => exact h1
        | some y' => simp only; rw [lookup_decodeKV_cons_ne hne]; exact h1
      · exact resolveMap_paths_mono p _ _ _ h2

/-- the resolved mapping still has distinct keys -/
theorem resolveMap_keys_nodup (p : TPath) : ∀ es : List (String × YNode), (es.map Prod.fst).Nodup →
    (keys (decodeKV (resolveMap es p).1)).Nodup := by
  intro es
  induction es with
  | nil => intro _; simp [resolveMap, decodeKV, keys]
  | cons hd tl ih =>
    obtain ⟨k', y⟩ := hd
    intro h
    simp only [List.map_cons, List.nodup_cons] at h
    simp only [resolveMap]
    cases (resolve y (next p k')).1 with
    | none => exact ih h.2
    | some y' =>
      simp only [decodeKV, keys, List.map_cons, List.nodup_cons]
      refine ⟨?_, ih h.2⟩
      have := resolveMap_absent p k' tl h.1
      exact lookup_eq_none_iff.mp this

end CV.Reset
