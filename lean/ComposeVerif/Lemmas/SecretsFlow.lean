import ComposeVerif.Lemmas.Secrets
/-! C20: threading the object-level invariants through the section pipeline `loadSection`. -/
namespace CV.Secrets
open CV CV.Val

/-! ### the three list traversals, generically -/

theorem forall_resolveObjs {Q0 Q1 : String → Val → Prop} (c : String) (env : Env)
    (step : ∀ n v, Q0 n v → Q1 n (resolveObj c env v)) :
    ∀ {objs : KVs}, (∀ e ∈ objs, Q0 e.1 e.2) → ∀ e ∈ resolveObjs c env objs, Q1 e.1 e.2
  | [], _ => by simp [resolveObjs]
  | (n, v) :: r, h => by
    simp only [resolveObjs, List.forall_mem_cons] at h ⊢
    exact ⟨step n v h.1, forall_resolveObjs c env step h.2⟩

theorem forall_setNameObjs {Q1 Q2 : String → Val → Prop} (pname : String)
    (step : ∀ n v v', Q1 n v → setNameObj pname n v = .ok v' → Q2 n v') :
    ∀ {objs objs' : KVs}, setNameObjs pname objs = .ok objs' → (∀ e ∈ objs, Q1 e.1 e.2) → ∀ e ∈ objs', Q2 e.1 e.2
  | [], objs', h, _ => by simp [setNameObjs] at h; subst h; simp
  | (n, v) :: r, objs', h, hq => by
    simp only [setNameObjs] at h
    simp only [List.forall_mem_cons] at hq
    split at h <;> try (cases h; done)
    rename_i v' r' h1 h2
    cases h
    simp only [List.forall_mem_cons]
    exact ⟨step n v v' hq.1 h1, forall_setNameObjs pname step h2 hq.2⟩

theorem forall_decodeObjs {Q2 : String → Val → Prop} {Q3 : String → FileObj → Prop} (f : Val → Out FileObj) (p : TPath)
    (step : ∀ n v o q, Q2 n v → f (pxVal q v) = .ok o → Q3 n o) :
    ∀ {objs : KVs} {l : List (String × FileObj)}, decodeObjs f (pxKVs p true objs) = .ok l →
      (∀ e ∈ objs, Q2 e.1 e.2) → ∀ e ∈ l, Q3 e.1 e.2
  | [], l, h, _ => by simp [pxKVs, decodeObjs] at h; subst h; simp
  | (n, v) :: r, l, h, hq => by
    simp only [pxKVs, Bool.not_true, Bool.false_and, Bool.false_eq_true, if_false, decodeObjs] at h
    simp only [List.forall_mem_cons] at hq
    split at h <;> try (cases h; done)
    rename_i o r' h1 h2
    cases h
    simp only [List.forall_mem_cons]
    exact ⟨step n v o _ hq.1 h1, forall_decodeObjs f p step h2 hq.2⟩

/-! ### one secret object -/

theorem secret_obj_clean {P : String → Prop} (hx : P extKey) (hemp : P "") (hnil : P "<nil>") (hcut : CutClosed P) {p : TPath} {kvs : KVs} (h : ObjOkF P xValue kvs) {o : FileObj}
    (hd : decodeSecret (pxVal p (.map kvs)) = .ok o) : o.CleanBut P ∧ o.marshallContent = false := by
  simp only [pxVal, decodeSecret] at hd
  have hraw := RawOk_pxObj (c := xValue) hx xValue_ne_extKey p (isUserDefined p) h (ObjOkF_extrasOf h _)
  obtain ⟨hr, he⟩ := RawOk_hook hraw
  refine ⟨CleanBut_decodeFields hemp hnil hcut (.inl rfl) hr he hd, ?_⟩
  unfold decodeFields at hd
  split at hd
  · split at hd
    · cases hd; rfl
    · cases hd
  · cases hd

theorem setNameObj_ok {pname n : String} {v v' : Val} (h : setNameObj pname n v = .ok v') :
    ∃ kvs, v' = .map (setNameKVs pname n kvs) ∧ (v = .map kvs ∨ (v = .null ∧ kvs = [])) := by
  cases v with
  | null => simp only [setNameObj] at h; cases h; exact ⟨[], rfl, .inr ⟨rfl, rfl⟩⟩
  | map kvs => simp only [setNameObj] at h; cases h; exact ⟨kvs, rfl, .inl rfl⟩
  | _ => simp [setNameObj] at h

/-! ### one config object -/

theorem lookup_pxKVs (p : TPath) (skip : Bool) {k : String} (hk : isExtKey k = false) :
    ∀ kvs : KVs, Val.lookup k (pxKVs p skip kvs) = (Val.lookup k kvs).map (fun v => pxVal (childPath p k v) v)
  | [] => by simp [pxKVs, Val.lookup]
  | (k', v) :: r => by
    simp only [pxKVs]
    split
    · rename_i hdrop
      have hne : k ≠ k' := by
        intro h; subst h
        simp [hk] at hdrop
      simp only [Val.lookup, if_neg hne]
      exact lookup_pxKVs p skip hk r
    · by_cases hkk : k = k'
      · subst hkk; simp [Val.lookup]
      · simp only [Val.lookup, if_neg hkk]
        exact lookup_pxKVs p skip hk r

/-- the content of a config is clean, or its source variable has a name -/
def CfgLink (P : String → Prop) (kvs : KVs) : Prop :=
  (∀ v, Val.lookup "content" kvs = some v → AllStr P v) ∨ (∃ e, Val.lookup "environment" kvs = some (.str e) ∧ e ≠ "")

theorem CfgLink_resolveObj {P : String → Prop} (env : Env) {kvs : KVs} (h : AllStrKV P kvs) :
    ∀ kvs', resolveObj "content" env (.map kvs) = .map kvs' → CfgLink P kvs' := by
  intro kvs' hr
  simp only [resolveObj] at hr
  split at hr
  · rename_i e he
    split at hr
    · cases hr; left; intro v hl; exact AllStrKV_lookup h hl
    · rename_i hne
      split at hr
      · cases hr
        right
        refine ⟨e, ?_, hne⟩
        rw [lookup_insert_ne (by decide)]; exact he
      · cases hr; left; intro v hl; exact AllStrKV_lookup h hl
  · cases hr; left; intro v hl; exact AllStrKV_lookup h hl

theorem CfgLink_setNameKVs {P : String → Prop} {pname n : String} {kvs : KVs} (h : CfgLink P kvs) : CfgLink P (setNameKVs pname n kvs) := by
  unfold setNameKVs
  split
  · rcases h with h | ⟨e, he, hne⟩
    · left; intro v hl; rw [lookup_insert_ne (by decide)] at hl; exact h v hl
    · right; exact ⟨e, by rw [lookup_insert_ne (by decide)]; exact he, hne⟩
  · exact h

theorem isExtKey_content : isExtKey "content" = false := by decide
theorem isExtKey_environment : isExtKey "environment" = false := by decide
theorem isExtKey_Content : isExtKey "Content" = false := by decide

theorem config_obj_clean {P : String → Prop} (hx : P extKey) (hemp : P "") (hnil : P "<nil>") (hcut : CutClosed P) {p : TPath} {kvs : KVs} (h : ObjOkF P "content" kvs)
    (hl : CfgLink P kvs) {o : FileObj} (hd : decodeConfig (pxVal p (.map kvs)) = .ok o) :
    o.CleanBut P ∧ (o.environment ≠ "" ∨ OptP P o.content) := by
  simp only [pxVal, decodeConfig] at hd
  have hexA : AllStrKV P (extrasOf (isUserDefined p) kvs) := by
    unfold extrasOf
    split
    · simp [AllStrKV]
    · exact AllStrKV_filter_of_ObjOkF h _ (fun v => by simpa using isExtKey_content)
  have hkeep := ObjOkF_pxKVs (c := "content") hx p (isUserDefined p) h
  have hraw := RawOk_pxObj (c := "content") hx (by decide) p (isUserDefined p) h (ObjOkF_of_AllStrKV hexA)
  have hclean : ExtClean P (withExtras (extrasOf (isUserDefined p) kvs) (pxKVs p (isUserDefined p) kvs)) := by
    intro m hm
    unfold withExtras at hm
    split at hm
    · have := ObjOkF_lookup_ne hkeep hm (by decide)
      simpa [AllStr] using this
    · rw [lookup_insert_self] at hm
      cases hm
      exact hexA
  refine ⟨CleanBut_decodeFields hemp hnil hcut (.inr rfl) hraw hclean hd, ?_⟩
  -- what the decode read for `environment` and `content`
  have lk : ∀ k, k ≠ extKey → isExtKey k = false →
      Val.lookup k (withExtras (extrasOf (isUserDefined p) kvs) (pxKVs p (isUserDefined p) kvs)) =
        (Val.lookup k kvs).map (fun v => pxVal (childPath p k v) v) := by
    intro k h1 h2
    rw [lookup_withExtras_ne h1, lookup_pxKVs p _ h2]
  unfold decodeFields at hd
  split at hd
  · rename_i name file environment content external labels driver driverOpts templateDriver extensions h1 h2 h3 h4 _ h6 h7 h8 h9 h10
    split at hd
    · cases hd
      simp only
      rcases hl with hc | ⟨e, he, hne⟩
      · right
        unfold contentField at h4
        split at h4
        · rename_i v hv
          unfold strField at h4
          rw [hv] at h4
          rw [lk "content" (by decide) isExtKey_content] at hv
          cases hv0 : Val.lookup "content" kvs with
          | none => simp [hv0] at hv
          | some v0 =>
            simp only [hv0, Option.map_some, Option.some.injEq] at hv
            have hcl := AllStr_pxVal hx (childPath p "content" v0) v0 (hc v0 hv0)
            rw [hv] at hcl
            cases v <;> simp at h4
            · exact .inl h4
            · subst h4; exact .inr (by simpa [AllStr] using hcl)
            · subst h4; exact .inr (by simpa [AllStr] using hcl)
        · rename_i hnone
          unfold strField at h4
          split at h4
          · cases h4; exact .inl rfl
          · cases h4; exact .inl rfl
          · rename_i s hs
            cases h4
            rw [lookup_withExtras_ne (by decide)] at hs
            exact .inr (by simpa [AllStr] using ObjOkF_lookup_ne hkeep hs (by decide))
          · rename_i i hs
            cases h4
            rw [lookup_withExtras_ne (by decide)] at hs
            exact .inr (by simpa [AllStr] using ObjOkF_lookup_ne hkeep hs (by decide))
          · cases h4
      · left
        unfold strField at h3
        rw [lk "environment" (by decide) isExtKey_environment, he] at h3
        simp only [Option.map_some, pxVal] at h3
        cases h3
        exact hne
    · cases hd
  · cases hd

end CV.Secrets
