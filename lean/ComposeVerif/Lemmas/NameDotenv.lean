import ComposeVerif.Lemmas.Name
import ComposeVerif.Lemmas.Dotenv
import ComposeVerif.Props.C07
/-!
# C17 ⇄ C18/C07: the env-file layer of the project environment through the parser model

* `Dotenv.get` is the first-match lookup of `Env.get`; the parser's result has distinct keys, so the Go loop
  `for k, v := range env { envMap[k] = v }` (`mergeInto`) is "the new file's bindings first";
* the specification's simple-line evaluator (`Spec.fileLayer`) is the restriction of the parser model to files
  made of `KEY=VALUE` lines (`Dotenv.parse_render`), and the value of such a line is what the interpolation
  grammar says (`Template.subst_render`).
-/
namespace CV.Name
open CV CV.Name.Spec

theorem dget_eq (m : Env) (k : Str) : Dotenv.get m k = m.get k := by
  induction m with
  | nil => rfl
  | cons p m ih =>
    obtain ⟨k', v⟩ := p
    by_cases h : k = k'
    · subst h; simp [Dotenv.get, Env.get, List.lookup_cons]
    · have hb : (k == k') = false := by simpa using h
      simp only [Dotenv.get, h, if_false, Env.get, List.lookup_cons, hb]
      exact ih

abbrev Keys (m : Env) : List Str := m.map Prod.fst

theorem get_none_of_not_mem (m : Env) (k : Str) (h : k ∉ Keys m) : Dotenv.get m k = none := by
  induction m with
  | nil => rfl
  | cons p m ih =>
    obtain ⟨k', v⟩ := p
    simp only [Keys, List.map_cons, List.mem_cons, not_or] at h
    simp only [Dotenv.get, h.1, if_false]
    exact ih h.2

theorem get_mergeInto (m env : Env) (hn : (Keys env).Nodup) (k : Str) :
    Dotenv.get (Dotenv.mergeInto m env) k =
      match Dotenv.get env k with
      | some v => some v
      | none => Dotenv.get m k := by
  induction env generalizing m with
  | nil => rfl
  | cons p r ih =>
    obtain ⟨k', v⟩ := p
    simp only [Keys, List.map_cons, List.nodup_cons] at hn
    simp only [Dotenv.mergeInto]
    rw [ih (Dotenv.put m k' v) hn.2]
    by_cases h : k = k'
    · subst h
      rw [get_none_of_not_mem r k hn.1]
      simp [Dotenv.get, Dotenv.get_put_same_lemma]
    · simp only [Dotenv.get, h, if_false, Dotenv.get_put_other_lemma m k' k v h]

theorem parseLoop_nodup : ∀ (fuel : Nat) (src : Str) (m : Env) (lk : Template.Env) (m' : Env),
    Dotenv.parseLoop fuel src m lk = .ok m' → (Keys m).Nodup → (Keys m').Nodup := by
  intro fuel
  induction fuel with
  | zero => intro src m lk m' h; simp [Dotenv.parseLoop] at h
  | succ n ih =>
    intro src m lk m' h hn
    rw [Dotenv.parseLoop] at h
    split at h
    · cases h
    · split at h
      · cases h; exact hn
      · split at h
        · cases h
        · cases h
        · split at h
          · cases h
          · split at h
            · split at h
              · exact ih _ _ _ _ h (Dotenv.put_keys_nodup_lemma _ _ _ hn)
              · exact ih _ _ _ _ h hn
            · split at h
              · cases h
              · cases h
              · exact ih _ _ _ _ h (Dotenv.put_keys_nodup_lemma _ _ _ hn)

theorem parseFile_nodup (look : Template.Env) (c : Str) (out : Env) (h : parseFile look c = .ok out) :
    (Keys out).Nodup := by
  unfold parseFile at h
  split at h
  · rename_i m hm
    cases h
    exact parseLoop_nodup _ _ _ _ _ hm (by simp [Keys])
  · cases h
  · cases h

theorem getEnvFromFile_snoc (w : World) (cur : Env) (fs : List FileRef) (f : FileRef) (acc m : Env)
    (h : getEnvFromFile w cur (fs ++ [f]) acc = .ok m) :
    ∃ m0 c out, getEnvFromFile w cur fs acc = .ok m0 ∧ lookupFile w f = some (.file c) ∧
      parseFile (Dotenv.envOf cur.get m0) c = .ok out ∧ m = Dotenv.mergeInto m0 out := by
  induction fs generalizing acc with
  | nil =>
    simp only [List.nil_append, getEnvFromFile] at h
    split at h
    · cases h
    · cases h
    · rename_i c hl
      split at h
      · rename_i out ho
        try simp only [getEnvFromFile] at h
        cases h
        exact ⟨acc, c, out, rfl, hl, ho, rfl⟩
      · cases h
  | cons g gs ih =>
    simp only [List.cons_append, getEnvFromFile] at h ⊢
    split at h
    · cases h
    · cases h
    · rename_i c hl
      split at h
      · rename_i out ho
        exact ih _ h
      · cases h

/-! ## simple `KEY=VALUE` lines -/

def simpleLine (p : Str × Str) : Dotenv.Line := .assign [] none p.1 [] .eq [] (.unq p.2) [] none

/-- the text of a file made of `KEY=VALUE` lines -/
def renderSimple (ls : List (Str × Str)) : Str := Dotenv.render (ls.map simpleLine)

/-- a key the parser accepts and a value that is read back unchanged (no line feed, no `" #"`, no leading
    quote or space, no trailing space) -/
def simpleOk (p : Str × Str) : Bool := Dotenv.validKey p.1 && Dotenv.unqOk p.2

theorem simple_wf (ls : List (Str × Str)) (h : ls.all simpleOk = true) : Dotenv.WF (ls.map simpleLine) = true := by
  induction ls with
  | nil => rfl
  | cons p ls ih =>
    simp only [List.all_cons, Bool.and_eq_true] at h
    simp only [Dotenv.WF, List.map_cons, List.all_cons, Bool.and_eq_true]
    refine ⟨?_, ih h.2⟩
    have := h.1
    simp only [simpleOk, Bool.and_eq_true] at this
    simp [simpleLine, Dotenv.Line.wf, Dotenv.nbAll, Dotenv.expOk, Dotenv.Value.wf, Dotenv.cmtOk, this.1, this.2]

theorem envOf_eq_layers (above earlier : Env) (m : Env) (out : Env) (hR : ∀ k, Dotenv.get m k = out.get k) :
    Dotenv.envOf (Dotenv.envOf above.get earlier) m = lookupLayers [above, earlier, out] := by
  funext n
  have hR' : m.get n = out.get n := by rw [← dget_eq]; exact hR n
  cases ha : above.get n <;> cases he : earlier.get n <;> cases ho : out.get n <;>
    simp [Dotenv.envOf, lookupLayers, dget_eq, ha, he, hR', ho]

/-- what "the parser and the simple-line evaluator agree" means: both fail, or both succeed with maps that
    agree on every key -/
def SameResult : Dotenv.POut → Except Unit Env → Prop
  | .ok m, .ok out => ∀ k, Dotenv.get m k = out.get k
  | .err _ _, .error _ => True
  | .panic _, .error _ => True
  | _, _ => False

theorem evalFrom_simple (above earlier : Env) (ls : List (Str × Str)) (m out : Env)
    (hR : ∀ k, Dotenv.get m k = out.get k) :
    SameResult (Dotenv.evalFrom (Dotenv.envOf above.get earlier) (ls.map simpleLine) m)
      (fileLayer above earlier ls out) := by
  induction ls generalizing m out with
  | nil => simpa [Dotenv.evalFrom, fileLayer, SameResult] using hR
  | cons p ls ih =>
    obtain ⟨k, t⟩ := p
    simp only [List.map_cons, simpleLine, Dotenv.evalFrom, Dotenv.Value.eval, fileLayer]
    rw [envOf_eq_layers above earlier m out hR]
    cases Template.subst (lookupLayers [above, earlier, out]) t with
    | ok v =>
      apply ih
      intro k'
      by_cases h : k' = k
      · subst h; rw [Dotenv.get_put_same_lemma]; simp [Env.get, List.lookup_cons]
      · rw [Dotenv.get_put_other_lemma m k k' v h, hR k']
        have hb : (k' == k) = false := by simpa using h
        simp [Env.get, List.lookup_cons, hb]
    | err e => simp [SameResult]
    | panic s => simp [SameResult]

theorem stripBOM_renderSimple (ls : List (Str × Str)) (h : ls.all simpleOk = true) :
    Dotenv.stripBOM (renderSimple ls) = renderSimple ls := by
  cases ls with
  | nil => rfl
  | cons p ls =>
    obtain ⟨k, t⟩ := p
    simp only [List.all_cons, Bool.and_eq_true, simpleOk] at h
    have hk := h.1.1
    cases k with
    | nil => simp [Dotenv.validKey] at hk
    | cons c cs =>
      have hc : Dotenv.isKeyRune c = true := by
        simp only [Dotenv.validKey, List.all_cons, Bool.and_eq_true] at hk
        exact hk.1.2.1
      have hne : c ≠ '\uFEFF' := by
        intro e; subst e; revert hc; decide
      simp only [renderSimple, List.map_cons, simpleLine, Dotenv.render, Dotenv.Line.render, Dotenv.renderExp,
        List.nil_append, List.cons_append]
      unfold Dotenv.stripBOM
      split
      · rename_i r heq
        injection heq with h1 _
        exact absurd h1 hne
      · rfl

/-- **the simple-line evaluator is the restriction of the parser model**: on a file made of accepted
    `KEY=VALUE` lines, `ParseWithLookup` (C18's model) and `Spec.fileLayer` succeed together and produce maps that
    agree on every key -/
theorem parseFile_simple (above earlier : Env) (ls : List (Str × Str)) (h : ls.all simpleOk = true) :
    SameResult (Dotenv.parse (Dotenv.stripBOM (renderSimple ls)) (Dotenv.envOf above.get earlier))
      (fileLayer above earlier ls []) := by
  rw [stripBOM_renderSimple ls h, renderSimple, Dotenv.parse_render_lemma _ _ (simple_wf ls h)]
  exact evalFrom_simple above earlier ls [] [] (fun _ => rfl)

/-- the value of a simple line whose text is a well-formed template is what the interpolation grammar says,
    evaluated against: the variables above the env files, the earlier files, the earlier lines -/
theorem fileLayer_value (above earlier out : Env) (k : Str) (t : List Template.Seg) (ls : List (Str × Str))
    (h : Template.WF t = true) :
    fileLayer above earlier ((k, Template.renderL t) :: ls) out =
      match Template.evalOut (lookupLayers [above, earlier, out]) t with
      | .ok v => fileLayer above earlier ls ((k, v) :: out)
      | _ => .error () := by
  rw [fileLayer, Template.subst_render _ t h]
  cases Template.evalOut (lookupLayers [above, earlier, out]) t <;> rfl


/-- error classes of `GetEnvFromFile` for a parser outcome -/
def toErr : Dotenv.POut → Except Err Env
  | .ok m => .ok m
  | .err _ _ => .error .dotenvParse
  | .panic _ => .error .panic

/-- on a file of simple lines the parser model can be replaced by the grammar evaluator (used to compute
    concrete examples without running the scanner inside the kernel) -/
theorem parseFile_renderSimple (look : Template.Env) (ls : List (Str × Str)) (h : ls.all simpleOk = true) :
    parseFile look (renderSimple ls) = toErr (Dotenv.evalLines look (ls.map simpleLine)) := by
  unfold parseFile
  rw [stripBOM_renderSimple ls h, renderSimple, Dotenv.parse_render_lemma _ _ (simple_wf ls h)]
  cases Dotenv.evalLines look (ls.map simpleLine) <;> rfl

def SameLayers : Except Err Env → Except Unit (List Env) → Prop
  | .ok m, .ok ls => ∀ k, m.get k = Env.get ls.flatten k
  | .error _, .error _ => True
  | _, _ => False

theorem envOf_congr (cur a b : Env) (h : ∀ k, a.get k = b.get k) :
    Dotenv.envOf cur.get a = Dotenv.envOf cur.get b := by
  funext n
  simp only [Dotenv.envOf, dget_eq, h n]

theorem fileLayer_congr (above a b : Env) (h : ∀ k, a.get k = b.get k) (ls : List (Str × Str)) (out : Env) :
    fileLayer above a ls out = fileLayer above b ls out := by
  have hf : ∀ out, lookupLayers [above, a, out] = lookupLayers [above, b, out] := by
    intro out; funext n; simp only [lookupLayers, h n]
  induction ls generalizing out with
  | nil => rfl
  | cons p ls ih =>
    obtain ⟨k, t⟩ := p
    simp only [fileLayer, hf]
    cases Template.subst (lookupLayers [above, b, out]) t with
    | ok v => exact ih _
    | err e => rfl
    | panic s => rfl

theorem getEnvFromFile_append (w : World) (cur : Env) (a b : List FileRef) (acc : Env) :
    getEnvFromFile w cur (a ++ b) acc =
      match getEnvFromFile w cur a acc with
      | .ok m => getEnvFromFile w cur b m
      | .error e => .error e := by
  induction a generalizing acc with
  | nil => rfl
  | cons f fs ih =>
    simp only [List.cons_append, getEnvFromFile]
    cases lookupFile w f with
    | none => rfl
    | some ef =>
      cases ef with
      | dir => rfl
      | file c =>
        simp only
        cases parseFile (Dotenv.envOf cur.get acc) c with
        | ok out => exact ih _
        | error e => rfl

/-- the separator `WithConfigFileEnv` uses: `COMPOSE_PATH_SEPARATOR` of the project environment when non-empty, else `:` -/
def pathSep (o : PO) : Str :=
  match o.env.get pathSepKey with
  | some s => if s = [] then [':'] else s
  | none => [':']

/-- the value of `COMPOSE_DISABLE_ENV_FILE` in the OS environment, as `WithEnvFiles()` reads it -/
def disableVar (w : World) : Option Str := (asEqualsMap w.os).get disableKey

/-! `strings.Split` with a one-character separator is the inverse of joining parts that do not contain it -/

theorem indexOfGo_single_none (c : Char) (p : Str) (i : Nat) (h : c ∉ p) : indexOfGo [c] p i = none := by
  induction p generalizing i with
  | nil => simp [indexOfGo]
  | cons d ds ih =>
    simp only [List.mem_cons, not_or] at h
    have hd : (c == d) = false := by simpa using h.1
    simp [indexOfGo, List.isPrefixOf, hd, ih (i + 1) h.2]

theorem indexOfGo_single_some (c : Char) (p rest : Str) (i : Nat) (h : c ∉ p) :
    indexOfGo [c] (p ++ c :: rest) i = some (i + p.length) := by
  induction p generalizing i with
  | nil => simp [indexOfGo, List.isPrefixOf]
  | cons d ds ih =>
    simp only [List.mem_cons, not_or] at h
    have hd : (c == d) = false := by simpa using h.1
    simp only [List.cons_append, indexOfGo, List.isPrefixOf, hd, Bool.false_and, Bool.false_eq_true, if_false]
    rw [ih (i + 1) h.2]
    simp; omega

def joinWith (c : Char) : List Str → Str
  | [] => []
  | [p] => p
  | p :: ps => p ++ c :: joinWith c ps

theorem splitOnFuel_join (c : Char) (parts : List Str) (hne : parts ≠ []) (h : ∀ p ∈ parts, c ∉ p)
    (fuel : Nat) (hf : parts.length ≤ fuel + 1) :
    splitOnFuel [c] fuel (joinWith c parts) = parts := by
  induction parts generalizing fuel with
  | nil => exact absurd rfl hne
  | cons p ps ih =>
    cases ps with
    | nil =>
      have hp := h p List.mem_cons_self
      cases fuel with
      | zero => rfl
      | succ n => simp [splitOnFuel, joinWith, indexOf, indexOfGo_single_none c p 0 hp]
    | cons q qs =>
      have hp := h p List.mem_cons_self
      cases fuel with
      | zero => simp at hf
      | succ n =>
        have hi : indexOf [c] (p ++ c :: joinWith c (q :: qs)) = some p.length := by
          simp [indexOf, indexOfGo_single_some c p _ 0 hp]
        simp only [joinWith, splitOnFuel, hi]
        have hrest := ih (List.cons_ne_nil _ _) (fun x hx => h x (List.mem_cons_of_mem _ hx)) n (by simp at hf ⊢; omega)
        simp [List.take_left', List.drop_append_of_le_length, hrest]

end CV.Name
