import ComposeVerif.Model.MapOrder
/-! Lemmas for C02: association lists under permutation, sorting, the map→sequence decoders. -/
namespace CV.Det
open CV CV.Val

variable {α β : Type}

/-! ### find / put -/

theorem find_put_self (k : String) (v : α) (m : AL α) : find k (put k v m) = some v := by
  induction m with
  | nil => simp [put, find]
  | cons hd tl ih =>
    obtain ⟨k', v'⟩ := hd
    simp only [put]; split
    · simp [find]
    · simp [find, *]

theorem find_put_ne {k k' : String} (h : k ≠ k') (v : α) (m : AL α) :
    find k (put k' v m) = find k m := by
  induction m with
  | nil => simp [put, find, h]
  | cons hd tl ih =>
    obtain ⟨k'', v''⟩ := hd
    simp only [put]; split
    · next heq => subst heq; simp [find, h]
    · simp only [find]; split <;> simp_all

theorem find_none_of_not_mem {k : String} {m : AL α} (h : k ∉ akeys m) : find k m = none := by
  induction m with
  | nil => rfl
  | cons hd tl ih =>
    obtain ⟨k', v'⟩ := hd
    simp only [akeys, List.map_cons, List.mem_cons, not_or] at h
    simp only [find]; split
    · next heq => exact absurd heq h.1
    · exact ih h.2

theorem find_some_of_mem {k : String} {v : α} {m : AL α} (hn : (akeys m).Nodup) (h : (k, v) ∈ m) :
    find k m = some v := by
  induction m with
  | nil => cases h
  | cons hd tl ih =>
    obtain ⟨k', v'⟩ := hd
    simp only [akeys, List.map_cons, List.nodup_cons] at hn
    simp only [find]
    rcases List.mem_cons.mp h with heq | hin
    · cases heq; simp
    · split
      · next heq =>
        subst heq
        exact absurd (List.mem_map.mpr ⟨(k, v), hin, rfl⟩) hn.1
      · exact ih hn.2 hin

theorem mem_of_find_some {k : String} {v : α} {m : AL α} (h : find k m = some v) : (k, v) ∈ m := by
  induction m with
  | nil => simp [find] at h
  | cons hd tl ih =>
    obtain ⟨k', v'⟩ := hd
    simp only [find] at h
    split at h
    · next heq => cases h; subst heq; exact List.mem_cons_self
    · exact List.mem_cons_of_mem _ (ih h)

/-- lookup in a map does not depend on the iteration order -/
theorem find_perm {m m' : AL α} (hn : (akeys m).Nodup) (hp : m'.Perm m) (k : String) :
    find k m' = find k m := by
  have hn' : (akeys m').Nodup := (hp.map Prod.fst).nodup_iff.mpr hn
  cases h : find k m with
  | none =>
    cases h' : find k m' with
    | none => rfl
    | some v =>
      have := find_some_of_mem hn (hp.subset (mem_of_find_some h'))
      rw [h] at this; cases this
  | some v =>
    exact find_some_of_mem hn' (hp.symm.subset (mem_of_find_some h))

theorem put_of_not_mem {k : String} (v : α) {m : AL α} (h : k ∉ akeys m) : put k v m = m ++ [(k, v)] := by
  induction m with
  | nil => rfl
  | cons hd tl ih =>
    obtain ⟨k', v'⟩ := hd
    simp only [akeys, List.map_cons, List.mem_cons, not_or] at h
    simp only [put]; split
    · next heq => exact absurd heq h.1
    · simp [ih h.2]

/-! ### range over a map, write under the same key of a fresh map -/

theorem rangeWrite_aux (f : String → α → β) (m : AL α) (acc : AL β)
    (hn : (akeys m).Nodup) (hd : ∀ k ∈ akeys m, k ∉ akeys acc) :
    m.foldl (fun acc kv => put kv.1 (f kv.1 kv.2) acc) acc = acc ++ m.map (fun kv => (kv.1, f kv.1 kv.2)) := by
  induction m generalizing acc with
  | nil => simp
  | cons hd' tl ih =>
    obtain ⟨k, v⟩ := hd'
    simp only [akeys, List.map_cons, List.nodup_cons] at hn
    simp only [List.foldl_cons, List.map_cons]
    have hk : k ∉ akeys acc := hd k (by simp [akeys])
    rw [put_of_not_mem _ hk, ih _ hn.2]
    · simp
    · intro k' hk' hin
      simp only [akeys, List.map_append, List.map_cons, List.map_nil, List.mem_append, List.mem_cons,
        List.not_mem_nil, or_false] at hin
      rcases hin with hin | heq
      · exact hd k' (by simp [akeys] at hk' ⊢; exact .inr hk') hin
      · subst heq; exact hn.1 hk'

/-- with distinct keys the loop is a `map` over the entries, in iteration order -/
theorem rangeWrite_eq_map (f : String → α → β) (m : AL α) (hn : (akeys m).Nodup) :
    rangeWrite f m = m.map (fun kv => (kv.1, f kv.1 kv.2)) := by
  have := rangeWrite_aux f m [] hn (by intro k _ h; cases h)
  simpa [rangeWrite] using this

theorem akeys_rangeWrite (f : String → α → β) (m : AL α) (hn : (akeys m).Nodup) :
    akeys (rangeWrite f m) = akeys m := by
  rw [rangeWrite_eq_map f m hn]; simp [akeys, Function.comp_def]

theorem find_map_entries (f : String → α → β) (m : AL α) (k : String) :
    find k (m.map (fun kv => (kv.1, f kv.1 kv.2))) = (find k m).map (f k) := by
  induction m with
  | nil => rfl
  | cons hd tl ih =>
    obtain ⟨k', v'⟩ := hd
    simp only [List.map_cons, find]
    split
    · next heq => subst heq; simp
    · exact ih

/-- pointwise law: the fresh map holds `f k v` exactly at the keys of the source -/
theorem find_rangeWrite (f : String → α → β) (m : AL α) (hn : (akeys m).Nodup) (k : String) :
    find k (rangeWrite f m) = (find k m).map (f k) := by
  rw [rangeWrite_eq_map f m hn, find_map_entries]

theorem rangeWrite_perm' (f : String → α → β) {m m' : AL α} (hn : (akeys m).Nodup) (hp : m'.Perm m) :
    (rangeWrite f m').Perm (rangeWrite f m) := by
  have hn' : (akeys m').Nodup := (hp.map Prod.fst).nodup_iff.mpr hn
  rw [rangeWrite_eq_map f m hn, rangeWrite_eq_map f m' hn']
  exact hp.map _

/-! ### sorting -/

theorem insertBy_perm (le : α → α → Bool) (x : α) (l : List α) : (insertBy le x l).Perm (x :: l) := by
  induction l with
  | nil => exact List.Perm.refl _
  | cons y ys ih =>
    simp only [insertBy]; split
    · exact List.Perm.refl _
    · exact ((List.Perm.cons y ih).trans (List.Perm.swap x y ys))

theorem isort_perm (le : α → α → Bool) (l : List α) : (isort le l).Perm l := by
  induction l with
  | nil => exact List.Perm.refl _
  | cons x xs ih => exact (insertBy_perm le x _).trans (List.Perm.cons x ih)

theorem insertBy_pairwise {le : α → α → Bool}
    (trans : ∀ a b c, le a b = true → le b c = true → le a c = true)
    (total : ∀ a b, le a b = true ∨ le b a = true)
    (x : α) {l : List α} (h : l.Pairwise (fun a b => le a b = true)) :
    (insertBy le x l).Pairwise (fun a b => le a b = true) := by
  induction l with
  | nil => simp [insertBy]
  | cons y ys ih =>
    simp only [insertBy]
    rw [List.pairwise_cons] at h
    split
    · next hxy =>
      refine List.pairwise_cons.mpr ⟨?_, List.pairwise_cons.mpr h⟩
      intro z hz
      rcases List.mem_cons.mp hz with rfl | hz
      · exact hxy
      · exact trans _ _ _ hxy (h.1 z hz)
    · next hxy =>
      have hyx : le y x = true := by
        rcases total x y with h' | h'
        · exact absurd h' hxy
        · exact h'
      refine List.pairwise_cons.mpr ⟨?_, ih h.2⟩
      intro z hz
      have : z ∈ x :: ys := (insertBy_perm le x ys).subset hz
      rcases List.mem_cons.mp this with rfl | hz
      · exact hyx
      · exact h.1 z hz

theorem isort_pairwise {le : α → α → Bool}
    (trans : ∀ a b c, le a b = true → le b c = true → le a c = true)
    (total : ∀ a b, le a b = true ∨ le b a = true) (l : List α) :
    (isort le l).Pairwise (fun a b => le a b = true) := by
  induction l with
  | nil => simp [isort]
  | cons x xs ih => exact insertBy_pairwise trans total x ih

/-- **a sort erases the iteration order**: two arrangements of the same elements sort to the same list,
provided the order is total, transitive, and antisymmetric on the elements present -/
theorem isort_eq_of_perm {le : α → α → Bool}
    (trans : ∀ a b c, le a b = true → le b c = true → le a c = true)
    (total : ∀ a b, le a b = true ∨ le b a = true)
    {l l' : List α} (antisymm : ∀ a b, a ∈ l → b ∈ l → le a b = true → le b a = true → a = b)
    (hp : l'.Perm l) : isort le l' = isort le l := by
  apply List.Perm.eq_of_pairwise (le := fun a b => le a b = true)
  · intro a b ha hb
    exact antisymm a b (hp.subset ((isort_perm le l').subset ha)) ((isort_perm le l).subset hb)
  · exact isort_pairwise trans total l'
  · exact isort_pairwise trans total l
  · exact (isort_perm le l').trans (hp.trans (isort_perm le l).symm)

theorem strLe_trans (a b c : String) : strLe a b = true → strLe b c = true → strLe a c = true := by
  simp only [strLe, decide_eq_true_eq]; exact String.le_trans

theorem strLe_total (a b : String) : strLe a b = true ∨ strLe b a = true := by
  simp only [strLe, decide_eq_true_eq]; exact String.le_total a b

theorem strLe_antisymm (a b : String) : strLe a b = true → strLe b a = true → a = b := by
  simp only [strLe, decide_eq_true_eq]; exact String.le_antisymm

/-- `sort.Strings` after collecting from a map: the result does not depend on the order of collection -/
theorem sortStrs_perm {l l' : List String} (hp : l'.Perm l) : sortStrs l' = sortStrs l :=
  isort_eq_of_perm strLe_trans strLe_total (fun a b _ _ => strLe_antisymm a b) hp

theorem sortStrs_perm_self (l : List String) : (sortStrs l).Perm l := isort_perm _ l

theorem sortStrs_sorted (l : List String) : (sortStrs l).Pairwise (· ≤ ·) := by
  have := isort_pairwise strLe_trans strLe_total l
  simpa [sortStrs, strLe] using this

end CV.Det

namespace CV.Det
open CV CV.Val
variable {α β : Type}

/-! ### `convertIntoSequence`, `HostsList`, `Mapping` renderers: collect, then sort -/

theorem intoSeq_map_perm {kvs kvs' : KVs} (hp : kvs'.Perm kvs) : intoSeq (.map kvs') = intoSeq (.map kvs) := by
  simp only [intoSeq]
  rw [sortStrs_perm (hp.flatMap_right entryStrs)]

theorem hostLe_trans (a b c : String × List String) : hostLe a b = true → hostLe b c = true → hostLe a c = true := by
  simp only [hostLe, decide_eq_true_eq]; exact String.le_trans

theorem hostLe_total (a b : String × List String) : hostLe a b = true ∨ hostLe b a = true := by
  simp only [hostLe, decide_eq_true_eq]; exact String.le_total _ _

theorem append_eq_sep_cancel {a b : String} (h : a ++ "=" = b ++ "=") : a = b := by
  have h1 : (a ++ "=").toList = (b ++ "=").toList := by rw [h]
  simp only [String.toList_append] at h1
  exact String.toList_inj.mp (List.append_cancel_right h1)

theorem eq_of_mem_of_fst_eq' {γ : Type} {l : List (String × γ)} (hn : (l.map Prod.fst).Nodup) {a b : String × γ}
    (ha : a ∈ l) (hb : b ∈ l) (h : a.1 = b.1) : a = b := by
  induction l with
  | nil => cases ha
  | cons x xs ih =>
    simp only [List.map_cons, List.nodup_cons] at hn
    rcases List.mem_cons.mp ha with rfl | ha' <;> rcases List.mem_cons.mp hb with rfl | hb'
    · rfl
    · exact absurd (h ▸ List.mem_map.mpr ⟨b, hb', rfl⟩) hn.1
    · exact absurd (h ▸ List.mem_map.mpr ⟨a, ha', rfl⟩) hn.1
    · exact ih hn.2 ha' hb'

/-- the rendering visits the hosts in sorted order: it does not depend on the iteration order of the map
(whose keys are distinct) -/
theorem hostsRender_perm' {m m' : AL (List String)} (hn : (akeys m).Nodup) (hp : m'.Perm m) :
    hostsRender m' = hostsRender m := by
  simp only [hostsRender]
  congr 1
  apply isort_eq_of_perm hostLe_trans hostLe_total _ hp
  intro a b ha hb hab hba
  have hfst : a.1 = b.1 := by
    simp only [hostLe, decide_eq_true_eq] at hab hba
    exact append_eq_sep_cancel (String.le_antisymm hab hba)
  exact eq_of_mem_of_fst_eq' hn ha hb hfst

theorem mappingValues_perm' {m m' : AL String} (hp : m'.Perm m) : mappingValues m' = mappingValues m := by
  simp only [mappingValues]
  exact sortStrs_perm (hp.map _)

/-! ### `SSHConfig.DecodeMapstructure` -/

theorem keyLe_trans (a b c : String × String) : keyLe a b = true → keyLe b c = true → keyLe a c = true := by
  simp only [keyLe, decide_eq_true_eq]; exact String.le_trans

theorem keyLe_total (a b : String × String) : keyLe a b = true ∨ keyLe b a = true := by
  simp only [keyLe, decide_eq_true_eq]; exact String.le_total a.1 b.1

theorem eq_of_mem_of_fst_eq {l : List (String × β)} (hn : (l.map Prod.fst).Nodup) {a b : String × β}
    (ha : a ∈ l) (hb : b ∈ l) (h : a.1 = b.1) : a = b := by
  induction l with
  | nil => cases ha
  | cons x xs ih =>
    simp only [List.map_cons, List.nodup_cons] at hn
    rcases List.mem_cons.mp ha with rfl | ha' <;> rcases List.mem_cons.mp hb with rfl | hb'
    · rfl
    · exact absurd (h ▸ List.mem_map.mpr ⟨b, hb', rfl⟩) hn.1
    · exact absurd (h ▸ List.mem_map.mpr ⟨a, ha', rfl⟩) hn.1
    · exact ih hn.2 ha' hb'

theorem sshKeys_fst (kvs : KVs) : (kvs.map sshKey).map Prod.fst = akeys kvs := by
  simp [akeys, sshKey, Function.comp_def]

theorem sshDecode_perm' {kvs kvs' : KVs} (hn : (akeys kvs).Nodup) (hp : kvs'.Perm kvs) :
    sshDecode (.map kvs') = sshDecode (.map kvs) := by
  simp only [sshDecode]
  congr 1
  apply isort_eq_of_perm keyLe_trans keyLe_total _ (hp.map sshKey)
  intro a b ha hb hab hba
  have hfst : a.1 = b.1 := by
    simp only [keyLe, decide_eq_true_eq] at hab hba
    exact String.le_antisymm hab hba
  exact eq_of_mem_of_fst_eq (by rw [sshKeys_fst]; exact hn) ha hb hfst

/-! ### `mergeMappings` -/

theorem find_none_tail_of_nodup {k : String} {v : α} {tl : AL α} (h : (akeys ((k, v) :: tl)).Nodup) :
    find k tl = none := by
  simp only [akeys, List.map_cons, List.nodup_cons] at h
  exact find_none_of_not_mem h.1

/-- pointwise law of `mergeMappings` (pure combiner), for an override with distinct keys -/
theorem find_mergeKVs (f : String → Val → Val → Val) (a b : KVs) (hb : (akeys b).Nodup) (k : String) :
    find k (mergeKVs f a b) =
      match find k a, find k b with
      | some x, some y => some (f k x y)
      | some x, none => some x
      | none, some y => some y
      | none, none => none := by
  induction b generalizing a with
  | nil => simp only [mergeKVs, find]; cases find k a <;> rfl
  | cons hd tl ih =>
    obtain ⟨k', v⟩ := hd
    have hk'tl : find k' tl = none := find_none_tail_of_nodup hb
    simp only [akeys, List.map_cons, List.nodup_cons] at hb
    simp only [mergeKVs]
    by_cases hk : k = k'
    · subst hk
      cases ha : find k a with
      | none =>
        simp only []
        rw [ih _ hb.2, find_put_self, hk'tl]
        simp [find]
      | some e =>
        simp only []
        rw [ih _ hb.2, find_put_self, hk'tl]
        simp [find]
    · cases ha' : find k' a with
      | none =>
        simp only []
        rw [ih _ hb.2, find_put_ne hk]
        simp [find, hk]
      | some e =>
        simp only []
        rw [ih _ hb.2, find_put_ne hk]
        simp [find, hk]

theorem mergeKVs_perm' (f : String → Val → Val → Val) (a b b' : KVs) (hb : (akeys b).Nodup) (hp : b'.Perm b)
    (k : String) : find k (mergeKVs f a b') = find k (mergeKVs f a b) := by
  have hb' : (akeys b').Nodup := (hp.map Prod.fst).nodup_iff.mpr hb
  rw [find_mergeKVs f a b' hb' k, find_mergeKVs f a b hb k, find_perm hb hp k]

/-- whether one override entry merges without error -/
def entryOk {ε : Type} (f : String → Val → Val → Except ε Val) (a : KVs) (kv : String × Val) : Bool :=
  match find kv.1 a with
  | none => true
  | some e => (f kv.1 e kv.2).toBool

theorem entryOk_put {ε : Type} (f : String → Val → Val → Except ε Val) (a : KVs) (k : String) (v : Val)
    (kv : String × Val) (h : kv.1 ≠ k) : entryOk f (put k v a) kv = entryOk f a kv := by
  simp only [entryOk, find_put_ne h]

theorem all_entryOk_put {ε : Type} (f : String → Val → Val → Except ε Val) (a : KVs) (k : String) (v : Val)
    (r : KVs) (h : k ∉ akeys r) : r.all (entryOk f (put k v a)) = r.all (entryOk f a) := by
  induction r with
  | nil => rfl
  | cons x xs ih =>
    simp only [akeys, List.map_cons, List.mem_cons, not_or] at h
    simp only [List.all_cons]
    rw [entryOk_put f a k v x (fun e => h.1 e.symm), ih h.2]

/-- **success of `mergeMappings` is order independent**: it succeeds iff every override entry merges -/
theorem mergeKVsE_ok_iff {ε : Type} (f : String → Val → Val → Except ε Val) (a b : KVs) (hb : (akeys b).Nodup) :
    (mergeKVsE f a b).toBool = b.all (entryOk f a) := by
  induction b generalizing a with
  | nil => simp [mergeKVsE, Except.toBool]
  | cons hd tl ih =>
    obtain ⟨k, v⟩ := hd
    simp only [akeys, List.map_cons, List.nodup_cons] at hb
    simp only [mergeKVsE, List.all_cons]
    cases ha : find k a with
    | none =>
      simp only [entryOk, ha, Bool.true_and]
      rw [ih _ hb.2]
      exact all_entryOk_put f a k v tl hb.1
    | some e =>
      simp only [entryOk, ha]
      cases hf : f k e v with
      | error x => simp [Except.toBool]
      | ok m =>
        have h1 := ih (put k m a) hb.2
        simp only [Except.toBool, Bool.true_and] at h1 ⊢
        rw [h1]
        exact all_entryOk_put f a k m tl hb.1

/-- a successful `mergeMappings` is the pure merge with any total completion of the combiner -/
theorem mergeKVsE_eq_pure {ε : Type} (f : String → Val → Val → Except ε Val) (g : String → Val → Val → Val)
    (hg : ∀ k e v m, f k e v = .ok m → g k e v = m) (a b : KVs) (m : KVs)
    (h : mergeKVsE f a b = .ok m) : m = mergeKVs g a b := by
  induction b generalizing a with
  | nil => simp only [mergeKVsE] at h; cases h; rfl
  | cons hd tl ih =>
    obtain ⟨k, v⟩ := hd
    simp only [mergeKVsE] at h
    simp only [mergeKVs]
    cases ha : find k a with
    | none => simp only [ha] at h; exact ih _ h
    | some e =>
      simp only [ha] at h
      cases hf : f k e v with
      | error x => simp [hf] at h
      | ok m' =>
        simp only [hf] at h
        show m = mergeKVs g (put k (g k e v) a) tl
        rw [hg k e v m' hf]
        exact ih _ h

end CV.Det

namespace CV.Det
open CV CV.Val

/-! ### `newGraph`: the loop over `depends_on` -/

/-- a required dependency on a service that is not enabled -/
def missingReq (en : List String) (d : AL Bool) : Bool := d.any (fun kv => !en.contains kv.1 && kv.2)

/-- an optional dependency on a service that is not enabled (this is what triggers the `delete`) -/
def missingOpt (en : List String) (d : AL Bool) : Bool := d.any (fun kv => !en.contains kv.1 && !kv.2)

theorem depLoop_toBool (en dis : List String) (name : String) (d : AL Bool) (h : name ∉ akeys d) (st : LoopSt) :
    (depLoop en dis name d st).toBool = !missingReq en d := by
  induction d generalizing st with
  | nil => simp [depLoop, missingReq, Except.toBool]
  | cons hd tl ih =>
    obtain ⟨dep, req⟩ := hd
    simp only [akeys, List.map_cons, List.mem_cons, not_or] at h
    have hne : (dep = name) = False := by simp; exact fun e => h.1 e.symm
    simp only [depLoop, hne, decide_false, Bool.false_and, Bool.false_eq_true, if_false]
    simp only [missingReq, List.any_cons] at ih ⊢
    by_cases hen : en.contains dep = true
    · simp only [hen, if_true, Bool.not_true, Bool.false_and, Bool.false_or]
      exact ih h.2 _
    · simp only [hen, Bool.false_eq_true, if_false]
      have hen' : en.contains dep = false := by simpa using hen
      cases req with
      | true =>
        simp only [if_true, hen', Bool.not_false, Bool.and_self, Bool.true_or, Bool.not_true]
        split <;> rfl
      | false =>
        simp only [Bool.false_eq_true, if_false, Bool.and_false, Bool.false_or]
        exact ih h.2 _

theorem depLoop_ok (en dis : List String) (name : String) (d : AL Bool) (h : name ∉ akeys d) (st st' : LoopSt)
    (hok : depLoop en dis name d st = .ok st') :
    st'.edges = st.edges ++ (d.filter (fun kv => en.contains kv.1)).map Prod.fst ∧
    st'.selfDeleted = (st.selfDeleted || missingOpt en d) := by
  induction d generalizing st with
  | nil => simp only [depLoop] at hok; cases hok; simp [missingOpt]
  | cons hd tl ih =>
    obtain ⟨dep, req⟩ := hd
    simp only [akeys, List.map_cons, List.mem_cons, not_or] at h
    have hne : (dep = name) = False := by simp; exact fun e => h.1 e.symm
    simp only [depLoop, hne, decide_false, Bool.false_and, Bool.false_eq_true, if_false] at hok
    simp only [missingOpt, List.any_cons] at ih ⊢
    by_cases hen : en.contains dep = true
    · simp only [hen, if_true] at hok
      have := ih h.2 _ hok
      simp only [List.filter_cons, hen, if_true, List.map_cons, Bool.not_true, Bool.false_and, Bool.false_or]
      constructor
      · rw [this.1]; simp
      · exact this.2
    · simp only [hen, Bool.false_eq_true, if_false] at hok
      have hen' : en.contains dep = false := by simpa using hen
      cases req with
      | true => simp only [if_true] at hok; split at hok <;> cases hok
      | false =>
        simp only [Bool.false_eq_true, if_false] at hok
        have := ih h.2 _ hok
        simp only [List.filter_cons, hen', Bool.false_eq_true, if_false, Bool.not_false, Bool.and_self, Bool.true_or,
          Bool.or_true]
        constructor
        · exact this.1
        · rw [this.2]; simp

theorem svcAfter_noSelf (s : Svc) (st : LoopSt) (h : s.name ∉ akeys s.deps) : svcAfter s st = s := by
  simp only [svcAfter]
  split
  · have : s.deps.filter (fun kv => decide (kv.1 ≠ s.name)) = s.deps := by
      apply List.filter_eq_self.mpr
      intro kv hkv
      simp only [ne_eq, decide_not, Bool.not_eq_eq_eq_not, Bool.not_true, decide_eq_false_iff_not]
      intro e
      exact h (List.mem_map.mpr ⟨kv, hkv, e⟩)
    cases s; simp_all
  · rfl

theorem graphLoop_toBool (en dis : List String) (svcs : List Svc) :
    (graphLoop en dis svcs).toBool = svcs.all (fun s => (depLoop en dis s.name s.deps ⟨[], false⟩).toBool) := by
  induction svcs with
  | nil => simp [graphLoop, Except.toBool]
  | cons s r ih =>
    simp only [graphLoop, List.all_cons]
    cases hd : depLoop en dis s.name s.deps ⟨[], false⟩ with
    | error e => simp [Except.toBool]
    | ok st =>
      simp only [Except.toBool, Bool.true_and] at ih ⊢
      rw [← ih]
      cases graphLoop en dis r with
      | error e => rfl
      | ok p => rfl

end CV.Det

namespace CV.Det
open CV CV.Val

/-! ### whole decoders under a permutation of the source mapping -/

theorem hostsCleanup_perm {m m' : AL (List String)} (hn : (akeys m).Nodup) (hp : m'.Perm m) :
    (hostsCleanup m').map hostsRender = (hostsCleanup m).map hostsRender := by
  simp only [hostsCleanup]
  rw [hp.any_eq]
  split
  · rfl
  · simp only [Except.map]
    congr 1
    refine hostsRender_perm' ?_ (hp.map _)
    simpa [akeys, List.map_map, Function.comp_def] using hn

theorem hostsDecode_map_perm {kvs kvs' : KVs} (hn : (akeys kvs).Nodup) (hp : kvs'.Perm kvs) :
    (hostsDecode (.map kvs')).map hostsRender = (hostsDecode (.map kvs)).map hostsRender := by
  simp only [hostsDecode]
  rw [hp.any_eq]
  split
  · rfl
  · refine hostsCleanup_perm ?_ (rangeWrite_perm' _ hn hp)
    rw [rangeWrite_eq_map _ _ hn]
    simpa [akeys, List.map_map, Function.comp_def] using hn

theorem mappingDecode_map_perm {kvs kvs' : KVs} (hn : (akeys kvs).Nodup) (hp : kvs'.Perm kvs) :
    (mappingDecode (.map kvs')).map mappingValues = (mappingDecode (.map kvs)).map mappingValues := by
  simp only [mappingDecode, Except.map]
  congr 1
  exact mappingValues_perm' (rangeWrite_perm' _ hn hp)

/-- `mergeGenericKVs` is `mergeMappings` with the recursive call (and the `x-` rule) as combiner -/
def genericCombiner (k : String) (e v : Val) : Except Unit Val :=
  if isExtKey k then .ok v else mergeGeneric e v

theorem mergeGenericKVs_eq (a b : KVs) : mergeGenericKVs a b = mergeKVsE genericCombiner a b := by
  induction b generalizing a with
  | nil => simp [mergeGenericKVs, mergeKVsE]
  | cons hd tl ih =>
    obtain ⟨k, v⟩ := hd
    rw [mergeGenericKVs, mergeKVsE]
    cases ha : find k a with
    | none => simp only []; exact ih _
    | some e =>
      simp only [genericCombiner]
      by_cases hx : isExtKey k = true
      · simp only [hx, if_true]; exact ih _
      · simp only [hx, Bool.false_eq_true, if_false]
        cases mergeGeneric e v with
        | error x => rfl
        | ok m => simp only []; exact ih _

end CV.Det

/-! ### `newGraph` as a whole (no self dependency) -/
namespace CV.Det
open CV CV.Val

/-- edges a service contributes: its dependencies that are enabled services -/
def edgesOf (en : List String) (s : Svc) : List String :=
  (s.deps.filter (fun kv => en.contains kv.1)).map Prod.fst

def adjOf (en : List String) (svcs : List Svc) : AL (List String) := svcs.map (fun s => (s.name, edgesOf en s))

def NoSelf (svcs : List Svc) : Prop := ∀ s ∈ svcs, s.name ∉ akeys s.deps

theorem graphLoop_ok_shape (en dis : List String) (svcs : List Svc) (hs : NoSelf svcs)
    (ss : List Svc) (adj : AL (List String)) (h : graphLoop en dis svcs = .ok (ss, adj)) :
    ss = svcs ∧ adj = adjOf en svcs := by
  induction svcs generalizing ss adj with
  | nil => simp only [graphLoop] at h; cases h; exact ⟨rfl, rfl⟩
  | cons s r ih =>
    simp only [graphLoop] at h
    have hs' : NoSelf r := fun x hx => hs x (List.mem_cons_of_mem _ hx)
    have hself : s.name ∉ akeys s.deps := hs s List.mem_cons_self
    cases hd : depLoop en dis s.name s.deps ⟨[], false⟩ with
    | error e => simp [hd] at h
    | ok st =>
      simp only [hd] at h
      cases hg : graphLoop en dis r with
      | error e => simp [hg] at h
      | ok p =>
        obtain ⟨ss', adj'⟩ := p
        simp only [hg] at h
        cases h
        obtain ⟨e1, e2⟩ := ih hs' ss' adj' hg
        obtain ⟨ed, _⟩ := depLoop_ok en dis s.name s.deps hself _ st hd
        refine ⟨?_, ?_⟩
        · rw [svcAfter_noSelf s st hself, e1]
        · simp only [adjOf, List.map_cons, edgesOf]
          rw [ed, e2]; simp [adjOf, edgesOf]

/-- with no self dependency, `newGraph` succeeds iff no required dependency is missing and the graph is acyclic -/
theorem newGraph_toBool (svcs : List Svc) (dis : List String) (hs : NoSelf svcs) :
    (newGraph svcs dis).toBool =
      ((graphLoop (svcs.map (·.name)) dis svcs).toBool && !hasCycle (adjOf (svcs.map (·.name)) svcs)) := by
  simp only [newGraph]
  cases hg : graphLoop (svcs.map (·.name)) dis svcs with
  | error e => simp [Except.toBool]
  | ok p =>
    obtain ⟨ss, adj⟩ := p
    obtain ⟨_, e2⟩ := graphLoop_ok_shape _ dis svcs hs ss adj hg
    simp only [e2]
    split <;> simp_all [Except.toBool]

end CV.Det

namespace CV.Det
open CV CV.Val

/-- the same services in the same order, every `depends_on` map ranged in another order -/
inductive DepsPerm : List Svc → List Svc → Prop
  | nil : DepsPerm [] []
  | cons {s' s : Svc} {r' r : List Svc} : s'.name = s.name → s'.deps.Perm s.deps → DepsPerm r' r → DepsPerm (s' :: r') (s :: r)

/-- **any iteration order of the project**: the services map ranged in another order, and every `depends_on` map too -/
def SvcsPerm (svcs' svcs : List Svc) : Prop := ∃ mid, svcs'.Perm mid ∧ DepsPerm mid svcs

theorem DepsPerm.names {a b : List Svc} (h : DepsPerm a b) : a.map (·.name) = b.map (·.name) := by
  induction h with
  | nil => rfl
  | cons hn _ _ ih => simp [hn, ih]

theorem DepsPerm.noSelf {a b : List Svc} (h : DepsPerm a b) (hs : NoSelf b) : NoSelf a := by
  induction h with
  | nil => intro s hs'; cases hs'
  | cons hn hp _ ih =>
    intro x hx
    rcases List.mem_cons.mp hx with rfl | hx
    · rw [hn]; intro hk
      exact hs _ List.mem_cons_self ((hp.map Prod.fst).subset hk)
    · exact ih (fun y hy => hs y (List.mem_cons_of_mem _ hy)) x hx

theorem missingReq_congr {en en' : List String} (he : ∀ x, en'.contains x = en.contains x) {d d' : AL Bool}
    (hp : d'.Perm d) : missingReq en' d' = missingReq en d := by
  simp only [missingReq]
  rw [hp.any_eq]
  exact List.any_congr rfl (fun a => by rw [he])

theorem edgesOf_congr {en en' : List String} (he : ∀ x, en'.contains x = en.contains x) {s s' : Svc}
    (hp : s'.deps.Perm s.deps) : (edgesOf en' s').Perm (edgesOf en s) := by
  simp only [edgesOf]
  have : (fun kv : String × Bool => en'.contains kv.1) = (fun kv => en.contains kv.1) := by
    funext kv; exact he kv.1
  rw [this]
  exact (hp.filter _).map _

theorem depLoops_all_congr {en en' dis : List String} (he : ∀ x, en'.contains x = en.contains x)
    {a b : List Svc} (h : DepsPerm a b) (hs : NoSelf b) :
    a.all (fun s => (depLoop en' dis s.name s.deps ⟨[], false⟩).toBool) =
    b.all (fun s => (depLoop en dis s.name s.deps ⟨[], false⟩).toBool) := by
  have hsa := h.noSelf hs
  induction h with
  | nil => rfl
  | @cons s' s r' r hn hp hr ih =>
    simp only [List.all_cons]
    rw [depLoop_toBool en' dis s'.name s'.deps (hsa _ List.mem_cons_self),
        depLoop_toBool en dis s.name s.deps (hs _ List.mem_cons_self),
        missingReq_congr he hp,
        ih (fun y hy => hs y (List.mem_cons_of_mem _ hy)) (fun y hy => hsa y (List.mem_cons_of_mem _ hy))]

/-- children of a vertex -/
def children (adj : AL (List String)) (x : String) : List String := (find x adj).getD []

theorem reaches_congr {adj adj' : AL (List String)} (hc : ∀ x, (children adj' x).Perm (children adj x)) :
    ∀ (n : Nat) (x t : String), reaches adj' n x t = reaches adj n x t := by
  intro n
  induction n with
  | zero => intro x t; rfl
  | succ n ih =>
    intro x t
    simp only [reaches]
    have := hc x
    simp only [children] at this
    rw [this.any_eq]
    exact List.any_congr rfl (fun c => by rw [ih])

theorem hasCycle_eq (adj : AL (List String)) :
    hasCycle adj = (akeys adj).any (fun k => reaches adj adj.length k k) := by
  simp only [hasCycle, akeys, List.any_map]; rfl

theorem hasCycle_congr {adj adj' : AL (List String)} (hk : (akeys adj').Perm (akeys adj))
    (hc : ∀ x, (children adj' x).Perm (children adj x)) : hasCycle adj' = hasCycle adj := by
  rw [hasCycle_eq, hasCycle_eq, hk.any_eq]
  have hl : adj'.length = adj.length := by
    have := hk.length_eq; simpa [akeys] using this
  rw [hl]
  exact List.any_congr rfl (fun k => reaches_congr hc _ _ _)

theorem akeys_adjOf (en : List String) (svcs : List Svc) : akeys (adjOf en svcs) = svcs.map (·.name) := by
  simp [akeys, adjOf, Function.comp_def]

theorem children_adjOf_depsPerm {en en' : List String} (he : ∀ x, en'.contains x = en.contains x)
    {a b : List Svc} (h : DepsPerm a b) (x : String) :
    (children (adjOf en' a) x).Perm (children (adjOf en b) x) := by
  induction h with
  | nil => exact List.Perm.refl _
  | @cons s' s r' r hn hp hr ih =>
    simp only [children, adjOf, List.map_cons, find, hn] at ih ⊢
    split
    · simpa using edgesOf_congr he hp
    · exact ih

/-- **`graph.CheckCycle` without self dependencies is order independent**: for services with distinct names none of
which depends on itself, whether `newGraph` (+ cycle search) accepts the project is the same for every iteration
order of the services map and of every `depends_on` map -/
theorem newGraph_toBool_perm {svcs svcs' : List Svc} (dis : List String) (hs : NoSelf svcs)
    (hn : (svcs.map (·.name)).Nodup) (hp : SvcsPerm svcs' svcs) :
    (newGraph svcs' dis).toBool = (newGraph svcs dis).toBool := by
  obtain ⟨mid, hpm, hdm⟩ := hp
  have hsm : NoSelf mid := hdm.noSelf hs
  have hs' : NoSelf svcs' := fun x hx => hsm x (hpm.subset hx)
  have hnames : (svcs'.map (·.name)).Perm (svcs.map (·.name)) := by
    rw [← hdm.names]; exact hpm.map _
  have he : ∀ x, (svcs'.map (·.name)).contains x = (svcs.map (·.name)).contains x :=
    fun x => hnames.contains_eq
  rw [newGraph_toBool svcs' dis hs', newGraph_toBool svcs dis hs]
  congr 1
  · rw [graphLoop_toBool, graphLoop_toBool, hpm.all_eq]
    exact depLoops_all_congr he hdm hs
  · congr 1
    apply hasCycle_congr
    · rw [akeys_adjOf, akeys_adjOf]; exact hnames
    · intro x
      have hnm : (akeys (adjOf (svcs'.map (·.name)) mid)).Nodup := by
        rw [akeys_adjOf, hdm.names]; exact hn
      have h1 : children (adjOf (svcs'.map (·.name)) svcs') x = children (adjOf (svcs'.map (·.name)) mid) x := by
        simp only [children]
        have hp2 : (adjOf (svcs'.map (·.name)) svcs').Perm (adjOf (svcs'.map (·.name)) mid) := by
          simp only [adjOf]; exact hpm.map _
        rw [find_perm hnm hp2 x]
      rw [h1]
      exact children_adjOf_depsPerm he hdm x

end CV.Det

/-! ### in-place update while ranging; first error while ranging -/
namespace CV.Det
open CV CV.Val
variable {α ε : Type}

theorem put_middle (k : String) (x v : α) (l₁ l₂ : AL α) (h : k ∉ akeys l₁) :
    put k x (l₁ ++ (k, v) :: l₂) = l₁ ++ (k, x) :: l₂ := by
  induction l₁ with
  | nil => simp [put]
  | cons hd tl ih =>
    obtain ⟨k', v'⟩ := hd
    simp only [akeys, List.map_cons, List.mem_cons, not_or] at h
    simp only [List.cons_append, put]
    split
    · next heq => exact absurd heq h.1
    · rw [ih h.2]

theorem rangeUpdate_aux (f : String → α → α) (pre post : AL α) (hn : (akeys (pre ++ post)).Nodup) :
    post.foldl (fun acc kv => put kv.1 (f kv.1 kv.2) acc) (pre.map (fun kv => (kv.1, f kv.1 kv.2)) ++ post) =
      (pre ++ post).map (fun kv => (kv.1, f kv.1 kv.2)) := by
  induction post generalizing pre with
  | nil => simp
  | cons hd tl ih =>
    obtain ⟨k, v⟩ := hd
    simp only [List.foldl_cons]
    have hk : k ∉ akeys (pre.map (fun kv => (kv.1, f kv.1 kv.2))) := by
      simp only [akeys, List.map_append, List.map_cons, List.map_map] at hn ⊢
      have := (List.nodup_append.mp hn).2.2
      intro hmem
      simp only [List.mem_map, Function.comp] at hmem
      obtain ⟨a, ha, rfl⟩ := hmem
      exact this a.1 (List.mem_map.mpr ⟨a, ha, rfl⟩) a.1 (by simp) rfl
    rw [put_middle k (f k v) v _ tl hk]
    have := ih (pre ++ [(k, v)]) (by simpa [List.append_assoc] using hn)
    simpa [List.append_assoc] using this

/-- with distinct keys, updating a map in place while ranging it is a `map` over its entries … -/
theorem rangeUpdate_eq_map (f : String → α → α) (m : AL α) (hn : (akeys m).Nodup) :
    rangeUpdate f m = m.map (fun kv => (kv.1, f kv.1 kv.2)) := by
  have := rangeUpdate_aux f [] m (by simpa using hn)
  simpa [rangeUpdate] using this

theorem rangeCheck_isSome (f : String → α → Option ε) (m : AL α) :
    (rangeCheck f m).isSome = m.any (fun kv => (f kv.1 kv.2).isSome) := by
  induction m with
  | nil => rfl
  | cons hd tl ih =>
    obtain ⟨k, v⟩ := hd
    simp only [rangeCheck, List.any_cons]
    cases f k v with
    | some e => simp
    | none => simpa using ih

end CV.Det

/-! ### `ApplyExtends`: the memoising algorithm computes the denotation, whatever the visit order -/
namespace CV.Det
open CV CV.Val
variable {β : Type}

theorem val_mono (mrg : β → β → β) (m : AL (XSvc β)) : ∀ (k : Nat) (x : String) (r : β),
    val mrg k m x = some r → val mrg (k + 1) m x = some r := by
  intro k
  induction k with
  | zero => intro x r h; simp [val] at h
  | succ k ih =>
    intro x r h
    rw [val] at h ⊢
    cases hf : find x m with
    | none => simp [hf] at h
    | some e =>
      obtain ⟨ext, b⟩ := e
      cases ext with
      | none => simpa [hf] using h
      | some ref =>
        simp only [hf, Option.map_eq_some_iff] at h ⊢
        obtain ⟨base, hb, rfl⟩ := h
        exact ⟨base, ih ref base hb, rfl⟩

theorem val_mono' (mrg : β → β → β) (m : AL (XSvc β)) (k j : Nat) (x : String) (r : β)
    (h : val mrg k m x = some r) : val mrg (k + j) m x = some r := by
  induction j with
  | zero => exact h
  | succ j ih => exact val_mono mrg m (k + j) x r ih

/-- the denotation does not depend on the fuel once it is defined -/
theorem val_det (mrg : β → β → β) (m : AL (XSvc β)) (k k' : Nat) (x : String) (r r' : β)
    (h : val mrg k m x = some r) (h' : val mrg k' m x = some r') : r = r' := by
  have a := val_mono' mrg m k k' x r h
  have b := val_mono' mrg m k' k x r' h'
  rw [Nat.add_comm] at b
  rw [a] at b
  exact Option.some.inj b

/-- `m` is `m0` in which some services have been replaced by what they denote -/
def Res (mrg : β → β → β) (m0 m : AL (XSvc β)) : Prop :=
  ∀ x, find x m = find x m0 ∨ ∃ r k, find x m = some (none, r) ∧ val mrg k m0 x = some r

theorem Res.refl (mrg : β → β → β) (m0 : AL (XSvc β)) : Res mrg m0 m0 := fun _ => .inl rfl

theorem Res.put (mrg : β → β → β) {m0 m : AL (XSvc β)} (h : Res mrg m0 m) (name : String) (r : β) (k : Nat)
    (hv : val mrg k m0 name = some r) : Res mrg m0 (put name (none, r) m) := by
  intro x
  by_cases hx : x = name
  · subst hx; exact .inr ⟨r, k, find_put_self _ _ _, hv⟩
  · rw [find_put_ne hx]; exact h x

/-- completeness of the memoising algorithm: if the service denotes `r` (within fuel `k`), resolving it on any
partially resolved map succeeds with `r` and leaves a partially resolved map -/
theorem applyOne_complete (mrg : β → β → β) (m0 : AL (XSvc β)) : ∀ (k : Nat) (m : AL (XSvc β)) (name : String) (r : β),
    Res mrg m0 m → val mrg k m0 name = some r →
    ∃ m', applyOne mrg k m name = some (m', r) ∧ Res mrg m0 m' := by
  intro k
  induction k with
  | zero => intro m name r _ h; simp [val] at h
  | succ k ih =>
    intro m name r hres hv
    rcases hres name with hsame | ⟨r', k', hfind, hv'⟩
    · rw [val] at hv
      rw [applyOne, hsame]
      cases hf : find name m0 with
      | none => simp [hf] at hv
      | some e =>
        obtain ⟨ext, b⟩ := e
        cases ext with
        | none =>
          simp only [hf, Option.some.injEq] at hv
          subst hv
          exact ⟨m, rfl, hres⟩
        | some ref =>
          simp only [hf, Option.map_eq_some_iff] at hv
          obtain ⟨base, hb, rfl⟩ := hv
          obtain ⟨m1, h1, hres1⟩ := ih m ref base hres hb
          refine ⟨put name (none, mrg base b) m1, by simp [h1], ?_⟩
          apply Res.put mrg hres1 name _ (k + 1)
          rw [val, hf]; simp [hb]
    · have : r' = r := val_det mrg m0 k' (k + 1) name r' r hv' hv
      subst this
      exact ⟨m, by rw [applyOne, hfind], hres⟩

/-- soundness: whatever the memoising algorithm returns on a partially resolved map is the denotation -/
theorem applyOne_sound (mrg : β → β → β) (m0 : AL (XSvc β)) : ∀ (k : Nat) (m m' : AL (XSvc β)) (name : String) (r : β),
    Res mrg m0 m → applyOne mrg k m name = some (m', r) →
    (∃ j, val mrg j m0 name = some r) ∧ Res mrg m0 m' := by
  intro k
  induction k with
  | zero => intro m m' name r _ h; simp [applyOne] at h
  | succ k ih =>
    intro m m' name r hres h
    rw [applyOne] at h
    rcases hres name with hsame | ⟨r', k', hfind, hv'⟩
    · rw [hsame] at h
      cases hf : find name m0 with
      | none => simp [hf] at h
      | some e =>
        obtain ⟨ext, b⟩ := e
        cases ext with
        | none =>
          simp only [hf, Option.some.injEq, Prod.mk.injEq] at h
          obtain ⟨rfl, rfl⟩ := h
          exact ⟨⟨1, by rw [val, hf]⟩, hres⟩
        | some ref =>
          simp only [hf] at h
          cases h1 : applyOne mrg k m ref with
          | none => simp [h1] at h
          | some p =>
            obtain ⟨m1, base⟩ := p
            simp only [h1, Option.some.injEq, Prod.mk.injEq] at h
            obtain ⟨rfl, rfl⟩ := h
            obtain ⟨⟨j, hj⟩, hres1⟩ := ih m m1 ref base hres h1
            have hv : val mrg (j + 1) m0 name = some (mrg base b) := by rw [val, hf]; simp [hj]
            exact ⟨⟨j + 1, hv⟩, Res.put mrg hres1 name _ (j + 1) hv⟩
    · rw [hfind] at h
      simp only [Option.some.injEq, Prod.mk.injEq] at h
      obtain ⟨rfl, rfl⟩ := h
      exact ⟨⟨k', hv'⟩, hres⟩

/-- resolved entries are never touched again -/
theorem applyOne_keeps (mrg : β → β → β) : ∀ (k : Nat) (m m' : AL (XSvc β)) (name : String) (r : β),
    applyOne mrg k m name = some (m', r) → ∀ x e, find x m = some (none, e) → find x m' = some (none, e) := by
  intro k
  induction k with
  | zero => intro m m' name r h; simp [applyOne] at h
  | succ k ih =>
    intro m m' name r h x e hx
    rw [applyOne] at h
    cases hf : find name m with
    | none => simp [hf] at h
    | some en =>
      obtain ⟨ext, b⟩ := en
      cases ext with
      | none =>
        simp only [hf, Option.some.injEq, Prod.mk.injEq] at h
        obtain ⟨rfl, _⟩ := h
        exact hx
      | some ref =>
        simp only [hf] at h
        cases h1 : applyOne mrg k m ref with
        | none => simp [h1] at h
        | some p =>
          obtain ⟨m1, base⟩ := p
          simp only [h1, Option.some.injEq, Prod.mk.injEq] at h
          obtain ⟨rfl, _⟩ := h
          have hne : x ≠ name := by
            intro heq; subst heq; rw [hf] at hx; cases hx
          rw [find_put_ne hne]
          exact ih m m1 ref base h1 x e hx

/-- the value returned for an already resolved service is the memoised one -/
theorem applyOne_resolved (mrg : β → β → β) (k : Nat) (m m' : AL (XSvc β)) (name : String) (r e : β)
    (h : applyOne mrg k m name = some (m', r)) (hx : find name m = some (none, e)) : r = e := by
  cases k with
  | zero => simp [applyOne] at h
  | succ k =>
    rw [applyOne, hx] at h
    simp only [Option.some.injEq, Prod.mk.injEq] at h
    exact h.2.symm

theorem applyAll_keeps (mrg : β → β → β) (n : Nat) : ∀ (order : List String) (m mf : AL (XSvc β)),
    applyAll mrg n order m = some mf → ∀ x e, find x m = some (none, e) → find x mf = some (none, e) := by
  intro order
  induction order with
  | nil => intro m mf h x e hx; simp only [applyAll, Option.some.injEq] at h; subst h; exact hx
  | cons name rest ih =>
    intro m mf h x e hx
    rw [applyAll] at h
    cases h1 : applyOne mrg n m name with
    | none => simp [h1] at h
    | some p =>
      obtain ⟨m1, b⟩ := p
      simp only [h1] at h
      apply ih _ mf h x e
      by_cases hxe : x = name
      · subst hxe
        rw [find_put_self, applyOne_resolved mrg n m m1 x b e h1 hx]
      · rw [find_put_ne hxe]; exact applyOne_keeps mrg n m m1 name b h1 x e hx

/-- `n` is enough fuel for `m0`: a service that denotes something denotes it within `n` steps
(true for `n >` the number of services; a chain of distinct references cannot be longer) -/
def FuelEnough (mrg : β → β → β) (n : Nat) (m0 : AL (XSvc β)) : Prop :=
  ∀ x r k, val mrg k m0 x = some r → val mrg n m0 x = some r

/-- the loop succeeds iff every visited service denotes something -/
theorem applyAll_isSome (mrg : β → β → β) (n : Nat) (m0 : AL (XSvc β)) (hf : FuelEnough mrg n m0) :
    ∀ (order : List String) (m : AL (XSvc β)), Res mrg m0 m →
    (applyAll mrg n order m).isSome = order.all (fun x => (val mrg n m0 x).isSome) := by
  intro order
  induction order with
  | nil => intro m _; simp [applyAll]
  | cons name rest ih =>
    intro m hres
    rw [applyAll]
    simp only [List.all_cons]
    cases hv : val mrg n m0 name with
    | some r =>
      obtain ⟨m1, h1, hres1⟩ := applyOne_complete mrg m0 n m name r hres hv
      simp only [h1, Option.isSome_some, Bool.true_and]
      exact ih _ (Res.put mrg hres1 name r n hv)
    | none =>
      cases h1 : applyOne mrg n m name with
      | none => simp
      | some p =>
        obtain ⟨m1, b⟩ := p
        obtain ⟨⟨j, hj⟩, _⟩ := applyOne_sound mrg m0 n m m1 name b hres h1
        rw [hf name b j hj] at hv; cases hv

/-- after the loop, every visited service holds what it denotes, and the map is still a partial resolution of `m0` -/
theorem applyAll_result (mrg : β → β → β) (n : Nat) (m0 : AL (XSvc β)) :
    ∀ (order : List String) (m mf : AL (XSvc β)), Res mrg m0 m → applyAll mrg n order m = some mf →
    Res mrg m0 mf ∧ ∀ x ∈ order, ∃ r j, val mrg j m0 x = some r ∧ find x mf = some (none, r) := by
  intro order
  induction order with
  | nil =>
    intro m mf hres h
    simp only [applyAll, Option.some.injEq] at h; subst h
    exact ⟨hres, fun x hx => by cases hx⟩
  | cons name rest ih =>
    intro m mf hres h
    rw [applyAll] at h
    cases h1 : applyOne mrg n m name with
    | none => simp [h1] at h
    | some p =>
      obtain ⟨m1, b⟩ := p
      simp only [h1] at h
      obtain ⟨⟨j, hj⟩, hres1⟩ := applyOne_sound mrg m0 n m m1 name b hres h1
      have hres2 := Res.put mrg hres1 name b j hj
      obtain ⟨hresf, hall⟩ := ih _ mf hres2 h
      refine ⟨hresf, fun x hx => ?_⟩
      rcases List.mem_cons.mp hx with rfl | hx
      · exact ⟨b, j, hj, applyAll_keeps mrg n rest _ mf h x b (find_put_self _ _ _)⟩
      · exact hall x hx

theorem val_some_find (mrg : β → β → β) (k : Nat) (m : AL (XSvc β)) (x : String) (r : β)
    (h : val mrg k m x = some r) : (find x m).isSome = true := by
  cases k with
  | zero => simp [val] at h
  | succ k =>
    rw [val] at h
    cases hf : find x m with
    | none => simp [hf] at h
    | some e => rfl

/-- **`ApplyExtends` does not depend on the order in which Go ranges over the services map**: for two orders that
both visit every service, the loop fails or succeeds alike, and on success yields the same services map. -/
theorem applyAll_perm (mrg : β → β → β) (n : Nat) (m0 : AL (XSvc β)) (hf : FuelEnough mrg n m0)
    {order order' : List String} (hp : order'.Perm order) (hall : ∀ x, (find x m0).isSome = true → x ∈ order) :
    (applyAll mrg n order' m0).isSome = (applyAll mrg n order m0).isSome ∧
    ∀ mf mf', applyAll mrg n order m0 = some mf → applyAll mrg n order' m0 = some mf' →
      ∀ x, find x mf' = find x mf := by
  constructor
  · rw [applyAll_isSome mrg n m0 hf order' m0 (Res.refl mrg m0), applyAll_isSome mrg n m0 hf order m0 (Res.refl mrg m0),
      hp.all_eq]
  · intro mf mf' h h' x
    obtain ⟨hres, hv⟩ := applyAll_result mrg n m0 order m0 mf (Res.refl mrg m0) h
    obtain ⟨hres', hv'⟩ := applyAll_result mrg n m0 order' m0 mf' (Res.refl mrg m0) h'
    cases hx : find x m0 with
    | some e =>
      have hxo : x ∈ order := hall x (by rw [hx]; rfl)
      obtain ⟨r, j, hj, hfx⟩ := hv x hxo
      obtain ⟨r', j', hj', hfx'⟩ := hv' x (hp.symm.subset hxo)
      rw [hfx, hfx', val_det mrg m0 j j' x r r' hj hj']
    | none =>
      have none_of : ∀ m, Res mrg m0 m → find x m = none := by
        intro m hr
        rcases hr x with hs | ⟨r, k, _, hk⟩
        · rw [hs, hx]
        · have := val_some_find mrg k m0 x r hk
          rw [hx] at this; cases this
      rw [none_of mf hres, none_of mf' hres']

end CV.Det

namespace CV.Det
open CV CV.Val
variable {β : Type}

/-- a sufficient condition for `FuelEnough`: the `extends` references go down along a rank bounded by `n`
(any acyclic services map has such a rank) -/
theorem fuelEnough_of_rank (mrg : β → β → β) (n : Nat) (m0 : AL (XSvc β)) (rank : String → Nat)
    (hdown : ∀ x ref b, find x m0 = some (some ref, b) → rank ref < rank x)
    (hbound : ∀ x, (find x m0).isSome = true → rank x < n) : FuelEnough mrg n m0 := by
  have key : ∀ k x r, val mrg k m0 x = some r → val mrg (rank x + 1) m0 x = some r := by
    intro k
    induction k with
    | zero => intro x r h; simp [val] at h
    | succ k ih =>
      intro x r h
      rw [val] at h ⊢
      cases hf : find x m0 with
      | none => simp [hf] at h
      | some e =>
        obtain ⟨ext, b⟩ := e
        cases ext with
        | none => simpa [hf] using h
        | some ref =>
          simp only [hf, Option.map_eq_some_iff] at h ⊢
          obtain ⟨base, hb, rfl⟩ := h
          have h1 := ih ref base hb
          have hlt := hdown x ref b hf
          have : rank ref + 1 + (rank x - (rank ref + 1)) = rank x := by omega
          have h2 := val_mono' mrg m0 (rank ref + 1) (rank x - (rank ref + 1)) ref base h1
          rw [this] at h2
          exact ⟨base, h2, rfl⟩
  intro x r k h
  have h1 := key k x r h
  have hb := hbound x (val_some_find mrg k m0 x r h)
  have : rank x + 1 + (n - (rank x + 1)) = n := by omega
  have h2 := val_mono' mrg m0 (rank x + 1) (n - (rank x + 1)) x r h1
  rw [this] at h2
  exact h2

end CV.Det

/-! ### fuel sufficiency of the `extends` model (pigeonhole on the chain of references) -/
namespace CV.Det
open CV CV.Val
variable {β : Type}

def eraseKey {α : Type} (k : String) : AL α → AL α
  | [] => []
  | (k', v) :: r => if k = k' then eraseKey k r else (k', v) :: eraseKey k r

theorem find_eraseKey_self {α : Type} (k : String) (m : AL α) : find k (eraseKey k m) = none := by
  induction m with
  | nil => rfl
  | cons hd tl ih =>
    obtain ⟨k', v⟩ := hd
    simp only [eraseKey]; split
    · exact ih
    · next h => simp only [find, h, if_false]; exact ih

theorem find_eraseKey_ne {α : Type} {k x : String} (h : x ≠ k) (m : AL α) : find x (eraseKey k m) = find x m := by
  induction m with
  | nil => rfl
  | cons hd tl ih =>
    obtain ⟨k', v⟩ := hd
    simp only [eraseKey]; split
    · next hk => subst hk; simp only [find, h, if_false]; exact ih
    · simp only [find]; split
      · rfl
      · exact ih

theorem length_eraseKey_lt {α : Type} (k : String) (m : AL α) (h : (find k m).isSome = true) :
    (eraseKey k m).length < m.length := by
  induction m with
  | nil => simp [find] at h
  | cons hd tl ih =>
    obtain ⟨k', v⟩ := hd
    simp only [eraseKey]; split
    · have : (eraseKey k tl).length ≤ tl.length := by
        clear ih h
        induction tl with
        | nil => simp [eraseKey]
        | cons hd2 tl2 ih2 =>
          obtain ⟨k2, v2⟩ := hd2
          simp only [eraseKey]; split
          · simp only [List.length_cons]; omega
          · simp only [List.length_cons]; omega
      simp only [List.length_cons]; omega
    · next hne =>
      simp only [find, hne, if_false] at h
      simp only [List.length_cons]
      have := ih h; omega

/-- an evaluation that succeeds without `x` being available succeeds in the full map -/
theorem val_of_erase (mrg : β → β → β) (m : AL (XSvc β)) (x : String) : ∀ (k : Nat) (y : String) (r : β),
    val mrg k (eraseKey x m) y = some r → val mrg k m y = some r := by
  intro k
  induction k with
  | zero => intro y r h; simp [val] at h
  | succ k ih =>
    intro y r h
    rw [val] at h ⊢
    by_cases hy : y = x
    · subst hy; rw [find_eraseKey_self] at h; simp at h
    · rw [find_eraseKey_ne hy] at h
      cases hf : find y m with
      | none => simp [hf] at h
      | some e =>
        obtain ⟨ext, b⟩ := e
        cases ext with
        | none => simpa [hf] using h
        | some ref =>
          simp only [hf, Option.map_eq_some_iff] at h ⊢
          obtain ⟨base, hb, rfl⟩ := h
          exact ⟨base, ih ref base hb, rfl⟩

/-- if `x` itself cannot be evaluated within `k` steps, an evaluation of `y` within `k` steps never goes through `x` -/
theorem val_erase_of_min (mrg : β → β → β) (m : AL (XSvc β)) (x : String) : ∀ (k : Nat) (y : String) (r : β),
    (∀ j, j ≤ k → val mrg j m x = none) → val mrg k m y = some r → val mrg k (eraseKey x m) y = some r := by
  intro k
  induction k with
  | zero => intro y r _ h; simp [val] at h
  | succ k ih =>
    intro y r hmin h
    by_cases hy : y = x
    · subst hy; rw [hmin (k + 1) (Nat.le_refl _)] at h; cases h
    · rw [val] at h ⊢
      rw [find_eraseKey_ne hy]
      cases hf : find y m with
      | none => simp [hf] at h
      | some e =>
        obtain ⟨ext, b⟩ := e
        cases ext with
        | none => simpa [hf] using h
        | some ref =>
          simp only [hf, Option.map_eq_some_iff] at h ⊢
          obtain ⟨base, hb, rfl⟩ := h
          exact ⟨base, ih ref base (fun j hj => hmin j (Nat.le_succ_of_le hj)) hb, rfl⟩

/-- **fuel sufficiency**: whatever a service denotes, it denotes within `length` steps (a chain of references that
does not come back to a service already on it cannot be longer than the number of services) -/
theorem val_within_length (mrg : β → β → β) : ∀ (n : Nat) (m : AL (XSvc β)), m.length = n →
    ∀ (k : Nat) (x : String) (r : β), val mrg k m x = some r → val mrg m.length m x = some r := by
  intro n
  induction n using Nat.strongRecOn with
  | _ n ihn =>
    intro m hlen k
    induction k using Nat.strongRecOn with
    | _ k ihk =>
      intro x r h
      -- is there a smaller fuel that already works?
      by_cases hex : ∃ j, j < k ∧ (val mrg j m x).isSome = true
      · obtain ⟨j, hj, hs⟩ := hex
        obtain ⟨r', hr'⟩ := Option.isSome_iff_exists.mp hs
        have : r' = r := val_det mrg m j k x r' r hr' h
        subst this
        exact ihk j hj x r' hr'
      · -- k is minimal
        have hmin : ∀ j, j < k → val mrg j m x = none := by
          intro j hj
          cases hv : val mrg j m x with
          | none => rfl
          | some r' => exact absurd ⟨j, hj, by rw [hv]; rfl⟩ hex
        cases k with
        | zero => simp [val] at h
        | succ k =>
          have hx : (find x m).isSome = true := val_some_find mrg (k + 1) m x r h
          have hpos : 0 < m.length := by
            cases m with
            | nil => simp [find] at hx
            | cons _ _ => simp
          rw [val] at h
          cases hf : find x m with
          | none => simp [hf] at h
          | some e =>
            obtain ⟨ext, b⟩ := e
            cases ext with
            | none =>
              simp only [hf, Option.some.injEq] at h
              subst h
              obtain ⟨l, hl⟩ : ∃ l, m.length = l + 1 := ⟨m.length - 1, by omega⟩
              rw [hl, val, hf]
            | some ref =>
              simp only [hf, Option.map_eq_some_iff] at h
              obtain ⟨base, hb, rfl⟩ := h
              -- evaluate ref without x
              have he : val mrg k (eraseKey x m) ref = some base :=
                val_erase_of_min mrg m x k ref base (fun j hj => hmin j (Nat.lt_succ_of_le hj)) hb
              have hlt : (eraseKey x m).length < n := by rw [← hlen]; exact length_eraseKey_lt x m hx
              have h1 := ihn (eraseKey x m).length hlt (eraseKey x m) rfl k ref base he
              have h2 := val_of_erase mrg m x _ ref base h1
              -- pad the fuel up to length m - 1
              have hle : (eraseKey x m).length + (m.length - 1 - (eraseKey x m).length) = m.length - 1 := by
                have := length_eraseKey_lt x m hx; omega
              have h3 := val_mono' mrg m _ (m.length - 1 - (eraseKey x m).length) ref base h2
              rw [hle] at h3
              obtain ⟨l, hl⟩ : ∃ l, m.length = l + 1 := ⟨m.length - 1, by omega⟩
              rw [hl, val, hf]
              have hl' : l = m.length - 1 := by omega
              rw [hl'] 
              simp only [h3, Option.map_some]

theorem fuelEnough_length (mrg : β → β → β) (m0 : AL (XSvc β)) (j : Nat) : FuelEnough mrg (m0.length + j) m0 := by
  intro x r k h
  exact val_mono' mrg m0 m0.length j x r (val_within_length mrg m0.length m0 rfl k x r h)

end CV.Det
