import ComposeVerif.Lemmas.SecretsRender
/-! C20: the whole-tree composition `loadDict` and the section-wise `load` succeed together, with the same project. -/
namespace CV.Secrets
open CV CV.Val

@[simp] theorem Out.bind_ok {α β : Type} (a : α) (f : α → Out β) : (Out.ok a).bind f = f a := rfl
@[simp] theorem Out.bind_err {α β : Type} (e : String) (f : α → Out β) : (Out.err e : Out α).bind f = .err e := rfl
@[simp] theorem Out.bind_panic {α β : Type} (e : String) (f : α → Out β) : (Out.panic e : Out α).bind f = .panic e := rfl

theorem Out.bind_eq_ok {α β : Type} {x : Out α} {f : α → Out β} {b : β} :
    x.bind f = .ok b ↔ ∃ a, x = .ok a ∧ f a = .ok b := by
  cases x <;> simp

/-- a section after `resolve*Environment` -/
def rsv (c : String) (env : Env) : Option Val → Option Val
  | some (.map objs) => some (.map (resolveObjs c env objs))
  | x => x

/-- a section after `setNameFromKey` -/
def nsv (pname : String) : Option Val → Out (Option Val)
  | none => .ok none
  | some (.map objs) =>
    match setNameObjs pname objs with
    | .ok objs' => .ok (some (.map objs'))
    | .err e => .err e
    | .panic s => .panic s
  | some _ => .err "setNameFromKey"

/-- `Transform` of a section -/
def decV (f : Val → Out FileObj) : Option Val → Out (List (String × FileObj))
  | none => .ok []
  | some .null => .ok []
  | some (.map objs) => decodeObjs f objs
  | _ => .err "outOfDomain"

/-- what `processExtensions` does to the top-level entry `k` -/
def pxc (k : String) (v : Val) : Val := pxVal (childPath TPath.root k v) v

def putSect (sect : String) (d : KVs) : Option Val → KVs
  | none => d
  | some v => Val.insert sect v d

theorem lookup_resolveSection_self (sect c : String) (env : Env) (d : KVs) :
    Val.lookup sect (resolveSection sect c env d) = rsv c env (Val.lookup sect d) := by
  unfold resolveSection
  split
  · rename_i objs h; rw [lookup_insert_self, h]; rfl
  · rename_i h
    cases hl : Val.lookup sect d with
    | none => rfl
    | some v =>
      cases v with
      | map objs => exact absurd hl (h objs)
      | _ => rfl

theorem lookup_resolveSection_ne {k sect : String} (hk : k ≠ sect) (c : String) (env : Env) (d : KVs) :
    Val.lookup k (resolveSection sect c env d) = Val.lookup k d := by
  unfold resolveSection
  split
  · exact lookup_insert_ne hk _ _
  · rfl

theorem setNameSection_ok_iff {pname sect : String} {d d' : KVs} :
    setNameSection pname sect d = .ok d' ↔ ∃ x, nsv pname (Val.lookup sect d) = .ok x ∧ d' = putSect sect d x := by
  unfold setNameSection
  cases hl : Val.lookup sect d with
  | none => simp [nsv, putSect, eq_comm]
  | some v =>
    cases v with
    | map objs =>
      simp only [nsv]
      cases setNameObjs pname objs with
      | ok o => simp [putSect, eq_comm]
      | err e => simp
      | panic s => simp
    | _ => simp [nsv]

theorem lookup_putSect_self {pname sect : String} {d : KVs} {x : Option Val} (h : nsv pname (Val.lookup sect d) = .ok x) :
    Val.lookup sect (putSect sect d x) = x := by
  cases x with
  | some v => exact lookup_insert_self _ _ _
  | none =>
    simp only [putSect]
    cases hl : Val.lookup sect d with
    | none => rfl
    | some v =>
      rw [hl] at h
      cases v with
      | map objs =>
        simp only [nsv] at h
        cases hs : setNameObjs pname objs <;> rw [hs] at h <;> simp at h
      | _ => simp [nsv] at h

theorem lookup_putSect_ne {k sect : String} (hk : k ≠ sect) (d : KVs) (x : Option Val) :
    Val.lookup k (putSect sect d x) = Val.lookup k d := by
  cases x with
  | none => rfl
  | some v => exact lookup_insert_ne hk _ _

theorem isUserDefined_root : isUserDefined TPath.root = false := by decide

theorem lookup_processExtensions {k : String} (h1 : k ≠ extKey) (h2 : isExtKey k = false) (d : KVs) :
    ∃ d3, processExtensions d = .map d3 ∧ Val.lookup k d3 = (Val.lookup k d).map (pxc k) := by
  refine ⟨withExtras (extrasOf (isUserDefined TPath.root) d) (pxKVs TPath.root (isUserDefined TPath.root) d),
    by simp only [processExtensions, pxMap, pxVal], ?_⟩
  rw [lookup_withExtras_ne h1, lookup_pxKVs _ _ h2]
  rfl

theorem decodeSection_eq (f : Val → Out FileObj) (sect : String) (d : KVs) : decodeSection f sect d = decV f (Val.lookup sect d) := by
  unfold decodeSection
  cases hl : Val.lookup sect d with
  | none => rfl
  | some v => cases v <;> rfl

theorem pxc_section (sect : String) (h1 : pnext TPath.root sect = [sect]) (h2 : isUserDefined [sect] = true) (objs : KVs) :
    pxc sect (.map objs) = .map (pxKVs [sect] true objs) := by
  simp only [pxc, childPath, h1, pxVal, h2, extrasOf, if_true, withExtras, List.isEmpty_nil]

/-- `loadSection` through the same section-level functions -/
theorem loadSection_ok_iff (isSecret : Bool) (env : Env) (pname : String) (dict : KVs) (l : List (String × FileObj)) :
    loadSection isSecret env pname dict = .ok l ↔
      ∃ s2, nsv pname (rsv (if isSecret then xValue else "content") env (Val.lookup (if isSecret then "secrets" else "configs") dict)) = .ok s2 ∧
        decV (if isSecret then decodeSecret else decodeConfig) (s2.map (pxc (if isSecret then "secrets" else "configs"))) = .ok l := by
  have hpx : ∀ objs, pxc (if isSecret then "secrets" else "configs") (.map objs) =
      .map (pxKVs [if isSecret then "secrets" else "configs"] true objs) := by
    intro objs
    cases isSecret
    · exact pxc_section "configs" (by decide) (by decide) objs
    · exact pxc_section "secrets" (by decide) (by decide) objs
  unfold loadSection
  cases hl : Val.lookup (if isSecret then "secrets" else "configs") dict with
  | none => simp [rsv, nsv, decV]
  | some v =>
    cases v with
    | map objs =>
      simp only [rsv, nsv]
      cases hs : setNameObjs pname (resolveObjs (if isSecret then xValue else "content") env objs) with
      | ok o2 => simp [hpx, decV]
      | err e => simp
      | panic s => simp
    | _ => simp [rsv, nsv]

/-- the top-level mapping after `processExtensions` -/
def pxTop (d : KVs) : KVs :=
  withExtras (extrasOf (isUserDefined TPath.root) d) (pxKVs TPath.root (isUserDefined TPath.root) d)

theorem processExtensions_eq (d : KVs) : processExtensions d = .map (pxTop d) := by
  simp only [processExtensions, pxMap, pxVal, pxTop]

theorem lookup_pxTop {k : String} (h1 : k ≠ extKey) (h2 : isExtKey k = false) (d : KVs) :
    Val.lookup k (pxTop d) = (Val.lookup k d).map (pxc k) := by
  unfold pxTop
  rw [lookup_withExtras_ne h1, lookup_pxKVs _ _ h2]
  rfl

theorem isExtKey_secrets : isExtKey "secrets" = false := by decide
theorem isExtKey_configs : isExtKey "configs" = false := by decide

/-- `loadDict` through the section-level functions -/
theorem loadDict_ok_iff (env : Env) (pname : String) (dict : KVs) (p : Proj) :
    loadDict env pname dict = .ok p ↔
      ∃ c2 s2 ss cs,
        nsv pname (rsv "content" env (Val.lookup "configs" dict)) = .ok c2 ∧
        nsv pname (rsv xValue env (Val.lookup "secrets" dict)) = .ok s2 ∧
        decV decodeSecret (s2.map (pxc "secrets")) = .ok ss ∧
        decV decodeConfig (c2.map (pxc "configs")) = .ok cs ∧ p = { secrets := ss, configs := cs } := by
  have hC : Val.lookup "configs" (resolveConfigsEnv env (resolveSecretsEnv env dict)) = rsv "content" env (Val.lookup "configs" dict) := by
    unfold resolveConfigsEnv resolveSecretsEnv
    rw [lookup_resolveSection_self, lookup_resolveSection_ne (by decide)]
  have hS : Val.lookup "secrets" (resolveConfigsEnv env (resolveSecretsEnv env dict)) = rsv xValue env (Val.lookup "secrets" dict) := by
    unfold resolveConfigsEnv resolveSecretsEnv
    rw [lookup_resolveSection_ne (by decide), lookup_resolveSection_self]
  unfold loadDict
  simp only [setNameSections, Out.bind_eq_ok, setNameSection_ok_iff, processExtensions_eq, decodeSection_eq]
  constructor
  · rintro ⟨d2, ⟨dA, ⟨c2, hc2, rfl⟩, dB, ⟨s2, hs2, rfl⟩, hdB⟩, ss, hss, cs, hcs, hp⟩
    cases hdB
    rw [lookup_putSect_ne (by decide)] at hs2
    have hl2 : Val.lookup "secrets" (putSect "secrets" (putSect "configs" (resolveConfigsEnv env (resolveSecretsEnv env dict)) c2) s2) = s2 :=
      lookup_putSect_self (pname := pname) (by rw [lookup_putSect_ne (by decide)]; exact hs2)
    have hlc : Val.lookup "configs" (putSect "secrets" (putSect "configs" (resolveConfigsEnv env (resolveSecretsEnv env dict)) c2) s2) = c2 := by
      rw [lookup_putSect_ne (by decide)]; exact lookup_putSect_self hc2
    rw [lookup_pxTop (by decide) isExtKey_secrets, hl2] at hss
    rw [lookup_pxTop (by decide) isExtKey_configs, hlc] at hcs
    rw [hC] at hc2
    rw [hS] at hs2
    exact ⟨c2, s2, ss, cs, hc2, hs2, hss, hcs, by cases hp; rfl⟩
  · rintro ⟨c2, s2, ss, cs, hc2, hs2, hss, hcs, rfl⟩
    rw [← hC] at hc2
    rw [← hS] at hs2
    have hs2' : nsv pname (Val.lookup "secrets" (putSect "configs" (resolveConfigsEnv env (resolveSecretsEnv env dict)) c2)) = .ok s2 := by
      rw [lookup_putSect_ne (by decide)]; exact hs2
    refine ⟨_, ⟨_, ⟨c2, hc2, rfl⟩, _, ⟨s2, hs2', rfl⟩, rfl⟩, ss, ?_, cs, ?_, rfl⟩
    · rw [lookup_pxTop (by decide) isExtKey_secrets, lookup_putSect_self hs2']; exact hss
    · rw [lookup_pxTop (by decide) isExtKey_configs, lookup_putSect_ne (by decide), lookup_putSect_self hc2]; exact hcs

/-- **the whole-tree composition and the section-wise pipeline succeed together, with the same project** -/
theorem loadDict_ok_iff_load (env : Env) (pname : String) (dict : KVs) (p : Proj) :
    loadDict env pname dict = .ok p ↔ load env pname dict = .ok p := by
  rw [loadDict_ok_iff]
  unfold load
  simp only [Out.bind_eq_ok]
  have hs := loadSection_ok_iff true env pname dict
  have hc := loadSection_ok_iff false env pname dict
  simp only [if_true, Bool.false_eq_true, if_false] at hs hc
  constructor
  · rintro ⟨c2, s2, ss, cs, hc2, hs2, hss, hcs, rfl⟩
    exact ⟨ss, (hs ss).2 ⟨s2, hs2, hss⟩, cs, (hc cs).2 ⟨c2, hc2, hcs⟩, rfl⟩
  · rintro ⟨ss, hss, cs, hcs, hp⟩
    obtain ⟨s2, hs2, hss'⟩ := (hs ss).1 hss
    obtain ⟨c2, hc2, hcs'⟩ := (hc cs).1 hcs
    exact ⟨c2, s2, ss, cs, hc2, hs2, hss', hcs', by cases hp; rfl⟩

/-! ### following one entry through the section pipeline -/

theorem mem_resolveObjs {c : String} {env : Env} : ∀ {objs : KVs} {n : String} {v : Val},
    (n, v) ∈ objs → (n, resolveObj c env v) ∈ resolveObjs c env objs
  | [], _, _, h => by cases h
  | (k, w) :: r, n, v, h => by
    simp only [resolveObjs]
    rcases List.mem_cons.1 h with h | h
    · cases h; exact List.mem_cons_self
    · exact List.mem_cons_of_mem _ (mem_resolveObjs h)

theorem setNameObjs_cons_ok {pname k : String} {r : Val} {rest l : KVs} :
    setNameObjs pname ((k, r) :: rest) = .ok l ↔
      ∃ r' rest', setNameObj pname k r = .ok r' ∧ setNameObjs pname rest = .ok rest' ∧ l = (k, r') :: rest' := by
  simp only [setNameObjs]
  cases setNameObj pname k r <;> cases setNameObjs pname rest <;> simp [eq_comm]

theorem decodeObjs_cons_ok {f : Val → Out FileObj} {k : String} {v : Val} {rest : KVs} {l : List (String × FileObj)} :
    decodeObjs f ((k, v) :: rest) = .ok l ↔
      ∃ o rest', f v = .ok o ∧ decodeObjs f rest = .ok rest' ∧ l = (k, o) :: rest' := by
  simp only [decodeObjs]
  cases f v <;> cases decodeObjs f rest <;> simp [eq_comm]

theorem mem_setNameObjs {pname : String} : ∀ {objs objs' : KVs}, setNameObjs pname objs = .ok objs' →
    ∀ {n : String} {v : Val}, (n, v) ∈ objs → ∃ v', setNameObj pname n v = .ok v' ∧ (n, v') ∈ objs'
  | [], _, _, _, _, h => by cases h
  | (k, w) :: r, objs', hs, n, v, h => by
    obtain ⟨r', rest', h1, h2, rfl⟩ := setNameObjs_cons_ok.1 hs
    rcases List.mem_cons.1 h with h | h
    · cases h; exact ⟨r', h1, List.mem_cons_self⟩
    · obtain ⟨v', hv, hm⟩ := mem_setNameObjs h2 h
      exact ⟨v', hv, List.mem_cons_of_mem _ hm⟩

theorem pxKVs_true_eq_map (p : TPath) : ∀ objs : KVs,
    pxKVs p true objs = objs.map (fun kv => (kv.1, pxVal (childPath p kv.1 kv.2) kv.2))
  | [] => rfl
  | (k, v) :: r => by simp [pxKVs, pxKVs_true_eq_map p r]

theorem resolveObjs_eq_map (c : String) (env : Env) : ∀ objs : KVs,
    resolveObjs c env objs = objs.map (fun kv => (kv.1, resolveObj c env kv.2))
  | [] => rfl
  | (k, v) :: r => by simp [resolveObjs, resolveObjs_eq_map c env r]

theorem mem_decodeObjs {f : Val → Out FileObj} : ∀ {objs : KVs} {l : List (String × FileObj)}, decodeObjs f objs = .ok l →
    ∀ {n : String} {v : Val}, (n, v) ∈ objs → ∃ o, f v = .ok o ∧ (n, o) ∈ l
  | [], _, _, _, _, h => by cases h
  | (k, w) :: r, l, hs, n, v, h => by
    obtain ⟨o, rest', h1, h2, rfl⟩ := decodeObjs_cons_ok.1 hs
    rcases List.mem_cons.1 h with h | h
    · cases h; exact ⟨o, h1, List.mem_cons_self⟩
    · obtain ⟨o', ho, hm⟩ := mem_decodeObjs h2 h
      exact ⟨o', ho, List.mem_cons_of_mem _ hm⟩

theorem resolveObj_map (c : String) (env : Env) (kvs : KVs) : ∃ kvs1, resolveObj c env (.map kvs) = .map kvs1 := by
  simp only [resolveObj]
  split
  · split
    · exact ⟨_, rfl⟩
    · split <;> exact ⟨_, rfl⟩
  · exact ⟨_, rfl⟩

/-! ### Go's iteration order over a section does not matter -/

theorem setNameObjs_perm {pname : String} {objs objs' : KVs} (h : objs.Perm objs') :
    ∀ {l : KVs}, setNameObjs pname objs = .ok l → ∃ l', setNameObjs pname objs' = .ok l' ∧ l.Perm l' := by
  induction h with
  | nil => intro l hl; exact ⟨l, hl, List.Perm.refl _⟩
  | cons x _ ih =>
    intro l hl
    obtain ⟨k, v⟩ := x
    obtain ⟨r', rest', h1, h2, rfl⟩ := setNameObjs_cons_ok.1 hl
    obtain ⟨l', hl', hp⟩ := ih h2
    exact ⟨(k, r') :: l', setNameObjs_cons_ok.2 ⟨r', l', h1, hl', rfl⟩, hp.cons _⟩
  | swap x y r =>
    intro l hl
    obtain ⟨kx, vx⟩ := x
    obtain ⟨ky, vy⟩ := y
    obtain ⟨ry, rest1, h1, h2, rfl⟩ := setNameObjs_cons_ok.1 hl
    obtain ⟨rx, rest2, h3, h4, rfl⟩ := setNameObjs_cons_ok.1 h2
    exact ⟨(kx, rx) :: (ky, ry) :: rest2,
      setNameObjs_cons_ok.2 ⟨rx, _, h3, setNameObjs_cons_ok.2 ⟨ry, rest2, h1, h4, rfl⟩, rfl⟩, List.Perm.swap _ _ _⟩
  | trans _ _ ih1 ih2 =>
    intro l hl
    obtain ⟨l1, h1, p1⟩ := ih1 hl
    obtain ⟨l2, h2, p2⟩ := ih2 h1
    exact ⟨l2, h2, p1.trans p2⟩

theorem decodeObjs_perm {f : Val → Out FileObj} {objs objs' : KVs} (h : objs.Perm objs') :
    ∀ {l : List (String × FileObj)}, decodeObjs f objs = .ok l → ∃ l', decodeObjs f objs' = .ok l' ∧ l.Perm l' := by
  induction h with
  | nil => intro l hl; exact ⟨l, hl, List.Perm.refl _⟩
  | cons x _ ih =>
    intro l hl
    obtain ⟨k, v⟩ := x
    obtain ⟨r', rest', h1, h2, rfl⟩ := decodeObjs_cons_ok.1 hl
    obtain ⟨l', hl', hp⟩ := ih h2
    exact ⟨(k, r') :: l', decodeObjs_cons_ok.2 ⟨r', l', h1, hl', rfl⟩, hp.cons _⟩
  | swap x y r =>
    intro l hl
    obtain ⟨kx, vx⟩ := x
    obtain ⟨ky, vy⟩ := y
    obtain ⟨ry, rest1, h1, h2, rfl⟩ := decodeObjs_cons_ok.1 hl
    obtain ⟨rx, rest2, h3, h4, rfl⟩ := decodeObjs_cons_ok.1 h2
    exact ⟨(kx, rx) :: (ky, ry) :: rest2,
      decodeObjs_cons_ok.2 ⟨rx, _, h3, decodeObjs_cons_ok.2 ⟨ry, rest2, h1, h4, rfl⟩, rfl⟩, List.Perm.swap _ _ _⟩
  | trans _ _ ih1 ih2 =>
    intro l hl
    obtain ⟨l1, h1, p1⟩ := ih1 hl
    obtain ⟨l2, h2, p2⟩ := ih2 h1
    exact ⟨l2, h2, p1.trans p2⟩

end CV.Secrets
