import ComposeVerif.Lemmas.TemplateFuel
/-!
# Fuel-free view of the `template.Substitute` model

`run env s` is `scan` with sufficient fuel from the empty accumulator; `rrepl` is `repl` likewise.
`run_nil`, `run_cons_lit`, `run_dollar_none`, `run_dollar_some` are the unfolding equations every later
proof uses; `seq` is the sequential composition of outcomes (`seq_assoc`).
-/
namespace CV.Template

/-- fuel-free view of `scan` from the empty accumulator -/
def run (env : Env) (s : Str) : Out := scan (2 * s.length + 1) env s [] none

def comb (acc : Str) (fe : Option Err) (o : Out) : Out :=
  match o with
  | .panic p => .panic p
  | .ok r => match fe with | none => .ok (acc ++ r) | some e => .err e
  | .err e => match fe with | none => .err e | some e0 => .err e0

/-- sequential composition of two outcomes: concatenation, first error wins, a panic anywhere is a panic -/
def seq (a b : Out) : Out :=
  match a with
  | .panic p => .panic p
  | .ok x => (match b with | .ok y => .ok (x ++ y) | o => o)
  | .err e => (match b with | .panic p => .panic p | _ => .err e)

theorem comb_comb (acc a : Str) (fe : Option Err) (X : Out) :
    comb acc fe (comb a none X) = comb (acc ++ a) fe X := by
  cases X <;> cases fe <;> simp [comb]

theorem comb_pushErr (acc : Str) (fe : Option Err) (e : Err) (X : Out) :
    comb acc fe (comb [] (some e) X) = comb acc (pushErr fe e) X := by
  cases X <;> cases fe <;> simp [comb, pushErr]

theorem comb_nil_none (X : Out) : comb [] none X = X := by
  cases X <;> simp [comb]

theorem scan_acc (env : Env) : ∀ f s acc fe, scan f env s acc fe = comb acc fe (scan f env s [] none) := by
  intro f
  induction f with
  | zero => intros; simp [scan, comb]
  | succ f ih =>
    intro s acc fe
    rw [scan_succ, scan_succ]; unfold scanK
    split
    · cases fe <;> simp [comb]
    · split
      · split
        · rw [ih, ih _ ([] ++ _), comb_comb]; simp
        · split
          · rw [ih, ih _ ([] ++ _), comb_comb]; simp
          · rw [ih, ih _ [] (pushErr none _)]
            rw [show pushErr none _ = some _ from rfl, comb_pushErr]
          · cases fe <;> simp [comb]
      · rw [ih, ih _ ([] ++ _), comb_comb]; simp

theorem seq_ok_eq_comb (v : Str) (X : Out) : seq (.ok v) X = comb v none X := by
  cases X <;> simp [seq, comb]
theorem seq_err_eq_comb (e : Err) (X : Out) : seq (.err e) X = comb [] (some e) X := by
  cases X <;> simp [seq, comb]

theorem seq_assoc (a b c : Out) : seq (seq a b) c = seq a (seq b c) := by
  cases a <;> cases b <;> cases c <;> simp [seq]

theorem seq_ok_nil (b : Out) : seq (.ok []) b = b := by cases b <;> simp [seq]
theorem seq_nil_ok (a : Out) : seq a (.ok []) = a := by cases a <;> simp [seq]

theorem seq_ok_ok (a b : Str) (c : Out) : seq (.ok a) (seq (.ok b) c) = seq (.ok (a ++ b)) c := by
  cases c <;> simp [seq]

theorem seq_err_of_ne_panic (e : Err) (b : Out) (h : ∀ p, b ≠ .panic p) : seq (.err e) b = .err e := by
  cases b <;> simp [seq]; exact h _ rfl

theorem run_eq_scan (env : Env) (s : Str) (f : Nat) (h : 2 * s.length + 1 ≤ f) : scan f env s [] none = run env s :=
  scan_fuel_eq env s [] none _ _ h (Nat.le_refl _)

theorem subst_eq_run (env : Env) (s : Str) : subst env s = run env s :=
  run_eq_scan env s _ (by unfold fuelFor; omega)

theorem run_ne_panic (env : Env) (s : Str) (p : PanicSite) : run env s ≠ .panic p := by
  rw [← subst_eq_run]; exact subst_never_panics_aux env s p

theorem run_nil (env : Env) : run env [] = .ok [] := by simp [run, scan]

theorem run_cons_lit (env : Env) (c : Char) (cs : Str) (hc : c ≠ '$') :
    run env (c :: cs) = seq (.ok [c]) (run env cs) := by
  unfold run
  simp only [List.length_cons, Nat.mul_add, Nat.mul_one]
  rw [scan_succ]; unfold scanK
  simp only [beq_iff_eq, hc, if_false]
  rw [scan_acc, seq_ok_eq_comb, scan_fuel_eq env cs [] none _ (2 * cs.length + 1) (by omega) (by omega)]
  simp

end CV.Template
namespace CV.Template

/-- fuel-free view of `repl` -/
def rrepl (env : Env) (m : Str) : Out := replK env m (run env)

theorem replK_congr_len (env : Env) (m : Str) (sc sc' : Str → Out)
    (h : ∀ s, s.length + 1 ≤ m.length → sc s = sc' s) : replK env m sc = replK env m sc' := by
  unfold replK
  split <;> try rfl
  rename_i body x y hmd
  obtain ⟨h1, h2, h3⟩ := matchDollar_spec hmd
  have h3 := h3 body rfl
  have hxl : x.length ≤ (subOf m).length := by
    have := congrArg List.length h1; simp at this; omega
  have hsub := subOf_length m
  have harg := cut_snd_length (selectOp m).str body
  have hrest := restOf_length m
  rw [h (cut (selectOp m).str body).2 (by omega), h (restOf m) (by omega)]

theorem repl_eq_rrepl (env : Env) (m : Str) (f : Nat) (h : 2 * m.length ≤ f) (h1 : 1 ≤ f) :
    repl f env m = rrepl env m := by
  obtain ⟨f, rfl⟩ : ∃ f', f = f' + 1 := ⟨f - 1, by omega⟩
  rw [repl_succ]; unfold rrepl
  apply replK_congr_len
  intro s hs
  exact run_eq_scan env s f (by omega)

theorem run_dollar_none (env : Env) (cs : Str) (h : matchDollar ('$' :: cs) = none) :
    run env ('$' :: cs) = seq (.ok ['$']) (run env cs) := by
  unfold run
  simp only [List.length_cons, Nat.mul_add, Nat.mul_one]
  rw [scan_succ]; unfold scanK
  simp only [beq_self_eq_true, if_true, h]
  rw [scan_acc, seq_ok_eq_comb, scan_fuel_eq env cs [] none _ (2 * cs.length + 1) (by omega) (by omega)]
  simp

theorem run_dollar_some (env : Env) (cs : Str) {k : M} {m rest : Str}
    (h : matchDollar ('$' :: cs) = some (k, m, rest)) :
    run env ('$' :: cs) = seq (rrepl env m) (run env rest) := by
  obtain ⟨h1, h2, _⟩ := matchDollar_spec h
  have hl : m.length + rest.length = cs.length + 1 := by
    have := congrArg List.length h1; simpa using this
  unfold run
  simp only [List.length_cons, Nat.mul_add, Nat.mul_one]
  rw [scan_succ]; unfold scanK
  simp only [beq_self_eq_true, if_true, h]
  rw [repl_eq_rrepl env m _ (by omega) (by omega)]
  have hrest : ∀ a fe, scan (2 * cs.length + 2) env rest a fe = comb a fe (scan (2 * rest.length + 1) env rest [] none) := by
    intro a fe
    rw [scan_acc, scan_fuel_eq env rest [] none _ (2 * rest.length + 1) (by omega) (by omega)]
  split
  · rename_i v hv
    rw [hrest, hv, seq_ok_eq_comb]; simp
  · rename_i e he
    rw [hrest, he, seq_err_eq_comb]; rfl
  · rename_i p hp
    rw [hp]; rfl

end CV.Template
