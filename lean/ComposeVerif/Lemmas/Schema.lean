import ComposeVerif.Model.SchemaPaths
/-! Soundness of `schemasAt` / `kindsAt`: what a conforming document can contain at a path. -/
namespace CV.Schema
open CV

theorem lookup_mem {k : String} {kvs : List (String × Val)} {v : Val} (h : Val.lookup k kvs = some v) : (k, v) ∈ kvs := by
  induction kvs with
  | nil => simp [Val.lookup] at h
  | cons hd tl ih =>
    obtain ⟨k', v'⟩ := hd
    simp only [Val.lookup] at h
    split at h
    · next heq => cases h; subst heq; exact List.mem_cons_self ..
    · exact List.mem_cons_of_mem _ (ih h)

theorem conforms_anyS (v : Val) : conforms anyS v = true := by
  cases v <;> simp [conforms, anyS, conformsProp, conformsPats, countConf]

theorem countConf_pos {l : List S} {v : Val} (h : 1 ≤ countConf l v) : ∃ s ∈ l, conforms s v = true := by
  induction l with
  | nil => simp [countConf] at h
  | cons s r ih =>
    simp only [countConf] at h
    by_cases hs : conforms s v = true
    · exact ⟨s, List.mem_cons_self .., hs⟩
    · simp only [hs] at h
      obtain ⟨s', hm, hc⟩ := ih (by simpa using h)
      exact ⟨s', List.mem_cons_of_mem _ hm, hc⟩

theorem conformsProp_mem {props : List (String × S)} {k : String} {c : Val} (h : conformsProp props k c = true)
    {s : S} (hm : (k, s) ∈ props) : conforms s c = true := by
  induction props with
  | nil => cases hm
  | cons hd tl ih =>
    obtain ⟨n, s0⟩ := hd
    simp only [conformsProp, Bool.and_eq_true] at h
    rcases List.mem_cons.mp hm with heq | hr
    · cases heq; simpa using h.1
    · exact ih h.2 hr

theorem conformsPats_mem {pats : List (Pat × S)} {k : String} {c : Val} (h : conformsPats pats k c = true)
    {p : Pat} {s : S} (hm : (p, s) ∈ pats) (hp : p.matches k = true) : conforms s c = true := by
  induction pats with
  | nil => cases hm
  | cons hd tl ih =>
    obtain ⟨p0, s0⟩ := hd
    simp only [conformsPats, Bool.and_eq_true] at h
    rcases List.mem_cons.mp hm with heq | hr
    · cases heq; simpa [hp] using h.1
    · exact ih h.2 hr

theorem propDefined_ex {props : List (String × S)} {k : String} (h : propDefined props k = true) : ∃ s, (k, s) ∈ props := by
  simp only [propDefined, List.any_eq_true, decide_eq_true_eq] at h
  obtain ⟨⟨n, s⟩, hm, hn⟩ := h
  simp only at hn; subst hn
  exact ⟨s, hm⟩

theorem patDefined_ex {pats : List (Pat × S)} {k : String} (h : patDefined pats k = true) : ∃ p s, (p, s) ∈ pats ∧ p.matches k = true := by
  simp only [patDefined, List.any_eq_true] at h
  obtain ⟨⟨p, s⟩, hm, hp⟩ := h
  exact ⟨p, s, hm, hp⟩

/-- a value of a node whose `type` excludes `t` is not of JSON type `t` -/
theorem types_object {types : List Ty} {kvs : List (String × Val)}
    (h : (types.isEmpty || types.any (fun t => tyOk t (.map kvs))) = true) :
    (!types.isEmpty && !types.contains .object) = false := by
  cases types with
  | nil => simp
  | cons t ts =>
    simp only [List.isEmpty_cons, Bool.false_or, List.any_eq_true] at h
    obtain ⟨t', hm, ht⟩ := h
    simp only [tyOk, beq_iff_eq] at ht
    subst ht
    simp [hm]

theorem types_array {types : List Ty} {xs : List Val}
    (h : (types.isEmpty || types.any (fun t => tyOk t (.seq xs))) = true) :
    (!types.isEmpty && !types.contains .array) = false := by
  cases types with
  | nil => simp
  | cons t ts =>
    simp only [List.isEmpty_cons, Bool.false_or, List.any_eq_true] at h
    obtain ⟨t', hm, ht⟩ := h
    simp only [tyOk, beq_iff_eq] at ht
    subst ht
    simp [hm]

theorem mem_filter_map_snd {α β : Type} {l : List (α × β)} {p : α × β → Bool} {a : α} {b : β}
    (hm : (a, b) ∈ l) (hp : p (a, b) = true) : b ∈ (l.filter p).map Prod.snd :=
  List.mem_map.mpr ⟨(a, b), List.mem_filter.mpr ⟨hm, hp⟩, rfl⟩

mutual
/-- one step: a child of a conforming value conforms to one of `schemasAt` -/
theorem schemasAt_sound : ∀ (s : S) (v : Val) (step : Step) (c : Val),
    conforms s v = true → c ∈ children v step → ∃ s' ∈ schemasAt s step, conforms s' c = true
  | .unknown _, _, _, _, h, _ => by rw [conforms.eq_def] at h; simp at h
  | .node types props patProps addl items oneOf anyOf enum req uniq mn mx fmt, v, step, c, h, hc => by
    rw [conforms.eq_def] at h
    simp only [Bool.and_eq_true] at h
    obtain ⟨⟨⟨⟨⟨⟨hty, _⟩, hone⟩, hany⟩, _⟩, _⟩, hbody⟩ := h
    have altOne : oneOf.isEmpty = false → ∃ s ∈ oneOf, conforms s v = true := by
      intro hne
      simp only [hne, Bool.false_or, beq_iff_eq] at hone
      exact countConf_pos (by omega)
    have altAny : anyOf.isEmpty = false → ∃ s ∈ anyOf, conforms s v = true := by
      intro hne
      simp only [hne, Bool.false_or, ge_iff_le, decide_eq_true_eq] at hany
      exact countConf_pos hany
    cases v with
    | map kvs =>
      have hobj := types_object hty
      simp only [Bool.and_eq_true, List.all_eq_true] at hbody
      have hkv := hbody.2
      cases step with
      | item => simp [children] at hc
      | key k =>
        simp only [children] at hc
        cases hl : Val.lookup k kvs with
        | none => simp [hl] at hc
        | some c0 =>
          simp only [hl, List.mem_singleton] at hc
          subst hc
          have hthis := hkv (k, c) (lookup_mem hl)
          simp only [Bool.and_eq_true, Bool.or_eq_true] at hthis
          obtain ⟨⟨hp, hpat⟩, hdef⟩ := hthis
          simp only [schemasAt, hobj, Bool.false_eq_true, if_false]
          by_cases hpd : propDefined props k = true
          · obtain ⟨s0, hm⟩ := propDefined_ex hpd
            simp only [hpd, if_true]
            exact ⟨s0, mem_filter_map_snd hm (by simp), conformsProp_mem hp hm⟩
          · simp only [hpd, Bool.false_eq_true, if_false]
            by_cases hqd : patDefined patProps k = true
            · obtain ⟨p0, s0, hm, hmatch⟩ := patDefined_ex hqd
              simp only [hqd, if_true]
              exact ⟨s0, mem_filter_map_snd hm hmatch, conformsPats_mem hpat hm hmatch⟩
            · simp only [hqd, Bool.false_eq_true, if_false]
              split
              · next hcond =>
                simp only [Bool.and_eq_true, Bool.not_eq_true'] at hcond
                exact schemasAtL_sound oneOf (.map kvs) (.key k) c (altOne hcond.2) (by simp [children, hl])
              · split
                · next hcond =>
                  simp only [Bool.and_eq_true, Bool.not_eq_true'] at hcond
                  exact schemasAtL_sound anyOf (.map kvs) (.key k) c (altAny hcond.2) (by simp [children, hl])
                · have hallow : (addl == Addl.allow) = true := by
                    rcases hdef with (h1 | h1) | h1
                    · exact absurd h1 hpd
                    · exact absurd h1 hqd
                    · exact h1
                  simp only [hallow, if_true]
                  exact ⟨anyS, List.mem_singleton.mpr rfl, conforms_anyS c⟩
      | anyKey =>
        simp only [children, List.mem_map] at hc
        obtain ⟨⟨k, c0⟩, hm0, hceq⟩ := hc
        simp only at hceq; subst hceq
        have hthis := hkv (k, c0) hm0
        simp only [Bool.and_eq_true, Bool.or_eq_true] at hthis
        obtain ⟨⟨hp, hpat⟩, hdef⟩ := hthis
        simp only [schemasAt, hobj, Bool.false_eq_true, if_false]
        split
        · next hcond =>
          simp only [Bool.and_eq_true, Bool.not_eq_true'] at hcond
          exact schemasAtL_sound oneOf (.map kvs) .anyKey c0 (altOne hcond.2)
            (by simp only [children, List.mem_map]; exact ⟨(k, c0), hm0, rfl⟩)
        · split
          · next hcond =>
            simp only [Bool.and_eq_true, Bool.not_eq_true'] at hcond
            exact schemasAtL_sound anyOf (.map kvs) .anyKey c0 (altAny hcond.2)
              (by simp only [children, List.mem_map]; exact ⟨(k, c0), hm0, rfl⟩)
          · rcases hdef with (h1 | h1) | h1
            · obtain ⟨s0, hm⟩ := propDefined_ex h1
              exact ⟨s0, by simp only [List.mem_append, List.mem_map]; exact .inl (.inl ⟨(k, s0), hm, rfl⟩), conformsProp_mem hp hm⟩
            · obtain ⟨p0, s0, hm, hmatch⟩ := patDefined_ex h1
              exact ⟨s0, by simp only [List.mem_append, List.mem_map]; exact .inl (.inr ⟨(p0, s0), hm, rfl⟩), conformsPats_mem hpat hm hmatch⟩
            · exact ⟨anyS, by simp [h1], conforms_anyS c0⟩
    | seq xs =>
      have harr := types_array hty
      cases step with
      | key k => simp [children] at hc
      | anyKey => simp [children] at hc
      | item =>
        simp only [children] at hc
        simp only [schemasAt, harr, Bool.false_eq_true, if_false]
        cases items with
        | some it =>
          simp only [Bool.and_eq_true, List.all_eq_true] at hbody
          exact ⟨it, List.mem_singleton.mpr rfl, hbody.1 c hc⟩
        | none =>
          simp only
          split
          · next hcond =>
            simp only [Bool.not_eq_true'] at hcond
            exact schemasAtL_sound oneOf (.seq xs) .item c (altOne hcond) (by simpa [children] using hc)
          · split
            · next hcond =>
              simp only [Bool.not_eq_true'] at hcond
              exact schemasAtL_sound anyOf (.seq xs) .item c (altAny hcond) (by simpa [children] using hc)
            · exact ⟨anyS, List.mem_singleton.mpr rfl, conforms_anyS c⟩
    | null => cases step <;> simp [children] at hc
    | bool b => cases step <;> simp [children] at hc
    | int i => cases step <;> simp [children] at hc
    | float r => cases step <;> simp [children] at hc
    | str s => cases step <;> simp [children] at hc
theorem schemasAtL_sound : ∀ (l : List S) (v : Val) (step : Step) (c : Val),
    (∃ s ∈ l, conforms s v = true) → c ∈ children v step → ∃ s' ∈ schemasAtL l step, conforms s' c = true
  | [], _, _, _, h, _ => by obtain ⟨s, hm, _⟩ := h; cases hm
  | s :: r, v, step, c, h, hc => by
    obtain ⟨s0, hm0, hconf⟩ := h
    rcases List.mem_cons.mp hm0 with heq | hr
    · have hconf' : conforms s v = true := heq ▸ hconf
      obtain ⟨s', hm, hc'⟩ := schemasAt_sound s v step c hconf' hc
      exact ⟨s', by simp only [schemasAtL, List.mem_append]; exact .inl hm, hc'⟩
    · obtain ⟨s', hm, hc'⟩ := schemasAtL_sound r v step c ⟨s0, hr, hconf⟩ hc
      exact ⟨s', by simp only [schemasAtL, List.mem_append]; exact .inr hm, hc'⟩
end

theorem tyOk_allTys (v : Val) : ∃ t ∈ allTys, tyOk t v = true := by
  cases v <;> simp [allTys, tyOk]

mutual
theorem tysOf_sound : ∀ (s : S) (v : Val), conforms s v = true → ∃ t ∈ tysOf s, tyOk t v = true
  | .unknown _, _, h => by rw [conforms.eq_def] at h; simp at h
  | .node types props patProps addl items oneOf anyOf enum req uniq mn mx fmt, v, h => by
    rw [conforms.eq_def] at h
    simp only [Bool.and_eq_true] at h
    obtain ⟨⟨⟨⟨⟨⟨hty, _⟩, hone⟩, hany⟩, _⟩, _⟩, _⟩ := h
    simp only [tysOf]
    cases hte : types.isEmpty with
    | false =>
      simp only [hte, Bool.false_or, List.any_eq_true] at hty
      simpa using hty
    | true =>
      simp only [Bool.not_true, Bool.false_eq_true, if_false]
      cases hoe : oneOf.isEmpty with
      | false =>
        simp only [hoe, Bool.false_or, beq_iff_eq] at hone
        simp only [Bool.not_false, if_true]
        exact tysOfL_sound oneOf v (countConf_pos (by omega))
      | true =>
        simp only [Bool.not_true, Bool.false_eq_true, if_false]
        cases hae : anyOf.isEmpty with
        | false =>
          simp only [hae, Bool.false_or, ge_iff_le, decide_eq_true_eq] at hany
          simp only [Bool.not_false, if_true]
          exact tysOfL_sound anyOf v (countConf_pos hany)
        | true =>
          simp only [Bool.not_true, Bool.false_eq_true, if_false]
          exact tyOk_allTys v
theorem tysOfL_sound : ∀ (l : List S) (v : Val), (∃ s ∈ l, conforms s v = true) → ∃ t ∈ tysOfL l, tyOk t v = true
  | [], _, h => by obtain ⟨s, hm, _⟩ := h; cases hm
  | s :: r, v, h => by
    obtain ⟨s0, hm0, hconf⟩ := h
    rcases List.mem_cons.mp hm0 with heq | hr
    · have hconf' : conforms s v = true := heq ▸ hconf
      obtain ⟨t, hm, ht⟩ := tysOf_sound s v hconf'
      exact ⟨t, by simp only [tysOfL, List.mem_append]; exact .inl hm, ht⟩
    · obtain ⟨t, hm, ht⟩ := tysOfL_sound r v ⟨s0, hr, hconf⟩
      exact ⟨t, by simp only [tysOfL, List.mem_append]; exact .inr hm, ht⟩
end

theorem schemasAtPath_sound : ∀ (path : List Step) (ss : List S) (vs : List Val),
    (∀ v ∈ vs, ∃ s ∈ ss, conforms s v = true) →
    ∀ c ∈ descendants vs path, ∃ s' ∈ schemasAtPath ss path, conforms s' c = true
  | [], ss, vs, h, c, hc => h c hc
  | st :: r, ss, vs, h, c, hc => by
    simp only [descendants] at hc
    simp only [schemasAtPath]
    refine schemasAtPath_sound r _ _ ?_ c hc
    intro c' hc'
    simp only [List.mem_flatMap] at hc' ⊢
    obtain ⟨v, hv, hcv⟩ := hc'
    obtain ⟨s, hs, hconf⟩ := h v hv
    obtain ⟨s', hm, hc''⟩ := schemasAt_sound s v st c' hconf hcv
    exact ⟨s', ⟨s, hs, hm⟩, hc''⟩

end CV.Schema
