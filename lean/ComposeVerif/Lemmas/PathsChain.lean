import ComposeVerif.Lemmas.PathsOrigin
import ComposeVerif.Lemmas.PathsDir
/-!
Origin chains of ANY depth (C12, round 5): a chain of `n` plain includes, optionally ending in an `extends`, is ONE
resolution against the directory found by following the chain.
-/
namespace CV.Paths

/-- the base `[Rₙ, …, R₁] ++ [W]` (innermost first) collapses to: `Join(… Join(Join(W, R₁), R₂) …, Rₙ)` -/
def chainBase (W : Str) : List Str → Str
  | [] => W
  | R :: Rs => join (chainBase W Rs) R

theorem chainBase_ne_nil (W : Str) (hW : W ≠ []) : ∀ Rs, chainBase W Rs ≠ []
  | [] => hW
  | _ :: Rs => join_ne_nil _ _ (chainBase_ne_nil W hW Rs)

theorem chainBase_snoc (W r : Str) : ∀ X, chainBase W (X ++ [r]) = chainBase (join W r) X
  | [] => rfl
  | x :: X => by simp only [List.cons_append, chainBase, chainBase_snoc W r X]

theorem applyStages_one (k : Nat) (cfg : Cfg) (b s : Str) :
    applyStages k cfg [b] s = resolveKind k { cfg with wd := b } s := by
  obtain ⟨r, hr⟩ := resolveKind_total k { cfg with wd := b } s
  rw [applyStages_cons_ok k cfg b [] s r hr, hr]; rfl

/-- any number of relative stages, then the project directory: one resolution against the collapsed base -/
theorem applyStages_chain (k : Nat) (cfg : Cfg) (W : Str) (hW : W ≠ []) (hhome : ∀ h, cfg.home = some h → h ≠ []) :
    ∀ (Rs : List Str), (∀ R ∈ Rs, R ≠ [] ∧ isAbs R = false) → ∀ s,
      applyStages k cfg (Rs ++ [W]) s = resolveKind k { cfg with wd := chainBase W Rs } s
  | [], _, s => applyStages_one k cfg W s
  | R :: Rs, h, s => by
    obtain ⟨a, ha⟩ := resolveKind_total k { cfg with wd := R } s
    have hR := h R (by simp)
    have ih := applyStages_chain k cfg W hW hhome Rs (fun R' hR' => h R' (by simp [hR'])) a
    have h2 := applyStages_two k cfg R (chainBase W Rs) s (chainBase_ne_nil W hW Rs) hR.1 hR.2 hhome
    rw [applyStages_cons_ok k cfg R _ s a ha, applyStages_one] at h2
    rw [List.cons_append, applyStages_cons_ok k cfg R _ s a ha, ih, h2]; rfl

/-- following a chain of includes: each file is found from the directory of the previous one; `D` = what the end of the
chain does with the last directory -/
def inclDir (D : Str → Str) : Str → List Str → Str
  | L, [] => D L
  | L, p :: ps => inclDir D (dir (absIn L p)) ps

/-- every include names a file (not a directory); `fin` = the condition at the end of the chain -/
def InclOK (isDir : Str → Bool) (fin : Str → Prop) : Str → List Str → Prop
  | L, [] => fin L
  | L, p :: ps => isDir (absIn L p) = false ∧ InclOK isDir fin (dir (absIn L p)) ps

def inclSteps (ps : List Str) : List Step := ps.map (fun p => Step.incl p none)

/-- the stages of `n` includes followed by `tail` collapse to the directory the chain leads to -/
theorem stagesOf_incl_chain (cfg : Cfg) (isDir : Str → Bool) (tail : List Step) (D : Str → Str) (fin : Str → Prop)
    (htail : ∀ L c, isAbs L = true → fin L →
      (∀ R ∈ stagesOf cfg isDir ⟨L, c⟩ none tail, R ≠ [] ∧ isAbs R = false) ∧
        chainBase L (stagesOf cfg isDir ⟨L, c⟩ none tail) = D L) :
    ∀ (ps : List Str) (L c : Str), isAbs L = true → InclOK isDir fin L ps →
      (∀ R ∈ stagesOf cfg isDir ⟨L, c⟩ none (inclSteps ps ++ tail), R ≠ [] ∧ isAbs R = false) ∧
        chainBase L (stagesOf cfg isDir ⟨L, c⟩ none (inclSteps ps ++ tail)) = inclDir D L ps
  | [], L, c, hL, hok => by simpa [inclSteps, inclDir] using htail L c hL hok
  | p :: ps, L, c, hL, hok => by
    obtain ⟨hf, hrest⟩ := hok
    have hpath := isAbs_absIn L p hL
    have hl := loaderDir_of_file isDir L (absIn L p) hL (by rw [absIn_of_abs _ _ hpath]; exact hf)
    rw [absIn_of_abs _ _ (isAbs_dir _ hpath), clean_dir] at hl
    have ih := stagesOf_incl_chain cfg isDir tail D fin htail ps (dir (absIn L p)) (loaderDir isDir L (absIn L p))
      (isAbs_dir _ hpath) hrest
    simp only [inclSteps, List.map_cons, List.cons_append, stagesOf, includeLevel, inclDir]
    constructor
    · intro R hR
      rcases List.mem_append.mp hR with h | h
      · exact ih.1 R h
      · simp only [List.mem_singleton] at h; subst h; exact ⟨hl.1, hl.2.1⟩
    · rw [chainBase_snoc, hl.2.2]; exact ih.2

/-- a relative chain joined onto `W` is the chain started at `Join(W, r)` -/
theorem chainBase_join (W r : Str) (hW : W ≠ []) (hr : r ≠ []) (hrr : isAbs r = false) :
    ∀ X : List Str, (∀ R ∈ X, R ≠ [] ∧ isAbs R = false) →
      chainBase r X ≠ [] ∧ isAbs (chainBase r X) = false ∧ join W (chainBase r X) = chainBase (join W r) X
  | [], _ => ⟨hr, hrr, rfl⟩
  | x :: X, h => by
    obtain ⟨h1, h2, h3⟩ := chainBase_join W r hW hr hrr X (fun R hR => h R (by simp [hR]))
    have hx := h x (by simp)
    refine ⟨join_ne_nil _ _ h1, isAbs_join_rel _ _ h1 h2, ?_⟩
    simp only [chainBase]
    rw [← join_assoc W _ x hW h1 h2, h3]

end CV.Paths
