import ComposeVerif.Lemmas.C02Deep11
import ComposeVerif.Lemmas.C02StageWalk
namespace CV.Det.Stage
open CV CV.Deep
open CV.Val (lookup insert keys KVs)

/-! ### `transform.SetDefaultValues` respects the equivalence at every nesting level -/

/-- both succeed with related values, or both fail -/
def DRel {α : Type} (R : α → α → Prop) : CV.C11.Out α → CV.C11.Out α → Prop
  | .ok a, .ok b => R a b
  | .ok _, _ => False
  | _, .ok _ => False
  | _, _ => True

theorem setIfAbsent_meqv {a a' : KVs} (h : MEqv a a') (k : String) {v v' : Val} (hv : Eqv v v') :
    MEqv (CV.C11.setIfAbsent k v a) (CV.C11.setIfAbsent k v' a') := by
  unfold CV.C11.setIfAbsent
  cases hl : lookup k a with
  | none => rw [(h.1 k).mp hl]; exact h.insert k hv
  | some x => obtain ⟨y, hy, _⟩ := h.lookup_some hl; rw [hy]; exact h

theorem fmtS_eqv {o o' : Option Val} (hn : o = none ↔ o' = none) (h : ∀ x y, o = some x → o' = some y → Eqv x y) :
    CV.C11.fmtS o = CV.C11.fmtS o' := by
  cases o with
  | none => rw [hn.mp rfl]
  | some x =>
    cases o' with
    | none => have := hn.mpr rfl; cases this
    | some y =>
      have := h x y rfl rfl
      cases this <;> rfl

theorem applyHandler_eqv (hname : String) {v w : Val} (h : Eqv v w) :
    DRel Eqv (CV.C11.applyHandler hname v) (CV.C11.applyHandler hname w) := by
  unfold CV.C11.applyHandler
  split
  · cases h with
    | map h1 h2 => exact Eqv.map_iff.mpr (setIfAbsent_meqv ⟨h1, h2⟩ "context" (.str "."))
    | null => exact Eqv.null
    | bool b => exact Eqv.bool b
    | int i => exact Eqv.int i
    | float s => exact Eqv.float s
    | str s => exact Eqv.str s
    | seqNil => exact Eqv.seqNil
    | seqCons a b => exact Eqv.seqCons a b
  · split
    · cases h with
      | map h1 h2 =>
        simp only [CV.C11.defaultSecretMount, DRel]
        have hm : MEqv _ _ := ⟨h1, h2⟩
        rw [fmtS_eqv (hm.1 "source") (hm.2 "source")]
        exact Eqv.map_iff.mpr (setIfAbsent_meqv hm "target" (.str _))
      | null => trivial
      | bool b => trivial
      | int i => trivial
      | float s => trivial
      | str s => trivial
      | seqNil => trivial
      | seqCons _ _ => trivial
    · split
      · cases h with
        | map h1 h2 =>
          exact Eqv.map_iff.mpr (setIfAbsent_meqv (setIfAbsent_meqv ⟨h1, h2⟩ "protocol" (.str "tcp")) "mode" (.str "ingress"))
        | null => exact Eqv.null
        | bool b => exact Eqv.bool b
        | int i => exact Eqv.int i
        | float s => exact Eqv.float s
        | str s => exact Eqv.str s
        | seqNil => exact Eqv.seqNil
        | seqCons a b => exact Eqv.seqCons a b
      · split
        · cases h with
          | map h1 h2 =>
            simp only [CV.C11.deviceRequestDefaults, DRel, CV.C11.deviceCount]
            have hm : MEqv _ _ := ⟨h1, h2⟩
            refine Eqv.map_iff.mpr ?_
            cases hc : lookup "count" _ with
            | none =>
              rw [(hm.1 "count").mp hc]
              cases hd : lookup "device_ids" _ with
              | none => rw [(hm.1 "device_ids").mp hd]; exact hm.insert "count" (.str "all")
              | some x => obtain ⟨y, hy, _⟩ := hm.lookup_some hd; rw [hy]; exact hm
            | some x => obtain ⟨y, hy, _⟩ := hm.lookup_some hc; rw [hy]; exact hm
          | null => trivial
          | bool b => trivial
          | int i => trivial
          | float s => trivial
          | str s => trivial
          | seqNil => trivial
          | seqCons _ _ => trivial
        · trivial

theorem DRel.optD_isSome {α : Type} {R : α → α → Prop} {x y : CV.C11.Out α} (h : DRel R x y) :
    (optD x).isSome = (optD y).isSome := by
  cases x <;> cases y <;> simp only [DRel] at h <;> first | rfl | exact h.elim

theorem DRel.of_ok {α : Type} {R : α → α → Prop} {x y : CV.C11.Out α} {a b : α} (hx : x = .ok a) (hy : y = .ok b)
    (h : DRel R x y) : R a b := by subst hx; subst hy; exact h

theorem lookup_all_of_nodup {m : KVs} (hn : (keys m).Nodup) (P : String → Val → Bool) :
    m.all (fun kv => P kv.1 kv.2) = true ↔ ∀ k v, lookup k m = some v → P k v = true := by
  constructor
  · intro h k v hl
    have hm : (k, v) ∈ m := by
      have := CV.Det.mem_of_find_some (m := m) (k := k) (v := v) (by rw [find_eq_lookup]; exact hl)
      exact this
    exact List.all_eq_true.mp h (k, v) hm
  · intro h
    apply List.all_eq_true.mpr
    intro kv hkv
    obtain ⟨k, v⟩ := kv
    have := CV.Det.find_some_of_mem (m := m) hn hkv
    rw [find_eq_lookup] at this
    exact h k v this

theorem lookup_mapG (G : String → Val → Val) (m : KVs) (k : String) :
    lookup k (m.map (fun kv => (kv.1, G kv.1 kv.2))) = (lookup k m).map (G k) := by
  rw [← find_eq_lookup, CV.Det.find_map_entries G m k, find_eq_lookup]

/-- the list component -/
def LRel : List Val → List Val → Prop := fun xs ys => Eqv (.seq xs) (.seq ys)

theorem setDefaults_eqv_aux (tbl : List (List String × String)) {v w : Val} (h : Eqv v w) :
    WF v → WF w →
      (∀ p, DRel Eqv (CV.C11.setDefaults tbl p v) (CV.C11.setDefaults tbl p w)) ∧
      (∀ xs ys, v = .seq xs → w = .seq ys → ∀ p, DRel LRel (CV.C11.setDefaultsList tbl p xs) (CV.C11.setDefaultsList tbl p ys)) := by
  induction h with
  | null => intro _ _; exact ⟨fun p => by
      unfold CV.C11.setDefaults; split
      · exact applyHandler_eqv _ .null
      · exact Eqv.null, fun _ _ h => by cases h⟩
  | bool b => intro _ _; exact ⟨fun p => by
      unfold CV.C11.setDefaults; split
      · exact applyHandler_eqv _ (.bool b)
      · exact Eqv.bool b, fun _ _ h => by cases h⟩
  | int i => intro _ _; exact ⟨fun p => by
      unfold CV.C11.setDefaults; split
      · exact applyHandler_eqv _ (.int i)
      · exact Eqv.int i, fun _ _ h => by cases h⟩
  | float s => intro _ _; exact ⟨fun p => by
      unfold CV.C11.setDefaults; split
      · exact applyHandler_eqv _ (.float s)
      · exact Eqv.float s, fun _ _ h => by cases h⟩
  | str s => intro _ _; exact ⟨fun p => by
      unfold CV.C11.setDefaults; split
      · exact applyHandler_eqv _ (.str s)
      · exact Eqv.str s, fun _ _ h => by cases h⟩
  | seqNil =>
    intro _ _
    refine ⟨fun p => ?_, fun xs ys h1 h2 p => by cases h1; cases h2; simp only [CV.C11.setDefaultsList, DRel]; exact Eqv.seqNil⟩
    unfold CV.C11.setDefaults; split
    · exact applyHandler_eqv _ .seqNil
    · simp only [CV.C11.setDefaultsList, DRel]; exact Eqv.seqNil
  | @seqCons x y xs ys hxy hrest ih1 ih2 =>
    intro w1 w2
    cases w1 with | seqCons wx wxs =>
    cases w2 with | seqCons wy wys =>
    have hl : ∀ p, DRel LRel (CV.C11.setDefaultsList tbl p (x :: xs)) (CV.C11.setDefaultsList tbl p (y :: ys)) := by
      intro p
      have h1 := (ih1 wx wy).1 (p.next "[]")
      have h2 := (ih2 wxs wys).2 xs ys rfl rfl p
      rw [CV.C11.setDefaultsList, CV.C11.setDefaultsList]
      cases hx : CV.C11.setDefaults tbl (p.next "[]") x <;> cases hy : CV.C11.setDefaults tbl (p.next "[]") y <;>
        simp only [hx, hy, DRel] at h1 ⊢ <;> try exact h1.elim
      cases hxs : CV.C11.setDefaultsList tbl p xs <;> cases hys : CV.C11.setDefaultsList tbl p ys <;>
        simp only [hxs, hys, DRel] at h2 ⊢ <;> try exact h2.elim
      exact Eqv.seqCons h1 h2
    refine ⟨fun p => ?_, fun xs' ys' e1 e2 p => by cases e1; cases e2; exact hl p⟩
    unfold CV.C11.setDefaults; split
    · exact applyHandler_eqv _ (.seqCons hxy hrest)
    · have := hl p
      cases hxs : CV.C11.setDefaultsList tbl p (x :: xs) <;> cases hys : CV.C11.setDefaultsList tbl p (y :: ys) <;>
        simp only [hxs, hys, DRel] at this ⊢ <;> first | exact this | exact this.elim
  | @map a b hnone hval ih =>
    intro w1 w2
    have wa := WF.map_iff.mp w1
    have wb := WF.map_iff.mp w2
    refine ⟨fun p => ?_, fun _ _ h => by cases h⟩
    unfold CV.C11.setDefaults; split
    · exact applyHandler_eqv _ (.map hnone hval)
    · -- the loop over the mapping
      simp only []
      let g : String → Val → Option Val := fun k v => optD (CV.C11.setDefaults tbl (p.next k) v)
      have hta := setDefaultsKVs_trav tbl p a
      have htb := setDefaultsKVs_trav tbl p b
      have hm : MEqv a b := ⟨hnone, hval⟩
      have hg : ∀ k x y, lookup k a = some x → lookup k b = some y →
          DRel Eqv (CV.C11.setDefaults tbl (p.next k) x) (CV.C11.setDefaults tbl (p.next k) y) :=
        fun k x y hx hy => (ih k x y hx hy (wa.2 k x hx) (wb.2 k y hy)).1 (p.next k)
      -- success transfers
      have hsome : (optD (CV.C11.setDefaultsKVs tbl p a)).isSome = (optD (CV.C11.setDefaultsKVs tbl p b)).isSome := by
        rw [hta, htb, travOpt_isSome, travOpt_isSome]
        apply Bool.eq_iff_iff.mpr
        rw [lookup_all_of_nodup wa.1 (fun k v => (g k v).isSome), lookup_all_of_nodup wb.1 (fun k v => (g k v).isSome)]
        constructor
        · intro h k y hy
          obtain ⟨x, hx, _⟩ := hm.lookup_some' hy
          rw [← (hg k x y hx hy).optD_isSome]; exact h k x hx
        · intro h k x hx
          obtain ⟨y, hy, _⟩ := hm.lookup_some hx
          rw [(hg k x y hx hy).optD_isSome]; exact h k y hy
      cases hra : CV.C11.setDefaultsKVs tbl p a with
      | ok ra =>
        cases hrb : CV.C11.setDefaultsKVs tbl p b with
        | ok rb =>
          simp only [DRel]
          have ea := travOpt_eq_map g a ra (by rw [← hta, hra]; rfl)
          have eb := travOpt_eq_map g b rb (by rw [← htb, hrb]; rfl)
          -- every entry succeeded
          have alla : ∀ k x, lookup k a = some x → (g k x).isSome = true := by
            have : (travOpt g a).isSome = true := by rw [← hta, hra]; rfl
            rw [travOpt_isSome] at this
            exact (lookup_all_of_nodup wa.1 (fun k v => (g k v).isSome)).mp this
          have allb : ∀ k y, lookup k b = some y → (g k y).isSome = true := by
            have : (travOpt g b).isSome = true := by rw [← htb, hrb]; rfl
            rw [travOpt_isSome] at this
            exact (lookup_all_of_nodup wb.1 (fun k v => (g k v).isSome)).mp this
          refine Eqv.map_iff.mpr ⟨?_, ?_⟩
          · intro k
            rw [ea, eb, lookup_mapG (fun k v => (g k v).getD Val.null), lookup_mapG (fun k v => (g k v).getD Val.null)]
            cases hla : lookup k a with
            | none => rw [(hm.1 k).mp hla]
            | some x => obtain ⟨y, hy, _⟩ := hm.lookup_some hla; rw [hy]; simp
          · intro k u v hu hv
            rw [ea, lookup_mapG (fun k v => (g k v).getD Val.null)] at hu
            rw [eb, lookup_mapG (fun k v => (g k v).getD Val.null)] at hv
            cases hla : lookup k a with
            | none => rw [hla] at hu; cases hu
            | some x =>
              obtain ⟨y, hy, _⟩ := hm.lookup_some hla
              rw [hla] at hu; rw [hy] at hv
              simp only [Option.map_some, Option.some.injEq] at hu hv
              subst hu; subst hv
              have hrel := hg k x y hla hy
              have sx := alla k x hla
              have sy := allb k y hy
              cases hx : CV.C11.setDefaults tbl (p.next k) x <;> cases hyy : CV.C11.setDefaults tbl (p.next k) y <;>
                simp only [g, hx, hyy, optD, Option.isSome] at sx sy <;> try contradiction
              simp only [g, hx, hyy, optD, Option.getD]
              exact DRel.of_ok hx hyy hrel
        | err e => rw [hra, hrb] at hsome; simp [optD] at hsome
        | panic s => rw [hra, hrb] at hsome; simp [optD] at hsome
      | err e =>
        cases hrb : CV.C11.setDefaultsKVs tbl p b with
        | ok rb => rw [hra, hrb] at hsome; simp [optD] at hsome
        | err _ => simp only [DRel]
        | panic _ => simp only [DRel]
      | panic s =>
        cases hrb : CV.C11.setDefaultsKVs tbl p b with
        | ok rb => rw [hra, hrb] at hsome; simp [optD] at hsome
        | err _ => simp only [DRel]
        | panic _ => simp only [DRel]

/-- **`transform.SetDefaultValues` as a whole tree walk**: equivalent trees get equivalent defaults, or both walks fail -/
theorem setDefaults_eqv (tbl : List (List String × String)) (p : TPath) {v w : Val} (h : Eqv v w) (wv : WF v) (ww : WF w) :
    DRel Eqv (CV.C11.setDefaults tbl p v) (CV.C11.setDefaults tbl p w) := (setDefaults_eqv_aux tbl h wv ww).1 p

end CV.Det.Stage
