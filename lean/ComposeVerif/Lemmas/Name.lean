import ComposeVerif.Model.Name
import ComposeVerif.Spec.Name
/-! Helper lemmas for C17: character classes, `normalize`, last-name scan, environment lookups. -/
namespace CV.Name
open CV

theorem isNameChar_cases (c : Char) (h : isNameChar c = true) :
    c.isLower = true ∨ c.isDigit = true ∨ c = '_' ∨ c = '-' := by
  simpa [isNameChar, or_assoc] using h

theorem isNameChar_not_upper (c : Char) (h : isNameChar c = true) : c.isUpper = false := by
  rcases isNameChar_cases c h with h | h | h | h
  · grind [Char.isLower, Char.isUpper]
  · grind [Char.isDigit, Char.isUpper]
  · subst h; decide
  · subst h; decide

theorem toLower_of_not_upper (c : Char) (h : c.isUpper = false) : c.toLower = c := by
  grind [Char.toLower, Char.isUpper]

theorem toLowerGo_nameChar (c : Char) (h : isNameChar c = true) : toLowerGo c = c := by
  have h1 : c ≠ '\u212A' := by
    intro e; subst e; revert h; decide
  have h2 : c ≠ '\u0130' := by
    intro e; subst e; revert h; decide
  unfold toLowerGo; rw [if_neg h1, if_neg h2]
  exact toLower_of_not_upper c (isNameChar_not_upper c h)

theorem lead_of_not_sep (c : Char) (h : isNameChar c = true) (h2 : isSep c = false) : (c.isLower || c.isDigit) = true := by
  rcases isNameChar_cases c h with h | h | h | h
  · simp [h]
  · simp [h]
  · subst h; revert h2; decide
  · subst h; revert h2; decide

theorem lead_not_sep (c : Char) (h : (c.isLower || c.isDigit) = true) : isSep c = false ∧ isNameChar c = true := by
  constructor
  · simp only [isSep, Bool.or_eq_false_iff, beq_eq_false_iff_ne]
    constructor
    · intro e; subst e; revert h; decide
    · intro e; subst e; revert h; decide
  · simp only [isNameChar, Bool.or_eq_true] at *; exact Or.inl (Or.inl h)

theorem validName_dropWhile (l : Str) (h : ∀ c ∈ l, isNameChar c = true) :
    l.dropWhile isSep = [] ∨ validName (l.dropWhile isSep) = true := by
  induction l with
  | nil => left; rfl
  | cons c l ih =>
    by_cases hs : isSep c = true
    · rw [List.dropWhile_cons_of_pos hs]
      exact ih (fun d hd => h d (List.mem_cons_of_mem _ hd))
    · right
      rw [List.dropWhile_cons_of_neg hs]
      have hs' : isSep c = false := by simpa using hs
      simp only [validName, Bool.and_eq_true, List.all_eq_true]
      exact ⟨lead_of_not_sep c (h c List.mem_cons_self) hs', fun d hd => h d (List.mem_cons_of_mem _ hd)⟩

theorem norm_valid (s : Str) : normalize s = [] ∨ validName (normalize s) = true := by
  unfold normalize
  apply validName_dropWhile
  intro c hc
  exact (List.mem_filter.mp hc).2

theorem validName_all (s : Str) (h : validName s = true) : ∀ c ∈ s, isNameChar c = true := by
  cases s with
  | nil => intro c hc; cases hc
  | cons a as =>
    simp only [validName, Bool.and_eq_true, List.all_eq_true] at h
    intro c hc
    rcases List.mem_cons.mp hc with e | e
    · subst e; exact (lead_not_sep c h.1).2
    · exact h.2 c e

theorem map_toLowerGo_of_all (s : Str) (h : ∀ c ∈ s, isNameChar c = true) : s.map toLowerGo = s := by
  induction s with
  | nil => rfl
  | cons a as ih =>
    rw [List.map_cons, toLowerGo_nameChar a (h a List.mem_cons_self), ih (fun c hc => h c (List.mem_cons_of_mem _ hc))]

theorem normalize_of_valid (s : Str) (h : validName s = true) : normalize s = s := by
  have hall := validName_all s h
  unfold normalize
  rw [map_toLowerGo_of_all s hall, List.filter_eq_self.mpr hall]
  cases s with
  | nil => rfl
  | cons a as =>
    simp only [validName, Bool.and_eq_true] at h
    exact List.dropWhile_cons_of_neg (by simp [(lead_not_sep a h.1).1])

theorem normalize_nil : normalize [] = [] := rfl

theorem norm_idem (s : Str) : normalize (normalize s) = normalize s := by
  rcases norm_valid s with h | h
  · rw [h]; rfl
  · exact normalize_of_valid _ h

theorem norm_fixed_iff (s : Str) : normalize s = s ↔ (s = [] ∨ validName s = true) := by
  constructor
  · intro h
    have := norm_valid s
    rwa [h] at this
  · rintro (h | h)
    · subst h; rfl
    · exact normalize_of_valid s h

open CV.Name.Spec

def lastOr {α} (d : α) : List α → α
  | [] => d
  | x :: xs => lastOr x xs

theorem getLast?_getD_eq_lastOr {α} (l : List α) (d : α) : l.getLast?.getD d = lastOr d l := by
  induction l generalizing d with
  | nil => rfl
  | cons x xs ih =>
    cases xs with
    | nil => rfl
    | cons y ys =>
      rw [List.getLast?_cons_cons, ih]
      rfl

theorem lastNameDocs_eq (ds : List (Option Str)) (acc : Str) :
    lastNameDocs ds acc = lastOr acc ((ds.filterMap id).filter (· ≠ [])) := by
  induction ds generalizing acc with
  | nil => rfl
  | cons d ds ih =>
    cases d with
    | none => simpa [lastNameDocs] using ih acc
    | some n =>
      simp only [lastNameDocs, List.filterMap_cons_some, id_eq]
      by_cases hn : n = []
      · subst hn; simpa using ih acc
      · rw [ih]
        simp [List.filter_cons, hn, lastOr]

theorem lastOr_append {α} (d : α) (a b : List α) : lastOr d (a ++ b) = lastOr (lastOr d a) b := by
  induction a generalizing d with
  | nil => rfl
  | cons x xs ih => exact ih x

theorem lastName_eq (fs : List (List (Option Str))) (acc : Str) :
    lastName fs acc = lastOr acc ((fs.flatten.filterMap id).filter (· ≠ [])) := by
  induction fs generalizing acc with
  | nil => rfl
  | cons f fs ih =>
    simp only [lastName, List.flatten_cons, List.filterMap_append, List.filter_append, lastOr_append]
    rw [ih, lastNameDocs_eq]

theorem lastName_selected (fs : List (List (Option Str))) : lastName fs [] = selectedName fs := by
  rw [lastName_eq, selectedName, getLast?_getD_eq_lastOr]


/-- what `loader.projectName` must return for each decision of the specification -/
def Agrees : Decision → Except Err Str → Prop
  | .name n, r => r = .ok n ∧ n ≠ []
  | .rejected, r => r = .error .invalidName
  | .failed, r => r = .error .interp ∨ r = .error .panic
  | .noName, r => r = .ok []

theorem valid_ne_nil (n : Str) (h : validName n = true) : n ≠ [] := by
  intro e; subst e; cases h

theorem imperative_agrees (n : Str) (hn : n ≠ []) :
    Agrees (if validName n then .name n else .rejected)
      (if normalize n ≠ n then .error .invalidName else .ok n) := by
  by_cases hv : validName n = true
  · simp only [hv, if_true, normalize_of_valid n hv, ne_eq, not_true_eq_false, if_false]
    exact ⟨rfl, hn⟩
  · have hne : normalize n ≠ n := by
      intro h
      rcases (norm_fixed_iff n).mp h with h | h
      · exact hn h
      · exact hv h
    simp only [hv, hne, ne_eq, not_false_eq_true, if_true]
    exact rfl

theorem loaderName_agrees {files : List (List (Option Str))} (w : World) (o : PO) :
    Agrees (Spec.decide (sourcesOf w o files)) (loaderName files o.env (cliName w o)) := by
  unfold Spec.decide sourcesOf cliName loaderName
  by_cases hname : o.name = []
  · simp only [hname, ne_eq, not_true_eq_false, if_false]
    cases henv : o.env.get cpn with
    | some n =>
      by_cases hn : n = []
      · subst hn
        simp only [Option.filter, ne_eq, not_true_eq_false, decide_false, if_false, lastName_selected]
        cases hs : Template.subst o.env.get (selectedName files) with
        | ok s =>
          by_cases h1 : normalize s = []
          · by_cases h2 : normalize (projDir w o) = []
            · simp [Agrees, h1, h2]
            · simp [Agrees, h1, h2]
          · simp [Agrees, h1]
        | err e => simp [Agrees]
        | panic p => simp [Agrees]
      · simp only [Option.filter, ne_eq, hn, not_false_eq_true, decide_true, if_true]
        exact imperative_agrees n hn
    | none =>
      simp only [Option.filter, lastName_selected]
      cases hs : Template.subst o.env.get (selectedName files) with
      | ok s =>
        by_cases h1 : normalize s = []
        · by_cases h2 : normalize (projDir w o) = []
          · simp [Agrees, h1, h2]
          · simp [Agrees, h1, h2]
        · simp [Agrees, h1]
      | err e => simp [Agrees]
      | panic p => simp [Agrees]
  · simp only [hname, ne_eq, not_false_eq_true, if_true]
    exact imperative_agrees o.name hname


theorem load_ok_inv {files : List (List (Option Str))} (w : World) (o : PO) (r : Loaded) (h : loadFiles w o files = .ok r) :
    loaderName files o.env (cliName w o) = .ok r.name ∧ r.name ≠ [] ∧
    r.env = (cpn, r.name) :: o.env ∧
    interpAll r.env (allNames files) = .ok () ∧
    Template.subst r.env.get w.probe = .ok r.probe := by
  unfold loadFiles at h
  split at h
  · cases h
  · rename_i name hname
    simp only at h
    split at h
    · cases h
    · rename_i u hint
      split at h
      · cases h
      · cases h
      · rename_i p hp
        split at h
        · cases h
        · rename_i hne
          cases h
          exact ⟨hname, hne, rfl, by cases u; exact hint, hp⟩

theorem load_ok_intro {files : List (List (Option Str))} (w : World) (o : PO) (n p : Str)
    (h1 : loaderName files o.env (cliName w o) = .ok n) (h2 : n ≠ [])
    (h3 : interpAll ((cpn, n) :: o.env) (allNames files) = .ok ())
    (h4 : Template.subst (Env.get ((cpn, n) :: o.env)) w.probe = .ok p) :
    loadFiles w o files = .ok { name := n, env := (cpn, n) :: o.env, probe := p } := by
  unfold loadFiles
  simp only [h1, h3, h4, h2, if_false]



def tmpl : Str := "${COMPOSE_PROJECT_NAME}".toList

theorem md : Template.matchDollar tmpl = some (.braced cpn, tmpl, []) := by decide
theorem so : Template.selectOp tmpl = .colonQ := by decide
theorem fc : Template.firstClose tmpl = some 22 := by decide
theorem tk : tmpl.take 23 = tmpl := by decide
theorem cs : containsStr Template.Op.colonQ.str cpn = false := by decide

theorem repl_cpn (env : Template.Env) (f : Nat) :
    Template.repl (f + 1) env tmpl = .ok ((env cpn).getD []) := by
  rw [Template.repl]
  simp only [so, fc, tk, md, cs]
  rfl

theorem scan_cpn (env : Template.Env) (f : Nat) :
    Template.scan (f + 2) env tmpl [] none = .ok ((env cpn).getD []) := by
  have hd : tmpl = '$' :: tmpl.tail := by decide
  have md' : Template.matchDollar ('$' :: tmpl.tail) = some (.braced cpn, tmpl, []) := by rw [← hd]; exact md
  rw [hd]
  simp only [Template.scan, beq_self_eq_true, if_true, md', repl_cpn, List.nil_append]

theorem subst_cpn (env : Template.Env) :
    Template.subst env tmpl = .ok ((env cpn).getD []) := by
  have : Template.fuelFor tmpl = 48 + 2 := by decide
  rw [Template.subst, this]
  exact scan_cpn env 48


theorem get_append (a b : Env) (k : Str) :
    (a ++ b).get k = match a.get k with | some v => some v | none => b.get k := by
  induction a with
  | nil => rfl
  | cons p a ih =>
    obtain ⟨k', v⟩ := p
    simp only [Env.get, List.cons_append, List.lookup_cons] at *
    cases h : (k == k') <;> simp [ih]

theorem get_cons_self (e : Env) (k v : Str) : Env.get ((k, v) :: e) k = some v := by
  simp [Env.get, List.lookup_cons]

def overOf : Opt → Env
  | .withEnv l => asEqualsMap l
  | _ => []

/-- what one option call adds *below* the current environment -/
def underStep (w : World) (o : PO) : Opt → Env
  | .withOsEnv => asEqualsMap w.os
  | .withDotEnv => match getEnvFromFile w o.env o.envFiles [] with
    | .ok m => m
    | .error _ => []
  | _ => []

/-- everything a sequence of option calls adds below the initial environment, in call order -/
def underOf (w : World) : List Opt → PO → Env
  | [], _ => []
  | x :: xs, o =>
    match applyOpt w o x with
    | .ok o' => underStep w o x ++ underOf w xs o'
    | .error _ => []

theorem withConfigFileEnv_frame (w : World) (o o' : PO) (h : withConfigFileEnv w o = .ok o') :
    o'.env = o.env ∧ o'.name = o.name ∧ o'.envFiles = o.envFiles ∧ o'.workDir = o.workDir := by
  unfold withConfigFileEnv at h
  split at h
  · cases h; exact ⟨rfl, rfl, rfl, rfl⟩
  · simp only at h
    split at h
    · cases h; exact ⟨rfl, rfl, rfl, rfl⟩
    · split at h
      · cases h; exact ⟨rfl, rfl, rfl, rfl⟩
      · cases h

theorem withDefaultConfigPath_frame (w : World) (o : PO) :
    (withDefaultConfigPath w o).env = o.env ∧ (withDefaultConfigPath w o).name = o.name ∧
    (withDefaultConfigPath w o).envFiles = o.envFiles ∧ (withDefaultConfigPath w o).workDir = o.workDir := by
  unfold withDefaultConfigPath
  split <;> exact ⟨rfl, rfl, rfl, rfl⟩

theorem withEnvFiles_env (w : World) (o o' : PO) (fs : List Str) (h : withEnvFiles w o fs = .ok o') :
    o'.env = o.env := by
  unfold withEnvFiles at h
  have hd : (defaultEnvFile w o).env = o.env := by
    unfold defaultEnvFile; split <;> rfl
  split at h
  · cases h; rfl
  · split at h
    · split at h
      · cases h
      · cases h; rfl
      · cases h; exact hd
    · cases h; exact hd

theorem applyOpt_env (w : World) (o o' : PO) (x : Opt) (h : applyOpt w o x = .ok o') :
    o'.env = overOf x ++ o.env ++ underStep w o x := by
  cases x with
  | withName n =>
    simp only [applyOpt] at h
    split at h
    · cases h; simp [overOf, underStep]
    · cases h
  | withEnv l => simp only [applyOpt] at h; cases h; simp [overOf, underStep]
  | withOsEnv => simp only [applyOpt] at h; cases h; simp [overOf, underStep]
  | withEnvFiles fs =>
    simp only [applyOpt] at h
    simp [overOf, underStep, withEnvFiles_env w o o' fs h]
  | withDotEnv =>
    simp only [applyOpt] at h
    split at h
    · rename_i m hm
      cases h
      simp [overOf, underStep, hm]
    · cases h
  | withWorkDir b =>
    simp only [applyOpt] at h
    cases h
    cases b <;> simp [overOf, underStep]
  | withConfigFileEnv =>
    simp only [applyOpt] at h
    simp [overOf, underStep, (withConfigFileEnv_frame w o o' h).1]
  | withDefaultConfigPath =>
    simp only [applyOpt] at h
    cases h
    simp [overOf, underStep, (withDefaultConfigPath_frame w o).1]

theorem explicitLayer_cons (x : Opt) (xs : List Opt) :
    explicitLayer (x :: xs) = explicitLayer xs ++ overOf x := by
  cases x <;> simp [explicitLayer, overOf]



theorem lookupLayers_three (a b c : Env) (k : Str) :
    lookupLayers [a, b, c] k = (a ++ b ++ c).get k := by
  simp only [lookupLayers, get_append]
  cases a.get k <;> cases b.get k <;> cases c.get k <;> rfl



/-- the OS layer of a prefix of options: present iff `WithOsEnv` is called -/
def osLayer (w : World) (pre : List Opt) : Env :=
  if pre.contains .withOsEnv then asEqualsMap w.os else []

theorem underOf_noDot (w : World) (pre : List Opt) (o o1 : PO)
    (hpre : ∀ x ∈ pre, x ≠ .withDotEnv) (h : runOpts w pre o = .ok o1) (k : Str) :
    (underOf w pre o).get k = (osLayer w pre).get k := by
  induction pre generalizing o with
  | nil => rfl
  | cons x xs ih =>
    simp only [runOpts] at h
    split at h
    · rename_i o2 h2
      have ih' := ih o2 (fun y hy => hpre y (List.mem_cons_of_mem _ hy)) h
      simp only [underOf, h2, get_append, ih']
      cases x with
      | withOsEnv =>
        simp only [underStep, osLayer, List.contains_cons, BEq.rfl, Bool.true_or, if_true]
        cases hos : (asEqualsMap w.os).get k with
        | some v => rfl
        | none =>
          simp only
          split
          · exact hos
          · rfl
      | withDotEnv => exact absurd rfl (hpre _ List.mem_cons_self)
      | withName n => simp [underStep, osLayer, Env.get, List.contains_cons]
      | withEnv l => simp [underStep, osLayer, Env.get, List.contains_cons]
      | withEnvFiles l => simp [underStep, osLayer, Env.get, List.contains_cons]
      | withWorkDir b => simp [underStep, osLayer, Env.get, List.contains_cons]
      | withConfigFileEnv => simp [underStep, osLayer, Env.get, List.contains_cons]
      | withDefaultConfigPath => simp [underStep, osLayer, Env.get, List.contains_cons]
    · cases h

theorem runOpts_append (w : World) (a b : List Opt) (o : PO) :
    runOpts w (a ++ b) o = match runOpts w a o with
      | .ok o1 => runOpts w b o1
      | .error e => .error e := by
  induction a generalizing o with
  | nil => rfl
  | cons x xs ih =>
    simp only [List.cons_append, runOpts]
    cases applyOpt w o x with
    | ok o1 => exact ih o1
    | error e => rfl

theorem explicitLayer_append_dot (pre : List Opt) :
    explicitLayer (pre ++ [.withDotEnv]) = explicitLayer pre := by
  simp [explicitLayer]


theorem lookupLayers_two (a b : Env) (k : Str) :
    lookupLayers [a, b] k = (a ++ b).get k := by
  simp only [lookupLayers, get_append]
  cases a.get k <;> cases b.get k <;> rfl



theorem decide_name_valid (s : Sources) (n : Str) (h : Spec.decide s = .name n) : validName n = true := by
  unfold Spec.decide at h
  split at h
  · split at h
    · rename_i hv; cases h; exact hv
    · cases h
  · split at h
    · split at h
      · rename_i hv; cases h; exact hv
      · cases h
    · split at h
      · cases h
      · rename_i t _
        split at h
        · rename_i hne
          cases h
          rcases norm_valid t with h0 | h0
          · exact absurd h0 hne
          · exact h0
        · split at h
          · rename_i hne
            cases h
            rcases norm_valid s.dirBase with h0 | h0
            · exact absurd h0 hne
            · exact h0
          · cases h

theorem load_inv (w : World) (o : PO) (r : Loaded) (h : load w o = .ok r) :
    ∃ files, o.configs ≠ [] ∧ readConfigs w o.configs = .ok files ∧ loadFiles w o files = .ok r := by
  unfold load at h
  split at h
  · cases h
  · rename_i c cs hc
    split at h
    · cases h
    · rename_i files hf
      refine ⟨files, ?_, ?_, h⟩
      · rw [hc]; exact List.cons_ne_nil _ _
      · exact hf

theorem run_ok_inv (w : World) (opts : List Opt) (r : Loaded) (h : run w opts = .ok r) :
    ∃ o files, runOpts w opts { configs := w.given } = .ok o ∧ o.configs ≠ [] ∧
      readConfigs w o.configs = .ok files ∧ loadFiles w o files = .ok r := by
  unfold run at h
  split at h
  · rename_i o ho
    obtain ⟨files, h1, h2, h3⟩ := load_inv w o r h
    exact ⟨o, files, ho, h1, h2, h3⟩
  · cases h

theorem runOpts_mem_error (w : World) (opts : List Opt) (o : PO) (x : Opt) (hx : x ∈ opts)
    (hbad : ∀ o, ∃ e, applyOpt w o x = .error e) : ∃ e, runOpts w opts o = .error e := by
  induction opts generalizing o with
  | nil => cases hx
  | cons y ys ih =>
    simp only [runOpts]
    cases hy : applyOpt w o y with
    | error e => exact ⟨e, rfl⟩
    | ok o1 =>
      rcases List.mem_cons.mp hx with e | e
      · subst e
        obtain ⟨e, he⟩ := hbad o
        rw [he] at hy; cases hy
      · exact ih o1 e

/-- the explicitly requested name: the argument of the last `WithName` (`[]` = none, or reset by `WithName("")`) -/
def requestedName (opts : List Opt) (init : Str) : Str :=
  lastOr init (opts.filterMap fun | .withName n => some n | _ => none)

theorem withEnvFiles_name (w : World) (o o' : PO) (fs : List Str) (h : withEnvFiles w o fs = .ok o') :
    o'.name = o.name := by
  unfold withEnvFiles at h
  have hd : (defaultEnvFile w o).name = o.name := by
    unfold defaultEnvFile; split <;> rfl
  split at h
  · cases h; rfl
  · split at h
    · split at h
      · cases h
      · cases h; rfl
      · cases h; exact hd
    · cases h; exact hd

theorem runOpts_name (w : World) (opts : List Opt) (o o' : PO) (h : runOpts w opts o = .ok o') :
    o'.name = requestedName opts o.name := by
  induction opts generalizing o with
  | nil => simp only [runOpts] at h; cases h; rfl
  | cons x xs ih =>
    simp only [runOpts] at h
    split at h
    · rename_i o1 h1
      rw [ih o1 h]
      cases x with
      | withName n =>
        simp only [applyOpt] at h1
        split at h1
        · cases h1; simp [requestedName, lastOr]
        · cases h1
      | withEnv l => simp only [applyOpt] at h1; cases h1; simp [requestedName]
      | withOsEnv => simp only [applyOpt] at h1; cases h1; simp [requestedName]
      | withEnvFiles fs =>
        simp only [applyOpt] at h1
        simp [requestedName, withEnvFiles_name w o o1 fs h1]
      | withDotEnv =>
        simp only [applyOpt] at h1
        split at h1
        · cases h1; simp [requestedName]
        · cases h1
      | withWorkDir b =>
        simp only [applyOpt] at h1
        cases h1
        cases b <;> simp [requestedName]
      | withConfigFileEnv =>
        simp only [applyOpt] at h1
        simp [requestedName, (withConfigFileEnv_frame w o o1 h1).2.1]
      | withDefaultConfigPath =>
        simp only [applyOpt] at h1
        cases h1
        simp [requestedName, (withDefaultConfigPath_frame w o).2.1]
    · cases h

end CV.Name
