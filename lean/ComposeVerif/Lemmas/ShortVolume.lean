import ComposeVerif.Lemmas.ShortStr
import ComposeVerif.Spec.Short
/-! Lemmas for the volume short syntax: the scanning loop of `format.ParseVolume` on rendered ASTs (C03). -/
namespace CV.Short
open CV.Short.Spec

theorem NUL_ne_colon : NUL ≠ ':' := by decide
theorem isLetter_colon : isLetter ':' = false := by decide
theorem isLetter_NUL : isLetter NUL = false := by decide

theorem isWindowsDrive_of_ne (buf : Str) (ch : Char) (h : ch ≠ ':') : isWindowsDrive buf ch = false := by
  simp [isWindowsDrive, h]

/-- characters that are neither ':' nor NUL are appended to the buffer -/
theorem scan_plain (s rest buf : Str) (v : Vol) (h : ∀ x ∈ s, x ≠ ':' ∧ x ≠ NUL) :
    scan (s ++ rest) buf v = scan rest (buf ++ s) v := by
  induction s generalizing buf with
  | nil => simp
  | cons x xs ih =>
    have hx := h x (by simp)
    have := ih (buf ++ [x]) (fun y hy => h y (by simp [hy]))
    simp only [List.cons_append, scan, isWindowsDrive_of_ne buf x hx.1]
    simp [hx.1, hx.2, this]

theorem clean_iff (s : Str) : clean s = true ↔ ∀ x ∈ s, x ≠ ':' ∧ x ≠ NUL := by
  simp only [clean, Bool.and_eq_true, Bool.not_eq_true', contains_false_iff]
  constructor
  · rintro ⟨h1, h2⟩ x hx; exact ⟨h1 x hx, h2 x hx⟩
  · intro h; exact ⟨fun x hx => (h x hx).1, fun x hx => (h x hx).2⟩

theorem Seg.render_ne_nil (g : Seg) (h : g.wf = true) : g.render ≠ [] := by
  cases g with
  | plain s => simp [Seg.wf] at h; simpa [Seg.render] using h.1.1
  | drive l r => simp [Seg.render]

/-- one section: a well-formed segment followed by a separator reaches `populateFieldFromBuffer` with exactly its text -/
theorem scan_seg (g : Seg) (hg : g.wf = true) (c : Char) (hc : c = ':' ∨ c = NUL) (rest : Str) (v : Vol)
    (hv : v.source = [] ∨ v.target = []) :
    scan (g.render ++ c :: rest) [] v =
      match populate (c = NUL) g.render v with
      | none => none
      | some v' => scan rest [] v' := by
  have hsep : (c = ':' || c = NUL) = true := by rcases hc with h | h <;> simp [h]
  cases g with
  | plain s =>
    simp only [Seg.wf, Bool.and_eq_true, Bool.not_eq_true', decide_eq_true_eq] at hg
    obtain ⟨⟨hne, hcl⟩, hnl⟩ := hg
    have hcl' := (clean_iff s).1 hcl
    have hnd : isWindowsDrive s c = false := by
      rcases hc with h | h
      · subst h
        simp only [isWindowsDrive, decide_true, Bool.true_and]
        cases s with
        | nil => rfl
        | cons a t => cases t with
          | nil => simpa using hnl
          | cons _ _ => rfl
      · exact isWindowsDrive_of_ne _ _ (by rw [h]; exact NUL_ne_colon)
    rw [Seg.render, scan_plain s _ [] v hcl']
    simp only [List.nil_append, scan, hnd, Bool.false_and]
    rw [if_neg (by simp), if_pos hsep]
    cases populate (decide (c = NUL)) _ v <;> rfl
  | drive l r =>
    simp only [Seg.wf, Bool.and_eq_true] at hg
    obtain ⟨hl, hcl⟩ := hg
    have hcl' := (clean_iff r).1 hcl
    have hl1 : l ≠ ':' := by intro h; rw [h, isLetter_colon] at hl; cases hl
    have hl2 : l ≠ NUL := by intro h; rw [h, isLetter_NUL] at hl; cases hl
    have hnd : isWindowsDrive (l :: ':' :: r) c = false := by simp [isWindowsDrive]
    simp only [Seg.render, List.cons_append, scan, isWindowsDrive_of_ne [] l hl1]
    simp only [hl1, hl2, decide_false, Bool.or_self, Bool.false_eq_true, if_false, List.nil_append]
    have hd : (isWindowsDrive [l] ':' && (decide (v.source = []) || decide (v.target = []))) = true := by
      rcases hv with h | h <;> simp [isWindowsDrive, hl, h]
    simp only [hd, if_true]
    rw [scan_plain r _ _ v hcl']
    simp only [List.cons_append, List.nil_append, scan, hnd, Bool.false_and]
    rw [if_neg (by simp), if_pos hsep]
    cases populate (decide (c = NUL)) _ v <;> rfl

theorem scan_seg_colon (g : Seg) (hg : g.wf = true) (rest : Str) (v : Vol) (hv : v.source = [] ∨ v.target = []) :
    scan (g.render ++ ':' :: rest) [] v =
      match populate false g.render v with
      | none => none
      | some v' => scan rest [] v' := by
  have := scan_seg g hg ':' (Or.inl rfl) rest v hv
  rw [this]
  simp only [show (decide ((':' : Char) = NUL)) = false from by decide]
  try (cases populate false g.render v <;> rfl)

theorem scan_seg_end (g : Seg) (hg : g.wf = true) (v : Vol) (hv : v.source = [] ∨ v.target = []) :
    scan (g.render ++ [NUL]) [] v = populate true g.render v := by
  have := scan_seg g hg NUL (Or.inr rfl) [] v hv
  rw [this]
  simp only [decide_true]
  try (cases populate true g.render v <;> rfl)

theorem populate_source (g : Seg) (hg : g.wf = true) :
    populate false g.render {} = some { source := g.render } := by
  have := Seg.render_ne_nil g hg
  simp [populate, this]

theorem populate_target (isEnd : Bool) (s : Str) (hs : s ≠ []) (g : Seg) (hg : g.wf = true) :
    populate isEnd g.render { source := s } = some { source := s, target := g.render } := by
  have := Seg.render_ne_nil g hg
  simp [populate, this, hs]

theorem populate_target_only (g : Seg) (hg : g.wf = true) :
    populate true g.render {} = some { target := g.render } := by
  have := Seg.render_ne_nil g hg
  simp [populate, this]

/-! ### flags -/

theorem applyOption_render (v : Vol) (f : Flag) (hf : f.wf = true) : applyOption v f.render = applyFlag v f := by
  cases f with
  | ro => simp [Flag.render, applyOption, applyFlag]
  | rw => simp [Flag.render, applyOption, applyFlag]
  | nocopy => simp [Flag.render, applyOption, applyFlag]
  | z => simp [Flag.render, applyOption, applyFlag, propagations]
  | Z => simp [Flag.render, applyOption, applyFlag, propagations]
  | prop i =>
    match i with
    | ⟨0, _⟩ => simp [Flag.render, applyOption, applyFlag, propagations, propName]
    | ⟨1, _⟩ => simp [Flag.render, applyOption, applyFlag, propagations, propName]
    | ⟨2, _⟩ => simp [Flag.render, applyOption, applyFlag, propagations, propName]
    | ⟨3, _⟩ => simp [Flag.render, applyOption, applyFlag, propagations, propName]
    | ⟨4, _⟩ => simp [Flag.render, applyOption, applyFlag, propagations, propName]
    | ⟨5, _⟩ => simp [Flag.render, applyOption, applyFlag, propagations, propName]
  | other s =>
    simp only [Flag.wf, Bool.and_eq_true, Bool.not_eq_true', knownFlags, propagations] at hf
    obtain ⟨_, hk⟩ := hf
    simp only [List.cons_append, List.nil_append, List.contains_cons, List.contains_nil, Bool.or_false, Bool.or_eq_false_iff,
      beq_eq_false_iff_ne, ne_eq] at hk
    obtain ⟨h1, h2, h3, h4, h5, h6, h7, h8, h9, h10, h11⟩ := hk
    simp [Flag.render, applyOption, applyFlag, propagations, h1, h2, h3, h4, h5, h6, h7, h8, h9, h10, h11]

theorem propName_clean : ∀ i : Fin 6, ∀ x ∈ propName i, x ≠ ',' ∧ x ≠ ':' ∧ x ≠ NUL := by decide

/-- no flag text contains ',' ':' or NUL -/
theorem Flag.render_clean (f : Flag) (hf : f.wf = true) : ∀ x ∈ f.render, x ≠ ',' ∧ x ≠ ':' ∧ x ≠ NUL := by
  cases f with
  | other s =>
    simp only [Flag.wf, Bool.and_eq_true, Bool.not_eq_true'] at hf
    obtain ⟨⟨hc, hcomma⟩, _⟩ := hf
    have h1 := (clean_iff s).1 hc
    have h2 := (contains_false_iff s ',').1 hcomma
    intro x hx
    exact ⟨h2 x hx, (h1 x hx).1, (h1 x hx).2⟩
  | prop i => exact propName_clean i
  | ro => decide
  | rw => decide
  | nocopy => decide
  | z => decide
  | Z => decide

theorem splitOn_renderFlags (fl : List Flag) (hne : fl ≠ []) (hwf : ∀ f ∈ fl, f.wf = true) :
    splitOn ',' (renderFlags fl) = fl.map Flag.render := by
  induction fl with
  | nil => exact absurd rfl hne
  | cons f r ih =>
    have hf := hwf f (by simp)
    have hclean : ∀ x ∈ f.render, x ≠ ',' := fun x hx => (Flag.render_clean f hf x hx).1
    cases r with
    | nil => simp [renderFlags, splitOn_clean _ _ hclean]
    | cons g r' =>
      have := ih (by simp) (fun f' hf' => hwf f' (by simp [hf']))
      simp only [renderFlags, splitOn_append _ _ _ hclean, this, List.map_cons]

theorem renderFlags_clean (fl : List Flag) (hwf : ∀ f ∈ fl, f.wf = true) : ∀ x ∈ renderFlags fl, x ≠ ':' ∧ x ≠ NUL := by
  induction fl with
  | nil => simp [renderFlags]
  | cons f r ih =>
    have hf := hwf f (by simp)
    cases r with
    | nil =>
      intro x hx
      simp only [renderFlags] at hx
      exact (Flag.render_clean f hf x hx).2
    | cons g r' =>
      have := ih (fun f' hf' => hwf f' (by simp [hf']))
      intro x hx
      simp only [renderFlags, List.mem_append, List.mem_cons] at hx
      rcases hx with hx | hx | hx
      · exact (Flag.render_clean f hf x hx).2
      · subst hx; decide
      · exact this x hx

theorem foldl_applyOption (fl : List Flag) (hwf : ∀ f ∈ fl, f.wf = true) (v : Vol) :
    (fl.map Flag.render).foldl applyOption v = fl.foldl applyFlag v := by
  induction fl generalizing v with
  | nil => rfl
  | cons f r ih =>
    simp only [List.map_cons, List.foldl_cons, applyOption_render v f (hwf f (by simp))]
    exact ih (fun f' hf' => hwf f' (by simp [hf'])) _

theorem applyFlag_source (v : Vol) (f : Flag) : (applyFlag v f).source = v.source ∧ (applyFlag v f).target = v.target ∧ (applyFlag v f).type = v.type := by
  cases f <;> simp [applyFlag]

theorem foldl_applyFlag_source (fl : List Flag) (v : Vol) :
    (fl.foldl applyFlag v).source = v.source ∧ (fl.foldl applyFlag v).target = v.target := by
  induction fl generalizing v with
  | nil => simp
  | cons f r ih =>
    simp only [List.foldl_cons]
    have := applyFlag_source v f
    rw [(ih _).1, (ih _).2, this.1, this.2.1]
    simp

/-! ### `isFilePath` on rendered sources -/

theorem isFilePath_render (g : Seg) (hg : g.wf = true) : isFilePath g.render = isPath (some g) := by
  cases g with
  | plain s =>
    simp only [Seg.wf, Bool.and_eq_true, Bool.not_eq_true', decide_eq_true_eq] at hg
    obtain ⟨⟨_, hcl⟩, _⟩ := hg
    have hcl' := (clean_iff s).1 hcl
    cases s with
    | nil => rfl
    | cons c r =>
      simp only [Seg.render, isFilePath, isPath]
      by_cases h1 : (c = '.' ∨ c = '/' ∨ c = '~')
      · rcases h1 with h | h | h <;> simp [h]
      · have h1' : ¬ (c = '.') ∧ ¬ (c = '/') ∧ ¬ (c = '~') := by
          refine ⟨fun h => h1 (Or.inl h), fun h => h1 (Or.inr (Or.inl h)), fun h => h1 (Or.inr (Or.inr h))⟩
        simp only [h1'.1, h1'.2.1, h1'.2.2, decide_false, Bool.or_self, Bool.false_eq_true, if_false, Bool.false_or]
        by_cases h2 : (c = '\\' && r.head? = some '\\') = true
        · simp [h2]
        · simp only [h2, if_false]
          cases r with
          | nil => simp
          | cons d t =>
            have : d ≠ ':' := (hcl' d (by simp)).1
            simp [this]
  | drive l r =>
    simp only [Seg.wf, Bool.and_eq_true] at hg
    simp only [Seg.render, isFilePath, isPath]
    split
    · rfl
    · split
      · rfl
      · simp [hg.1]

/-! ### byte length -/

theorem byteLen_ge_length (s : Str) : s.length ≤ byteLen s := by
  induction s with
  | nil => simp [byteLen]
  | cons c r ih =>
    have : 1 ≤ c.utf8Size := Char.utf8Size_pos c
    simp only [byteLen, List.map_cons, List.sum_cons, List.length_cons] at *
    omega

theorem byteLen_append (a b : Str) : byteLen (a ++ b) = byteLen a + byteLen b := by
  simp [byteLen, List.sum_append]

theorem scan_empty_section (c : Char) (hc : c = ':' ∨ c = NUL) (rest : Str) (v : Vol) : scan (c :: rest) [] v = none := by
  rcases hc with h | h <;> subst h <;> simp [scan, isWindowsDrive, populate, NUL]


end CV.Short
