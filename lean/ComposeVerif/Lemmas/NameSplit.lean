import ComposeVerif.Model.Name
/-! Helper lemmas for C17: `strings.Index` / `strings.Split` (`indexOf`, `splitOn`) and `strings.Cut(s, "=")` /
`utils.GetAsEqualsMap` (`splitEq`, `asEqualsMap`).  The property-level statements are re-exported in `Props/C17.lean`. -/
namespace CV.Name.SplitLemmas
open CV CV.Name

/-! ### `strings.Index` / `strings.Split` -/

theorem indexOfGo_spec (pat : Str) : ∀ (s : Str) (i j : Nat), indexOfGo pat s i = some j →
    ∃ k, j = i + k ∧ k + pat.length ≤ s.length ∧ s = s.take k ++ pat ++ s.drop (k + pat.length)
  | [], i, j, h => by
    unfold indexOfGo at h
    split at h
    · rename_i he
      cases h
      have : pat = [] := by simpa using he
      subst this
      exact ⟨0, rfl, by simp, by simp⟩
    · cases h
  | c :: cs, i, j, h => by
    unfold indexOfGo at h
    split at h
    · rename_i hp
      cases h
      refine ⟨0, rfl, ?_, ?_⟩
      · have := (List.isPrefixOf_iff_prefix.mp hp).length_le; simpa using this
      · have hpre := List.isPrefixOf_iff_prefix.mp hp
        simpa using (List.prefix_iff_eq_append.mp hpre).symm
    · obtain ⟨k, hk, hlen, heq⟩ := indexOfGo_spec pat cs (i + 1) j h
      refine ⟨k + 1, by omega, by simp; omega, ?_⟩
      simp only [List.take_succ_cons, List.cons_append, List.cons.injEq, true_and]
      have : k + 1 + pat.length = (k + pat.length) + 1 := by omega
      rw [this, List.drop_succ_cons]
      exact heq

theorem indexOf_some_spec (pat s : Str) (i : Nat) (h : indexOf pat s = some i) :
    i + pat.length ≤ s.length ∧ s = s.take i ++ pat ++ s.drop (i + pat.length) := by
  obtain ⟨k, hk, hl, he⟩ := indexOfGo_spec pat s 0 i h
  have : i = k := by omega
  subst this
  exact ⟨hl, he⟩

/-- join with a separator string -/
def joinSep (sep : Str) : List Str → Str
  | [] => []
  | [p] => p
  | p :: ps => p ++ sep ++ joinSep sep ps

theorem splitOnFuel_ne_nil (sep : Str) (n : Nat) (s : Str) : splitOnFuel sep n s ≠ [] := by
  cases n with
  | zero => simp [splitOnFuel]
  | succ n => unfold splitOnFuel; split <;> simp

theorem joinSep_cons (sep p : Str) (ps : List Str) (h : ps ≠ []) : joinSep sep (p :: ps) = p ++ sep ++ joinSep sep ps := by
  cases ps with
  | nil => exact absurd rfl h
  | cons q qs => rfl

/-- `strings.Split` loses nothing: joining the pieces with the separator gives the string back — for ANY separator
    (multi-character included) and any string (empty entries included) -/
theorem splitOnFuel_join_inv (sep : Str) (n : Nat) (s : Str) : joinSep sep (splitOnFuel sep n s) = s := by
  induction n generalizing s with
  | zero => rfl
  | succ n ih =>
    unfold splitOnFuel
    cases hi : indexOf sep s with
    | none => rfl
    | some i =>
      simp only
      rw [joinSep_cons _ _ _ (splitOnFuel_ne_nil _ _ _), ih]
      exact (indexOf_some_spec sep s i hi).2.symm

/-- the fuel `len(s)` is enough: more changes nothing (separator non-empty) -/
theorem splitOnFuel_stable (sep : Str) (hsep : sep ≠ []) (n : Nat) (s : Str) (h : s.length ≤ n) :
    splitOnFuel sep (n + 1) s = splitOnFuel sep n s := by
  induction n generalizing s with
  | zero =>
    have : s = [] := by cases s <;> simp_all
    subst this
    have hn : indexOf sep [] = none := by
      cases sep with
      | nil => exact absurd rfl hsep
      | cons c cs => simp [indexOf, indexOfGo]
    simp [splitOnFuel, hn]
  | succ n ih =>
    rw [splitOnFuel]
    conv => rhs; rw [splitOnFuel]
    cases hi : indexOf sep s with
    | none => rfl
    | some i =>
      simp only
      have hl := (indexOf_some_spec sep s i hi).1
      have hpos : 0 < sep.length := by cases sep with | nil => exact absurd rfl hsep | cons c cs => simp
      rw [ih]
      simp only [List.length_drop]
      omega

theorem splitOnFuel_ge (sep : Str) (hsep : sep ≠ []) (s : Str) (k : Nat) :
    splitOnFuel sep (s.length + k) s = splitOnFuel sep s.length s := by
  induction k with
  | zero => rfl
  | succ k ih => rw [← Nat.add_assoc, splitOnFuel_stable sep hsep _ s (by omega), ih]

/-- leftmost-first, non-overlapping: the first piece ends at the FIRST occurrence of the separator and the
    rest of the string is split the same way -/
theorem splitOn_first (sep : Str) (hsep : sep ≠ []) (s : Str) (i : Nat) (h : indexOf sep s = some i) :
    splitOn sep s = s.take i :: splitOn sep (s.drop (i + sep.length)) := by
  have hl := (indexOf_some_spec sep s i h).1
  have hpos : 0 < sep.length := by cases sep with | nil => exact absurd rfl hsep | cons c cs => simp
  unfold splitOn
  cases hs : s.length with
  | zero => omega
  | succ n =>
    rw [splitOnFuel, h]
    simp only [List.cons.injEq, true_and]
    have hd : (s.drop (i + sep.length)).length ≤ n := by simp only [List.length_drop]; omega
    obtain ⟨k, hk⟩ := Nat.exists_eq_add_of_le hd
    rw [hk, splitOnFuel_ge sep hsep]

theorem splitOn_no_sep (sep s : Str) (h : indexOf sep s = none) : splitOn sep s = [s] := by
  unfold splitOn
  cases s.length with
  | zero => rfl
  | succ n => simp [splitOnFuel, h]

theorem splitOn_join_inv (sep s : Str) : joinSep sep (splitOn sep s) = s := splitOnFuel_join_inv sep _ s


/-! ### `strings.Cut(s, "=")` / `utils.GetAsEqualsMap` -/

theorem splitEq_none_iff (s : Str) : splitEq s = none ↔ '=' ∉ s := by
  induction s with
  | nil => simp [splitEq]
  | cons c cs ih =>
    by_cases h : c = '='
    · subst h; simp [splitEq]
    · have h' : ¬ '=' = c := fun e => h e.symm
      simp only [splitEq, h, if_false, List.mem_cons, h', false_or]
      cases hs : splitEq cs with
      | none => simpa [hs] using ih
      | some p =>
        simp only [hs] at ih ⊢
        constructor
        · intro h; cases h
        · intro hn; exact absurd (ih.mpr hn) (by simp)

/-- the cut is at the FIRST `=`: the key has none, the value is everything after it (further `=` included) -/
theorem splitEq_some_iff (s k v : Str) : splitEq s = some (k, v) ↔ s = k ++ '=' :: v ∧ '=' ∉ k := by
  induction s generalizing k with
  | nil => simp [splitEq]
  | cons c cs ih =>
    by_cases h : c = '='
    · subst h
      simp only [splitEq, if_true, Option.some.injEq, Prod.mk.injEq]
      constructor
      · rintro ⟨rfl, rfl⟩; simp
      · rintro ⟨he, hk⟩
        cases k with
        | nil => simpa using he
        | cons d ds =>
          simp only [List.cons_append, List.cons.injEq] at he
          exact absurd (he.1 ▸ List.mem_cons_self) hk
    · simp only [splitEq, h, if_false]
      constructor
      · intro hs
        cases hc : splitEq cs with
        | none => simp [hc] at hs
        | some p =>
          simp only [hc, Option.some.injEq, Prod.mk.injEq] at hs
          obtain ⟨rfl, rfl⟩ := hs
          have := (ih p.1).mp (by rw [hc])
          refine ⟨by rw [List.cons_append, ← this.1], ?_⟩
          simp only [List.mem_cons, not_or]
          exact ⟨fun e => h e.symm, this.2⟩
      · rintro ⟨he, hk⟩
        cases k with
        | nil => simp only [List.nil_append, List.cons.injEq] at he; exact absurd he.1 h
        | cons d ds =>
          simp only [List.cons_append, List.cons.injEq] at he
          simp only [List.mem_cons, not_or] at hk
          have := (ih ds).mpr ⟨he.2, hk.2⟩
          simp [this, he.1]

def eqStep (e : Env) (s : Str) : Env := match splitEq s with | some kv => kv :: e | none => e

theorem asEqualsMap_snoc (l : List Str) (s : Str) : asEqualsMap (l ++ [s]) = eqStep (asEqualsMap l) s := by
  simp only [asEqualsMap, eqStep, List.foldl_append, List.foldl_cons, List.foldl_nil]
  cases splitEq s <;> rfl

/-- duplicate rule: the LAST entry for a key wins; an entry without `=` changes nothing -/
theorem asEqualsMap_last_wins (l : List Str) (s : Str) (k : Str) :
    (asEqualsMap (l ++ [s])).get k =
      match splitEq s with
      | some (k', v) => if k = k' then some v else (asEqualsMap l).get k
      | none => (asEqualsMap l).get k := by
  rw [asEqualsMap_snoc, eqStep]
  cases hs : splitEq s with
  | none => rfl
  | some p =>
    obtain ⟨k', v⟩ := p
    by_cases h : k = k'
    · subst h; simp [Env.get, List.lookup_cons]
    · have hb : (k == k') = false := by simpa using h
      simp [Env.get, List.lookup_cons, hb, h]

theorem asEqualsMap_entry (l : List Str) (k v : Str) (hk : '=' ∉ k) :
    (asEqualsMap (l ++ [k ++ '=' :: v])).get k = some v := by
  rw [asEqualsMap_last_wins, (splitEq_some_iff _ k v).mpr ⟨rfl, hk⟩]
  simp

theorem asEqualsMap_no_eq_dropped (l : List Str) (s : Str) (hs : '=' ∉ s) :
    asEqualsMap (l ++ [s]) = asEqualsMap l := by
  rw [asEqualsMap_snoc, eqStep, (splitEq_none_iff s).mpr hs]
end CV.Name.SplitLemmas
