import ComposeVerif.Lemmas.SecretsFlow
/-! C20: helper lemmas about the rendered trees, look-ups in the rendered fields, the heap. -/
namespace CV.Secrets
open CV CV.Val

theorem AllStrKV_forall {P : String → Prop} : ∀ {kvs : KVs}, AllStrKV P kvs → ∀ e ∈ kvs, P e.1 ∧ AllStr P e.2
  | [], _ => by simp
  | (k, v) :: r, h => by
    simp only [AllStrKV] at h
    simp only [List.forall_mem_cons]
    exact ⟨⟨h.1, h.2.1⟩, AllStrKV_forall h.2.2⟩

theorem AllStrKV_mapVals {P : String → Prop} {f : FileObj → Val} :
    ∀ {l : List (String × FileObj)}, (∀ e ∈ l, P e.1 ∧ AllStr P (f e.2)) → AllStrKV P (mapVals f l)
  | [], _ => by simp [mapVals, AllStrKV]
  | (n, o) :: r, h => by
    simp only [List.forall_mem_cons] at h
    simp only [mapVals, List.map, AllStrKV]
    exact ⟨h.1.1, h.1.2, AllStrKV_mapVals h.2⟩

theorem AllStrKV_sectionKV {P : String → Prop} {k : String} {m : KVs} (hk : P k) (hm : AllStrKV P m) : AllStrKV P (sectionKV k m) := by
  unfold sectionKV
  split
  · simp [AllStrKV]
  · simp [AllStrKV, AllStr, hk, hm]

theorem lookup_append_left {k : String} {v : Val} : ∀ {a : KVs} (b : KVs), lookup k a = some v → lookup k (a ++ b) = some v
  | [], _, h => by simp [lookup] at h
  | (k', v') :: r, b, h => by
    by_cases hk : k = k'
    · simpa [lookup, hk] using h
    · simp only [lookup, if_neg hk, List.cons_append] at h ⊢
      exact lookup_append_left b h

theorem lookup_append_right {k : String} : ∀ {a : KVs} (b : KVs), lookup k a = none → lookup k (a ++ b) = lookup k b
  | [], _, _ => by simp
  | (k', v') :: r, b, h => by
    by_cases hk : k = k'
    · simp [lookup, hk] at h
    · simp only [lookup, if_neg hk, List.cons_append] at h ⊢
      exact lookup_append_right b h

theorem lookup_optStr_ne {k k' s : String} (h : k ≠ k') : lookup k (optStr k' s) = none := by
  unfold optStr; split <;> simp [lookup, h]

theorem lookup_optStr_self {k s : String} (h : s ≠ "") : lookup k (optStr k s) = some (.str s) := by
  simp [optStr, h, lookup]

theorem lookup_optStr_empty {k k' : String} : lookup k (optStr k' "") = none := by simp [optStr, lookup]

/-- the `environment` and `content` entries among the rendered struct fields -/
theorem fields_environment (o : FileObj) (h : o.environment ≠ "") : lookup "environment" o.fields = some (.str o.environment) := by
  unfold FileObj.fields
  repeat rw [List.append_assoc]
  rw [lookup_append_right _ (lookup_optStr_ne (by decide)), lookup_append_right _ (lookup_optStr_ne (by decide))]
  exact lookup_append_left _ (lookup_optStr_self h)

theorem fields_content (o : FileObj) :
    lookup "content" o.fields = if o.content = "" then none else some (.str o.content) := by
  unfold FileObj.fields
  repeat rw [List.append_assoc]
  rw [lookup_append_right _ (lookup_optStr_ne (by decide)), lookup_append_right _ (lookup_optStr_ne (by decide)),
    lookup_append_right _ (lookup_optStr_ne (by decide))]
  by_cases h : o.content = ""
  · rw [if_pos h, h, lookup_append_right _ lookup_optStr_empty]
    have hb : lookup "content" (optBool "external" o.external) = none := by unfold optBool; split <;> simp [lookup]
    have hm : ∀ k m, k ≠ "content" → lookup "content" (optStrMap k m) = none := by
      intro k m hk; unfold optStrMap; split <;> simp [lookup, Ne.symm hk]
    rw [lookup_append_right _ hb, lookup_append_right _ (hm _ _ (by decide)), lookup_append_right _ (lookup_optStr_ne (by decide)),
      lookup_append_right _ (hm _ _ (by decide))]
    exact lookup_optStr_ne (by decide)
  · rw [if_neg h]
    exact lookup_append_left _ (lookup_optStr_self h)

theorem Heap.get_set_ne (h : Heap) {a b : Nat} (hab : a ≠ b) (m : List (String × FileObj)) : (h.set b m).get a = h.get a := by
  unfold Heap.get Heap.set
  simp only [List.lookup]
  have : (a == b) = false := by simpa using hab
  simp only [this]
  congr 1
  induction h.maps with
  | nil => rfl
  | cons e r ih =>
    by_cases he : e.1 = b
    · have hea : (a == e.1) = false := by simpa [he] using hab
      obtain ⟨e1, e2⟩ := e
      simp only at he hea
      simp [List.filter, he, ih, List.lookup, hea, this]
    · have : (e.1 != b) = true := by simpa using he
      simp only [List.filter, this, List.lookup]
      split <;> simp [ih]


theorem lookup_filter_ext {k : String} (hk : isExtKey k = true) :
    ∀ kvs : KVs, Val.lookup k (kvs.filter fun kv => isExtKey kv.1) = Val.lookup k kvs
  | [] => rfl
  | (k', v) :: r => by
    by_cases hkk : k = k'
    · subst hkk; simp [List.filter, hk, Val.lookup]
    · by_cases he : isExtKey k' = true
      · simp [List.filter, he, Val.lookup, hkk, lookup_filter_ext hk r]
      · simp [List.filter, he, Val.lookup, hkk, lookup_filter_ext hk r]

theorem isExtKey_xValue : isExtKey xValue = true := by decide

theorem lookup_setNameKVs_ne {k pname n : String} (hk : k ≠ "name") (kvs : KVs) :
    Val.lookup k (setNameKVs pname n kvs) = Val.lookup k kvs := by
  unfold setNameKVs
  split
  · exact lookup_insert_ne hk _ _
  · rfl


/-! ### "the canary does not occur" survives `strings.Cut` -/

theorem cutEqL_fst_prefix : ∀ l : List Char, (cutEqL l).1 <+: l
  | [] => by simp [cutEqL]
  | c :: cs => by
    simp only [cutEqL]
    split
    · exact List.nil_prefix
    · exact (List.cons_prefix_cons).2 ⟨rfl, cutEqL_fst_prefix cs⟩

theorem cutEqL_snd_suffix : ∀ l : List Char, (cutEqL l).2 <:+ l
  | [] => by simp [cutEqL]
  | c :: cs => by
    simp only [cutEqL]
    split
    · exact List.suffix_cons _ _
    · exact (cutEqL_snd_suffix cs).trans (List.suffix_cons _ _)

theorem cutClosed_not_occurs (c : List Char) : CutClosed (fun s => ¬ occurs c s) := by
  intro s hs
  simp only [occurs, occursB_iff_infix] at hs ⊢
  constructor
  · intro h
    apply hs
    simp only [cutEq, String.toList_ofList] at h
    exact h.trans (cutEqL_fst_prefix _).isInfix
  · intro h
    apply hs
    simp only [cutEq, String.toList_ofList] at h
    exact h.trans (cutEqL_snd_suffix _).isInfix

end CV.Secrets
