import ComposeVerif.Model.ShortTransform
/-!
# Congruence of `transform.Canonical` (C03, round 5): the result depends on a sub-tree only through its own transform
-/
namespace CV.Short
open CV

theorem transformKVs_congr (ign : Bool) (p : TPath) (k : String) (v v' : Val)
    (h : transform ign (TPath.nextK p k) v = transform ign (TPath.nextK p k) v') (a b : Val.KVs) :
    transformKVs ign p (a ++ (k, v) :: b) = transformKVs ign p (a ++ (k, v') :: b) := by
  induction a with
  | nil => simp only [List.nil_append, transformKVs, h]
  | cons e r ih =>
    obtain ⟨k0, e0⟩ := e
    simp only [List.cons_append, transformKVs, ih]

theorem transform_map_congr (ign : Bool) (p : TPath) (m m' : Val.KVs)
    (hr : recursesOnMap (TPath.firstMatch CV.Gen.transformers p) = true)
    (h : transformKVs ign p m = transformKVs ign p m') :
    transform ign p (.map m) = transform ign p (.map m') := by
  simp only [transform, hr, if_true, h]

theorem root_recurses : recursesOnMap (TPath.firstMatch CV.Gen.transformers TPath.root) = true := by decide
theorem services_path : TPath.nextK TPath.root "services" = ["services"] := by decide
theorem services_recurses : recursesOnMap (TPath.firstMatch CV.Gen.transformers ["services"]) = true := by decide
theorem service_recurses (n : String) : recursesOnMap (TPath.firstMatch CV.Gen.transformers ["services", n]) = true := by
  simp [TPath.firstMatch, CV.Gen.transformers, TPath.pmatch, recursesOnMap]

/-- the path `transform.Canonical` walks to reach attribute `k` of service `n` (`tree.Path.Next` three times from the root) -/
def attrPath (n k : String) : TPath := TPath.nextK (TPath.nextK (TPath.nextK TPath.root "services") n) k

/-- the service name as a path segment (`.` → 👻) -/
def seg (n : String) : String := String.ofList (TPath.replaceDots n.toList)

theorem attrPath_eq (n k : String) : attrPath n k = ["services", seg n, seg k] := by
  have hne : (["services"] : TPath) ≠ TPath.root := by decide
  have hne2 : (["services", seg n] : TPath) ≠ TPath.root := by simp [TPath.root]
  unfold attrPath
  rw [services_path, TPath.nextK_of_ne_root _ _ hne]
  show TPath.nextK ["services", seg n] k = _
  rw [TPath.nextK_of_ne_root _ _ hne2]
  rfl

/-- a handler that does not walk into mappings sees the node as it is, whatever its kind -/
theorem transform_leaf_at (ign : Bool) (p : TPath) (h : String) (v : Val)
    (hp : TPath.firstMatch CV.Gen.transformers p = some h) (hnr : recursesOnMap (some h) = false) :
    transform ign p v = leaf (some h) ign v := by
  cases v <;> simp [transform, hp, hnr]

theorem seg_depends_on : seg "depends_on" = "depends_on" := by decide
theorem seg_networks : seg "networks" = "networks" := by decide
theorem seg_build : seg "build" = "build" := by decide
theorem seg_extends : seg "extends" = "extends" := by decide
theorem seg_ports : seg "ports" = "ports" := by decide
theorem seg_env_file : seg "env_file" = "env_file" := by decide
theorem seg_dns : seg "dns" = "dns" := by decide

theorem transformSeq_congr (ign : Bool) (p : TPath) (v v' : Val)
    (h : transform ign (TPath.nextK p "[]") v = transform ign (TPath.nextK p "[]") v') (pre post : List Val) :
    transformSeq ign p (pre ++ v :: post) = transformSeq ign p (pre ++ v' :: post) := by
  induction pre with
  | nil => simp only [List.nil_append, transformSeq, h]
  | cons e r ih => simp only [List.cons_append, transformSeq, ih]

theorem transform_seq_congr (ign : Bool) (p : TPath) (l l' : List Val)
    (hp : TPath.firstMatch CV.Gen.transformers p = none)
    (h : transformSeq ign p l = transformSeq ign p l') :
    transform ign p (.seq l) = transform ign p (.seq l') := by
  simp only [transform, hp, if_true, h]

theorem volumes_no_handler (n : String) : TPath.firstMatch CV.Gen.transformers ["services", n, "volumes"] = none := by
  simp [TPath.firstMatch, CV.Gen.transformers, TPath.pmatch]

theorem leaf_volume (ign : Bool) (v : Val) : leaf (some "transformVolumeMount") ign v = transformVolumeMount ign v := by
  simp [leaf]

theorem seg_volumes : seg "volumes" = "volumes" := by decide
theorem seg_item : seg "[]" = "[]" := by decide

theorem seg_devices : seg "devices" = "devices" := by decide
theorem seg_secrets : seg "secrets" = "secrets" := by decide
theorem seg_configs : seg "configs" = "configs" := by decide
theorem list_attrs_no_handler (n : String) :
    TPath.firstMatch CV.Gen.transformers ["services", n, "devices"] = none
    ∧ TPath.firstMatch CV.Gen.transformers ["services", n, "secrets"] = none
    ∧ TPath.firstMatch CV.Gen.transformers ["services", n, "configs"] = none := by
  simp [TPath.firstMatch, CV.Gen.transformers, TPath.pmatch]

theorem leaf_device (ign : Bool) (v : Val) : leaf (some "transformDeviceMapping") ign v = transformDeviceMapping ign v := by
  simp [leaf]
theorem leaf_fileMount (ign : Bool) (v : Val) : leaf (some "transformFileMount") ign v = transformFileMount v := by
  simp [leaf]

end CV.Short
