import ComposeVerif.Model.ExtendsMerge
/-!
# The merge step never reports the cycle tracker's class  (round 6)

`circular_sound` needs `NoCircularEnv`: the class `circular` must be the tracker's own.  For the real merge step
(`mergeExtend` = C04's `Merge.extendService`) this is an induction over the merge: every error the model can return is one
of the literals `cannotOverride`, `unexpectedType`, `unknown-merger`, `top-level`, and `bind` only propagates.
-/
namespace CV.Extends
open CV CV.Val CV.Merge

/-- the outcome is not the error class `circular` -/
def NC {α : Type} (r : Merge.Out α) : Prop := r ≠ .err "circular"

theorem NC.ok {α : Type} (a : α) : NC (Merge.Out.ok a) := by intro h; cases h
theorem NC.panic {α : Type} (s : String) : NC (Merge.Out.panic (α := α) s) := by intro h; cases h

theorem NC.bind {α β : Type} {x : Merge.Out α} {f : α → Merge.Out β} (hx : NC x) (hf : ∀ a, NC (f a)) : NC (x.bind f) := by
  cases x with
  | ok a => exact hf a
  | err e => intro h; apply hx; simpa [Merge.Out.bind] using h
  | panic s => intro h; simp [Merge.Out.bind] at h

theorem nc_listIntoMap (d : Val) : ∀ (xs : List Val) (acc : KVs), NC (listIntoMap d xs acc)
  | [], acc => NC.ok _
  | .str s :: r, acc => by simp only [listIntoMap]; exact nc_listIntoMap d r _
  | .null :: _, _ => by simp [listIntoMap, NC]
  | .bool _ :: _, _ => by simp [listIntoMap, NC]
  | .int _ :: _, _ => by simp [listIntoMap, NC]
  | .float _ :: _, _ => by simp [listIntoMap, NC]
  | .seq _ :: _, _ => by simp [listIntoMap, NC]
  | .map _ :: _, _ => by simp [listIntoMap, NC]

theorem nc_intoMap (d v : Val) : NC (intoMap d v) := by
  cases v <;> simp only [intoMap] <;> first | exact NC.ok _ | exact nc_listIntoMap d _ _ | simp [NC]

theorem nc_toBuild (v : Val) : NC (toBuild v) := by
  cases v <;> simp only [toBuild] <;> first | exact NC.ok _ | simp [NC]

theorem nc_poolsOf : ∀ xs : List Val, NC (poolsOf xs)
  | [] => NC.ok _
  | x :: r => by
    simp only [poolsOf]
    exact NC.bind (nc_intoMap _ _) fun m => NC.bind (nc_poolsOf r) fun ms => NC.ok _

theorem nc_ipamPools (v : Val) : NC (ipamPools v) := by
  cases v <;> simp only [ipamPools] <;> first | exact NC.ok _ | exact nc_poolsOf _ | simp [NC]

theorem nc_mergeKVsWith {f : Val → Val → TPath → Merge.Out Val} (hf : ∀ e o p, NC (f e o p)) :
    ∀ (b a : KVs) (p : TPath), NC (mergeKVsWith f a b p)
  | [], a, p => NC.ok _
  | (k, v) :: r, a, p => by
    simp only [mergeKVsWith]
    split
    · exact nc_mergeKVsWith hf r _ p
    · split
      · exact nc_mergeKVsWith hf r _ p
      · exact NC.bind (hf _ _ _) fun m => nc_mergeKVsWith hf r _ p

theorem nc_ipamFold {mk : KVs → KVs → TPath → Merge.Out KVs} (hmk : ∀ a b p, NC (mk a b p)) :
    ∀ (rest cfgs : List KVs) (p : TPath), NC (ipamFold mk cfgs rest p)
  | [], cfgs, p => NC.ok _
  | left :: rest, cfgs, p => by
    simp only [ipamFold]
    split
    · exact nc_ipamFold hmk rest _ p
    · exact NC.bind (hmk _ _ _) fun m => nc_ipamFold hmk rest _ p

theorem nc_convMerge {mk : KVs → KVs → TPath → Merge.Out KVs} (hmk : ∀ a b p, NC (mk a b p))
    {conv : Val → Merge.Out KVs} (hc : ∀ v, NC (conv v)) (e o : Val) (p : TPath) : NC (convMerge mk conv e o p) := by
  simp only [convMerge]
  exact NC.bind (hc _) fun r => NC.bind (hc _) fun l => NC.bind (hmk _ _ _) fun m => NC.ok _

theorem nc_mergeStep {mk : KVs → KVs → TPath → Merge.Out KVs} (hmk : ∀ a b p, NC (mk a b p)) (e o : Val) (p : TPath) :
    NC (mergeStep mk e o p) := by
  simp only [mergeStep]
  split
  · rename_i r _
    cases r <;> simp only [specialStep]
    · exact NC.ok _
    · exact NC.ok _
    · exact nc_convMerge hmk (nc_intoMap _) e o p
    · exact nc_convMerge hmk (nc_intoMap _) e o p
    · exact nc_convMerge hmk nc_toBuild e o p
    · simp only [loggingStep]
      split
      · exact NC.ok _
      · exact NC.ok _
      · split
        · exact NC.bind (hmk _ _ _) fun m => NC.ok _
        · exact NC.ok _
      · simp [NC]
    · split
      · exact NC.bind (hmk _ _ _) fun m => NC.ok _
      · exact NC.ok _
    · exact NC.ok _
    · simp only [ipamStep]
      exact NC.bind (nc_ipamPools _) fun base => NC.bind (nc_ipamPools _) fun other =>
        NC.bind (nc_ipamFold hmk _ _ _) fun cfgs => NC.ok _
    · simp [NC]
  · simp only [defaultStep]
    split
    · exact NC.ok _
    · split
      · exact NC.bind (hmk _ _ _) fun m => NC.ok _
      · simp [NC]
      · exact NC.ok _
      · simp [NC]
      · exact NC.ok _

theorem nc_mergeYaml : ∀ (n : Nat) (e o : Val) (p : TPath), NC (mergeYaml n e o p)
  | 0, _, _, _ => NC.panic _
  | n + 1, e, o, p => by
    simp only [mergeYaml]
    exact nc_mergeStep (fun a b p => nc_mergeKVsWith (nc_mergeYaml n) b a p) e o p

/-- **the real merge step never returns the class `circular`** -/
theorem mergeExtend_not_circular (b s : KVs) : mergeExtend b s ≠ .err "circular" := by
  have h : NC (extendService (.map b) (.map s)) := by
    simp only [extendService]
    exact nc_mergeYaml _ _ _ _
  unfold mergeExtend
  split
  · intro h'; cases h'
  · intro h'; cases h'
  · rename_i e he
    intro h'
    simp only [Out.err.injEq] at h'
    subst h'
    exact h he
  · intro h'; cases h'

end CV.Extends
