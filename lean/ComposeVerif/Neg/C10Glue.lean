import ComposeVerif.Props.C10Glue
/-!
# C10 — a plausible statement about whole loads that the tree falsifies (by design of `include`)

"A model whose merge result passes every structural rule and whose project is consistent loads" is **false** as soon as
projects are included: an included project is validated on its own before it is merged, so a violation inside it
rejects the load even when a later file of the including project removes it (`!reset`).  The provable statement is
`Glue.loadWithIncludes_ok_iff` (the included projects appear in it).  Witness replayed on the real loader:
corpus/C10/include-violation-repaired-by-reset.json and the `glue:repaired-by-reset:*` cases of `c10.glue`.
-/
namespace CV.Consistency.Neg
open CV CV.Consistency CV.Consistency.Glue CV.Validate

theorem load_not_decided_by_merge_result :
    ¬ (∀ (incs : List Val) (t : Val) (p : Proj), p.enabled.Nodup → ValidTree t → ConsistentFull p →
        ∃ p', loadWithIncludes {} incs t p = .ok p') := by
  intro h
  obtain ⟨p', hp⟩ := h [twoSources'] Validate.exampleTree exampleProj (by decide) ((validate_iff _).mp (by decide))
    ((consistentB_iff exampleProj (by decide)).mp (by decide))
  have : loadWithIncludes {} [twoSources'] Validate.exampleTree exampleProj = .structural .exclusive := by decide
  rw [this] at hp
  cases hp

/-- the same tree and project without the included project load -/
theorem witness_loads_without_include :
    loadWithIncludes {} [] Validate.exampleTree exampleProj = .ok (postState exampleProj) := by decide

end CV.Consistency.Neg
