import ComposeVerif.Lemmas.EnvLayersLoad
/-!
# C16 — `load_env_precedence` needs its hypothesis on the project environment's keys

`loader.resolveServicesEnvironment` looks the **whole element text** of a sequence-form `environment` entry up in the
project environment (`environment[varEnv]` with `varEnv = "A=1"`).  A project environment that has a key containing `=`
(impossible for variables read from the OS or from a `.env` file; possible for a caller that fills
`ConfigDetails.Environment` itself) therefore rewrites an entry that *has* a value: `- A=1` becomes `A=1=<found>`.
`Props/C16.load_env_precedence` carries the hypothesis `NoEqKeys penv`; without it the statement is false.  The witness
is replayed on the real loader by `corpus/C16/penv-key-with-equals.json` (correspondence `c16.load`: the model has the quirk).
-/
namespace CV.EnvLayers.Neg
open CV.EnvLayers CV.EnvLayers.Spec

/-- `load_env_precedence` without `NoEqKeys` -/
def LoadEnvPrecedenceFull : Prop :=
  ∀ (cfg : LoadCfg) (penv : List (Key × Str)) (fs : FS) (y : YEnv) (s s' : Service),
    WFFS fs → cfg.skipResolveEnvironment = false → loadServiceEnv cfg penv fs y s = .ok s' →
    ∀ k, lookup k s'.environment = finalEnv penv (envContents fs s.envFiles) (decodeEnv y) k

def penvEq : List (Key × Str) := [(['A', '=', '1'], ['x'])]
def yEq : YEnv := .list [.kv ['A'] ['1']]
def sEq : Service := { environment := [], envFiles := [], labels := [], labelFiles := [] }
def cfgEq : LoadCfg := { skipNormalization := false, skipResolveEnvironment := false, discard := false }
def fsEq : FS := { node := fun _ => none }

theorem witness_value : (loadServiceEnv cfgEq penvEq fsEq yEq sEq).map (fun s' => lookup ['A'] s'.environment) =
    .ok (some (some ['1', '=', 'x'])) := by decide

theorem load_env_precedence_false_without_NoEqKeys : ¬ LoadEnvPrecedenceFull := by
  intro h
  have hwf : WFFS fsEq := ⟨fun p ls hp => by simp [fsEq] at hp, fun _ => rfl⟩
  have := h cfgEq penvEq fsEq yEq sEq
    { environment := [(['A'], some ['1', '=', 'x'])], envFiles := [], labels := [], labelFiles := [] }
    hwf rfl (by decide) ['A']
  revert this
  decide

end CV.EnvLayers.Neg
