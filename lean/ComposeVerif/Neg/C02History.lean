import ComposeVerif.Model.C02History
/-!
# C02 — the hoisted default (seed C02-7's class) makes a load depend on the loads before it

`load true`: every short-syntax entry *is* the package-level mapping.  A load whose later file refines a dependency writes
`condition: service_healthy, restart: true` into it; the next load of a plain short list reads them.
Replayed on real code by `c02.loadSeq` (the sequence `override-file refines depends_on ; every short form, alone`).
-/
namespace CV.Det.History.Neg
open CV.Det.History

def refine : In := ⟨["store"], [("store", [("condition", "service_healthy"), ("restart", "true")])]⟩
def plain : In := ⟨["db", "cache"], []⟩

/-- the same load, alone and after another one: different results -/
theorem hoisted_default_history_dependent :
    runSeq (load true) dfltLit [refine] plain ≠ runSeq (load true) dfltLit [] plain := by decide

/-- what it gives: after `refine`, `plain`'s dependencies wait for health and restart -/
theorem hoisted_default_after :
    runSeq (load true) dfltLit [refine] plain =
      [("db", [("condition", "service_healthy"), ("required", "true"), ("restart", "true")]),
       ("cache", [("condition", "service_healthy"), ("required", "true"), ("restart", "true")])] := by decide

/-- … and within one load, a sibling dependency that was never refined takes the refinement too -/
theorem hoisted_default_leaks_to_sibling :
    (load true dfltLit ⟨["store", "cache"], [("store", [("condition", "service_healthy")])]⟩).2 =
      [("store", [("condition", "service_healthy"), ("required", "true")]),
       ("cache", [("condition", "service_healthy"), ("required", "true")])] := by decide

/-- the code as it is, on the same sequence: the history does not show -/
theorem actual_same_sequence :
    runSeq (load false) dfltLit [refine] plain = runSeq (load false) dfltLit [] plain := by decide

end CV.Det.History.Neg
