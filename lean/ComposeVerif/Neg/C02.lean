import ComposeVerif.Model.MapOrder
/-!
# C02 — proved negations (concrete witnesses, `by decide`)

* `newGraphOld_order_dependent` — `graph.newGraph` *before* `fix:` 3143716 (`newGraphOld`: it ran
  `delete(s.DependsOn, name)` with the service's own name while ranging) falsified "the outcome does not depend on the
  iteration order of `depends_on`" (DESIGN §10 #5; repaired finding `nondeterministic:graph.newGraph`;
  `corpus/C02/newgraph-self-optional.json` and `corpus/C02/load-self-optional.json` replay the witness on the real
  code, which now gives one outcome).  The current function: `Props.C02.newGraph_perm`, `newGraph_no_mutation`.
* `sshDecodeUnsorted_order_dependent` — the code of `SSHConfig.DecodeMapstructure` *before* the `fix:` commit
  (DESIGN §10 #6): kept as the reason for the fix; the current code is `sshDecode` (Props.C02.sshDecode_perm).
* `intoSeqUnsorted_order_dependent` — `convertIntoSequence` without its `slices.SortFunc` would leak the order:
  the sort is what `Props.C02.intoSeq_perm` rests on.
-/
namespace CV.Det.Neg
open CV CV.Val CV.Det

/-- equality of outcomes is decidable (local instance, so that the witnesses below are checked by `decide`) -/
instance decEqExcept {ε α : Type} [DecidableEq ε] [DecidableEq α] : DecidableEq (Except ε α)
  | .ok a, .ok b => if h : a = b then isTrue (by rw [h]) else isFalse (by intro e; cases e; exact h rfl)
  | .error a, .error b => if h : a = b then isTrue (by rw [h]) else isFalse (by intro e; cases e; exact h rfl)
  | .ok _, .error _ => isFalse (by intro e; cases e)
  | .error _, .ok _ => isFalse (by intro e; cases e)

/-- project a sequence of strings out of `Option (List Val)` (`Val` has no decidable equality) -/
def strsOf (o : Option (List Val)) : Option (List String) := o.map (·.map fmtV)

/-- state of the old inner loop: edges collected so far, and whether `delete(s.DependsOn, name)` has been executed -/
structure LoopStOld where
  edges : List String
  selfDeleted : Bool
deriving Repr, DecidableEq

/-- the loop as it was, with Go's delete-during-range semantics -/
def depLoopOld (enabled disabled : List String) (name : String) : AL Bool → LoopStOld → Except GErr LoopStOld
  | [], st => .ok st
  | (dep, required) :: r, st =>
    if dep = name && st.selfDeleted then depLoopOld enabled disabled name r st   -- entry was deleted before being reached
    else if enabled.contains dep then depLoopOld enabled disabled name r { st with edges := st.edges ++ [dep] }
    else if required then
      (if disabled.contains dep then .error .disabled else .error .unknown)
    else depLoopOld enabled disabled name r { st with selfDeleted := true }

def svcAfterOld (s : Svc) (st : LoopStOld) : Svc :=
  if st.selfDeleted then { s with deps := s.deps.filter (fun kv => kv.1 ≠ s.name) } else s

def graphLoopOld (enabled disabled : List String) : List Svc → Except GErr (List Svc × AL (List String))
  | [] => .ok ([], [])
  | s :: r =>
    match depLoopOld enabled disabled s.name s.deps ⟨[], false⟩ with
    | .error e => .error e
    | .ok st =>
      match graphLoopOld enabled disabled r with
      | .error e => .error e
      | .ok (ss, adj) => .ok (svcAfterOld s st :: ss, (s.name, st.edges) :: adj)

def newGraphOld (svcs : List Svc) (disabled : List String) : Except GErr (List Svc) :=
  match graphLoopOld (svcs.map (·.name)) disabled svcs with
  | .error e => .error e
  | .ok (ss, adj) => if hasCycle adj then .error .cycle else .ok ss

/-- service `a` depends on itself (required) and, optionally, on `off`, which is not enabled -/
def selfFirst : List Svc := [⟨"a", [("a", true), ("off", false)]⟩]
/-- the same project, the `depends_on` map iterated in the other order -/
def optFirst : List Svc := [⟨"a", [("off", false), ("a", true)]⟩]

theorem selfFirst_perm_optFirst :
    ([("off", false), ("a", true)] : AL Bool).Perm [("a", true), ("off", false)] := List.Perm.swap _ _ _

/-- **the old graph.newGraph was order dependent**: one iteration order reported a dependency cycle, the other accepted
the project (and silently dropped the self dependency from it). -/
theorem newGraphOld_order_dependent :
    newGraphOld selfFirst ["off"] = .error .cycle ∧
    newGraphOld optFirst ["off"] = .ok [⟨"a", [("off", false)]⟩] := by
  decide

theorem newGraphOld_not_perm_invariant :
    ¬ (∀ (d d' : AL Bool), d'.Perm d →
        (newGraphOld [⟨"a", d'⟩] ["off"]).toBool = (newGraphOld [⟨"a", d⟩] ["off"]).toBool) := by
  intro h
  have := h [("a", true), ("off", false)] [("off", false), ("a", true)] (List.Perm.swap _ _ _)
  revert this
  decide

/-- **after the repair** both orders report the cycle -/
theorem newGraph_both_orders_now :
    newGraph selfFirst ["off"] = .error .cycle ∧ newGraph optFirst ["off"] = .error .cycle := by
  decide

/-- the pre-fix decoder returns the keys in iteration order -/
theorem sshDecodeUnsorted_order_dependent :
    sshDecodeUnsorted (.map [("k1", .null), ("k2", .str "p")]) ≠
    sshDecodeUnsorted (.map [("k2", .str "p"), ("k1", .null)]) := by
  decide

/-- without the sort, `convertIntoSequence` would return the entries in iteration order -/
theorem intoSeqUnsorted_order_dependent :
    strsOf (intoSeqUnsorted (.map [("A", .str "1"), ("B", .null)])) = some ["A=1", "B"] ∧
    strsOf (intoSeqUnsorted (.map [("B", .null), ("A", .str "1")])) = some ["B", "A=1"] := by
  decide

/-- a loop that returns the first error reports a different one under another iteration order
(only *whether* there is an error is order independent: `Props.C02.rangeCheck_perm`) -/
theorem rangeCheck_which_error_order_dependent :
    rangeCheck (fun k (v : Nat) => if v = 0 then some k else none) [("a", 0), ("b", 0)] = some "a" ∧
    rangeCheck (fun k (v : Nat) => if v = 0 then some k else none) [("b", 0), ("a", 0)] = some "b" := by
  decide

end CV.Det.Neg
