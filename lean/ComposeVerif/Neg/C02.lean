import ComposeVerif.Model.MapOrder
/-!
# C02 — proved negations (concrete witnesses, `by decide`)

* `newGraph_order_dependent` — the unchanged tree falsifies "the outcome of `graph.newGraph` does not depend on the
  iteration order of `depends_on`" (DESIGN §10 #5; finding `nondeterministic:graph.newGraph`, replayed on the real
  code by `corpus/C02/newgraph-self-optional.json` and `corpus/C02/load-self-optional.json`).
* `sshDecodeUnsorted_order_dependent` — the code of `SSHConfig.DecodeMapstructure` *before* the `fix:` commit
  (DESIGN §10 #6): kept as the reason for the fix; the current code is `sshDecode` (Props.C02.sshDecode_perm).
* `intoSeqUnsorted_order_dependent` — `convertIntoSequence` without its `slices.SortFunc` would leak the order:
  the sort is what `Props.C02.intoSeq_perm` rests on.
-/
namespace CV.Det.Neg
open CV CV.Val CV.Det

/-- equality of outcomes is decidable (local instance, so that the witnesses below are checked by `decide`) -/
instance decEqExcept {ε α : Type} [DecidableEq ε] [DecidableEq α] : DecidableEq (Except ε α)
  | .ok a, .ok b => if h : a = b then isTrue (by rw [h]) else isFalse (by intro e; cases e; exact h rfl)
  | .error a, .error b => if h : a = b then isTrue (by rw [h]) else isFalse (by intro e; cases e; exact h rfl)
  | .ok _, .error _ => isFalse (by intro e; cases e)
  | .error _, .ok _ => isFalse (by intro e; cases e)

/-- project a sequence of strings out of `Option (List Val)` (`Val` has no decidable equality) -/
def strsOf (o : Option (List Val)) : Option (List String) := o.map (·.map fmtV)

/-- service `a` depends on itself (required) and, optionally, on `off`, which is not enabled -/
def selfFirst : List Svc := [⟨"a", [("a", true), ("off", false)]⟩]
/-- the same project, the `depends_on` map iterated in the other order -/
def optFirst : List Svc := [⟨"a", [("off", false), ("a", true)]⟩]

theorem selfFirst_perm_optFirst :
    ([("off", false), ("a", true)] : AL Bool).Perm [("a", true), ("off", false)] := List.Perm.swap _ _ _

/-- **graph.newGraph is order dependent**: one iteration order reports a dependency cycle, the other accepts the
project (and silently drops the self dependency from it). -/
theorem newGraph_order_dependent :
    newGraph selfFirst ["off"] = .error .cycle ∧
    newGraph optFirst ["off"] = .ok [⟨"a", [("off", false)]⟩] := by
  decide

theorem newGraph_not_perm_invariant :
    ¬ (∀ (d d' : AL Bool), d'.Perm d →
        (newGraph [⟨"a", d'⟩] ["off"]).toBool = (newGraph [⟨"a", d⟩] ["off"]).toBool) := by
  intro h
  have := h [("a", true), ("off", false)] [("off", false), ("a", true)] (List.Perm.swap _ _ _)
  revert this
  decide

/-- the pre-fix decoder returns the keys in iteration order -/
theorem sshDecodeUnsorted_order_dependent :
    sshDecodeUnsorted (.map [("k1", .null), ("k2", .str "p")]) ≠
    sshDecodeUnsorted (.map [("k2", .str "p"), ("k1", .null)]) := by
  decide

/-- without the sort, `convertIntoSequence` would return the entries in iteration order -/
theorem intoSeqUnsorted_order_dependent :
    strsOf (intoSeqUnsorted (.map [("A", .str "1"), ("B", .null)])) = some ["A=1", "B"] ∧
    strsOf (intoSeqUnsorted (.map [("B", .null), ("A", .str "1")])) = some ["B", "A=1"] := by
  decide

/-- a loop that returns the first error reports a different one under another iteration order
(only *whether* there is an error is order independent: `Props.C02.rangeCheck_perm`) -/
theorem rangeCheck_which_error_order_dependent :
    rangeCheck (fun k (v : Nat) => if v = 0 then some k else none) [("a", 0), ("b", 0)] = some "a" ∧
    rangeCheck (fun k (v : Nat) => if v = 0 then some k else none) [("b", 0), ("a", 0)] = some "b" := by
  decide

end CV.Det.Neg
