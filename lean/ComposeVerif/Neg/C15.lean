import ComposeVerif.Lemmas.Select
/-!
# C15 — statements falsified by the tree as it was before the `fix:` commit of `WithSelectedServices`

Pre-fix, `WithSelectedServices` (model `withSelectedServicesPre`) was **not** a function of its receiver and
arguments: the `DisabledServices` half of its result depended on the iteration order of the service map
(DESIGN §10 #11).  The repaired function is proved order independent in `Props/C15.lean` (`select_perm`); this file
keeps the witness against the old loop.  Witness: services `a → b` (a depends
on b) and `c`; select `c`.  Ranging `a, b, c` moves `a` to the disabled set with its edge to `b`; ranging
`b, a, c` removes `b` from `a.depends_on` first.  Replayed on the real code (then: failing; now: passing) by
`corpus/C15/select-order-dependent-disabled-deps.json` (oracle key
`nondeterministic:types.Project.WithSelectedServices:disabled.depends_on`).
-/
namespace CV.Sel.Neg

def svc (name : String) (deps : AL Dep) : Svc :=
  { name := name, image := "i", profiles := [], deps := deps, nets := [], vols := [], secrets := [], build := none, configs := [] }

def a : String × Svc := ("a", svc "a" [("b", ⟨true, "service_started"⟩)])
def b : String × Svc := ("b", svc "b" [])
def c : String × Svc := ("c", svc "c" [])

def mk (services : AL Svc) : Proj :=
  { services := services, disabled := [], profiles := [], networks := [], volumes := [], secrets := [], configs := [] }

/-- `op_perm` for the pre-fix `WithSelectedServices` at full strength: the same project (service map listed in another order)
and the same arguments give the same disabled services -/
def SelectPermInvariant : Prop :=
  ∀ (p p' : Proj) (names : List String) (pol : Policy) (q q' : Proj),
    Partition p → SvcWF p → p.services.Perm p'.services → p.disabled = p'.disabled →
    withSelectedServicesPre p names pol = .ok q → withSelectedServicesPre p' names pol = .ok q' →
    ∀ k, lookup k q.disabled = lookup k q'.disabled

theorem perm_witness : (mk [a, b, c]).services.Perm (mk [b, a, c]).services := List.Perm.swap _ _ _

/-- the disabled half of `WithSelectedServices` depends on the iteration order of the service map -/
theorem select_not_perm_invariant : ¬SelectPermInvariant := by
  intro h
  have := h (mk [a, b, c]) (mk [b, a, c]) ["c"] .deps
    (selectResultPre (mk [a, b, c]) ["c"]) (selectResultPre (mk [b, a, c]) ["c"])
    (by decide) (by decide) perm_witness rfl (by decide) (by decide) "a"
  revert this
  decide

/-- what the two orders return for the disabled service `a` -/
example : (lookup "a" (selectResultPre (mk [a, b, c]) ["c"]).disabled).map (fun s => keys s.deps) = some ["b"] := by decide
example : (lookup "a" (selectResultPre (mk [b, a, c]) ["c"]).disabled).map (fun s => keys s.deps) = some [] := by decide

/-! ## colliding service `Name`s (outside `Good`: no load produces them)

`dependentsForService` files every dependent under its `Name`.  When two enabled services carry the same `Name`
and that name is not a map key, the entry that survives in the `dependencies` map is the one written last, i.e. it
depends on the iteration order — and with it the `required` flag that decides between "no such service" and
skipping.  Witness: `db`; `x` and `y` both named `ghost`, `x → db` required, `y → db` optional; select `db` with its
dependents.  Replayed on the real code by `corpus/C15/colliding-names-dependents.json`
(oracle key `nondeterministic:types.Project.WithSelectedServices:error-or-not:colliding-names`, a recorded finding).
The theorems of `Props/C15.lean` exclude such projects through `NamesOK`; `dependents_keys_perm` shows that the *keys*
of the map never depend on the order. -/

def db : String × Svc := ("db", svc "db" [])
def x : String × Svc := ("x", svc "ghost" [("db", ⟨true, "service_started"⟩)])
def y : String × Svc := ("y", svc "ghost" [("db", ⟨false, "service_started"⟩)])

/-- the walk at full strength, without the `NamesOK` hypothesis: same services in another order, same outcome -/
def WalkPermInvariant : Prop :=
  ∀ (p p' : Proj) (names : List String) (pol : Policy),
    Partition p → SvcWF p → p.services.Perm p'.services → p.disabled = p'.disabled →
    forEachService p names pol = forEachService p' names pol

theorem colliding_witness : (mk [db, x, y]).services.Perm (mk [db, y, x]).services :=
  List.Perm.cons _ (List.Perm.swap _ _ _)

/-- with colliding `Name`s the outcome of the dependents walk depends on the iteration order -/
theorem walk_not_perm_invariant_with_colliding_names : ¬WalkPermInvariant := by
  intro h
  have := h (mk [db, x, y]) (mk [db, y, x]) ["db"] .dependents (by decide) (by decide) colliding_witness rfl
  revert this
  decide

example : forEachService (mk [db, x, y]) ["db"] .dependents = .ok ["db"] := by decide
example : forEachService (mk [db, y, x]) ["db"] .dependents = .noSuchService := by decide

/-! ## the callback order of `ForEachService` on a dependency cycle (round 5)

"every dependency is called before the service that needs it" holds on acyclic graphs
(`Props/C15.lean forEach_dependencies_first`); at full strength — for every project — it is false: on the cycle
`a → b → a`, `ForEachService(["a"])` marks `a`, walks to `b`, finds `a` already marked and calls `fn(b)` then `fn(a)`,
so `b`'s dependency `a` comes after it.  The loader rejects dependency cycles (`graph.CheckCycle`), a hand-built
project can have one; the real code behaves as the model (corpus `foreach-cycle.json`, passing: the full-strength
clause of `ForEachSpec` excuses exactly the edges that lie on a cycle). -/

def ca : String × Svc := ("a", svc "a" [("b", ⟨true, "service_started"⟩)])
def cb : String × Svc := ("b", svc "b" [("a", ⟨true, "service_started"⟩)])

def DepsFirst : Prop :=
  ∀ (p : Proj) (names : List String) (opts : List Policy) (seen calls : List String),
    Partition p → Named p → forEachCalls p names opts = .ok seen calls →
    ∀ x ∈ calls, ∀ y, Edge p.services (policyOf opts) x y → before calls y x = true

theorem deps_first_fails_on_a_cycle : ¬DepsFirst := by
  intro h
  have := h (mk [ca, cb]) ["a"] [] ["b", "a"] ["b", "a"] (by decide) (by decide) (by decide) "b" (by decide) "a"
    ⟨cb.2, by decide, by decide, by decide⟩
  revert this
  decide

example : forEachCalls (mk [ca, cb]) ["a"] [] = .ok ["b", "a"] ["b", "a"] := by decide

/-! ## `Services.GetProfiles` is a set, not a list (round 5)

The profiles are collected in a Go map and listed by ranging over it: the returned slice is in map order, so two calls
on the same `Services` value return the same profiles in different orders (observed on the real code by `c15each`:
`[p q r s t]` then `[q r s t p]`; counted in the evidence as `getprofiles-order-varies`).  This is a *reviewed* order-leak
site of property C02 (`Spec/Determinism.lean`: public helper, reached by no load and no rendering, callers get an
unordered list), not one of the operations of C15; the model therefore compares the sorted view `getProfiles`
(`Props/C15.lean getProfiles_exact`, `getProfiles_perm`).  The witness shows that the raw list is not a function of the map. -/

def GetProfilesPermInvariant : Prop :=
  ∀ (svcs svcs' : AL Svc), (keys svcs).Nodup → svcs.Perm svcs' → getProfilesPre svcs = getProfilesPre svcs'

def pa : String × Svc := ("a", { svc "a" [] with profiles := ["p", "q"] })
def pb : String × Svc := ("b", { svc "b" [] with profiles := ["r", "p"] })

theorem getProfiles_raw_order_dependent : ¬GetProfilesPermInvariant := by
  intro h
  have := h [pa, pb] [pb, pa] (by decide) (List.Perm.swap _ _ _)
  revert this
  decide

example : getProfilesPre [pa, pb] = ["p", "q", "r"] ∧ getProfilesPre [pb, pa] = ["r", "p", "q"] := by decide
example : getProfiles [pa, pb] = ["p", "q", "r"] ∧ getProfiles [pb, pa] = ["p", "q", "r"] := by decide

end CV.Sel.Neg
