import ComposeVerif.Model.Reset
import ComposeVerif.Spec.Override
/-!
# C04 — statements of the property that the tree falsified **before the round-2 `fix:` commits** (concrete witnesses)

The models in `Model/` follow the repaired code.  What the code did before each repair is kept here as a small
pre-fix definition (namespace `PreFix`) together with the witness that made the full-strength statement false; the
corresponding inputs stay in `corpus/C04/` (they now pass) and `findings/C04.txt` records them as `fixed:`.
`Val` has no decidable equality instance, so witnesses are closed by kernel evaluation (`rfl`) or `decide`.
-/
namespace CV.C04.Neg
open CV CV.Val CV.Merge CV.Unicity CV.Override

namespace PreFix

/-! ### `override.unique` without the `volumes.*.labels` row (repaired by "fix: volume labels are unique by key …") -/

def unique : List (List String × String) := CV.Gen.unique.filter fun r => decide (r.1 ≠ ["volumes", "*", "labels"])

/-- with the pre-fix table `rule_table_matches_spec` is false: volume labels are merged to a sequence but never de-duplicated -/
theorem not_rule_table_matches_spec : ¬ (∀ r ∈ expected, (ruleAt r.1, indexerAtIn unique r.1) = r.2) := by decide

theorem volume_labels_no_indexer : ruleAt ["volumes", "v", "labels"] = some .toSeq ∧ indexerAtIn unique ["volumes", "v", "labels"] = none := by
  decide

/-- … so the label repeated by the override stayed twice in the merged list (and the schema rejected the model) -/
theorem volume_label_repeated :
    mergeYaml 1 (.seq [.str "A=1"]) (.map [("A", .int 1)]) ["volumes", "v", "labels"] = .ok (.seq [.str "A=1", .str "A=1"]) := by rfl

/-! ### `portIndexer` with `%s` / `%d` (repaired by "fix: portIndexer renders published/target with %v") -/

def portKey (kvs : KVs) : String :=
  sprintArg 's' true ((lookup "host_ip" kvs).getD (.str "0.0.0.0")) ++ ":" ++ sprintArg 's' true ((lookup "published" kvs).getD .null) ++ ":" ++
    sprintArg 'd' true ((lookup "target" kvs).getD .null) ++ "/" ++ sprintArg 's' true ((lookup "protocol" kvs).getD (.str "tcp"))

/-- `port_key_spelling_independent` was false: the same port with `published` written as an integer and as a string
got two different index keys, so the two entries never collided -/
theorem port_key_depended_on_spelling :
    portKey [("target", .int 80), ("published", .int 8080)] = "0.0.0.0:%!s(int=8080):80/tcp" ∧
    portKey [("target", .int 80), ("published", .str "8080")] = "0.0.0.0:8080:80/tcp" := by
  constructor <;> rfl

/-! ### `mergeIPAMConfig` before its rewrite (repaired by "fix: mergeIPAMConfig merges ipam pools by subnet …") -/

/-- the `[]any` branch of `convertIntoMapping` -/
def listIntoMap0 (dflt : Val) : List Val → KVs → Out KVs
  | [], acc => .ok acc
  | .str s :: r, acc => listIntoMap0 dflt r (insert s dflt acc)
  | _ :: _, _ => .panic "override.convertIntoMapping"

/-- `convertIntoMapping(a, defaultValue)`; `ok none` = Go `nil` map. `dflt` is the value stored per key
(`nil`, or a fresh copy of the default mapping) -/
def intoMap (dflt : Val) : Val → Out (Option KVs)
  | .map kvs => .ok (some kvs)
  | .seq xs => (listIntoMap0 dflt xs []).bind fun m => .ok (some m)
  | _ => .ok none

/-- Go `==` on two interface values; `none` = run-time panic (both operands of the same uncomparable type) -/
def ifaceEq : Val → Val → Option Bool
  | .seq _, .seq _ => none
  | .map _, .map _ => none
  | .null, .null => some true
  | .bool a, .bool b => some (a == b)
  | .int a, .int b => some (a == b)
  | .float a, .float b => some (a == b)
  | .str a, .str b => some (a == b)
  | _, _ => some false

/-- `m["subnet"]` on a possibly-nil map -/
def subnetOf (m : Option KVs) : Val :=
  match m with
  | none => .null
  | some kvs => (lookup "subnet" kvs).getD .null

/-- state of `mergeIPAMConfig`: `ipamConfigs` (entry `none` = the very map object `right`, which later
merges keep mutating) and the current `right` (`none` = nil map) -/
structure IpamSt where
  configs : List (Option KVs)
  right : Option KVs

def IpamSt.entry (st : IpamSt) (e : Option KVs) : KVs :=
  match e with
  | some m => m
  | none => st.right.getD []

/-- `slices.IndexFunc(ipamConfigs, func(a) bool { return a["subnet"] == s })`; outer `none` = panic -/
def ipamIndex (st : IpamSt) (s : Val) : List (Option KVs) → Nat → Option (Option Nat)
  | [], _ => some none
  | e :: r, i =>
    match ifaceEq ((lookup "subnet" (st.entry e)).getD .null) s with
    | none => none
    | some true => some (some i)
    | some false => ipamIndex st s r (i + 1)

def mergeOpt0 (mk : KVs → KVs → TPath → Out KVs) (p : TPath) : Option KVs → Option KVs → Out (Option KVs)
  | some a, some b => (mk a b p).bind fun m => .ok (some m)
  | some a, none => .ok (some a)
  | none, some (_ :: _) => .panic "override.mergeMappings"
  | none, _ => .ok none

/-- inner loop of `mergeIPAMConfig`: `for _, override := range o.([]any)` -/
def ipamInnerWith (mk : KVs → KVs → TPath → Out KVs) : List Val → IpamSt → TPath → Out IpamSt
  | [], st, _ => .ok st
  | ov :: rest, st, p =>
    (intoMap .null ov).bind fun left =>
    match ifaceEq (subnetOf left) (subnetOf st.right) with
    | none => .panic "override.mergeIPAMConfig"
    | some same =>
      let doMerge : Unit → Out IpamSt := fun _ =>
        (match st.right, left with
          | some a, some b => (mk a b p).bind fun m => .ok (some m)
          | some a, none => .ok (some a)
          | none, some (_ :: _) => .panic "override.mergeMappings"
          | none, _ => .ok none : Out (Option KVs)).bind fun merged =>
        let st1 : IpamSt := ⟨st.configs, merged⟩
        -- a nil `right` stays nil; `merged` is the same object as `right` otherwise
        let entry : Option KVs := match merged with | none => some [] | some _ => none
        match ipamIndex st1 (subnetOf merged) st1.configs 0 with
        | none => .panic "override.mergeIPAMConfig"
        | some (some i) => ipamInnerWith mk rest ⟨listSet st1.configs i entry, merged⟩ p
        | some none => ipamInnerWith mk rest ⟨st1.configs ++ [entry], merged⟩ p
      if same then doMerge ()
      else
        match ipamIndex st (subnetOf left) st.configs 0 with
        | none => .panic "override.mergeIPAMConfig"
        | some none => ipamInnerWith mk rest ⟨st.configs ++ [some (left.getD [])], st.right⟩ p
        | some (some _) => doMerge ()

/-- outer loop of `mergeIPAMConfig`: `for _, original := range c.([]any)` -/
def ipamOuterWith (mk : KVs → KVs → TPath → Out KVs) : List Val → Val → IpamSt → TPath → Out Val
  | [], _, st, _ => .ok (.seq (st.configs.map fun e => .map (st.entry e)))
  | original :: rest, o, st, p =>
    (intoMap .null original).bind fun right =>
    match o with
    | .seq os =>
      (ipamInnerWith mk os ⟨st.configs, right⟩ p).bind fun st' =>
      -- `right` goes out of scope: the entries aliasing it are frozen
      ipamOuterWith mk rest o ⟨st'.configs.map fun e => some (st'.entry e), none⟩ p
    | _ => .panic "override.mergeIPAMConfig"

/-- the pre-fix `mergeIPAMConfig` on two sequences of pools -/
def mergeIPAM (cs : List Val) (o : Val) : Out Val :=
  ipamOuterWith (mergeKVsWith (mergeYaml 2)) cs o ⟨[], none⟩ ["networks", "n", "ipam", "config"]

/-- "anything a later file does not mention is preserved" was false for ipam pools: base `[A]` + override `[B]` = `[B]` -/
theorem ipam_base_pool_dropped :
    mergeIPAM [.map [("subnet", .str "10.0.0.0/24")]] (.seq [.map [("subnet", .str "10.0.1.0/24")]])
      = .ok (.seq [.map [("subnet", .str "10.0.1.0/24")]]) := by rfl

/-- with two base pools the pools were merged into one another -/
theorem ipam_pools_mixed_up :
    mergeIPAM [.map [("subnet", .str "A"), ("ip_range", .str "ra")], .map [("subnet", .str "B"), ("ip_range", .str "rb")]]
        (.seq [.map [("subnet", .str "A"), ("gateway", .str "g")]])
      = .ok (.seq [.map [("subnet", .str "A"), ("ip_range", .str "rb"), ("gateway", .str "g")]]) := by rfl

/-- an override config that is not a sequence panicked (C01's `panic@override.mergeIPAMConfig`) -/
theorem ipam_panicked : mergeIPAM [.map []] (.str "x") = .panic "override.mergeIPAMConfig" := by rfl

end PreFix

/-! ### the same inputs on the repaired model -/

theorem ipam_base_pool_kept :
    mergeYaml 2 (.seq [.map [("subnet", .str "10.0.0.0/24")]]) (.seq [.map [("subnet", .str "10.0.1.0/24")]])
        ["networks", "n", "ipam", "config"]
      = .ok (.seq [.map [("subnet", .str "10.0.0.0/24")], .map [("subnet", .str "10.0.1.0/24")]]) := by rfl

theorem ipam_pools_merged_by_subnet :
    mergeYaml 2 (.seq [.map [("subnet", .str "A"), ("ip_range", .str "ra")], .map [("subnet", .str "B"), ("ip_range", .str "rb")]])
        (.seq [.map [("subnet", .str "A"), ("gateway", .str "g")]]) ["networks", "n", "ipam", "config"]
      = .ok (.seq [.map [("subnet", .str "A"), ("ip_range", .str "ra"), ("gateway", .str "g")], .map [("subnet", .str "B"), ("ip_range", .str "rb")]]) := by rfl

theorem volume_label_deduplicated :
    (merge (.map [("volumes", .map [("v", .map [("labels", .seq [.str "A=1"])])])])
           (.map [("volumes", .map [("v", .map [("labels", .map [("A", .int 1)])])])])).bind enforceTop
      = .ok (.map [("volumes", .map [("v", .map [("labels", .seq [.str "A=1"])])])]) := by rfl

theorem port_entries_merged :
    (mergeYaml 1 (.seq [.map [("target", .int 80), ("published", .int 8080)]]) (.seq [.map [("target", .int 80), ("published", .str "8080"), ("mode", .str "host")]])
        ["services", "s", "ports"]).bind (fun m => enforce m ["services", "s", "ports"])
      = .ok (.seq [.map [("target", .int 80), ("published", .str "8080"), ("mode", .str "host")]]) := by rfl

/-- quirk still in the code and kept by the model: `mergeUlimit` merges the override with itself, so a list inside it is doubled -/
theorem ulimit_list_doubled :
    mergeYaml 2 (.int 1) (.map [("x", .seq [.int 1])]) ["services", "s", "ulimits", "nofile"] = .ok (.map [("x", .seq [.int 1, .int 1])]) := by rfl

end CV.C04.Neg
