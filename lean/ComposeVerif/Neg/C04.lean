import ComposeVerif.Model.Reset
import ComposeVerif.Spec.Override
/-!
# C04 — statements of the property that the unchanged tree falsifies (concrete witnesses)

Each witness is replayed on the real code by the oracle (corpus/C04/finding-*.json, findings/C04.txt).
`Val` has no decidable equality instance, so the witnesses are closed by kernel evaluation (`rfl`) or `decide`.
-/
namespace CV.C04.Neg
open CV CV.Val CV.Merge CV.Unicity CV.Override

/-- `rule_table_matches_spec` at full strength is false: `volumes.*.labels` is merged to a sequence but has **no**
unicity indexer (`override.unique` lacks the row that `networks.*.labels` has) -/
theorem not_rule_table_matches_spec : ¬ (∀ r ∈ expected, actual r.1 = r.2) := by decide

theorem volume_labels_no_indexer : ruleAt ["volumes", "v", "labels"] = some .toSeq ∧ indexerAt ["volumes", "v", "labels"] = none := by
  decide

/-- consequence: a volume label repeated by the override stays twice after merge + unicity (the schema then rejects
the model: "array items must be unique") — `kv_later_wins` does not apply at this path -/
theorem volume_label_repeated :
    (merge (.map [("volumes", .map [("v", .map [("labels", .seq [.str "A=1"])])])])
           (.map [("volumes", .map [("v", .map [("labels", .map [("A", .int 1)])])])])).bind enforceTop
      = .ok (.map [("volumes", .map [("v", .map [("labels", .seq [.str "A=1", .str "A=1"])])])]) := by rfl

/-- the same input under `networks` is de-duplicated -/
theorem network_label_repeated_ok :
    (merge (.map [("networks", .map [("n", .map [("labels", .seq [.str "A=1"])])])])
           (.map [("networks", .map [("n", .map [("labels", .map [("A", .int 1)])])])])).bind enforceTop
      = .ok (.map [("networks", .map [("n", .map [("labels", .seq [.str "A=1"])])])]) := by rfl

/-- `port_key_spelling_independent` is false: the same port with `published` written as an integer and as a string
gets two different index keys, so the two entries never collide (portIndexer formats `published` with `%s`) -/
theorem port_key_depends_on_spelling :
    index .port (.map [("target", .int 80), ("published", .int 8080)]) = .ok "0.0.0.0:%!s(int=8080):80/tcp" ∧
    index .port (.map [("target", .int 80), ("published", .str "8080")]) = .ok "0.0.0.0:8080:80/tcp" := by
  constructor <;> rfl

theorem port_entries_not_merged :
    (mergeYaml 1 (.seq [.map [("target", .int 80), ("published", .int 8080)]]) (.seq [.map [("target", .int 80), ("published", .str "8080"), ("mode", .str "host")]])
        ["services", "s", "ports"]).bind (fun m => enforce m ["services", "s", "ports"])
      = .ok (.seq [.map [("target", .int 80), ("published", .int 8080)], .map [("target", .int 80), ("published", .str "8080"), ("mode", .str "host")]]) := by rfl

/-- "anything a later file does not mention is preserved" is false for ipam pools: base `[A]` + override `[B]` = `[B]` -/
theorem ipam_base_pool_dropped :
    mergeYaml 2 (.seq [.map [("subnet", .str "10.0.0.0/24")]]) (.seq [.map [("subnet", .str "10.0.1.0/24")]])
        ["networks", "n", "ipam", "config"]
      = .ok (.seq [.map [("subnet", .str "10.0.1.0/24")]]) := by rfl

/-- with two base pools the pools are merged into one another: base `[A, B]` + override `[A + gateway]` loses `A`'s
own entry and gives `B`'s fields to subnet `A` -/
theorem ipam_pools_mixed_up :
    mergeYaml 2 (.seq [.map [("subnet", .str "A"), ("ip_range", .str "ra")], .map [("subnet", .str "B"), ("ip_range", .str "rb")]])
        (.seq [.map [("subnet", .str "A"), ("gateway", .str "g")]]) ["networks", "n", "ipam", "config"]
      = .ok (.seq [.map [("subnet", .str "A"), ("ip_range", .str "rb"), ("gateway", .str "g")]]) := by rfl

/-- quirk kept by the model: `mergeUlimit` merges the override with itself, so a list inside it is doubled -/
theorem ulimit_list_doubled :
    mergeYaml 2 (.int 1) (.map [("x", .seq [.int 1])]) ["services", "s", "ulimits", "nofile"] = .ok (.map [("x", .seq [.int 1, .int 1])]) := by rfl

end CV.C04.Neg
