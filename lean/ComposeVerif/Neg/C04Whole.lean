import ComposeVerif.Model.Reset
/-!
# C04 — two statements about the fold over files that are *false*, with their witnesses

1. **The override rules are not associative.**  The property says: apply each later file *onto the result so far* —
   the left fold (`Props/C04Whole.lean`, `loadY_is_left_fold`).  Merging the later files among themselves first and
   applying the result to the base (a right fold) is a different function: `mergeLogging` decides between "merge the two
   sections" and "replace" by comparing the drivers of the two sides *it is given*.  Base `{driver: a, options: {x}}`,
   then `{options: {y}}`, then `{driver: b}`: left to right the third file replaces the section (`{driver: b}`); folded
   from the right the second and third merge first (`{options: {y}, driver: b}`) and replace the base as one.
   So the bracketing in the statement of the property is not a presentation choice.

2. **An entry-level `!reset` is honoured only while the accumulated value is still a mapping.**  `labels: {k: !reset null}`
   records the path `services.web.labels.k`; `ResetProcessor.Apply` deletes *mapping keys* whose path matches and has no
   removal from sequences (`// TODO(ndeloof) support removal from sequence` in loader/reset.go).  `mergeToSequence` turns
   the accumulated `labels` into a list of `K=V` strings at the first merge (and a list-spelled first file is a list
   from the start), so from the third mention on — or after a list-spelled base — the tag finds nothing to delete and
   is silently ignored: the label survives.  Full-strength "`!reset` removes the entry, whichever spelling the earlier
   files used" is therefore false on the model of the unchanged code; the provable statements are `reset_removes`
   (mapping-held values, any depth) and `docStep_reset_removes`.  The split oracle's `reset-entry` class stays inside
   that domain; the limitation is recorded in design/C04.md ("observed, not claimed as a defect").
-/
namespace CV.C04.Neg
open CV CV.Val CV.Merge CV.Reset

def lgA : Val := .map [("services", .map [("w", .map [("logging", .map [("driver", .str "a"), ("options", .map [("x", .str "1")])])])])]
def lgB : Val := .map [("services", .map [("w", .map [("logging", .map [("options", .map [("y", .str "2")])])])])]
def lgC : Val := .map [("services", .map [("w", .map [("logging", .map [("driver", .str "b")])])])]

/-- left to right (what the loader does, what the property says) -/
theorem logging_left_fold : (merge lgA lgB).bind (fun ab => merge ab lgC) =
    .ok (.map [("services", .map [("w", .map [("logging", .map [("driver", .str "b")])])])]) := by rfl

/-- later files merged among themselves first -/
theorem logging_right_fold : (merge lgB lgC).bind (fun bc => merge lgA bc) =
    .ok (.map [("services", .map [("w", .map [("logging", .map [("options", .map [("y", .str "2")]), ("driver", .str "b")])])])]) := by rfl

/-- **`override.Merge` is not associative** -/
theorem merge_not_associative :
    ¬ (∀ a b c : Val, (merge a b).bind (fun ab => merge ab c) = (merge b c).bind (fun bc => merge a bc)) := by
  intro h
  have := h lgA lgB lgC
  rw [logging_left_fold, logging_right_fold] at this
  simp at this

/-! ### entry-level `!reset` against a value that is already a list -/

def lblBase (labels : Val) : Val := .map [("services", .map [("web", .map [("image", .str "nginx"), ("labels", labels)])])]

def lblReset : YNode :=
  .map .none [("services", .map .none [("web", .map .none [("labels", .map .none [("role", .scalar .reset .null)])])])]

def lblTouch : YNode :=
  .map .none [("services", .map .none [("web", .map .none [("labels", .map .none [("tier", .scalar .none (.str "one"))])])])]

/-- the base spelled as a mapping, the tag in the very next document: the entry is removed -/
theorem entry_reset_removes_from_mapping :
    loadDocs .ok (lblBase (.map [("role", .str "frontend"), ("plain", .str "keep")])) [lblReset] =
      .ok (lblBase (.seq [.str "plain=keep"])) := by rfl

/-- the same base spelled as a list: the tag is ignored, `role=frontend` survives -/
theorem entry_reset_ignored_on_list_spelling :
    loadDocs .ok (lblBase (.seq [.str "role=frontend", .str "plain=keep"])) [lblReset] =
      .ok (lblBase (.seq [.str "role=frontend", .str "plain=keep"])) := by rfl

/-- a mapping-spelled base, one untagged mention in between: the accumulated value has become a list and the tag of the
third document is ignored -/
theorem entry_reset_ignored_after_merge :
    loadDocs .ok (lblBase (.map [("role", .str "frontend"), ("plain", .str "keep")])) [lblTouch, lblReset] =
      .ok (lblBase (.seq [.str "plain=keep", .str "role=frontend", .str "tier=one"])) := by rfl

/-- **negation of the full-strength entry-level law** ("after a document that tags `labels.<k>` with `!reset`, no
`k=…` entry is left, whatever the earlier documents were") -/
theorem not_entry_reset_removes_any_spelling :
    ¬ (∀ (labels : Val) (r : Val), loadDocs .ok (lblBase labels) [lblReset] = .ok (lblBase r) →
        ∀ xs, r = .seq xs → Val.str "role=frontend" ∉ xs) := by
  intro h
  exact h _ _ entry_reset_ignored_on_list_spelling _ rfl (by simp)

end CV.C04.Neg
