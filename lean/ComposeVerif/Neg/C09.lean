import ComposeVerif.Model.Marshal
/-!
# C09 — proved negations: round trips the unchanged tree does not have

Each statement is the negation of a full-strength `custom_roundtrip_X` on a concrete witness; the same witness is
replayed on the real code by the harness (`corpus/C09/*.json`, keys in `findings/C09.txt`).
-/
namespace CV.Neg.C09
open CV CV.Marshal

/-- `memswap_limit: -1` (unlimited swap) is rendered as the string "-1", which `units.RAMInBytes` rejects:
    the rendering does not load.  (`custom_roundtrip_UnitBytes` fails for negative sizes.) -/
theorem unitbytes_negative :
    (marshalY_UnitBytes (.int (-1))).bind decode_UnitBytes = .err "invalid-size" ∧
    (marshalJ_UnitBytes (.int (-1))).bind decode_UnitBytes = .err "invalid-size" := by
  constructor <;> rfl

/-- an ssh key with a path is rendered in YAML as the *string* `id: path`, which the loader rejects -/
theorem sshkey_path_yaml :
    (marshalY_SSHConfig (.seq [mkSSHKey "mykey" "./id_rsa"])).bind decode_SSHConfig = .err "invalid-ssh-key" := by
  rfl

/-- … and in JSON as bytes that are not JSON: rendering fails -/
theorem sshkey_path_json :
    marshalJ_SSHConfig (.seq [mkSSHKey "mykey" "./id_rsa"]) = .err "invalid-json" := by
  rfl

/-- a named agent key without path (`ssh: {mykey: null}`) is rendered as the bare word, which only `default` may be -/
theorem sshkey_named_agent :
    (marshalY_SSHConfig (.seq [mkSSHKey "mykey" ""])).bind decode_SSHConfig = .err "invalid-ssh-key" := by
  rfl

/-- `env_file` entries lose their `format` in YAML (required or not) … -/
theorem envfile_format_lost_yaml :
    (marshalY_EnvFile (mkEnvFile "./a.env" true "raw")).bind decode_EnvFile = .ok (mkEnvFile "./a.env" true "") ∧
    (marshalY_EnvFile (mkEnvFile "./a.env" false "raw")).bind decode_EnvFile = .ok (mkEnvFile "./a.env" false "") := by
  constructor <;> rfl

/-- … and in JSON when the file is required -/
theorem envfile_format_lost_json :
    (marshalJ_EnvFile (mkEnvFile "./a.env" true "raw")).bind decode_EnvFile = .ok (mkEnvFile "./a.env" true "") := by
  rfl

/-- a soft/hard ulimit with a 0 is rendered in JSON without that key (omitempty) and the schema then rejects it -/
theorem ulimits_json_zero :
    (marshalJ_Ulimits (mkUlimit 0 0 5)).bind decode_Ulimits = .err "schema" ∧
    (marshalJ_Ulimits (mkUlimit 0 0 0)).bind decode_Ulimits = .err "schema" := by
  constructor <;> rfl

/-- a value that does not come from the decoder (single limit *and* a pair) is not preserved: the canonical-form
    hypothesis of `custom_roundtrip_Ulimits_yaml` is needed -/
theorem ulimits_noncanonical :
    (marshalY_Ulimits (mkUlimit 5 1 2)).bind decode_Ulimits = .ok (mkUlimit 5 0 0) := by
  rfl

end CV.Neg.C09
