import ComposeVerif.Model.Marshal
/-!
# C09 — proved negations: round trips the unchanged tree does not have

Each statement is the negation of a full-strength `custom_roundtrip_X` on a concrete witness; the same witness is
replayed on the real code by the harness (`corpus/C09/*.json`, keys in `findings/C09.txt`).
-/
namespace CV.Neg.C09
open CV CV.Marshal

/-! The first group records the behaviour **before** the round-2 repairs (`fixed:` lines of `findings/C09.txt`), on the
`_old` models kept in `Model/Marshal.lean`; the replay files `corpus/C09/neg-*.json` now pass on the repaired tree. -/

/-- pre-repair: `memswap_limit: -1` is rendered as the string "-1", which `units.RAMInBytes` rejected -/
theorem unitbytes_negative : marshalY_UnitBytes (.int (-1)) = .ok (.str "-1") ∧ ramInBytes "-1" = .err "invalid-size" := by
  constructor <;> rfl

/-- pre-repair: an ssh key with a path was rendered in YAML as the *string* `id: path`, which the loader rejects -/
theorem sshkey_path_yaml :
    (marshal_SSHConfig_with marshalY_SSHKey_old (.seq [mkSSHKey "mykey" "./id_rsa"])).bind decode_SSHConfig = .err "invalid-ssh-key" := by
  rfl

/-- pre-repair: … and in JSON as bytes that are not JSON: rendering failed -/
theorem sshkey_path_json :
    marshal_SSHConfig_with marshalJ_SSHKey_old (.seq [mkSSHKey "mykey" "./id_rsa"]) = .err "invalid-json" := by
  rfl

/-- pre-repair: a named agent key without path (`ssh: {mykey: null}`) was rendered as the bare word, which only `default` may be -/
theorem sshkey_named_agent :
    (marshal_SSHConfig_with marshalY_SSHKey_old (.seq [mkSSHKey "mykey" ""])).bind decode_SSHConfig = .err "invalid-ssh-key" := by
  rfl

/-- pre-repair: `env_file` entries lost their `format` in YAML (required or not) … -/
theorem envfile_format_lost_yaml :
    (marshalY_EnvFile_old (mkEnvFile "./a.env" true "raw")).bind decode_EnvFile = .ok (mkEnvFile "./a.env" true "") ∧
    (marshalY_EnvFile_old (mkEnvFile "./a.env" false "raw")).bind decode_EnvFile = .ok (mkEnvFile "./a.env" false "") := by
  constructor <;> rfl

/-- pre-repair: … and in JSON when the file is required -/
theorem envfile_format_lost_json :
    (marshalJ_EnvFile_old (mkEnvFile "./a.env" true "raw")).bind decode_EnvFile = .ok (mkEnvFile "./a.env" true "") := by
  rfl

/-- pre-repair: a soft/hard ulimit with a 0 was rendered in JSON without that key (omitempty) and the schema rejected it -/
theorem ulimits_json_zero :
    (marshalJ_Ulimits_old (mkUlimit 0 0 5)).bind decode_Ulimits = .err "schema" ∧
    (marshalJ_Ulimits_old (mkUlimit 0 0 0)).bind decode_Ulimits = .err "schema" := by
  constructor <;> rfl

/-- pre-repair: sorting whole `host=ip` lines reordered the addresses of one host -/
theorem hosts_reordered :
    (marshal_HostsList_old (.map [("multi", .seq [.str "2.2.2.2", .str "1.1.1.1"])])).bind decode_HostsList
      = .ok (.map [("multi", .seq [.str "1.1.1.1", .str "2.2.2.2"])]) := by
  rfl

/-! Still true on the current tree: hypotheses of the round-trip theorems that cannot be dropped. -/

/-- a value that does not come from the decoder (single limit *and* a pair) is not preserved: the canonical-form
    hypothesis of `custom_roundtrip_Ulimits_yaml` is needed -/
theorem ulimits_noncanonical :
    (marshalY_Ulimits (mkUlimit 5 1 2)).bind decode_Ulimits = .ok (mkUlimit 5 0 0) := by
  rfl

/-- an ssh key id containing `=` (possible through the mapping syntax) is cut at its first `=` on reload:
    the `=`-free hypothesis of `custom_roundtrip_SSHConfig` is needed -/
theorem sshkey_id_with_equals :
    (marshalY_SSHConfig (.seq [mkSSHKey "a=b" "x"])).bind decode_SSHConfig = .ok (.seq [mkSSHKey "a" "b=x"]) := by
  rfl

/-- an address containing a comma is split on reload: the `ipOK` hypothesis of `custom_roundtrip_HostsList` is needed -/
theorem hosts_comma_split :
    (marshal_HostsList (.map [("h", .seq [.str "1.1.1.1,2.2.2.2"])])).bind decode_HostsList
      = .ok (.map [("h", .seq [.str "1.1.1.1", .str "2.2.2.2"])]) := by
  rfl

/-- round 6 (recorded finding `reload-error:*:duplicates-loaded:*.ExtraHosts`): one host written with both separators
is loaded with its address twice, and rendered with the same line twice — a list the schema's `uniqueItems` refuses on
reload, while the source file (two different strings) passed it -/
theorem hosts_two_separators_duplicate :
    decode_HostsList (.seq [.str "h=1.2.3.4", .str "h:1.2.3.4"]) = .ok (.map [("h", .seq [.str "1.2.3.4", .str "1.2.3.4"])]) ∧
    marshal_HostsList (.map [("h", .seq [.str "1.2.3.4", .str "1.2.3.4"])]) = .ok (.seq [.str "h=1.2.3.4", .str "h=1.2.3.4"]) := by
  constructor <;> rfl

end CV.Neg.C09
