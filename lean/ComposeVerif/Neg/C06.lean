import ComposeVerif.Model.Include
import ComposeVerif.Model.IncludeResolve
import ComposeVerif.Lemmas.Include
/-!
# C06 — statements the tree falsified or still falsifies (concrete witnesses, `by decide`)

* **fixed (f077fe2)** — a relative `env_file` / `project_directory` of an include entry *inside an included file*
  was joined to the relative `workingDir` of the nested load and then resolved by the operating system against the
  process working directory.  The pre-fix behaviour is `plan` / `envFilesExplicit` called with the raw `workingDir`
  (what `includeOne` did before `baseDir`); the witnesses show the file that was consulted and the one that is now.
* **fixed (38d282a)** — the same resource reached through two include routes carries two different spellings of the
  same path at the moment `importResource` compares them; with plain `reflect.DeepEqual` (pre-fix) that is a
  conflict, with `sameResource` (compare again after resolving both against the including project's directory) it is not.

Each witness is replayed on the real loader from `corpus/C06/*.json`.
-/
namespace CV.Include.Neg
open CV CV.Val CV.Include

/-- a tree `/root/sub/{inc.yaml, my.env, pd/.env, deep/d.yaml}`; the process runs in `/cwd` -/
def W : World :=
  { cwd := "/cwd"
    isDir := fun p => p == "/root" || p == "/root/sub" || p == "/root/sub/pd" || p == "/root/sub/deep" || p == "/cwd"
    isFile := fun p => p == "/root/sub/my.env" || p == "/root/sub/pd/.env" || p == "/root/sub/deep/d.yaml"
    envFromFile := fun _ _ => .ok []
    loadModel := fun _ _ _ _ _ => .ok []
    -- `ResolveRelativePaths` on the one attribute the diamond witness uses (a bind source)
    resolveRes := fun base _ v => match v with
      | .map [("source", .str p)] => some (.map [("source", .str (join base p))])
      | v => some v }

/-- `sub/inc.yaml` is itself included from `/root/compose.yaml`: `ApplyInclude` sees `workingDir = "sub"` and a
local loader rooted at `/root/sub` -/
def wd : String := "sub"
def L : String := "/root/sub"

/-! ### nested relative `env_file` -/

/-- pre-fix: `env_file: my.env` is looked up as `sub/my.env` from the process working directory — not found -/
theorem nested_env_file_prefix : envFilesExplicit W wd ["my.env"] = .err "statNotFound" := by decide +kernel

/-- post-fix: it is the file next to the including file -/
theorem nested_env_file_fixed : envFilesExplicit W (baseDir wd L) ["my.env"] = .ok ["/root/sub/my.env"] := by decide +kernel

/-- the full-strength statement "the lookup does not depend on how the including project was reached" was false
before the fix: the same project loaded on its own (`workingDir = /root/sub`) finds the file -/
theorem env_file_anchor_refuted_prefix :
    ¬ (∀ (W : World) (rel abs : String) (f : List String), envFilesExplicit W rel f = envFilesExplicit W abs f) := by
  intro h
  have := h W wd L ["my.env"]
  revert this
  decide +kernel

/-! ### nested relative `project_directory` -/

def entry : IncCfg := { path := ["deep/d.yaml"], projectDirectory := "pd" }

/-- pre-fix: the project directory is the *relative* `sub/pd`; its `.env` is searched from `/cwd` and silently skipped -/
theorem nested_project_directory_prefix :
    plan W wd L [] entry = .ok ⟨"pd", "sub/pd", ["/root/sub/deep/d.yaml"]⟩ ∧
    envFiles W wd "sub/pd" [] = .ok [] := by decide +kernel

/-- post-fix: the project directory is absolute and its `.env` is found; the working directory handed to the sub-load
(`pd`, relative to the loader) is unchanged -/
theorem nested_project_directory_fixed :
    plan W (baseDir wd L) L [] entry = .ok ⟨"pd", "/root/sub/pd", ["/root/sub/deep/d.yaml"]⟩ ∧
    envFiles W (baseDir wd L) "/root/sub/pd" [] = .ok ["/root/sub/pd/.env"] := by decide +kernel

/-! ### the same resource through two routes -/

/-- bind source `f.txt` of `proj/s3/inc.yaml`: reached as `proj → inc1 → s3` and as `proj → ../top4 → /…/proj/inc1 → s3` -/
def route1 : String := join "." (join "s3" "f.txt")
def route2 : String := join "../top4" (join "../proj" (join "s3" "f.txt"))

/-- the two spellings differ, yet denote the same file once joined to the including project's directory … -/
theorem diamond_spellings_differ : route1 ≠ route2 ∧ join "/r/proj" route1 = join "/r/proj" route2 := by decide +kernel

/-- … so, pre-fix, `importResource` reported a conflict for a resource that is identical on both routes -/
theorem diamond_conflict_prefix :
    (importEntries (deepEqual "services") [("ser4", .map [("source", .str route2)])] [("ser4", .map [("source", .str route1)])]).errOf
      = some "conflict" := by
  decide +kernel

/-- post-fix: `sameResource` resolves both against the including project's directory and accepts -/
theorem diamond_fixed :
    (importEntries (sameResource W "/r/proj" "services") [("ser4", .map [("source", .str route2)])]
      [("ser4", .map [("source", .str route1)])]).isOk = true := by
  decide +kernel

/-- full strength "resources that are equal after resolution are accepted" was false for the pre-fix test -/
theorem identical_after_resolution_refuted_prefix :
    ¬ (∀ (base a b : String), join base a = join base b →
        (importEntries (deepEqual "secrets") [("r", .str a)] [("r", .str b)]).isOk = true) := by
  intro h
  have := h "/r/proj" route1 route2 (by decide +kernel)
  revert this
  decide +kernel

/-! ## still open: a relative `project_directory` that is not an existing directory

`relworkingdir = loader.Dir(r.ProjectDirectory)`: `localResourceLoader.Dir` is written for files ("the resource's parent
folder") and answers the directory itself only when it exists; otherwise the *parent*.  The included model's paths are
then resolved against the parent of the declared project directory, while `.env` and nested includes use the declared
one.  Replayed from `corpus/C06/missing-project_directory.json`
(finding `missing-project_directory:differs:services.*.build.context`). -/

/-- `/root/compose.yaml` includes `sub/inc.yaml` with `project_directory: nodir` (no such directory): paths are
resolved against `/root`, the project directory is `/root/nodir` -/
theorem anchor_is_projDir_refuted :
    ∃ pl, plan W "/root" "/root" ["/root/compose.yaml"] { path := ["sub/inc.yaml"], projectDirectory := "nodir" } = .ok pl ∧
      pl.relwd = "." ∧ pl.projDir = "/root/nodir" ∧ join "/root" pl.relwd = "/root" ∧
      join "/root" pl.relwd ≠ clean pl.projDir ∧ isAbs pl.relwd = false :=
  ⟨⟨".", "/root/nodir", ["/root/sub/inc.yaml"]⟩, by decide +kernel⟩

/-- the full-strength anchoring statement (`include_anchor_is_projDir_partial` without `PlanDirsExist`) is false -/
theorem include_anchor_is_projDir_full_refuted :
    ¬ (∀ (W : World) (L : String) (chain : List String) (r : IncCfg) (pl : Plan), isAbs L = true → r.path ≠ [] →
        plan W L L chain r = .ok pl →
        join L pl.relwd = clean pl.projDir ∨ (isAbs pl.relwd = true ∧ pl.relwd = pl.projDir)) := by
  intro h
  obtain ⟨pl, hpl, _, _, _, hne, hrel⟩ := anchor_is_projDir_refuted
  rcases h W "/root" ["/root/compose.yaml"] { path := ["sub/inc.yaml"], projectDirectory := "nodir" } pl
      (by decide +kernel) (by decide) hpl with hj | ⟨ha, _⟩
  · exact hne hj
  · rw [ha] at hrel; cases hrel

/-! ## still open: a config of an included file whose source variable only the included project's environment defines

Since a87ef4e the branch of `loadYamlModel` for an included model runs the services and the secrets resolver, not the
configs one; the including model resolves the imported config with its own environment.  `mod/.env` defines `MC`,
the parent does not: loaded on its own the config carries `from-mod`, through include nothing.  Replayed from
`corpus/C06/included-config-environment.json` (finding `config-environment:differs:configs.*.#content`). -/

def envParent : Env := []
def envIncluded : Env := envMerge envParent [("MC", "from-mod")]
def modModel : KVs := [("configs", .map [("cfg", .map [("environment", .str "MC")])]),
                       ("secrets", .map [("sec", .map [("environment", .str "MC")])])]

/-- on its own both carry the value; as an included model only the secret does; the including model's own resolution
(`resolveModelEnv false envParent`) adds nothing -/
theorem included_config_witness :
    veq (.map (resolveModelEnv false envIncluded modModel))
      (.map [("configs", .map [("cfg", .map [("environment", .str "MC"), ("content", .str "from-mod")])]),
             ("secrets", .map [("sec", .map [("environment", .str "MC"), ("x-#value", .str "from-mod")])])]) = true ∧
    veq (.map (resolveModelEnv false envParent (resolveModelEnv true envIncluded modModel)))
      (.map [("configs", .map [("cfg", .map [("environment", .str "MC")])]),
             ("secrets", .map [("sec", .map [("environment", .str "MC"), ("x-#value", .str "from-mod")])])]) = true := by
  decide +kernel

/-- the full-strength statement for configs (`IncludedConfigEqPaste`, `Props/C06Resolve.lean`) — resolved by the
including model = as loaded on its own, for every environment the include's extends — is false -/
theorem included_config_eq_paste_refuted :
    ¬ (∀ (envI envP : Env) (c : Val), (∀ k v, Env.get envP k = some v → Env.get envI k = some v) →
        resolveSource "content" envP c = resolveSource "content" envI c) := by
  intro h
  have e := h envIncluded envParent (.map [("environment", .str "MC")]) (by intro k v hk; cases hk)
  have d : veq (resolveSource "content" envParent (.map [("environment", .str "MC")]))
      (resolveSource "content" envIncluded (.map [("environment", .str "MC")])) = false := by decide +kernel
  rw [e, veq_refl] at d
  cases d

end CV.Include.Neg
