import ComposeVerif.Spec.Extends
/-!
# C05 — falsified statements (concrete witnesses, checked by evaluation)

1. **Pre-fix** (`Pre.*`, the model of the tracker as it was): `acyclic_ok` / `applyExtends_perm` at full
   strength were false — an acyclic chain that passes twice through services of the same *name* in
   different files was rejected as "Circular reference", and only in some visit orders of the services map
   (the tracker was fed `(referenced file, extending service's name)`, with the main file's name for every
   same-file step).  Repaired by `fix: the extends cycle tracker records the file the extending service
   lives in`; both theorems now hold at full strength (`Props/C05.lean`), `order_bc_ok` below is the old
   witness on the repaired model, corpus/C05/false-circular.json and order-dependent-circular.json replay
   it on the real code as regressions.
2. `no_extends_left` without the `NoNull` hypothesis: a `null` base leaves the extending service
   untouched, `extends` included (masked in whole loads: the schema rejects a `null` service).
3. (C01's finding, repaired by `fix: extends with a non-string service or file is reported as an error
   instead of panicking`) `extends: {file: f}` without `service` used to panic; on the repaired tree
   it is an error — `extends_without_service_is_error`.
-/
namespace CV.Extends.Neg
open CV CV.Val CV.Extends

def isOk {α : Type} : Out α → Bool
  | .ok _ => true
  | _ => false

def isErr {α : Type} (cls : String) : Out α → Bool
  | .err c => c == cls
  | _ => false

def isPanic {α : Type} (site : String) : Out α → Bool
  | .panic s => s == site
  | _ => false

/-- the string at key `k` -/
def strAt (k : String) (m : KVs) : String :=
  match lookup k m with
  | some (.str s) => s
  | _ => ""

/-- own attributes first, then the base's (first match wins on lookup): a stand-in for ExtendService -/
def simpleExtend (base over : KVs) : Out KVs := .ok (over ++ base)

/-- o.yaml: `b` extends `d` (same file), `d` is plain -/
def oYaml : KVs :=
  [("services", .map [("b", .map [("extends", .str "d"), ("cap_add", .str "CAP_BO")]),
                      ("d", .map [("image", .str "id")])])]

def env : Env := { mainFile := "/proj/compose.yaml", fs := [("o.yaml", .ok oYaml false)], extend := simpleExtend }

/-- main file: `b` extends `c`; `c` extends `b` of o.yaml.  The chain b → c → b@o.yaml → d@o.yaml is acyclic. -/
def dict : KVs :=
  [("services", .map [("b", .map [("extends", .str "c"), ("image", .str "ib")]),
                      ("c", .map [("extends", .map [("service", .str "b"), ("file", .str "o.yaml")])])])]

/-! ## the pre-fix tracker (the code before `fix: the extends cycle tracker records the file the extending
service lives in`): the key was `(referenced file, extending name)`, with the *main* file's name for every
same-file step.  `Pre.*` is the model of that code, kept so that the recorded defect stays a checked statement. -/
namespace Pre

def resolveBase (E : Env) (name ref : String) (file : Option String) (services : KVs) : Out (KVs × Key × Bool) :=
  match file with
  | none =>
    match lookup ref services with
    | none => .err "notFound"
    | some _ => .ok (services, (E.mainFile, name), true)
  | some f =>
    match baseFromFile E.fs f ref with
    | .ok svcs => .ok (svcs, (f, name), false)
    | .err c => .err c
    | .panic s => .panic s

def applySvc (E : Env) : Nat → String → KVs → List Key → Out (Val × KVs)
  | 0, _, _, _ => .panic fuelMark
  | fuel + 1, name, services, tr =>
    match lookup name services with
    | none => .ok (.null, services)
    | some .null => .ok (.null, services)
    | some (.map svc) =>
      (match lookup "extends" svc with
      | none => .ok (.map svc, services)
      | some e =>
        match parseExtends e with
        | .panic s => .panic s
        | .err c => .err c
        | .ok (ref, file) =>
          match resolveBase E name ref file services with
          | .panic s => .panic s
          | .err c => .err c
          | .ok (svcs, key, same) =>
            match trackerAdd tr key with
            | none => .err "circular"
            | some tr' =>
              match applySvc E fuel ref svcs tr' with
              | .panic s => .panic s
              | .err c => .err c
              | .ok (base, svcs') =>
                match base with
                | .null => .ok (.map svc, if same then svcs' else services)
                | .map b =>
                  (match E.extend b svc with
                  | .panic s => .panic s
                  | .err c => .err c
                  | .ok m =>
                    .ok (.map (erase "extends" m),
                         if same then insert name (.map (erase "extends" m)) svcs' else services))
                | _ => .panic panicSite)
    | some _ => .err "serviceNotMapping"

def applyAll (E : Env) (fuel : Nat) : List String → KVs → Out KVs
  | [], S => .ok S
  | n :: ns, S =>
    match applySvc E fuel n S [] with
    | .ok (v, S') => applyAll E fuel ns (insert n v S')
    | .err c => .err c
    | .panic s => .panic s

def applyExtendsOrd (E : Env) (order : List String) (dict : KVs) : Out KVs :=
  match lookup "services" dict with
  | none => .ok dict
  | some (.map S) =>
    match applyAll E (fuelFor E S) order S with
    | .ok S' => .ok (insert "services" (.map S') dict)
    | .err c => .err c
    | .panic s => .panic s
  | some _ => .err "servicesNotMapping"

/-- pre-fix: visiting `c` first succeeds … -/
theorem order_cb_ok : isOk (applyExtendsOrd env ["c", "b"] dict) = true := by decide

/-- … pre-fix: visiting `b` first reports a cycle that does not exist -/
theorem order_bc_circular : isErr "circular" (applyExtendsOrd env ["b", "c"] dict) = true := by decide

/-- `acyclic_ok` and the full-strength `applyExtends_perm` were false before the fix -/
theorem applyExtends_perm_fails :
    ¬ (∀ (E : Env) (d : KVs) (o₁ o₂ : List String), o₁.Perm o₂ →
        isOk (applyExtendsOrd E o₁ d) = isOk (applyExtendsOrd E o₂ d)) := by
  intro h
  have := h env dict ["c", "b"] ["b", "c"] (List.Perm.swap ..)
  rw [order_cb_ok] at this
  have h2 : isOk (applyExtendsOrd env ["b", "c"] dict) = false := by decide
  rw [h2] at this
  cases this

end Pre

/-- on the repaired tree both visit orders of the pre-fix witness succeed … -/
theorem order_cb_ok : isOk (applyExtendsOrd env ["c", "b"] dict) = true := by decide

theorem order_bc_ok : isOk (applyExtendsOrd env ["b", "c"] dict) = true := by decide

/-- the successful order resolves `b` to own-then-inherited attributes, without `extends` -/
theorem order_cb_value :
    (match applyExtendsOrd env ["c", "b"] dict with
     | .ok out => (match lookup "services" out with
        | some (.map R) => (match lookup "b" R with
          | some (.map m) => (strAt "image" m == "ib") && (strAt "cap_add" m == "CAP_BO")
                               && (lookup "extends" m).isNone
          | _ => false)
        | _ => false)
     | _ => false) = true := by decide

/-- a `null` base: the extending service keeps its `extends` attribute -/
def dictNull : KVs :=
  [("services", .map [("a", .map [("extends", .str "b"), ("image", .str "ia")]), ("b", .null)])]

theorem null_base_keeps_extends :
    (match applyExtendsOrd env ["a", "b"] dictNull with
     | .ok out => (match lookup "services" out with
        | some (.map R) => (match lookup "a" R with
          | some (.map m) => (lookup "extends" m).isSome
          | _ => false)
        | _ => false)
     | _ => false) = true := by decide

/-- `extends: {file: o.yaml}` without `service`: an error since the repair (a panic before it) -/
def dictNoService : KVs :=
  [("services", .map [("a", .map [("extends", .map [("file", .str "o.yaml")]), ("image", .str "ia")])])]

theorem extends_without_service_is_error :
    isErr "extendsServiceNotString" (applyExtendsOrd env ["a"] dictNoService) = true := by decide

/-- a non-string `file` likewise -/
def dictBadFile : KVs :=
  [("services", .map [("a", .map [("extends", .map [("service", .str "b"), ("file", .int 1)]), ("image", .str "ia")])])]

theorem extends_nonstring_file_is_error :
    isErr "extendsFileNotString" (applyExtendsOrd env ["a"] dictBadFile) = true := by decide

end CV.Extends.Neg
