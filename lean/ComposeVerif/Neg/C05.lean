import ComposeVerif.Spec.Extends
/-!
# C05 — statements the unchanged tree falsifies (concrete witnesses, checked by evaluation)

1. `acyclic_ok` / `applyExtends_perm` at full strength: an acyclic chain that passes twice through
   services of the same *name* in different files is rejected as "Circular reference" — and only in
   some visit orders of the services map (the tracker of loader/loader.go is fed
   `(referenced file, extending service's name)`, with the main file's name for every same-file step).
   Replayed on the real code: corpus/C05/false-circular.json, corpus/C05/order-dependent-circular.json.
2. `no_extends_left` without the `NoNull` hypothesis: a `null` base leaves the extending service
   untouched, `extends` included (masked in whole loads: the schema rejects a `null` service).
3. (C01's finding, repaired by `fix: extends with a non-string service or file is reported as an error
   instead of panicking`) `extends: {file: f}` without `service` used to panic; on the repaired tree
   it is an error — `extends_without_service_is_error`.
-/
namespace CV.Extends.Neg
open CV CV.Val CV.Extends

def isOk {α : Type} : Out α → Bool
  | .ok _ => true
  | _ => false

def isErr {α : Type} (cls : String) : Out α → Bool
  | .err c => c == cls
  | _ => false

def isPanic {α : Type} (site : String) : Out α → Bool
  | .panic s => s == site
  | _ => false

/-- the string at key `k` -/
def strAt (k : String) (m : KVs) : String :=
  match lookup k m with
  | some (.str s) => s
  | _ => ""

/-- own attributes first, then the base's (first match wins on lookup): a stand-in for ExtendService -/
def simpleExtend (base over : KVs) : Out KVs := .ok (over ++ base)

/-- o.yaml: `b` extends `d` (same file), `d` is plain -/
def oYaml : KVs :=
  [("services", .map [("b", .map [("extends", .str "d"), ("cap_add", .str "CAP_BO")]),
                      ("d", .map [("image", .str "id")])])]

def env : Env := { mainFile := "/proj/compose.yaml", fs := [("o.yaml", .ok oYaml false)], extend := simpleExtend }

/-- main file: `b` extends `c`; `c` extends `b` of o.yaml.  The chain b → c → b@o.yaml → d@o.yaml is acyclic. -/
def dict : KVs :=
  [("services", .map [("b", .map [("extends", .str "c"), ("image", .str "ib")]),
                      ("c", .map [("extends", .map [("service", .str "b"), ("file", .str "o.yaml")])])])]

/-- visiting `c` first succeeds … -/
theorem order_cb_ok : isOk (applyExtendsOrd env ["c", "b"] dict) = true := by decide

/-- … visiting `b` first reports a cycle that does not exist -/
theorem order_bc_circular : isErr "circular" (applyExtendsOrd env ["b", "c"] dict) = true := by decide

/-- `acyclic_ok` and the full-strength `applyExtends_perm` are false on the unchanged tree -/
theorem applyExtends_perm_fails :
    ¬ (∀ (E : Env) (d : KVs) (o₁ o₂ : List String), o₁.Perm o₂ →
        isOk (applyExtendsOrd E o₁ d) = isOk (applyExtendsOrd E o₂ d)) := by
  intro h
  have := h env dict ["c", "b"] ["b", "c"] (List.Perm.swap ..)
  rw [order_cb_ok] at this
  have h2 : isOk (applyExtendsOrd env ["b", "c"] dict) = false := by decide
  rw [h2] at this
  cases this

/-- the successful order resolves `b` to own-then-inherited attributes, without `extends` -/
theorem order_cb_value :
    (match applyExtendsOrd env ["c", "b"] dict with
     | .ok out => (match lookup "services" out with
        | some (.map R) => (match lookup "b" R with
          | some (.map m) => (strAt "image" m == "ib") && (strAt "cap_add" m == "CAP_BO")
                               && (lookup "extends" m).isNone
          | _ => false)
        | _ => false)
     | _ => false) = true := by decide

/-- a `null` base: the extending service keeps its `extends` attribute -/
def dictNull : KVs :=
  [("services", .map [("a", .map [("extends", .str "b"), ("image", .str "ia")]), ("b", .null)])]

theorem null_base_keeps_extends :
    (match applyExtendsOrd env ["a", "b"] dictNull with
     | .ok out => (match lookup "services" out with
        | some (.map R) => (match lookup "a" R with
          | some (.map m) => (lookup "extends" m).isSome
          | _ => false)
        | _ => false)
     | _ => false) = true := by decide

/-- `extends: {file: o.yaml}` without `service`: an error since the repair (a panic before it) -/
def dictNoService : KVs :=
  [("services", .map [("a", .map [("extends", .map [("file", .str "o.yaml")]), ("image", .str "ia")])])]

theorem extends_without_service_is_error :
    isErr "extendsServiceNotString" (applyExtendsOrd env ["a"] dictNoService) = true := by decide

/-- a non-string `file` likewise -/
def dictBadFile : KVs :=
  [("services", .map [("a", .map [("extends", .map [("service", .str "b"), ("file", .int 1)]), ("image", .str "ia")])])]

theorem extends_nonstring_file_is_error :
    isErr "extendsFileNotString" (applyExtendsOrd env ["a"] dictBadFile) = true := by decide

end CV.Extends.Neg
