import ComposeVerif.Props.C14
/-!
# C14 — proved negations: each hypothesis of the property theorems is necessary

These are concrete witnesses (`by decide`).  `receiver_escape_breaks_isolation` is the shape of the defect that
`Project.WithoutUnnecessaryResources` had before the `fix:` commit (it stored the *receiver's* resource values, whose
maps are the receiver's, into the result); the real-code replay is `corpus/C14/without-unnecessary-resources-alias.json`.
-/
namespace CV.Heap

/-- receiver: a project with one network whose labels map lives at address 2 -/
def negRecv : GoVal := .struct [(.fld 0, .map 1 [(.str "net", .struct [(.fld 1, .map 2 [(.str "l", .scalar "s:v")])])])]
def negTy : Ty := .struct [(0, .map (.struct [(1, .map .scalar)]))]
def negPlan : Plan := .fields [(0, .newMap (.fields [(1, .newMap .assign)]))]

/-- `networks[k] = p.Networks[k]`: the new map (address 3, the copy's) receives the receiver's network value -/
def negWrites : List (Nat × Cell) := [(3, .kids [(.str "net", .struct [(.fld 1, .map 2 [(.str "l", .scalar "s:v")])])])]

/-- without `Confined` (a derivation that stores a value read from the *receiver* into the copy) the result shares the
receiver's memory, and a write through the result then changes the receiver: `derivation_isolated` needs its hypothesis. -/
theorem receiver_escape_breaks_isolation :
    hasTy negTy negRecv = true ∧ deep negTy negPlan = true ∧ covers negTy negPlan = true ∧
    2 ∈ addrs (writes negWrites (exec negPlan negRecv 3).1) ∧ 2 ∈ addrs negRecv ∧
    write 2 (.kids [(.str "l", .scalar "s:mutated")]) negRecv ≠ negRecv := by
  refine ⟨by decide, by decide, by decide, by decide, by decide, ?_⟩
  simp [negRecv, write, writeKids]

/-- a shallow plan (assignment of a map-typed field) is not `deep`, and its result shares the map -/
theorem shallow_plan_shares :
    deep negTy (.fields [(0, .assign)]) = false ∧ covers negTy (.fields [(0, .assign)]) = true ∧
    1 ∈ addrs (exec (.fields [(0, .assign)]) negRecv 3).1 := by
  decide

/-- a plan that misses a field (a struct field added without regenerating the copy code) does not `cover`, and the copy
loses the field's value -/
theorem uncovered_field_is_lost :
    covers negTy (.fields []) = false ∧ deep negTy (.fields []) = true ∧
    erase (exec (.fields []) negRecv 3).1 ≠ erase negRecv := by
  refine ⟨by decide, by decide, ?_⟩
  simp [negRecv, exec, execFields, lookupPlan, zero, erase, eraseKids]

end CV.Heap
