import ComposeVerif.Lemmas.Graph
/-!
# C10 — statements the unchanged tree falsifies (DESIGN §10 #5, findings/C10.txt)

`graph.newGraph` executes `delete(s.DependsOn, name)` — the service's *own* name, not `dep` — when it meets an
optional dependency that is not an enabled service.  A self-dependency that has not been reached yet by the
`range` is thereby removed and never enters the graph.  Replayed on the real code by
`corpus/C10/newgraph-selfdep-optional-disabled.json` (oracle key
`accepted-cyclic:graph.newGraph:self-dependency+optional-dependency-on-disabled-service`).
-/
namespace CV.Consistency.Neg

/-- service `a` depends on itself and, optionally, on the profile-disabled `x`; Go happens to range `x` first -/
def witness : Proj :=
  { services := [("a", { image := "i", dependsOn := [("x", false), ("a", true)] })], disabled := ["x"] }

/-- the same project, `a` ranged first -/
def witness' : Proj :=
  { services := [("a", { image := "i", dependsOn := [("a", true), ("x", false)] })], disabled := ["x"] }

theorem witness_accepted : checkConsistency witness = none := by decide

theorem witness_cyclic : ¬ Acyclic witness := fun h =>
  h "a" (.single ⟨{ image := "i", dependsOn := [("x", false), ("a", true)] }, by decide, by decide, true, by decide⟩)

/-- "accepted ⇒ consistent" is false for the code as it is -/
theorem not_consistency_sound : ¬ (∀ p : Proj, p.enabled.Nodup → checkConsistency p = none → Consistent p) := fun h =>
  witness_cyclic (h witness (by decide) witness_accepted).2

/-- "a cyclic dependency graph is rejected" is false for the code as it is -/
theorem not_consistency_complete_cycle :
    ¬ (∀ p : Proj, p.enabled.Nodup → ¬ Acyclic p → ∃ e, checkConsistency p = some e) := fun h => by
  obtain ⟨e, he⟩ := h witness (by decide) witness_cyclic
  rw [witness_accepted] at he
  cases he

/-- the verdict depends on Go's map iteration order: the two orders of one `depends_on` map disagree -/
theorem checkConsistency_order_dependent :
    witness'.services.map Prod.fst = witness.services.map Prod.fst ∧
    (∀ s s', ("a", s) ∈ witness.services → ("a", s') ∈ witness'.services → s'.dependsOn.Perm s.dependsOn) ∧
    checkConsistency witness = none ∧ checkConsistency witness' = some .cycle := by
  refine ⟨by decide, ?_, by decide, by decide⟩
  intro s s' hs hs'
  simp only [witness, witness', List.mem_cons, List.not_mem_nil, or_false, Prod.mk.injEq, true_and] at hs hs'
  subst hs hs'
  exact List.Perm.swap ..

/-- the accepted project is also *modified*: the self edge disappears from the returned project -/
theorem witness_mutated : ((postState witness).services.map fun e => e.2.dependsOn) = [[("x", false)]] := by decide

/-- the hypothesis of the `_partial` theorems is exactly what the witness lacks -/
theorem witness_ambiguous : ¬ NoAmbiguousSelfDep witness := fun h => by
  have := h ("a", { image := "i", dependsOn := [("x", false), ("a", true)] }) (by decide) ⟨true, by decide⟩ ("x", false) (by decide)
  revert this
  decide

end CV.Consistency.Neg
