import ComposeVerif.Lemmas.Graph
/-!
# C10 — what the tree did *before* `fix:` 3143716 (DESIGN §10 #5, findings/C10.txt)

`graph.newGraph` executed `delete(s.DependsOn, name)` — the service's *own* name, not `dep` — when it met an
optional dependency that is not an enabled service.  A self-dependency that had not been reached yet by the
`range` was thereby removed and never entered the graph.  The function as it was is kept here (`newGraphOld`, as
`Neg/C07.lean` keeps `firstCloseGoOld`); the witnesses show what was false then and true now.
Oracle key of the repaired defect: `accepted-cyclic:graph.newGraph:self-dependency+optional-dependency-on-disabled-service`
(corpus/C10/newgraph-selfdep-optional-disabled.json now passes).
-/
namespace CV.Consistency.Neg

/-- the inner loop as it was: `del` = `delete(s.DependsOn, name)` already happened -/
def edgesOfOld (verts disabled : List String) (name : String) : Bool → List (String × Bool) → Except Err (List String)
  | _, [] => .ok []
  | del, (dep, req) :: rest =>
    if del && dep == name then edgesOfOld verts disabled name del rest     -- removed before being reached
    else if verts.contains dep then
      match edgesOfOld verts disabled name del rest with
      | .ok es => .ok (dep :: es)
      | .error e => .error e
    else if req then .error (if disabled.contains dep then .requiredDisabled else .unknownService)
    else edgesOfOld verts disabled name true rest                           -- delete(s.DependsOn, name); continue

def buildGraphOld (verts disabled : List String) : List (String × Svc) → Except Err Graph
  | [] => .ok []
  | (n, s) :: r =>
    match edgesOfOld verts disabled n false s.dependsOn with
    | .error e => .error e
    | .ok es =>
      match buildGraphOld verts disabled r with
      | .error e => .error e
      | .ok g => .ok ((n, es) :: g)

def newGraphOld (p : Proj) : Except Err Graph := buildGraphOld p.enabled p.disabled p.services

def checkCycleProjOld (p : Proj) : Option Err :=
  match newGraphOld p with
  | .error e => some e
  | .ok g => guard (hasCycle g) .cycle

def checkConsistencyOld (p : Proj) : Option Err :=
  orE (p.services.findSome? fun e => checkSvc p e.2) <|
  orE (p.secrets.findSome? fun e => checkSecret e.2) <|
  checkCycleProjOld p

/-- the caller's `depends_on` of a service after the old loop -/
def depsAfterOld (verts : List String) (n : String) (s : Svc) : List (String × Bool) :=
  if s.dependsOn.any (fun d => !verts.contains d.1 && !d.2) then s.dependsOn.filter (fun d => d.1 != n) else s.dependsOn

/-- service `a` depends on itself and, optionally, on the profile-disabled `x`; Go happens to range `x` first -/
def witness : Proj :=
  { services := [("a", { image := "i", dependsOn := [("x", false), ("a", true)] })], disabled := ["x"] }

/-- the same project, `a` ranged first -/
def witness' : Proj :=
  { services := [("a", { image := "i", dependsOn := [("a", true), ("x", false)] })], disabled := ["x"] }

theorem witness_accepted_old : checkConsistencyOld witness = none := by decide

theorem witness_cyclic : ¬ Acyclic witness := fun h =>
  h "a" (.single ⟨{ image := "i", dependsOn := [("x", false), ("a", true)] }, by decide, by decide, true, by decide⟩)

/-- "accepted ⇒ consistent" was false -/
theorem not_consistency_sound_old :
    ¬ (∀ p : Proj, p.enabled.Nodup → checkConsistencyOld p = none → Consistent p) := fun h =>
  witness_cyclic (h witness (by decide) witness_accepted_old).2

/-- "a cyclic dependency graph is rejected" was false -/
theorem not_consistency_complete_cycle_old :
    ¬ (∀ p : Proj, p.enabled.Nodup → ¬ Acyclic p → ∃ e, checkConsistencyOld p = some e) := fun h => by
  obtain ⟨e, he⟩ := h witness (by decide) witness_cyclic
  rw [witness_accepted_old] at he
  cases he

/-- the verdict depended on Go's map iteration order: the two orders of one `depends_on` map disagreed -/
theorem checkConsistency_order_dependent_old :
    (∀ s s', ("a", s) ∈ witness.services → ("a", s') ∈ witness'.services → s'.dependsOn.Perm s.dependsOn) ∧
    checkConsistencyOld witness = none ∧ checkConsistencyOld witness' = some .cycle := by
  refine ⟨?_, by decide, by decide⟩
  intro s s' hs hs'
  simp only [witness, witness', List.mem_cons, List.not_mem_nil, or_false, Prod.mk.injEq, true_and] at hs hs'
  subst hs hs'
  exact List.Perm.swap ..

/-- the accepted project was also *modified*: the self edge disappeared from the caller's project -/
theorem witness_mutated_old :
    (witness.services.map fun e => depsAfterOld witness.enabled e.1 e.2) = [[("x", false)]] := by decide

/-- **after the repair** both orders are rejected, and nothing is deleted -/
theorem witness_rejected_now : checkConsistency witness = some .cycle ∧ checkConsistency witness' = some .cycle := by
  decide

end CV.Consistency.Neg
