import ComposeVerif.Lemmas.TravInvS
import ComposeVerif.Lemmas.DepGraph
/-!
# C13 — statements that were / are falsified by the code (concrete witnesses)

**Before the repair of DESIGN §10 #12** (`fix:` commit in graph/traversal.go: the coordinator waits for `spawned`)
`bounded` was false: after a visitor error the coordinator left through `ctx.Done()` and freed its errgroup slot while
the caller was still looping over the extremities, so `n + 1` workers fitted.  The pre-repair rule is kept here as
`stepPre?` (identical to `Trav.step?` except for `cCtxDone`), the witness schedule `overrun` reaches two running
visitors under limit 1 with it, and the repaired model refuses the same schedule.  `corpus/C13/bound-after-error.json`
replays the schedule on the real code (it must now stay within the bound).
-/
namespace CV.Trav

/-- three independent services -/
def three : Graph := { verts := [0, 1, 2], pre := fun _ => [], post := fun _ => [], skip := fun _ => false }

theorem three_ok : GraphOK three where
  nodup := by decide
  nonempty := by decide
  pre_mem := by decide
  post_mem := by decide
  pre_post := by decide
  rank := ⟨fun _ => 0, by decide⟩

/-- the transition function of the code before the repair: `case <-ctx.Done(): return nil` at once -/
def stepPre? (g : Graph) (limit : Option Nat) (s : St) : Label → Option St
  | .cCtxDone => if s.cAlive && s.cSched.isNone && s.cancelled then some { s with cAlive := false } else none
  | l => step? g limit s l

def runLPre (g : Graph) (lim : Option Nat) (s : St) : List Label → Option St
  | [] => some s
  | l :: ls => (stepPre? g lim s l).bind (runLPre g lim · ls)

/-- limit 1: service 0 fails and exits (cancelling the context, freeing its slot); the caller spawns 1; the coordinator
sees `ctx.Done()` and returns (freeing the *coordinator's* slot); the caller spawns 2: two visitors run at once -/
def overrun : List Label :=
  [.schedNext .M 0, .ready .M, .enter .M, .spawn .M, .schedNext .M 1, .ready .M, .enter .M,
   .wBegin 0, .wReturn 0 true, .wDone 0, .wSend 0, .wExit 0,
   .spawn .M, .cCtxDone, .schedNext .M 2, .ready .M, .enter .M, .spawn .M, .wBegin 1, .wBegin 2]

/-- pre-repair: two visitors at once under `WithMaxConcurrency(1)` -/
theorem overrun_pre_repair_runs_two : (runLPre three (some 1) (init three) overrun).map running = some 2 := by decide

/-- repaired: the coordinator cannot leave while the caller is still in its loop, the schedule is not a schedule -/
theorem overrun_refused_after_repair : (runL three (some 1) (init three) overrun).isNone = true := by decide

end CV.Trav

/-! ### graph construction (`newGraph`): the project is modified, and a cyclic project can be accepted

DESIGN §10 #5, replayed on the real code by `corpus/C13/self-dependency-optional-missing*.json`
(oracle keys `project-modified:self-dependency+optional-missing-dependency`,
`cycle-accepted:self-dependency+optional-missing-dependency`). -/
namespace CV.DepGraph

/-- service 0 depends (optionally) on 9, which is not a service, and on itself; the optional entry is iterated first -/
def quirkFirst : Proj := ⟨[⟨0, [⟨9, false⟩, ⟨0, true⟩]⟩], []⟩
/-- the same map iterated in the other order -/
def quirkLast : Proj := ⟨[⟨0, [⟨0, true⟩, ⟨9, false⟩]⟩], []⟩

/-- "the project is not modified" is false: in both orders the caller's `depends_on` of service 0 loses an entry -/
theorem project_unmodified_false : ¬ ∀ p : Proj, (run p).changed = [] := by
  intro h
  have := h quirkFirst
  revert this
  decide

theorem project_modified_both_orders : (run quirkFirst).changed = [0] ∧ (run quirkLast).changed = [0] := by decide

/-- "a cyclic graph is refused" is false: service 0 depends on itself, yet the outcome is `ok` when the optional
missing dependency is iterated first (and `cycle` in the other order: the answer depends on Go's map order) -/
theorem cyclic_refused_false : (run quirkFirst).cls = "ok" ∧ (run quirkLast).cls = "cycle" := by decide

end CV.DepGraph
