import ComposeVerif.Lemmas.TravInvS
import ComposeVerif.Lemmas.DepGraph
/-!
# C13 — statements that were / are falsified by the code (concrete witnesses)

**Before the repair of DESIGN §10 #12** (`fix:` commit in graph/traversal.go: the coordinator waits for `spawned`)
`bounded` was false: after a visitor error the coordinator left through `ctx.Done()` and freed its errgroup slot while
the caller was still looping over the extremities, so `n + 1` workers fitted.  The pre-repair rule is kept here as
`stepPre?` (identical to `Trav.step?` except for `cCtxDone`), the witness schedule `overrun` reaches two running
visitors under limit 1 with it, and the repaired model refuses the same schedule.  `corpus/C13/bound-after-error.json`
replays the schedule on the real code (it must now stay within the bound).
-/
namespace CV.Trav

/-- three independent services -/
def three : Graph := { verts := [0, 1, 2], pre := fun _ => [], post := fun _ => [], skip := fun _ => false }

theorem three_ok : GraphOK three where
  nodup := by decide
  nonempty := by decide
  pre_mem := by decide
  post_mem := by decide
  pre_post := by decide
  rank := ⟨fun _ => 0, by decide⟩

/-- the transition function of the code before the repair: `case <-ctx.Done(): return nil` at once -/
def stepPre? (g : Graph) (limit : Option Nat) (s : St) : Label → Option St
  | .cCtxDone => if s.cAlive && s.cSched.isNone && s.cancelled then some { s with cAlive := false } else none
  | l => step? g limit s l

def runLPre (g : Graph) (lim : Option Nat) (s : St) : List Label → Option St
  | [] => some s
  | l :: ls => (stepPre? g lim s l).bind (runLPre g lim · ls)

/-- limit 1: service 0 fails and exits (cancelling the context, freeing its slot); the caller spawns 1; the coordinator
sees `ctx.Done()` and returns (freeing the *coordinator's* slot); the caller spawns 2: two visitors run at once -/
def overrun : List Label :=
  [.schedNext .M 0, .ready .M, .enter .M, .spawn .M, .schedNext .M 1, .ready .M, .enter .M,
   .wBegin 0, .wReturn 0 true, .wDone 0, .wSend 0, .wExit 0,
   .spawn .M, .cCtxDone, .schedNext .M 2, .ready .M, .enter .M, .spawn .M, .wBegin 1, .wBegin 2]

/-- pre-repair: two visitors at once under `WithMaxConcurrency(1)` -/
theorem overrun_pre_repair_runs_two : (runLPre three (some 1) (init three) overrun).map running = some 2 := by decide

/-- repaired: the coordinator cannot leave while the caller is still in its loop, the schedule is not a schedule -/
theorem overrun_refused_after_repair : (runL three (some 1) (init three) overrun).isNone = true := by decide

end CV.Trav

/-! ### graph construction (`newGraph`) before `fix:` 3143716: the project was modified, a cyclic project could be accepted

DESIGN §10 #5.  The function as it was (`delete(s.DependsOn, name)` with the service's own name, on the caller's map,
while ranging over it) is kept as `runOld`; `corpus/C13/self-dependency-optional-missing*.json` replay the witnesses on
the real code, which now refuses them (oracle keys of the repaired defect:
`project-modified:self-dependency+optional-missing-dependency`, `cycle-accepted:self-dependency+optional-missing-dependency`). -/
namespace CV.DepGraph

/-- the old inner loop: error (if any), the edges added, and whether the `delete` ran -/
def scanDepsOld (en dis : List Name) (self : Name) : List Dep → List Name → Bool → Option Err × List Name × Bool
  | [], es, del => (none, es, del)
  | d :: rest, es, del =>
    if del && d.name == self then scanDepsOld en dis self rest es del       -- deleted before the range reached it
    else if en.contains d.name then scanDepsOld en dis self rest (es ++ [d.name]) del
    else if d.required then (some (if dis.contains d.name then .disabled else .unknown), es, del)
    else scanDepsOld en dis self rest es true                               -- delete(s.DependsOn, name); continue

def depsAfterOld (self : Name) (deps : List Dep) (del : Bool) : List Dep :=
  if del then deps.filter (fun d => d.name != self) else deps

def buildOld (en dis : List Name) : List Svc → List (Name × List Name) → List Svc → Option Err × List (Name × List Name) × List Svc
  | [], adj, done => (none, adj, done)
  | s :: rest, adj, done =>
    match scanDepsOld en dis s.name s.deps [] false with
    | (none, es, del) => buildOld en dis rest (adj ++ [(s.name, es)]) (done ++ [⟨s.name, depsAfterOld s.name s.deps del⟩])
    | (some e, _, del) => (some e, adj, done ++ ⟨s.name, depsAfterOld s.name s.deps del⟩ :: rest)

def changedOfOld (before after : List Svc) : List Name :=
  (before.zip after).filterMap fun (a, b) => if a.deps == b.deps then none else some a.name

def runOld (p : Proj) : Outcome :=
  let en := p.services.map (·.name)
  match buildOld en p.disabled p.services [] [] with
  | (some e, _, after) =>
    { cls := match e with | .disabled => "disabled" | .unknown => "unknown" | .cycle => "cycle", changed := changedOfOld p.services after }
  | (none, adj, after) =>
    { cls := if checkCycle en (adjOf adj) then "cycle" else "ok", changed := changedOfOld p.services after }

/-- service 0 depends (optionally) on 9, which is not a service, and on itself; the optional entry is iterated first -/
def quirkFirst : Proj := ⟨[⟨0, [⟨9, false⟩, ⟨0, true⟩]⟩], []⟩
/-- the same map iterated in the other order -/
def quirkLast : Proj := ⟨[⟨0, [⟨0, true⟩, ⟨9, false⟩]⟩], []⟩

/-- "the project is not modified" was false: in both orders the caller's `depends_on` of service 0 lost an entry -/
theorem project_unmodified_false : ¬ ∀ p : Proj, (runOld p).changed = [] := by
  intro h
  have := h quirkFirst
  revert this
  decide

theorem project_modified_both_orders : (runOld quirkFirst).changed = [0] ∧ (runOld quirkLast).changed = [0] := by decide

/-- "a cyclic graph is refused" was false: service 0 depends on itself, yet the outcome was `ok` when the optional
missing dependency was iterated first (and `cycle` in the other order) -/
theorem cyclic_refused_false : (runOld quirkFirst).cls = "ok" ∧ (runOld quirkLast).cls = "cycle" := by decide

/-- **after the repair**: refused in both orders, nothing changed -/
theorem quirk_refused_now : run quirkFirst = ⟨"cycle", []⟩ ∧ run quirkLast = ⟨"cycle", []⟩ := by decide

end CV.DepGraph

/-! ### round 6: "after an error no new visitor starts" is false for `walk` (and is not what the property says)

A failing worker runs `t.done` (status `visited`) and hands its vertex to the coordinator *before* it returns its error to
the errgroup; `visit` never looks at the context.  So the coordinator may already be scheduling the dependents when the
error is recorded, and goes on to claim and spawn them; and even afterwards its `select` may prefer `nodeCh` to
`ctx.Done()`.  The property only promises that `walk` returns the first error after every started visit has returned.
`corpus/C13/start-after-error.json` replays the witness schedule on the real code (scripted; the judge insists that a
visitor really is entered after a failed worker's exit).  What does hold is `Props/C13Lts.lean no_new_worker_after_cancel_partial`. -/
namespace CV.Trav

/-- the full-strength statement: from the moment an error is recorded no further visitor is entered -/
def ErrorStopsNewVisits (g : Graph) (lim : Option Nat) : Prop :=
  ∀ s l s', Reach g lim s → s.firstErr ≠ none → step? g lim s l = some s' → starts s'.log = starts s.log

/-- 1 depends on 0 -/
def chain2 : Graph :=
  { verts := [0, 1], pre := fun v => if v = 1 then [0] else [], post := fun v => if v = 0 then [1] else [],
    skip := fun _ => false }

/-- 0 fails; the coordinator receives 0 and picks 1 before worker 0 returns its error; then — error recorded, context
cancelled — it tests, claims and spawns 1 -/
def lateStart : List Label :=
  [.schedNext .M 0, .ready .M, .enter .M, .spawn .M, .schedEnd .M, .wBegin 0, .wReturn 0 true, .wDone 0, .wSend 0,
   .cRecv, .schedNext .C 1, .wExit 0, .ready .C, .enter .C, .spawn .C, .schedEnd .C]

theorem lateStart_witness :
    (runL chain2 none (init chain2) lateStart).bind (fun s => (step? chain2 none s (.wBegin 1)).map
      (fun s' => (s.firstErr, s.cancelled, starts s.log, starts s'.log))) = some (some 0, true, [0], [1, 0]) := by decide

theorem error_stops_new_visits_false : ¬ ErrorStopsNewVisits chain2 none := by
  intro H
  have key := lateStart_witness
  cases h1 : runL chain2 none (init chain2) lateStart with
  | none => rw [h1] at key; cases key
  | some s =>
    rw [h1] at key
    simp only [Option.bind_some] at key
    cases h2 : step? chain2 none s (.wBegin 1) with
    | none => rw [h2] at key; cases key
    | some s' =>
      rw [h2] at key
      simp only [Option.map_some, Option.some.injEq, Prod.mk.injEq] at key
      obtain ⟨hf, _, ha, hb⟩ := key
      have := H s _ s' (reach_runL Reach.init lateStart h1) (by rw [hf]; simp) h2
      rw [ha, hb] at this
      cases this

end CV.Trav
