import ComposeVerif.Lemmas.TravInvS
import ComposeVerif.Lemmas.DepGraph
/-!
# C13 — statements the unchanged tree falsifies (concrete witnesses)

`bounded` at full strength ("never more than `n` visitors at once under `WithMaxConcurrency(n)`") is false:
after a visitor error the coordinator leaves through `ctx.Done()` and frees its errgroup slot while the caller is
still looping over the extremities, so `n + 1` workers fit (DESIGN §10 #12).  The witness below is replayed on the
real `graph.InDependencyOrder` by `corpus/C13/bound-after-error.json` (oracle key `bound:max+1-after-error`).
The provable statements are `bounded_partial` (no error yet) and `bounded_plus_one` in `Props/C13.lean`.
-/
namespace CV.Trav

/-- three independent services -/
def three : Graph := { verts := [0, 1, 2], pre := fun _ => [], post := fun _ => [], skip := fun _ => false }

theorem three_ok : GraphOK three where
  nodup := by decide
  nonempty := by decide
  pre_mem := by decide
  post_mem := by decide
  pre_post := by decide
  rank := ⟨fun _ => 0, by decide⟩

/-- limit 1: service 0 fails and exits (cancelling the context, freeing its slot); the caller spawns 1; the coordinator
sees `ctx.Done()` and returns (freeing the *coordinator's* slot); the caller spawns 2: two visitors run at once -/
def overrun : List Label :=
  [.schedNext .M 0, .ready .M, .enter .M, .spawn .M, .schedNext .M 1, .ready .M, .enter .M,
   .wBegin 0, .wReturn 0 true, .wDone 0, .wSend 0, .wExit 0,
   .spawn .M, .cCtxDone, .schedNext .M 2, .ready .M, .enter .M, .spawn .M, .wBegin 1, .wBegin 2]

theorem overrun_runs_two : (runL three (some 1) (init three) overrun).map running = some 2 := by decide

/-- the full-strength bound does not hold for the model of the code as it is -/
theorem bounded_full_false :
    ¬ ∀ (g : Graph) (n : Nat) (s : St), GraphOK g → Reach g (some n) s → running s ≤ n := by
  intro H
  have h := overrun_runs_two
  cases hr : runL three (some 1) (init three) overrun with
  | none => rw [hr] at h; cases h
  | some s =>
    rw [hr] at h
    have h2 : running s = 2 := by simpa using h
    have := H three 1 s three_ok (reach_runL .init overrun hr)
    omega

end CV.Trav

/-! ### graph construction (`newGraph`): the project is modified, and a cyclic project can be accepted

DESIGN §10 #5, replayed on the real code by `corpus/C13/self-dependency-optional-missing*.json`
(oracle keys `project-modified:self-dependency+optional-missing-dependency`,
`cycle-accepted:self-dependency+optional-missing-dependency`). -/
namespace CV.DepGraph

/-- service 0 depends (optionally) on 9, which is not a service, and on itself; the optional entry is iterated first -/
def quirkFirst : Proj := ⟨[⟨0, [⟨9, false⟩, ⟨0, true⟩]⟩], []⟩
/-- the same map iterated in the other order -/
def quirkLast : Proj := ⟨[⟨0, [⟨0, true⟩, ⟨9, false⟩]⟩], []⟩

/-- "the project is not modified" is false: in both orders the caller's `depends_on` of service 0 loses an entry -/
theorem project_unmodified_false : ¬ ∀ p : Proj, (run p).changed = [] := by
  intro h
  have := h quirkFirst
  revert this
  decide

theorem project_modified_both_orders : (run quirkFirst).changed = [0] ∧ (run quirkLast).changed = [0] := by decide

/-- "a cyclic graph is refused" is false: service 0 depends on itself, yet the outcome is `ok` when the optional
missing dependency is iterated first (and `cycle` in the other order: the answer depends on Go's map order) -/
theorem cyclic_refused_false : (run quirkFirst).cls = "ok" ∧ (run quirkLast).cls = "cycle" := by decide

end CV.DepGraph
