import ComposeVerif.Lemmas.TravInvS
/-!
# C13 — statements the unchanged tree falsifies (concrete witnesses)

`bounded` at full strength ("never more than `n` visitors at once under `WithMaxConcurrency(n)`") is false:
after a visitor error the coordinator leaves through `ctx.Done()` and frees its errgroup slot while the caller is
still looping over the extremities, so `n + 1` workers fit (DESIGN §10 #12).  The witness below is replayed on the
real `graph.InDependencyOrder` by `corpus/C13/bound-after-error.json` (oracle key `bound:max+1-after-error`).
The provable statements are `bounded_partial` (no error yet) and `bounded_plus_one` in `Props/C13.lean`.
-/
namespace CV.Trav

/-- three independent services -/
def three : Graph := { verts := [0, 1, 2], pre := fun _ => [], post := fun _ => [], skip := fun _ => false }

theorem three_ok : GraphOK three where
  nodup := by decide
  nonempty := by decide
  pre_mem := by decide
  post_mem := by decide
  pre_post := by decide
  rank := ⟨fun _ => 0, by decide⟩

/-- limit 1: service 0 fails and exits (cancelling the context, freeing its slot); the caller spawns 1; the coordinator
sees `ctx.Done()` and returns (freeing the *coordinator's* slot); the caller spawns 2: two visitors run at once -/
def overrun : List Label :=
  [.schedNext .M 0, .ready .M, .enter .M, .spawn .M, .schedNext .M 1, .ready .M, .enter .M,
   .wBegin 0, .wReturn 0 true, .wDone 0, .wSend 0, .wExit 0,
   .spawn .M, .cCtxDone, .schedNext .M 2, .ready .M, .enter .M, .spawn .M, .wBegin 1, .wBegin 2]

theorem overrun_runs_two : (runL three (some 1) (init three) overrun).map running = some 2 := by decide

/-- the full-strength bound does not hold for the model of the code as it is -/
theorem bounded_full_false :
    ¬ ∀ (g : Graph) (n : Nat) (s : St), GraphOK g → Reach g (some n) s → running s ≤ n := by
  intro H
  have h := overrun_runs_two
  cases hr : runL three (some 1) (init three) overrun with
  | none => rw [hr] at h; cases h
  | some s =>
    rw [hr] at h
    have h2 : running s = 2 := by simpa using h
    have := H three 1 s three_ok (reach_runL .init overrun hr)
    omega

end CV.Trav
