import ComposeVerif.Lemmas.SecretsRender
/-!
# C20 — `render_default_clean` was false before the `fix:` of `leak:config:empty-variable-name`

Witness: a config declared with `environment: ""` while the environment has a variable with the empty
name (a `.env` line `=value` defines one).  Before the fix `resolveConfigsEnvironment` copied the value into
`content`; `ConfigObjConfig.MarshalYAML/JSON` blank `Content` only `if s.Environment != ""`, so the value was
rendered.  The fix makes both resolvers skip an empty variable name.  `resolveObjPre` below is the pre-fix
resolver; the current model on the same witness is clean.  The input is kept in
`corpus/C20/config-empty-variable-name.json` (it now passes; oracle key `leak:config:empty-variable-name`).
-/
namespace CV.Secrets.Neg
open CV CV.Val CV.Secrets

mutual
def decAllStr (P : String → Prop) [DecidablePred P] : (v : Val) → Decidable (AllStr P v)
  | .str s => by simp only [AllStr]; infer_instance
  | .float s => by simp only [AllStr]; infer_instance
  | .seq xs => by simp only [AllStr]; exact decAllStrL P xs
  | .map kvs => by simp only [AllStr]; exact decAllStrKV P kvs
  | .null => .isTrue (by simp [AllStr])
  | .bool b => by simp only [AllStr]; infer_instance
  | .int i => by simp only [AllStr]; infer_instance
def decAllStrL (P : String → Prop) [DecidablePred P] : (xs : List Val) → Decidable (AllStrL P xs)
  | [] => .isTrue (by simp [AllStrL])
  | x :: xs => by
    simp only [AllStrL]
    exact @instDecidableAnd _ _ (decAllStr P x) (decAllStrL P xs)
def decAllStrKV (P : String → Prop) [DecidablePred P] : (kvs : KVs) → Decidable (AllStrKV P kvs)
  | [] => .isTrue (by simp [AllStrKV])
  | (k, v) :: r => by
    simp only [AllStrKV]
    exact @instDecidableAnd _ _ inferInstance (@instDecidableAnd _ _ (decAllStr P v) (decAllStrKV P r))
end

instance (P : String → Prop) [DecidablePred P] (v : Val) : Decidable (AllStr P v) := decAllStr P v
instance (c : List Char) (v : Val) : Decidable (Clean c v) := by unfold Clean; infer_instance

def canary : List Char := "CANARY".toList

/-! ### the pre-fix pipeline -/

/-- `resolve*Environment` before the fix: no test of the variable name -/
def resolveObjPre (carrier : String) (env : Env) : Val → Val
  | .map kvs =>
    match lookup "environment" kvs with
    | some (.str e) =>
      match env.lookup e with
      | some found => .map (insert carrier (.str found) kvs)
      | none => .map kvs
    | _ => .map kvs
  | v => v

def resolveObjsPre (carrier : String) (env : Env) : KVs → KVs
  | [] => []
  | (n, cfg) :: r => (n, resolveObjPre carrier env cfg) :: resolveObjsPre carrier env r

def loadSectionPre (isSecret : Bool) (env : Env) (pname : String) (dict : KVs) : Out (List (String × FileObj)) :=
  match lookup (if isSecret then "secrets" else "configs") dict with
  | none => .ok []
  | some (.map objs) =>
    (setNameObjs pname (resolveObjsPre (if isSecret then xValue else "content") env objs)).bind fun objs2 =>
      decodeObjs (if isSecret then decodeSecret else decodeConfig)
        (pxKVs [if isSecret then "secrets" else "configs"] true objs2)
  | some _ => .err "setNameFromKey"

def loadPre (env : Env) (pname : String) (dict : KVs) : Out Proj :=
  (loadSectionPre true env pname dict).bind fun ss =>
  (loadSectionPre false env pname dict).bind fun cs =>
  .ok { secrets := ss, configs := cs }

/-- the two resolvers differ only on the empty name -/
theorem resolveObjPre_eq (c : String) (env : Env) (v : Val)
    (h : ∀ kvs, v = .map kvs → lookup "environment" kvs ≠ some (.str "")) : resolveObjPre c env v = resolveObj c env v := by
  cases v with
  | map kvs =>
    have hk := h kvs rfl
    simp only [resolveObjPre, resolveObj]
    cases hl : lookup "environment" kvs with
    | none => rfl
    | some x =>
      cases x with
      | str e =>
        have : e ≠ "" := fun h0 => hk (h0 ▸ hl)
        simp only [if_neg this]
        cases List.lookup e env <;> rfl
      | _ => rfl
  | _ => rfl

/-! ### the witness -/

/-- the raw model: one service, one config whose source variable is the empty name -/
def wDict : KVs :=
  [("services", .map [("app", .map [("image", .str "img")])]),
   ("configs", .map [("c1", .map [("environment", .str "")])])]

/-- an environment that has a variable with the empty name (a `.env` line `=CANARY` produces it) -/
def wEnv : Env := [("", "CANARY")]

def wProj : Proj := { secrets := [], configs := [("c1", { name := "proj_c1", content := "CANARY" })] }

theorem w_loads_prefix : loadPre wEnv "proj" wDict = .ok wProj := by rfl

theorem w_model_clean : Clean canary (.map wDict) := by decide

theorem w_vocab : VocabOk (fun s => ¬ occurs canary s) := ⟨by decide, by decide, cutClosed_not_occurs _⟩

theorem w_names_secrets : GenNamesOk (fun s => ¬ occurs canary s) "proj" "secrets" wDict := by
  intro objs h; simp [wDict, lookup] at h

theorem w_names_configs : GenNamesOk (fun s => ¬ occurs canary s) "proj" "configs" wDict := by
  intro objs h
  simp only [wDict, lookup] at h
  simp at h
  subst h
  decide

/-- the canary — the value of the source variable, which occurs nowhere in the model — was rendered -/
theorem w_leaks_yaml : ¬ Clean canary (render .yaml false wProj) := by decide
theorem w_leaks_json : ¬ Clean canary (render .json false wProj) := by decide

/-- **negation of `render_default_clean` for the pre-fix pipeline** -/
theorem render_default_clean_fails_prefix :
    ¬ (∀ (c : List Char), VocabOk (fun s => ¬ occurs c s) →
        ∀ (env : Env) (pname : String) (dict : KVs), Clean c (.map dict) →
          GenNamesOk (fun s => ¬ occurs c s) pname "secrets" dict → GenNamesOk (fun s => ¬ occurs c s) pname "configs" dict →
          ∀ (p : Proj), loadPre env pname dict = .ok p → ∀ r, Clean c (render r false p)) :=
  fun H => w_leaks_yaml (H canary w_vocab wEnv "proj" wDict w_model_clean w_names_secrets w_names_configs wProj w_loads_prefix .yaml)

/-- the witness is exactly a model that names the empty variable -/
theorem w_violates_NoEmptySource : ¬ NoEmptySource wDict := by
  intro h
  exact h [("c1", .map [("environment", .str "")])] rfl ("c1", .map [("environment", .str "")]) (by simp) _ rfl rfl

/-- after the fix the same model loads without the value and renders cleanly -/
theorem w_loads_fixed : load wEnv "proj" wDict = .ok { secrets := [], configs := [("c1", { name := "proj_c1" })] } := by rfl
theorem w_clean_fixed : Clean canary (render .yaml false { secrets := [], configs := [("c1", { name := "proj_c1" })] }) ∧
    Clean canary (render .json false { secrets := [], configs := [("c1", { name := "proj_c1" })] }) := by decide

/-- a named variable never leaked, before or after -/
example : load [("V", "CANARY")] "proj" [("configs", .map [("c1", .map [("environment", .str "V")])])] =
    .ok { secrets := [], configs := [("c1", { name := "proj_c1", environment := "V", content := "CANARY" })] } := by rfl
example : Clean canary (render .yaml false { secrets := [], configs := [("c1", { name := "proj_c1", environment := "V", content := "CANARY" })] }) := by decide

end CV.Secrets.Neg
