import ComposeVerif.Lemmas.SecretsRender
/-!
# C20 — the unrestricted `render_default_clean` is false on the unchanged tree

Witness: a config declared with `environment: ""` while the environment has a variable with the empty
name.  `resolveConfigsEnvironment` copies the value into `content`; `ConfigObjConfig.MarshalYAML/JSON` blank
`Content` only `if s.Environment != ""`, so the value is rendered.  Replayed on the real code by
`corpus/C20/config-empty-variable-name.json` (oracle key `leak:config:empty-variable-name`).
-/
namespace CV.Secrets.Neg
open CV CV.Val CV.Secrets

mutual
def decAllStr (P : String → Prop) [DecidablePred P] : (v : Val) → Decidable (AllStr P v)
  | .str s => by simp only [AllStr]; infer_instance
  | .float s => by simp only [AllStr]; infer_instance
  | .seq xs => by simp only [AllStr]; exact decAllStrL P xs
  | .map kvs => by simp only [AllStr]; exact decAllStrKV P kvs
  | .null => .isTrue (by simp [AllStr])
  | .bool _ => .isTrue (by simp [AllStr])
  | .int _ => .isTrue (by simp [AllStr])
def decAllStrL (P : String → Prop) [DecidablePred P] : (xs : List Val) → Decidable (AllStrL P xs)
  | [] => .isTrue (by simp [AllStrL])
  | x :: xs => by
    simp only [AllStrL]
    exact @instDecidableAnd _ _ (decAllStr P x) (decAllStrL P xs)
def decAllStrKV (P : String → Prop) [DecidablePred P] : (kvs : KVs) → Decidable (AllStrKV P kvs)
  | [] => .isTrue (by simp [AllStrKV])
  | (k, v) :: r => by
    simp only [AllStrKV]
    exact @instDecidableAnd _ _ inferInstance (@instDecidableAnd _ _ (decAllStr P v) (decAllStrKV P r))
end

instance (P : String → Prop) [DecidablePred P] (v : Val) : Decidable (AllStr P v) := decAllStr P v
instance (c : List Char) (v : Val) : Decidable (Clean c v) := by unfold Clean; infer_instance

def canary : List Char := "CANARY".toList

/-- the raw model: one service, one config whose source variable is the empty name -/
def wDict : KVs :=
  [("services", .map [("app", .map [("image", .str "img")])]),
   ("configs", .map [("c1", .map [("environment", .str "")])])]

/-- an environment that has a variable with the empty name (a `.env` line `=CANARY` produces it) -/
def wEnv : Env := [("", "CANARY")]

def wProj : Proj := { secrets := [], configs := [("c1", { name := "proj_c1", content := "CANARY" })] }

theorem w_loads : load wEnv "proj" wDict = .ok wProj := by rfl


theorem w_model_clean : Clean canary (.map wDict) := by decide

theorem w_vocab : VocabOk (fun s => ¬ occurs canary s) := ⟨by decide, by decide⟩

theorem w_names_secrets : GenNamesOk (fun s => ¬ occurs canary s) "proj" "secrets" wDict := by
  intro objs h; simp [wDict, lookup] at h

theorem w_names_configs : GenNamesOk (fun s => ¬ occurs canary s) "proj" "configs" wDict := by
  intro objs h
  simp only [wDict, lookup] at h
  simp at h
  subst h
  decide

/-- the canary — the value of the source variable, which occurs nowhere in the model — is rendered -/
theorem w_leaks_yaml : ¬ Clean canary (render .yaml false wProj) := by decide
theorem w_leaks_json : ¬ Clean canary (render .json false wProj) := by decide

/-- **negation of the full-strength `render_default_clean`** (the statement of `render_default_clean_partial`
without `NoEmptySource`) -/
theorem render_default_clean_fails :
    ¬ (∀ (c : List Char), VocabOk (fun s => ¬ occurs c s) →
        ∀ (env : Env) (pname : String) (dict : KVs), Clean c (.map dict) →
          GenNamesOk (fun s => ¬ occurs c s) pname "secrets" dict → GenNamesOk (fun s => ¬ occurs c s) pname "configs" dict →
          ∀ (p : Proj), load env pname dict = .ok p → ∀ r, Clean c (render r false p)) :=
  fun H => w_leaks_yaml (H canary w_vocab wEnv "proj" wDict w_model_clean w_names_secrets w_names_configs wProj w_loads .yaml)

/-- the hypothesis the provable statement adds is exactly what the witness violates -/
theorem w_violates_NoEmptySource : ¬ NoEmptySource wDict := by
  intro h
  exact h [("c1", .map [("environment", .str "")])] rfl ("c1", .map [("environment", .str "")]) (by simp) _ rfl rfl

/-- the same witness with a named variable does not leak (the defect is specific to the empty name) -/
example : load [("V", "CANARY")] "proj" [("configs", .map [("c1", .map [("environment", .str "V")])])] =
    .ok { secrets := [], configs := [("c1", { name := "proj_c1", environment := "V", content := "CANARY" })] } := by rfl
example : Clean canary (render .yaml false { secrets := [], configs := [("c1", { name := "proj_c1", environment := "V", content := "CANARY" })] }) := by decide

end CV.Secrets.Neg
