import ComposeVerif.Model.RenderHistory
/-!
# C09 — the deep copy in `marshallOptions.apply` cannot be replaced by a copy of the project struct  (round 6)

`Props/C09History.lean` proves, for the code of the tree (`applyHeap`: flags written to a deep copy), that no history of
renderings writes to the caller's project and that every rendering equals a fresh project's.  With the struct-only copy
(`History.applyShared`: `clone := *p` shares the `Secrets` map) both statements fail on the history
"once with `WithSecretContent`, then plain": the witness below is the history the oracle stream `c09.history` replays on
the real code (`history-mutates:*:SecretConfig.marshallContent`).
-/
namespace CV.Neg.C09History
open CV CV.Secrets CV.History

def tok : FileObj := { name := "seed_token", environment := "API_TOKEN", content := "s3cr3t" }
def heap0 : Heap := { maps := [(0, [("token", tok)])], next := 1 }
def hist : List Call := [⟨.yaml, true⟩, ⟨.yaml, false⟩]

/-- the caller's secret is flagged after the history … -/
theorem shared_clone_writes_to_caller :
    ((runWith applyShared [] hist heap0 0).1.get 0).map (fun kv => kv.2.marshallContent) = [true] ∧
    (heap0.get 0).map (fun kv => kv.2.marshallContent) = [false] := by
  constructor <;> rfl

/-- `secrets.token.content` of a rendering -/
def contentOf (v : Val) : Option String :=
  match v with
  | .map top =>
    match Val.lookup "secrets" top with
    | some (.map ss) =>
      match Val.lookup "token" ss with
      | some (.map kvs) => match Val.lookup "content" kvs with
        | some (.str c) => some c
        | _ => none
      | _ => none
    | _ => none
  | _ => none

/-- … and the plain rendering that follows carries the secret's content, which a fresh project's plain rendering does
not (the schema refuses `content` in a secret: the rendering no longer loads); with the deep copy of the tree it does not -/
theorem shared_clone_leaks_content :
    (runWith applyShared [] hist heap0 0).2.map contentOf = [some "s3cr3t", some "s3cr3t"] ∧
    (hist.map (fresh [] (heap0.get 0))).map contentOf = [some "s3cr3t", none] ∧
    (run [] hist heap0 0).2.map contentOf = [some "s3cr3t", none] := by
  refine ⟨?_, ?_, ?_⟩ <;> decide

end CV.Neg.C09History
