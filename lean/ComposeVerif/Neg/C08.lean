import ComposeVerif.Spec.Interp
import ComposeVerif.Model.InterpCustom
import ComposeVerif.Model.InterpFloat
/-!
# C08 — statements the tree falsified before the repair `fix: integer and float interpolation casts read numbers
# like YAML does` (pre-fix behaviour = `parseIntDecimal`, i.e. `strconv.Atoi` / `ParseInt(_, 10, 64)`)

The corpus cases `corpus/C08/yaml-*.json` replay these spellings on the real code on every run: they now pass
(`fixed:` lines in findings/C08.txt); the promoted theorem is `Props/C08.lean: literal_eq_variable_int`.
-/
namespace CV.Interp

/-- with the decimal casters "a variable gives the value of the plain literal" failed for the YAML 1.1 octal
    spelling: the literal `0440` is 288 for yaml.v3, `strconv.Atoi` made it 440 -/
theorem decimal_casters_literal_eq_variable_false :
    ¬ (∀ s i, yamlInt s = some i → parseIntDecimal (String.toList s) = some i) := by
  intro h
  have := h "0440" 288 (by decide)
  revert this
  decide

/-- … and the other YAML integer spellings were rejected outright -/
theorem decimal_casters_reject_yaml_ints :
    parseIntDecimal "0x10".toList = none ∧ parseIntDecimal "0o17".toList = none ∧
    parseIntDecimal "0b11".toList = none ∧ parseIntDecimal "1_000".toList = none := by decide

/-- the float casters before the round-5 repair (`strconv.ParseInt(plain, 0, 64)` first, not `ParseYAMLInt`): yaml.v3 reads
    the plain literal `0b+1` as the integer 1 (its sign-after-prefix quirk, `yamlInt`), `toInt` read it since round 2, but
    `toFloat` went on to `strconv.ParseFloat`, which rejects it — `cpu_percent: 0b+1` loaded, `${V}` with `0b+1` was a cast
    error.  Repaired by c708a21 (`Props/C08Float.lean: literal_eq_variable_float`); replayed by corpus/C08/float-prefix-sign.json -/
theorem float_casters_literal_eq_variable_false_before_repair :
    ¬ (∀ (parse : String → Option String) (ofInt : Int → String) (s : String) (i : Int),
        yamlInt s = some i → parseYAMLFloatOld parse ofInt s = some (ofInt i)) := by
  intro h
  have := h (fun _ => none) (fun i => ToString.toString i) "0b+1" 1 (by decide)
  revert this
  decide

/-! ## still falsified by the tree: the self-decoding numeric types (recorded findings `typed:*:{devicecount,bytes}`; `nanocpus` repaired in round 5: `Props/C08.lean: nanocpus_reads_like_toFloat`)

Replayed on the real code by `corpus/C08/custom-*.json`. -/

/-- `gpus[].count: 0440` is 288 as a YAML literal; through a variable `DeviceCount.DecodeMapstructure` reads 440;
    `0x10` (16 as a literal) is rejected -/
theorem devicecount_literal_eq_variable_false : ¬ (∀ s i, yamlInt s = some i → decodeDeviceCount s = some i) := by
  intro h
  have := h "0440" 288 (by decide)
  revert this
  decide

theorem devicecount_rejects_yaml_ints :
    decodeDeviceCount "0x10" = none ∧ decodeDeviceCount "0o17" = none ∧ decodeDeviceCount "0b11" = none ∧
    decodeDeviceCount "1_000" = none := by decide

/-- byte sizes: the literal `010` is 8 (`yamlInt`), `UnitBytes.DecodeMapstructure` makes 10 of the variable
    (`-1`, unlimited swap, is read back exactly since C09's repair 45cce70) -/
theorem unitbytes_literal_eq_variable_false :
    yamlInt "010" = some 8 ∧ unitBytesClass "010" = ("ok", "10") ∧
    yamlInt "-1" = some (-1) ∧ unitBytesClass "-1" = ("ok", "-1") := by
  refine ⟨by decide, by decide, by decide, by decide⟩

end CV.Interp
