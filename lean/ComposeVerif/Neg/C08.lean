import ComposeVerif.Spec.Interp
/-!
# C08 — statements the tree falsified before the repair `fix: integer and float interpolation casts read numbers
# like YAML does` (pre-fix behaviour = `parseIntDecimal`, i.e. `strconv.Atoi` / `ParseInt(_, 10, 64)`)

The corpus cases `corpus/C08/yaml-*.json` replay these spellings on the real code on every run: they now pass
(`fixed:` lines in findings/C08.txt); the promoted theorem is `Props/C08.lean: literal_eq_variable_int`.
-/
namespace CV.Interp

/-- with the decimal casters "a variable gives the value of the plain literal" failed for the YAML 1.1 octal
    spelling: the literal `0440` is 288 for yaml.v3, `strconv.Atoi` made it 440 -/
theorem decimal_casters_literal_eq_variable_false :
    ¬ (∀ s i, yamlInt s = some i → parseIntDecimal (String.toList s) = some i) := by
  intro h
  have := h "0440" 288 (by decide)
  revert this
  decide

/-- … and the other YAML integer spellings were rejected outright -/
theorem decimal_casters_reject_yaml_ints :
    parseIntDecimal "0x10".toList = none ∧ parseIntDecimal "0o17".toList = none ∧
    parseIntDecimal "0b11".toList = none ∧ parseIntDecimal "1_000".toList = none := by decide

end CV.Interp
