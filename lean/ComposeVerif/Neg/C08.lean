import ComposeVerif.Spec.Interp
/-!
# C08 — statements the unchanged tree falsifies (concrete witnesses, `by decide`)

Replayed on the real code by `corpus/C08/yaml-leading-zero-mode.json` (oracle key
`typed:yaml-number-syntax:leading-zero`, findings/C08.txt).
-/
namespace CV.Interp

/-- "supplying an integer through a variable gives the value of the plain literal" fails for the YAML 1.1 octal
    spelling: the literal `0440` is 288 for yaml.v3, the casters (`strconv.Atoi` / `ParseInt` base 10) make it 440 -/
theorem literal_eq_variable_int_false : ¬ (∀ s i, yamlLegacyOctal s = some i → parseInt s = some i) := by
  intro h
  have := h "0440" 288 (by decide)
  revert this
  decide

/-- … and the other YAML integer spellings are rejected outright by the casters -/
theorem yaml_prefixed_ints_rejected :
    parseInt "0x10" = none ∧ parseInt "0o17" = none ∧ parseInt "0b11" = none ∧ parseInt "1_000" = none := by decide

end CV.Interp
