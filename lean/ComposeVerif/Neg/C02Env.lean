import ComposeVerif.Model.C02EnvLoop
import ComposeVerif.Model.Validate
/-!
# C02 — proved negations, round 5 (concrete witnesses, `by decide`)

* `cachedEnvFiles_order_dependent` — `WithServicesEnvironmentResolved` **with a cache of parsed env files declared
  outside the services loop** (the closest wrong program; seeds C02-4 / C02-5) depends on the order in which Go ranges
  over `project.Services`: two services share `shared.env` (`GREETING=hello ${WHO}`), each defines `WHO` in an earlier
  env file of its own.  The code as it is has no such cache (`Props.C02Env.withServicesEnvironmentResolved_perm`;
  regenerated fact `loopCarriedMaps_reviewed`).  The witness is replayed on the real code by
  `corpus/C02/load-shared-env-file-cross-ref.json`, which must give one outcome.
* `validate_which_error_order_dependent` — *which* validation error `validation.Validate` reports depends on the order
  in which `check` ranges a mapping (two failing nodes); *whether* it reports one does not
  (`Stage.Props.validate_stage_perm` in `Props/C02Stages.lean`).  Error texts are therefore never compared by the oracles.
-/
namespace CV.Det.Neg.Env
open CV CV.EnvLayers CV.Det.EnvLoop

def fs : FS where
  node := fun p =>
    if p = ['w', 'e', 'b'] then some (.file [.assign ['W', 'H', 'O'] [.lit ['w', 'e', 'b']]])
    else if p = ['w', 'r', 'k'] then some (.file [.assign ['W', 'H', 'O'] [.lit ['w', 'r', 'k']]])
    else if p = ['s', 'h', 'a', 'r', 'e', 'd'] then some (.file [.assign ['G'] [.lit ['h', 'i', '-'], .var ['W', 'H', 'O'] true]])
    else none

/-- a service listing its own env file (which defines `WHO`), then the shared one (`G=hi-${WHO}`) -/
def svc (own : Str) : Service :=
  { environment := [], envFiles := [⟨own, true, []⟩, ⟨['s', 'h', 'a', 'r', 'e', 'd'], true, []⟩], labels := [], labelFiles := [] }

def web : Str × Service := (['w', 'e', 'b'], svc ['w', 'e', 'b'])
def worker : Str × Service := (['w', 'r', 'k'], svc ['w', 'r', 'k'])

/-- what a service ends up with under `G` -/
def greeting (r : Except Err (List (Str × Service))) (name : Str) : Option (Option Str) :=
  match r with
  | .ok l => (lookup name l).bind fun sv => lookup ['G'] sv.environment
  | .error _ => none

/-- the code as it is: each service gets its own greeting, in both orders -/
theorem actual_both_orders :
    greeting (withServicesEnvironmentResolved [] fs true [web, worker]) ['w', 'r', 'k'] = some (some ['h', 'i', '-', 'w', 'r', 'k']) ∧
    greeting (withServicesEnvironmentResolved [] fs true [worker, web]) ['w', 'r', 'k'] = some (some ['h', 'i', '-', 'w', 'r', 'k']) := by
  decide

/-- **with the cache (keyed by path — C02-4 — or by the whole entry — C02-5) the result depends on the iteration order** -/
theorem cachedEnvFiles_order_dependent :
    (greeting (rangeServicesCached true [] fs true [web, worker] []) ['w', 'r', 'k'] = some (some ['h', 'i', '-', 'w', 'e', 'b']) ∧
     greeting (rangeServicesCached true [] fs true [worker, web] []) ['w', 'r', 'k'] = some (some ['h', 'i', '-', 'w', 'r', 'k'])) ∧
    (greeting (rangeServicesCached false [] fs true [web, worker] []) ['w', 'r', 'k'] = some (some ['h', 'i', '-', 'w', 'e', 'b']) ∧
     greeting (rangeServicesCached false [] fs true [worker, web] []) ['w', 'r', 'k'] = some (some ['h', 'i', '-', 'w', 'r', 'k'])) := by
  decide

/-- which of two validation failures is reported depends on the order of the top-level mapping -/
theorem validate_which_error_order_dependent :
    CV.Validate.validate (.map [("volumes", .map [("v", .int 5)]), ("configs", .map [("c", .map [])])]) = .err .expectedVolume ∧
    CV.Validate.validate (.map [("configs", .map [("c", .map [])]), ("volumes", .map [("v", .int 5)])]) = .err .missing := by
  decide

end CV.Det.Neg.Env
