import ComposeVerif.Props.C14Visit
/-!
# C14 — proved negation for the visit: the seeded `delete(dependencies, serviceNotFound)` writes into the receiver

`walk … del := true` is `withServices` with the statement of seed C14-5.  Under the default policy the local
`dependencies` is the receiver's own `DependsOn` map (`utils.MapsAppend(nil, m)` returns `m`): on the three-service project
of `Props/C14Visit.lean` the walk writes through address 4 — the `DependsOn` map of `web`, allocated before the call — and the
receiver is no longer what it was.  So `forEachService_sound` is a fact about the statements of the walk, not about any
walk.  (Real-code replay of the same project: `corpus/C14/visit-optional-dependency.json`, which passes on the tree as it is
and reports `receiver-mutated:ForEachService:visit` on the seeded tree.)
-/
namespace CV.Heap.Visit
open CV.Heap

theorem seeded_delete_writes_receiver :
    addrs exVisitProj = [1, 2, 3, 4] ∧
    (forEachService exSvcTy exSvcPlan exVisitProj "deps" true ["api"] 5).err = none ∧
    (forEachService exSvcTy exSvcPlan exVisitProj "deps" true ["api"] 5).log.map (·.1) = [5, 5, 4] ∧
    (addrs (getFld Deriv.fDependsOn (getIdx "web" (getFld Deriv.fServices
      (writes (forEachService exSvcTy exSvcPlan exVisitProj "deps" true ["api"] 5).log exVisitProj))))).length = 1 ∧
    mapKeys (getFld Deriv.fDependsOn (getIdx "web" (getFld Deriv.fServices
      (writes (forEachService exSvcTy exSvcPlan exVisitProj "deps" true ["api"] 5).log exVisitProj)))) = [] ∧
    mapKeys (getFld Deriv.fDependsOn (getIdx "web" (getFld Deriv.fServices exVisitProj))) = ["db"] := by
  decide +kernel

end CV.Heap.Visit
