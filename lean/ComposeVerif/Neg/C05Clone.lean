import ComposeVerif.Model.ExtendsClone
/-!
# What `deepClone` must not be: the two seeded slips, refuted on the heap model

`cloneShallowMap` (`cp[k] = e`: values of a mapping are not cloned) and `cloneInPlaceSeq` (`v[i] = deepClone(e); return
v`: the backing array of a list is reused) both return a value *equal* to the base — every value-level statement about
`extends` still holds of them — but the result shares a container with the base, and a write through it changes the base.
The statements `Props/C05Clone.lean` proves of `clone` are false of these.
-/
namespace CV.Extends.Clone.Neg
open CV CV.Extends.Clone

/-- base service `{healthcheck: {test: t}}` laid out at addresses 0 (service) and 1 (healthcheck) -/
def base : HVal := .map 0 [("healthcheck", .map 1 [("test", .leaf (.str "t"))])]

/-- what `mergeMappings` writes into the clone's `healthcheck` when the extending service adds `interval` -/
def merged : HVal := .map 0 [("test", .leaf (.str "t")), ("interval", .leaf (.str "5s"))]

/-- the shallow clone has the same value as the base … -/
theorem shallow_same_value : erase (cloneShallowMap 2 base).1 = erase base := rfl

/-- … but its `healthcheck` *is* the base's `healthcheck` (address 1) … -/
theorem shallow_shares : 1 ∈ addrs (cloneShallowMap 2 base).1 ∧ 1 ∈ addrs base := by decide

/-- … so the in-place merge into the clone shows up in the base: the base now has `interval` -/
theorem shallow_write_reaches_base :
    erase (write 1 merged base) =
      .map [("healthcheck", .map [("test", .str "t"), ("interval", .str "5s")])] := rfl

/-- base service `{cap_add: [A, B]}`: service at 0, list at 1 -/
def baseL : HVal := .map 0 [("cap_add", .seq 1 [.leaf (.str "A"), .leaf (.str "B")])]

theorem inplace_same_value : erase (cloneInPlaceSeq 2 baseL).1 = erase baseL := rfl

/-- the "clone" of the list is the base's own backing array -/
theorem inplace_shares : 1 ∈ addrs (cloneInPlaceSeq 2 baseL).1 ∧ 1 ∈ addrs baseL := by decide

/-- a sibling's append within capacity (a write to the array at 1) is seen by the base and by every other clone -/
theorem inplace_write_reaches_base :
    erase (write 1 (.seq 0 [.leaf (.str "A"), .leaf (.str "B"), .leaf (.str "SIBLING")]) baseL) =
      .map [("cap_add", .seq [.str "A", .str "B", .str "SIBLING"])] := rfl

end CV.Extends.Clone.Neg
