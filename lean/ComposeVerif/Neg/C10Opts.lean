import ComposeVerif.Props.C10Whole
/-!
# C10 — "every `service:` reference is checked under every option set" is false under `SkipNormalization`

`checkConsistency` itself reads only `network_mode: service:x`; the references of `ipc`, `pid`, `uts`, `cgroup`, `links` and
`volumes_from` are checked *because* `Normalize` turns them into `depends_on` entries first (`implicit_references_checked`).
With `SkipNormalization` (and both checks on) that completion has not happened: a dangling `ipc: service:ghost` loads.
The provable statement is the one with normalization on (`implicit_references_checked_normalized`).  By design of the
option, not repaired; replayed on the real loader by the `opts:model:*` cases of the stream `c10.optload`
(`serviceRef:ipc@main+SkipNormalization` …: real and model both accept) and corpus/C10/skipnormalization-ipc-ghost.json.
-/
namespace CV.Consistency.Neg
open CV CV.Consistency CV.C10Whole

/-- one service, `ipc: service:ghost`, nothing else -/
def ghostRefs : RawRefs := { namespaces := ["service:ghost"] }
def ghostProj (skipNormalization : Bool) : Proj :=
  { services := [("t", { image := "i", dependsOn := depsSeen skipNormalization ghostRefs })] }

theorem not_implicit_references_checked_skipNormalization :
    ¬ (∀ (skip : Bool) (p : Proj) (n : String) (s : Svc) (r : RawRefs), (n, s) ∈ p.services →
        s.dependsOn = depsSeen skip r → checkConsistency p = none → ∀ x ∈ implicitRefs r, x ∈ p.enabled ∨ x ∈ p.disabled) := by
  intro h
  have := h true (ghostProj true) "t" { image := "i", dependsOn := depsSeen true ghostRefs } ghostRefs
    (by decide) rfl (by decide) "ghost" (by decide)
  revert this
  decide

/-- with normalization on the same model is rejected -/
theorem witness_rejected_when_normalized : checkConsistency (ghostProj false) ≠ none := by decide

/-- the provable version: normalization on -/
theorem implicit_references_checked_normalized (p : Proj) (n : String) (s : Svc) (r : RawRefs) (hs : (n, s) ∈ p.services)
    (hd : s.dependsOn = depsSeen false r) (h : checkConsistency p = none) :
    ∀ x ∈ implicitRefs r, x ∈ p.enabled ∨ (x ∈ p.disabled ∧ (x, false) ∈ r.dependsOn) :=
  implicit_references_checked p n s r hs hd h

end CV.Consistency.Neg
