import ComposeVerif.Model.EnvLayersHeap
/-!
# C16 — what hoisting the looked-up value out of the loop of `MappingWithEquals.Resolve` does (seeded change C16-5)

With `var value string` declared once before the loop every resolved key stores the address of the same cell: all of
them read the value that was looked up last.  The refinement statement `Props/C16Heap.resolveH_refines` is false for
that variant; the witness is replayed on the real code by `corpus/C16/two-valueless-keys.json` (passes on the unchanged
tree, fails — `env-precedence`, `environment-values-aliased` — on the seeded one).
-/
namespace CV.EnvLayers.Heap.Neg
open CV.EnvLayers CV.EnvLayers.Heap

def m0 : HMWE := [(['A'], none), (['B'], none)]
def look0 : Look := fun k => if k = ['A'] then some ['a'] else if k = ['B'] then some ['b'] else none

/-- the statement `resolveH_refines` makes about `resolveH`, for an arbitrary implementation -/
def Refines (impl : Look → HMWE → Cells → HMWE × Cells) : Prop :=
  ∀ look m h, Valid h m → deref (impl look m h).2 (impl look m h).1 = resolveMWE look (deref h m)

theorem hoisted_aliases : (resolveHoisted look0 m0 []).1 = [(['A'], some 0), (['B'], some 0)] ∧
    deref (resolveHoisted look0 m0 []).2 (resolveHoisted look0 m0 []).1 = [(['A'], some ['b']), (['B'], some ['b'])] := by
  decide

theorem hoisted_does_not_refine : ¬ Refines resolveHoisted := by
  intro h
  have := h look0 m0 [] (fun k a hm => by simp [m0] at hm)
  revert this
  decide

/-- the statement `toMWEH_refines` makes, for an arbitrary implementation -/
def RefinesToMWE (impl : List (Key × Str) → Cells → HMWE × Cells) : Prop :=
  ∀ m h, deref (impl m h).2 (impl m h).1 = toMWE m

/-- without the copy `v := v` (Go < 1.22 loop-variable semantics, go.mod: go 1.21) all keys read the last value -/
theorem no_copy_does_not_refine : ¬ RefinesToMWE toMWENoCopy := by
  intro h
  have := h [(['A'], ['1']), (['B'], ['2'])] []
  revert this
  decide

end CV.EnvLayers.Heap.Neg
