import ComposeVerif.Model.C11Normalize
/-!
# C11 — negative facts about the unchanged tree (concrete witnesses)

(`normalize_not_total` — an empty `pid:` reached the unchecked `n.(string)` of the namespace loop and panicked — held
until the C01 repairs: repo commits "an empty pid … no longer panics in Normalize" and "Normalize reports … as an
error instead of panicking".  `Normalize` has no panic outcome any more: `Props/C11.lean` `normalize_never_panics`.)
-/
namespace CV.C11
open CV CV.Val

def argsOfA (d : KVs) : Option Val :=
  match lookup "services" d with
  | some (.map s) =>
    match lookup "a" s with
    | some (.map a) =>
      match lookup "build" a with
      | some (.map b) => lookup "args" b
      | _ => none
    | _ => none
  | _ => none

/-- the idempotence of `Normalize` needs the environment to have no variable with an empty name: with one,
a bare-string `build.args` that is not set resolves to `""` first and to `=<value>` the second time
(not schema-valid input; recorded because `normalize_idem` carries the hypothesis) -/
theorem normalize_idem_needs_env :
    ∃ env d, normalizePure pathClean env (normalizePure pathClean env d) ≠ normalizePure pathClean env d := by
  refine ⟨[("", "anon")], [("services", .map [("a", .map [("build", .map [("args", .str "UNSET")])])])], fun h => ?_⟩
  have h2 := congrArg argsOfA h
  have l : argsOfA (normalizePure pathClean [("", "anon")] (normalizePure pathClean [("", "anon")]
      [("services", .map [("a", .map [("build", .map [("args", .str "UNSET")])])])])) = some (.str "=anon") := by rfl
  have r : argsOfA (normalizePure pathClean [("", "anon")]
      [("services", .map [("a", .map [("build", .map [("args", .str "UNSET")])])])]) = some (.str "") := by rfl
  rw [l, r] at h2
  simp at h2

end CV.C11
