import ComposeVerif.Model.C11Normalize
/-!
# C11 — negative facts about the unchanged tree (concrete witnesses)

`Normalize` is *not* total: an empty `pid:` (YAML null — accepted by the schema) reaches the unchecked
assertion `n.(string)` of the namespace loop and panics (DESIGN §10 #2; the finding belongs to C01, the
model reproduces it, and the correspondence stream replays it on the real code: corpus/C11/null-pid.json).
-/
namespace CV.C11
open CV CV.Val

def nullPidDoc : KVs :=
  [("name", .str "proj"), ("services", .map [("a", .map [("image", .str "i"), ("pid", .null)])])]

def isPanicAt (site : String) : Out KVs → Bool
  | .panic s => s == site
  | _ => false

/-- negation of "`Normalize` never panics": witness `services: {a: {image: i, pid: }}` -/
theorem normalize_not_total : ∃ d, isPanicAt "loader.Normalize" (normalize pathClean [] d) = true :=
  ⟨nullPidDoc, by decide⟩

def argsOfA (d : KVs) : Option Val :=
  match lookup "services" d with
  | some (.map s) =>
    match lookup "a" s with
    | some (.map a) =>
      match lookup "build" a with
      | some (.map b) => lookup "args" b
      | _ => none
    | _ => none
  | _ => none

/-- the idempotence of `Normalize` needs the environment to have no variable with an empty name: with one,
a bare-string `build.args` that is not set resolves to `""` first and to `=<value>` the second time
(not schema-valid input; recorded because `normalize_idem` carries the hypothesis) -/
theorem normalize_idem_needs_env :
    ∃ env d, normalizePure pathClean env (normalizePure pathClean env d) ≠ normalizePure pathClean env d := by
  refine ⟨[("", "anon")], [("services", .map [("a", .map [("build", .map [("args", .str "UNSET")])])])], fun h => ?_⟩
  have h2 := congrArg argsOfA h
  have l : argsOfA (normalizePure pathClean [("", "anon")] (normalizePure pathClean [("", "anon")]
      [("services", .map [("a", .map [("build", .map [("args", .str "UNSET")])])])])) = some (.str "=anon") := by rfl
  have r : argsOfA (normalizePure pathClean [("", "anon")]
      [("services", .map [("a", .map [("build", .map [("args", .str "UNSET")])])])]) = some (.str "") := by rfl
  rw [l, r] at h2
  simp at h2

end CV.C11
