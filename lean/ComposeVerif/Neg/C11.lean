import ComposeVerif.Model.C11Normalize
/-!
# C11 — negative facts (concrete witnesses) and regression witnesses

`Normalize` used to be partial (DESIGN §10 #2: an empty `pid:` reached `n.(string)`; every other assertion was
unchecked too).  /repo now carries the repairs, the model follows, and the former witnesses are kept as positive
regression facts: `null_pid_is_ok`, `bad_link_is_error` (corpus/C11/null-pid.json, bad-link.json replay them on the
real code).  What remains negative is the hypothesis of `normalize_idem`.
-/
namespace CV.C11
open CV CV.Val

def nullPidDoc : KVs :=
  [("name", .str "proj"), ("services", .map [("a", .map [("image", .str "i"), ("pid", .null)])])]

def badLinkDoc : KVs :=
  [("name", .str "proj"), ("services", .map [("a", .map [("links", .seq [.int 1])])])]

def isErr : Out KVs → Bool
  | .err _ => true
  | _ => false

def isOk : Out KVs → Bool
  | .ok _ => true
  | _ => false

/-- an empty `pid:` is accepted -/
theorem null_pid_is_ok : isOk (normalize pathClean [] nullPidDoc) = true := by decide

/-- a shape the schema would have rejected is an error, not a panic -/
theorem bad_link_is_error : isErr (normalize pathClean [] badLinkDoc) = true := by decide

def argsOfA (d : KVs) : Option Val :=
  match lookup "services" d with
  | some (.map s) =>
    match lookup "a" s with
    | some (.map a) =>
      match lookup "build" a with
      | some (.map b) => lookup "args" b
      | _ => none
    | _ => none
  | _ => none

/-- the idempotence of `Normalize` needs the environment to have no variable with an empty name: with one,
a bare-string `build.args` that is not set resolves to `""` first and to `=<value>` the second time
(not schema-valid input; recorded because `normalize_idem` carries the hypothesis) -/
theorem normalize_idem_needs_env :
    ∃ env d, normalizePure pathClean env (normalizePure pathClean env d) ≠ normalizePure pathClean env d := by
  refine ⟨[("", "anon")], [("services", .map [("a", .map [("build", .map [("args", .str "UNSET")])])])], fun h => ?_⟩
  have h2 := congrArg argsOfA h
  have l : argsOfA (normalizePure pathClean [("", "anon")] (normalizePure pathClean [("", "anon")]
      [("services", .map [("a", .map [("build", .map [("args", .str "UNSET")])])])])) = some (.str "=anon") := by rfl
  have r : argsOfA (normalizePure pathClean [("", "anon")]
      [("services", .map [("a", .map [("build", .map [("args", .str "UNSET")])])])]) = some (.str "") := by rfl
  rw [l, r] at h2
  simp at h2

end CV.C11
