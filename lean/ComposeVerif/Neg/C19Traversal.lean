import ComposeVerif.Model.Trav
/-!
# C19 (traversal clause) — why the errgroup needs `maxConcurrency + 1` slots

`graph.walk` gives the errgroup `maxConcurrency + 1` slots because the coordinator goroutine occupies one for the whole
walk; the model's `slotFree (some l)` is `sem < l + 1`.  With only `l` slots (`eg.SetLimit(t.maxConcurrency)`, i.e. the
model run with `some (l - 1)`), `WithMaxConcurrency(1)` leaves no slot for any visitor: the walk of a one-service
project deadlocks before the first visit, and cancelling the caller's context does not free it.  This is the concrete witness behind the hypothesis `1 ≤ n` of
`CV.Trav.deadlock_free` / `CV.C19.traversal_deadlock_free`, replayed on the real code by the `travLive` check
(key `traversal:deadlock:limit=1` on a tree with that change).
-/
namespace CV.Trav

/-- one service, no dependency -/
def oneVertex : Graph := { verts := [0], pre := fun _ => [], post := fun _ => [], skip := fun _ => false }

/-- the caller has claimed the only service and waits for a slot; the coordinator waits for a result; even the owner of
    the context has given up (`extCancel`): the coordinator then waits for the caller to leave its spawn loop -/
def stuck : St :=
  { init oneVertex with status := setStatus (fun _ => .absent) 0 .entered, m := some ⟨[], .spawn 0⟩,
                        cancelled := true, extCancelled := true }

theorem no_visitor_slot_deadlocks :
    runL oneVertex (some 0) (init oneVertex) [.schedNext .M 0, .ready .M, .enter .M, .extCancel] = some stuck ∧
    ¬ terminal stuck ∧ ∀ l, step? oneVertex (some 0) stuck l = none := by
  refine ⟨rfl, by decide, fun l => ?_⟩
  cases l <;> first
    | rfl
    | (rename_i w; cases w <;> rfl)
    | (rename_i w v; cases w <;> rfl)

end CV.Trav
