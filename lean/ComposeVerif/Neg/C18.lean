import ComposeVerif.Model.Dotenv
import ComposeVerif.Spec.Dotenv
/-!
# C18 — statements the unchanged tree falsifies

"An invalid key is an error", read at full strength, includes the empty key.  The code
accepts `=x` (and ` : x`, `export =x`) and defines the variable `""`; the package's own
test suite pins this (`parseAndCompare(t, `="value"`, "", "value")`), so it is recorded
as finding `invalid-key:empty-accepted` instead of being repaired.  The provable
statement is `invalid_key_err_partial` in `Props/C18.lean` (key text with a character
outside the key alphabet) together with `key_with_space_err`.
-/
namespace CV.Dotenv
open CV CV.Template

/-- full-strength reading: a one-word key text that is not a non-empty word over the key alphabet is rejected -/
def InvalidKeyIsError : Prop :=
  ∀ (k rest : Str) (lookup : Env),
    (!k.isEmpty && k.all isKeyRune) = false →
    k.all (fun c => c != '=' && c != ':' && c != '\n' && c != '#' && !isSpaceU c) = true →
    ∃ e m, parse (k ++ '=' :: rest) lookup = .err e m

/-- witness (replayed on the real code by corpus/C18/empty-key.json): `=x` parses to `{"": "x"}` -/
theorem empty_key_accepted : parse ['=', 'x'] (fun _ => none) = .ok [([], ['x'])] := by decide

/-- the same after `export` -/
theorem empty_key_accepted_export :
    parse ['e', 'x', 'p', 'o', 'r', 't', ' ', '=', 'x'] (fun _ => none) = .ok [([], ['x'])] := by decide

theorem invalid_key_is_error_false : ¬ InvalidKeyIsError := by
  intro h
  obtain ⟨e, m, hp⟩ := h [] ['x'] (fun _ => none) (by decide) (by decide)
  rw [List.nil_append, empty_key_accepted] at hp
  cases hp

end CV.Dotenv
