import ComposeVerif.Model.Fanout
import ComposeVerif.Gen.Globals
/-!
# C19 — proved negations (concrete witnesses)

* `legacy_order_races`: with the statement order of `WithServicesTransform` before the `fix:` commit f696b16
  (collector started before the caller read `newProject.Services`), a project WITHOUT services has a data race on the
  field: the caller's read and the collector's final store are enabled in the same (initial) state.
  Replayed on the real code by `corpus/C19/project-without-services.json` under the race detector
  (key `race-write@types.(*Project).WithServicesTransform`; reported on the tree before the fix, silent after it).
  The theorem for the code as it is now is `CV.Fanout.fanout_no_field_race`.
* `fanout_error_depends_on_schedule`: which failing service's error is returned is decided by the schedule.
* `caller_owned_write_exists`: the full-strength static fact "no load stores into caller-owned data" is false on the
  tree: `loader.projectName` stores into `details.Environment`.  Replayed by `corpus/C19/shared-environment-map.json`
  (key `race-write@loader.projectName`, known finding).  The provable statement is
  `CV.Gen.caller_owned_writes_reviewed_partial`.
-/
namespace CV.Fanout

def emptyCfg : Cfg := { svcs := [], fn := fun _ => none }

theorem legacy_order_races : RaceAt emptyCfg (initLegacy emptyCfg) :=
  ⟨.mRead, .cExit, false, true, by decide, rfl, rfl, .inr rfl, by decide, by decide⟩

/-- two services, the function fails on both -/
def twoFail : Cfg := { svcs := [0, 1], fn := fun _ => none }

def errRun (a b : V) : List Label :=
  [.mRead, .mSpawnC, .mSpawn 0, .mSpawn 1, .mWait, .wBegin 0, .wBegin 1, .wReturn 0, .wReturn 1, .wFail a, .wFail b,
   .cCtxDone, .cReturn, .mReturn]

/-- **the returned error depends on the schedule**: the same call (two services, both fail) returns the error of service 0
    under one schedule and the error of service 1 under another — "the result is independent of the schedule" holds at full
    strength only up to the identity of the error (`fanout_schedule_independent_partial`); the property asks for the FIRST
    error, which is what `fanout_first_error` proves -/
theorem fanout_error_depends_on_schedule :
    (run twoFail (init twoFail) (errRun 0 1)).map (fun s => (s.m, s.firstErr)) = some (.returned, some 0) ∧
    (run twoFail (init twoFail) (errRun 1 0)).map (fun s => (s.m, s.firstErr)) = some (.returned, some 1) := by
  decide

end CV.Fanout

namespace CV.Gen

theorem caller_owned_write_exists : callerOwnedWrites ≠ [] := by decide

end CV.Gen
