import ComposeVerif.Props.C14Deriv
/-!
# C14 — proved negations for the heap programs

`WithoutUnnecessaryResources` as it was before the round-1 repair (the kept values are read from the receiver) is a
program of the statement language too: it is *not* receiver free, and on a three-cell project its result reaches the
receiver's labels map.  (Real-code replay: `corpus/C14/without-unnecessary-resources-alias.json` on the pre-fix tree.)
-/
namespace CV.Heap

theorem old_withoutUnnecessaryResources_not_receiver_free : rfL Deriv.withoutUnnecessaryResourcesOld = false := by decide

theorem old_withoutUnnecessaryResources_aliases :
    (runProg exTy2 exPlan2 Deriv.withoutUnnecessaryResourcesOld exProj [] 6).err = none ∧
    3 ∈ addrs (getVar "result" (runProg exTy2 exPlan2 Deriv.withoutUnnecessaryResourcesOld exProj [] 6).vars) ∧
    3 ∈ addrs exProj := by
  decide +kernel

end CV.Heap
