import ComposeVerif.Model.EnvLayersSites
/-!
# C16 — a value-less `environment` entry of an *included* file depends on the YAML form it is written in  (finding)

`environment: [VAR]` and `environment: {VAR: }` are two spellings of the same entry; in the main file both take the
project environment's value (`Props/C16.load_env_precedence` for either form).  In a file included with an `env_file` (or
with a `.env` beside it) that defines `VAR` while the project environment does not, the sequence form takes the include's
value (`resolveServicesEnvironment` at the end of the included `loadYamlModel`) and the mapping form stays without value
(`Normalize` runs only on the main model, with the project environment).  Whichever of the two one takes as "the project
environment" of the included file, one of the forms contradicts "a key written without a value takes the value of the
project environment if present there".  Replayed on the real loader: `corpus/C16/include-env-file-valueless.json`,
oracle key `valueless-form-dependent:include-env-file`.
-/
namespace CV.EnvLayers.Neg
open CV.EnvLayers

/-- the two YAML forms of the same entries decode to the same `environment`, also in an included file -/
def IncludedFormIndependent : Prop :=
  ∀ (cfg : LoadCfg) (penv ifile : List (Key × Str)) (kvs : List (Key × Option Str)) (k : Key),
    lookup k (loadedEnvIncluded cfg penv ifile (.map kvs)) = lookup k (loadedEnvIncluded cfg penv ifile (YEnv.asList kvs))

def cfgI : LoadCfg := { skipNormalization := false, skipResolveEnvironment := false, discard := false }
def ifileI : List (Key × Str) := [(['V'], ['i'])]

theorem included_witness :
    lookup ['V'] (loadedEnvIncluded cfgI [] ifileI (.map [(['V'], none)])) = some none ∧
    lookup ['V'] (loadedEnvIncluded cfgI [] ifileI (YEnv.asList [(['V'], none)])) = some (some ['i']) := by decide

theorem included_form_independent_false : ¬ IncludedFormIndependent := by
  intro h
  have := h cfgI [] ifileI [(['V'], none)] ['V']
  rw [included_witness.1, included_witness.2] at this
  cases this

/-- without an include-level value for the key the two forms do agree (here: the include's file does not define it) -/
theorem included_forms_agree_example :
    lookup ['V'] (loadedEnvIncluded cfgI [(['V'], ['p'])] ifileI (.map [(['V'], none)])) =
    lookup ['V'] (loadedEnvIncluded cfgI [(['V'], ['p'])] ifileI (YEnv.asList [(['V'], none)])) := by decide

end CV.EnvLayers.Neg
