import ComposeVerif.Model.DerivApply
import ComposeVerif.Lemmas.HeapProg
/-!
# C14 (round 6) — negative witness for the marshaller option path

The slip of seed C09-8 inside the model: `clone := *p` instead of `p.deepCopy()` — the clone's `Secrets` map is the
receiver's, so the flag is written into the caller's project.  The program is not receiver free and the receiver changes:
`apply_secrets_confined` is a fact about the statements of `apply`, not about any function of that shape.
-/
namespace CV.Heap.NegApply
open CV.Heap CV.Heap.Deriv

/-- `clone := *p; for name, config := range clone.Secrets { config.marshallContent = true; clone.Secrets[name] = config }` -/
def applyShallow : List Stmt := [
  .rangeMap "name" "config" (.fld (.var "p") fSecrets) [
    .assign "config" (.withFld (.var "config") fMarshallContent (.str fun _ => "b:true")),
    .mapStore (.fld (.var "p") fSecrets) (·.pstr "name") (.var "config")],
  .assign "result" (.var "p")]

def recv : GoVal := .ptr 1 (.struct [
  (.fld fSecrets, .map 2 [(.str "token", .struct [(.fld fMarshallContent, .scalar "")])])])

theorem shallow_apply_not_receiver_free : rfL applyShallow = false := by decide

/-- the write goes through address 2 — the receiver's own map — and the receiver's secret now carries the flag -/
theorem shallow_apply_writes_receiver :
    let st := runProg (.ptr (.struct [])) (.newPtr (.fields [])) applyShallow recv [] 3
    st.log.map (·.1) = [2] ∧ scalarStr (getFld fMarshallContent (getIdx "token" (getFld fSecrets recv))) = "" ∧
    scalarStr (getFld fMarshallContent (getIdx "token" (getFld fSecrets (getVar "p" st.vars)))) = "b:true" := by
  decide +kernel

end CV.Heap.NegApply
