import ComposeVerif.Model.C11Keys
/-!
# C09 — the reload fixed point needs a unicity key that does not depend on the spelling  (round 6)

`Props/C09Twice.lean` (`reload_fixed_point`) assumes `key (f x) = key x`: writing an entry's defaults out does not
change its key.  `portKeyRaw` is `portIndexer` with the defaulting of an absent `protocol` dropped from the long-syntax
branch (`%v` of `value["protocol"]`).  The same port in short syntax (as `transformPorts` canonicalises it) and in long
syntax without `protocol` is then kept twice by the first load, and collapsed by the reload of the rendering (which
carries `protocol: tcp` on both): the project and its reload differ.  The oracle stream `twice:entries:ports` replays
this input on the real code (`roundtrip:ServiceConfig.Ports:*`).
-/
namespace CV.Neg.C09Twice
open CV CV.Val CV.C11

def portKeyRaw : Val → Out String
  | .int i => .ok (toString i)
  | .map m =>
    match lookup "target" m with
    | none => .err "missingTarget"
    | some t =>
      .ok (keyOr "0.0.0.0" (lookup "host_ip" m) ++ ":" ++ fmtVO (lookup "published" m) ++ ":" ++ fmtV t ++ "/" ++
        fmtVO (lookup "protocol" m))
  | .str s => .ok s
  | _ => .ok ""

def short : Val := .map [("mode", .str "ingress"), ("target", .int 80), ("published", .str "8080"), ("protocol", .str "tcp")]
def long : Val := .map [("target", .int 80), ("published", .str "8080")]

/-- lengths of what the first load keeps and of what the reload of its rendering keeps -/
def kept (key : Val → Out String) (xs : List Val) : Option Nat :=
  match enforceSeq key xs with
  | .ok ys => some ys.length
  | _ => none

theorem key_depending_on_spelling_breaks_reload :
    kept portKeyRaw [short, long] = some 2 ∧ kept portKeyRaw ([short, long].map portDefaultsV) = some 1 ∧
    kept portKey [short, long] = some 1 ∧ kept portKey ([short, long].map portDefaultsV) = some 1 := by
  refine ⟨?_, ?_, ?_, ?_⟩ <;> rfl

end CV.Neg.C09Twice
