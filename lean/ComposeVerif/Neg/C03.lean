import ComposeVerif.Model.ShortParse
import ComposeVerif.Spec.Short
import ComposeVerif.Lemmas.ShortPort
/-!
# C03 — statements the unchanged tree falsifies (concrete witnesses, `by decide`)

The full-strength near-miss statement "every port string outside the grammar
`[IP:][HOST[-HOST]]:CONTAINER[-CONTAINER][/PROTO]` is rejected" is false on the unchanged tree:
`nat.ParsePortRange` and `nat.SplitProtoPort` read only the first two parts of a `-` / `/` split.
The provable statements are the `port_nearmiss_*` theorems of `Props/C03.lean` (enumerated classes).
Each witness is replayed on the real code on every run (corpus/C03/port-*.json, oracle key
`nearmiss-accepted:ports:*`, findings/C03.txt).
-/
namespace CV.Short.Neg
open CV.Short

/-- `80-81-82` is accepted, and read as the range `80-81` (the third bound is dropped silently) -/
theorem port_triple_range_accepted :
    (parsePort "80-81-82".toList).isSome = true ∧ parsePortRange "80-81-82".toList = some (80, 81) := by decide

/-- `80/tcp/x` is accepted, and read as `80/tcp` -/
theorem port_proto_tail_accepted :
    (parsePort "80/tcp/x".toList).isSome = true ∧ splitProtoPort "80/tcp/x".toList = ("tcp".toList, "80".toList) := by decide

/-- a rendered range splits on '-' into at most two parts -/
theorem range_split_le2 (r : Spec.Range) : (splitOn '-' r.render).length ≤ 2 := by
  have hd : ∀ n : Spec.Num, ∀ x ∈ n.render, x ≠ '-' := fun n x hx => (digit_ne (CV.Short.Num.render_digits n x hx)).1
  obtain ⟨lo, hi⟩ := r
  cases hi with
  | none => simp [Spec.Range.render, splitOn_clean _ _ (hd lo)]
  | some hi => simp [Spec.Range.render, splitOn_append _ _ _ (hd lo), splitOn_clean _ _ (hd hi)]

/-- so "whatever is not `parsePortRange`-shaped is rejected" fails -/
theorem range_render_one_dash_neg :
    ¬ (∀ s : Str, (∀ r : Spec.Range, r.render ≠ s) → parsePortRange s = none) := by
  intro h
  have h3 : parsePortRange "80-81-82".toList = some (80, 81) := by decide
  rw [h "80-81-82".toList ?_] at h3
  · cases h3
  · intro r hr
    have := range_split_le2 r
    rw [hr] at this
    revert this
    decide

/-- the full-strength near-miss statement is false on the unchanged tree: "every port string that is not the rendering of a
well-formed `PortSpec` is rejected" — `80-81-82` is the rendering of no AST at all (a rendered spec without ':' and '/'
is one range, and a range has at most one dash), yet it is accepted -/
theorem port_grammar_complement_neg :
    ¬ (∀ s : Str, (∀ a : Spec.PortSpec, a.render ≠ s) → parsePort s = none) := by
  intro h
  have hs : (parsePort "80-81-82".toList).isSome = true := by decide
  rw [h "80-81-82".toList ?_] at hs
  · cases hs
  · intro a hr
    have hc : ¬ ':' ∈ "80-81-82".toList := by decide
    have hsl : ¬ '/' ∈ "80-81-82".toList := by decide
    rw [← hr] at hc hsl
    obtain ⟨ip, host, cont, proto⟩ := a
    cases ip with
    | some i => cases host <;> simp [Spec.PortSpec.render] at hc
    | none =>
      cases host with
      | some r => simp [Spec.PortSpec.render] at hc
      | none =>
        cases proto with
        | some p => simp [Spec.PortSpec.render] at hsl
        | none =>
          simp only [Spec.PortSpec.render, List.append_nil] at hr
          have := range_split_le2 cont
          rw [hr] at this
          revert this
          decide

/-! ### pre-fix behaviour of `format.ParseVolume` (before the `fix:` commit on the drive-letter rule), kept as a witness -/

/-- the scanning loop as it was: the drive-letter rule fired in every section -/
def scanPre : Str → Str → Vol → Option Vol
  | [], _, v => some v
  | ch :: r, buf, v =>
    if isWindowsDrive buf ch then scanPre r (buf ++ [ch]) v
    else if ch = ':' || ch = NUL then
      match populate (ch = NUL) buf v with
      | none => none
      | some v' => scanPre r [] v'
    else scanPre r (buf ++ [ch]) v

/-- before the repair a four-section spec whose third section is a single letter was accepted and both option
sections were dropped: `vol:/b:z:ro` loaded as a plain read-write volume -/
theorem volume_letter_section_accepted_pre_fix :
    (scanPre ("vol:/b:z:ro".toList ++ [NUL]) [] {}).map populateType
      = some { type := "volume".toList, source := "vol".toList, target := "/b".toList, readOnly := false, bind := none, volume := some false } := by
  decide

end CV.Short.Neg
