import ComposeVerif.Model.ShortParse
import ComposeVerif.Spec.Short
import ComposeVerif.Lemmas.ShortPort
/-!
# C03 — statements the unchanged tree falsifies (concrete witnesses, `by decide`)

The full-strength near-miss statement "every port string outside the grammar
`[IP:][HOST[-HOST]]:CONTAINER[-CONTAINER][/PROTO]` is rejected" is false on the unchanged tree:
`nat.ParsePortRange` and `nat.SplitProtoPort` read only the first two parts of a `-` / `/` split.
The provable statements are the `port_nearmiss_*` theorems of `Props/C03.lean` (enumerated classes).
Each witness is replayed on the real code on every run (corpus/C03/port-*.json, oracle key
`nearmiss-accepted:ports:*`, findings/C03.txt).
-/
namespace CV.Short.Neg
open CV.Short

/-- `80-81-82` is accepted, and read as the range `80-81` (the third bound is dropped silently) -/
theorem port_triple_range_accepted :
    (parsePort "80-81-82".toList).isSome = true ∧ parsePortRange "80-81-82".toList = some (80, 81) := by decide

/-- `80/tcp/x` is accepted, and read as `80/tcp` -/
theorem port_proto_tail_accepted :
    (parsePort "80/tcp/x".toList).isSome = true ∧ splitProtoPort "80/tcp/x".toList = ("tcp".toList, "80".toList) := by decide

/-- so "whatever is not `parsePortRange`-shaped is rejected" fails: a string with two dashes is not the rendering
of any range (a rendered range has at most one dash) yet `parsePortRange` accepts it -/
theorem range_render_one_dash_neg :
    ¬ (∀ s : Str, (∀ r : Spec.Range, r.render ≠ s) → parsePortRange s = none) := by
  intro h
  have h2 := h "80-81-82".toList
  have h3 : parsePortRange "80-81-82".toList = some (80, 81) := by decide
  rw [h2] at h3
  · cases h3
  · intro r hr
    -- a rendered range splits on '-' into at most two parts
    have : (splitOn '-' r.render).length ≤ 2 := by
      have hd : ∀ n : Spec.Num, ∀ x ∈ n.render, x ≠ '-' := fun n x hx => (digit_ne (CV.Short.Num.render_digits n x hx)).1
      obtain ⟨lo, hi⟩ := r
      cases hi with
      | none => simp [Spec.Range.render, splitOn_clean _ _ (hd lo)]
      | some hi => simp [Spec.Range.render, splitOn_append _ _ _ (hd lo), splitOn_clean _ _ (hd hi)]
    rw [hr] at this
    revert this
    decide

/-- a volume spec with four sections whose third is a single letter is accepted, and both option sections are
dropped: `vol:/b:z:ro` loads as a plain read-write volume (the drive-letter rule fires on the option section) -/
theorem volume_letter_section_accepted :
    parseVolume "vol:/b:z:ro".toList
      = some { type := "volume".toList, source := "vol".toList, target := "/b".toList, readOnly := false, bind := none, volume := some false } := by
  decide

end CV.Short.Neg
