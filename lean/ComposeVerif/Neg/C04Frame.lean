import ComposeVerif.Spec.Frame
/-!
# C04 — the frame law at full strength is false on the unchanged tree (service names starting with `x-`)

Full-strength statement: *for every service and attribute name*, a later file that does not mention
`services.<svc>.<attr>` leaves it unchanged.  `mergeMappings` replaces the value of every key that starts with `x-` as a
whole (`strings.HasPrefix(k, "x-")`), also where the key is a user-chosen name: the later file's `x-web` mapping
replaces the earlier one and `image`, which it never mentions, is lost.  The provable statement is
`CV.C04.service_attr_frame_partial` (names not starting with `x-`).  The same input fails on the real loader
(`corpus/C04/finding-xprefix-service-replaced.json`, key `xprefix-name-replaced:services`).
-/
namespace CV.C04.Neg
open CV CV.Val CV.Merge CV.Override

/-- the witness, evaluated on the model of `override.Merge` -/
theorem xprefix_service_is_replaced :
    merge (.map [("services", .map [("x-web", .map [("image", .str "nginx"), ("command", .str "a")])])])
          (.map [("services", .map [("x-web", .map [("command", .str "b")])])])
      = .ok (.map [("services", .map [("x-web", .map [("command", .str "b")])])]) := by rfl

/-- **negation of the full-strength frame law** -/
theorem not_service_attr_frame :
    ¬ (∀ (base over m v : Val) (svc attr : String), merge base over = .ok m →
        getPath base ["services", svc, attr] = some v → Unmentioned over ["services", svc, attr] →
        getPath m ["services", svc, attr] = some v) := by
  intro h
  have := h (.map [("services", .map [("x-web", .map [("image", .str "nginx"), ("command", .str "a")])])])
    (.map [("services", .map [("x-web", .map [("command", .str "b")])])])
    (.map [("services", .map [("x-web", .map [("command", .str "b")])])]) (.str "nginx") "x-web" "image"
    xprefix_service_is_replaced (by rfl) (by simp [Unmentioned, keys, lookup])
  simp [getPath, lookup] at this

end CV.C04.Neg
