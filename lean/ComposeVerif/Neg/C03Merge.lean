import ComposeVerif.Model.ShortMerge
import ComposeVerif.Model.ShortDecode
/-!
# C03 — pre-repair witness for `build.ssh` in a second document (round 5, repo commit 8182cc6)

Before the repair `services.*.build.ssh` had no row in `mergeSpecials`: the merger fell through to the default rules,
where a mapping (the canonical form of the first document's `ssh`, whatever its spelling) cannot be overridden by a
sequence.  The list spelling in a second file / YAML document was rejected while the mapping spelling loaded — the
statement "short ≡ long for every document of a multi-document load" was false.  With the row
(`Props/C03Merge.lean`, `mergeSSH_short_eq_long`) both spellings go through `mergeToSequence`.
Replayed on the real code on every run: corpus/C03/build-ssh-list-second-document.json.
-/
namespace CV.Short.Neg
open CV

/-- document 1 `ssh: [default]` (canonical: `{default: null}`), document 2 `ssh: ["k=/p"]`: under the default rules
(no special merger) the list is rejected … -/
theorem ssh_list_second_document_rejected_pre_fix (mk : Val.KVs → Val.KVs → TPath → Merge.Out Val.KVs) (p : TPath) :
    transformSSH (.seq [.str "default"]) = .ok (.map [("default", .null)])
    ∧ Merge.defaultStep mk (.map [("default", .null)]) (.seq [.str "k=/p"]) p = .err "cannotOverride" := ⟨rfl, rfl⟩

/-- … while the mapping spelling of the same second document merges: ¬ (short ≡ long) under the pre-fix table -/
theorem ssh_short_ne_long_pre_fix :
    ¬ (∀ p : TPath, Merge.defaultStep (Merge.mergeKVs 8) (.map [("default", .null)]) (.seq [.str "k=/p"]) p
        = Merge.defaultStep (Merge.mergeKVs 8) (.map [("default", .null)]) (.map [("k", .str "/p")]) p) := by
  intro h
  have h1 : Merge.defaultStep (Merge.mergeKVs 8) (.map [("default", .null)]) (.seq [.str "k=/p"]) ["services", "s", "build", "ssh"]
      = .err "cannotOverride" := rfl
  have h2 : Merge.defaultStep (Merge.mergeKVs 8) (.map [("default", .null)]) (.map [("k", .str "/p")]) ["services", "s", "build", "ssh"]
      = .ok (.map [("default", .null), ("k", .str "/p")]) := rfl
  have := h ["services", "s", "build", "ssh"]
  rw [h1, h2] at this
  cases this

/-! ## round 7 finding `merged-mapping-host-addresses-reordered`

`override.convertIntoSequence` turns the mapping spelling of `extra_hosts` into `host=ip` lines and **sorts the lines**
(needed across hosts: Go map order), which also reorders the addresses of ONE host.  The list spelling is taken as it
is.  So the two spellings of `h1 ↦ [fe80::1, 10.0.0.1]`, equal when loaded alone, differ as soon as a second document
touches the attribute.  Replayed on the real code on every run: corpus/C03/extra-hosts-merged-address-order.json. -/

/-- alone the two spellings decode to the same `HostsList`; merged with the second document `{h1: 9.9.9.9}` by the model
of `mergeExtraHosts` they give two sequences that decode to different `HostsList`s -/
theorem extra_hosts_merged_short_ne_long (mk : Val.KVs → Val.KVs → TPath → Merge.Out Val.KVs) (p : TPath) :
    decodeHosts (.seq [.str "h1=fe80::1,10.0.0.1"]) = decodeHosts (.map [("h1", .seq [.str "fe80::1", .str "10.0.0.1"])])
    ∧ Merge.specialStep mk .extraHosts (.seq [.str "h1=fe80::1,10.0.0.1"]) (.map [("h1", .str "9.9.9.9")]) p
        = .ok (.seq [.str "h1=fe80::1,10.0.0.1", .str "h1=9.9.9.9"])
    ∧ Merge.specialStep mk .extraHosts (.map [("h1", .seq [.str "fe80::1", .str "10.0.0.1"])]) (.map [("h1", .str "9.9.9.9")]) p
        = .ok (.seq [.str "h1=10.0.0.1", .str "h1=fe80::1", .str "h1=9.9.9.9"])
    ∧ decodeHosts (.seq [.str "h1=fe80::1,10.0.0.1", .str "h1=9.9.9.9"])
        = some (.map [("h1", .seq [.str "fe80::1", .str "10.0.0.1", .str "9.9.9.9"])])
    ∧ decodeHosts (.seq [.str "h1=10.0.0.1", .str "h1=fe80::1", .str "h1=9.9.9.9"])
        = some (.map [("h1", .seq [.str "10.0.0.1", .str "fe80::1", .str "9.9.9.9"])]) := by
  refine ⟨by rfl, by rfl, by rfl, by rfl, by rfl⟩

/-- the negation of "short ≡ long survives the merger" for `extra_hosts` with several addresses per host -/
theorem extra_hosts_merged_short_eq_long_false :
    ¬ (∀ (e₁ e₂ o : Val) (p : TPath), decodeHosts e₁ = decodeHosts e₂ →
        ∀ m₁ m₂, Merge.specialStep (Merge.mergeKVs 8) .extraHosts e₁ o p = .ok m₁ →
          Merge.specialStep (Merge.mergeKVs 8) .extraHosts e₂ o p = .ok m₂ → decodeHosts m₁ = decodeHosts m₂) := by
  intro h
  obtain ⟨h0, h1, h2, h3, h4⟩ := extra_hosts_merged_short_ne_long (Merge.mergeKVs 8) []
  have := h _ _ _ [] h0 _ _ h1 h2
  rw [h3, h4] at this
  simp at this

end CV.Short.Neg
