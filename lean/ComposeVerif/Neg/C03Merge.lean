import ComposeVerif.Model.ShortMerge
/-!
# C03 — pre-repair witness for `build.ssh` in a second document (round 5, repo commit 8182cc6)

Before the repair `services.*.build.ssh` had no row in `mergeSpecials`: the merger fell through to the default rules,
where a mapping (the canonical form of the first document's `ssh`, whatever its spelling) cannot be overridden by a
sequence.  The list spelling in a second file / YAML document was rejected while the mapping spelling loaded — the
statement "short ≡ long for every document of a multi-document load" was false.  With the row
(`Props/C03Merge.lean`, `mergeSSH_short_eq_long`) both spellings go through `mergeToSequence`.
Replayed on the real code on every run: corpus/C03/build-ssh-list-second-document.json.
-/
namespace CV.Short.Neg
open CV

/-- document 1 `ssh: [default]` (canonical: `{default: null}`), document 2 `ssh: ["k=/p"]`: under the default rules
(no special merger) the list is rejected … -/
theorem ssh_list_second_document_rejected_pre_fix (mk : Val.KVs → Val.KVs → TPath → Merge.Out Val.KVs) (p : TPath) :
    transformSSH (.seq [.str "default"]) = .ok (.map [("default", .null)])
    ∧ Merge.defaultStep mk (.map [("default", .null)]) (.seq [.str "k=/p"]) p = .err "cannotOverride" := ⟨rfl, rfl⟩

/-- … while the mapping spelling of the same second document merges: ¬ (short ≡ long) under the pre-fix table -/
theorem ssh_short_ne_long_pre_fix :
    ¬ (∀ p : TPath, Merge.defaultStep (Merge.mergeKVs 8) (.map [("default", .null)]) (.seq [.str "k=/p"]) p
        = Merge.defaultStep (Merge.mergeKVs 8) (.map [("default", .null)]) (.map [("k", .str "/p")]) p) := by
  intro h
  have h1 : Merge.defaultStep (Merge.mergeKVs 8) (.map [("default", .null)]) (.seq [.str "k=/p"]) ["services", "s", "build", "ssh"]
      = .err "cannotOverride" := rfl
  have h2 : Merge.defaultStep (Merge.mergeKVs 8) (.map [("default", .null)]) (.map [("k", .str "/p")]) ["services", "s", "build", "ssh"]
      = .ok (.map [("default", .null), ("k", .str "/p")]) := rfl
  have := h ["services", "s", "build", "ssh"]
  rw [h1, h2] at this
  cases this

end CV.Short.Neg
