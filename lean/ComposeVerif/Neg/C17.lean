import ComposeVerif.Lemmas.NameDotenv
/-!
# C17 — boundaries of the property, proved on concrete witnesses

The property speaks about "every option order the API documents".  Two stronger readings are *false* for the
code that exists; they are recorded here (and replayed on the real code from `corpus/C17/`, where the model and
the implementation agree on them) so that nobody mistakes the proved theorems for the stronger statements.
Neither is a defect with respect to the property text.
-/
namespace CV.Name.Neg
open CV CV.Name

def fa : List (Str × Str) := [("V".toList, "a".toList), ("X".toList, "1".toList)]
def fb : List (Str × Str) := [("X".toList, "2".toList), ("S".toList, "$X".toList)]

def w : World where
  dirs := [{ name := "p".toList, files := [("c".toList, [none])] }]
  given := [{ dir := 0, file := some "c".toList }]
  os := strs ["V=o"]
  envFiles := [("a".toList, .file (renderSimple fa)), ("b".toList, .file (renderSimple fb))]
  probe := []

theorem la : lookupFile w (.named "a".toList) = some (.file (renderSimple fa)) := by decide
theorem lb : lookupFile w (.named "b".toList) = some (.file (renderSimple fb)) := by decide

/-- unfold a concrete run down to the grammar evaluator -/
macro "eval_run" : tactic => `(tactic|
  (simp only [run, runOpts, applyOpt, withEnvFiles, strs, List.map, getEnvFromFile, la, lb,
     parseFile_renderSimple _ fa (by decide), parseFile_renderSimple _ fb (by decide)]))

def varOf (k : String) (r : Except Err Loaded) : Option String :=
  r.toOption.bind (fun l => (l.env.get k.toList).map String.ofList)

/-- "OS variables over .env files" does NOT hold for every order of the option calls: `WithDotEnv` called
    before `WithOsEnv` lets the file value win (the general law is `env_any_option_order`) -/
theorem os_over_dotenv_in_any_order_is_false :
    ¬ (∀ opts : List Opt, Opt.withOsEnv ∈ opts → varOf "V" (run w opts) = some "o" ∨ varOf "V" (run w opts) = none) := by
  intro h
  have := h [.withEnvFiles (strs ["a"]), .withDotEnv, .withOsEnv] (by decide)
  revert this
  eval_run
  decide

/-- a reference in a later env file does NOT see the later file's own override first: `$X` on a line of `b`
    placed after `X=2` resolves to the EARLIER file's `X=1` (lookup chain: project environment, earlier files,
    earlier lines — `dotenv_refs_above`), although the final value of `X` is 2 -/
theorem ref_sees_own_file_first_is_false :
    ¬ (varOf "S" (run w [.withEnvFiles (strs ["a", "b"]), .withDotEnv]) = varOf "X" (run w [.withEnvFiles (strs ["a", "b"]), .withDotEnv])) := by
  eval_run
  decide

end CV.Name.Neg
