import ComposeVerif.Lemmas.NameExamples
/-!
# C17 — boundaries of the property, proved on concrete witnesses

The property speaks about "every option order the API documents".  Three stronger readings are *false* for the
code that exists; they are recorded here (and replayed on the real code from `corpus/C17/`, where the model and
the implementation agree on them) so that nobody mistakes the proved theorems for the stronger statements.
None is a defect with respect to the property text.
-/
namespace CV.Name.Neg
open CV CV.Name

/-- "OS variables over .env files" does NOT hold for every order of the option calls: `WithDotEnv` called
    before `WithOsEnv` lets the file value win (the general law is `env_any_option_order`) -/
theorem os_over_dotenv_in_any_order_is_false :
    ¬ (∀ opts : List Opt, Opt.withOsEnv ∈ opts → varOf "V" (run negW opts) = some "o" ∨ varOf "V" (run negW opts) = none) := by
  intro h
  have := h [.withEnvFiles (strs ["a"]), .withDotEnv, .withOsEnv] (by decide)
  revert this
  neg_eval_run
  decide

/-- a reference in a later env file does NOT see the later file's own override first: `$X` on a line of `b`
    placed after `X=2` resolves to the EARLIER file's `X=1` (lookup chain: project environment, earlier files,
    earlier lines — `dotenv_refs_above`), although the final value of `X` is 2 -/
theorem ref_sees_own_file_first_is_false :
    ¬ (varOf "S" (run negW [.withEnvFiles (strs ["a", "b"]), .withDotEnv]) = varOf "X" (run negW [.withEnvFiles (strs ["a", "b"]), .withDotEnv])) := by
  neg_eval_run
  decide

/-- the position of `WithEnv` relative to `WithDotEnv` DOES matter (unlike its position relative to `WithOsEnv`,
    `withEnv_withOsEnv_commute`, and unlike the position of `WithName`, `withName_commutes`): called after
    `WithDotEnv`, the explicit `X=9` still wins for `X` itself (`explicit_over_all`), but the reference `S=$X` in an
    env file was already resolved without it (to the earlier file's `X=1`); called before, `S` is `9`.  "`.env` values
    may reference the variables above them" is a statement about the documented order -/
theorem withEnv_position_irrelevant_is_false :
    ¬ (varOf "S" (run negW [.withEnv (strs ["X=9"]), .withEnvFiles (strs ["a", "b"]), .withDotEnv]) =
       varOf "S" (run negW [.withEnvFiles (strs ["a", "b"]), .withDotEnv, .withEnv (strs ["X=9"])])) := by
  neg_eval_run
  decide

end CV.Name.Neg
