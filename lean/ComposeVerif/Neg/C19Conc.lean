import ComposeVerif.Model.Locked
/-!
# C19 — proved negations: a lazily filled memo WITHOUT a mutex, touched by two traversal workers

The shape of `if v.memo != nil { return v.memo }; …compute…; v.memo = vx` run by the workers of two sibling services that
share a dependency: one critical section `memoF c` per worker on the guarded state `Option (List String)`, with
`locked := false` (there is no mutex around it).  What `Props/C19Conc.lean` excludes for the code as it is (its parallel
region has no store outside `t.mu` except the collector's own counter).
-/
namespace CV.Locked

/-- the section: fill the memo with `c` unless it is filled already -/
def memoF (c : List String) : Option (List String) → Option (List String) := fun m => if m.isSome then m else some c

/-- **data race**: two workers, both read the empty memo; then one's write and the other's read, and both writes, are
    enabled together -/
theorem unguarded_memo_races :
    ((run false (init (fun _ : Bool => [memoF ["base"]]) none) [.lock false, .read false, .lock true]).map fun s =>
      ((step? false s (.write false)).isSome, (step? false s (.read true)).isSome)) = some (true, true) ∧
    ((run false (init (fun _ : Bool => [memoF ["base"]]) none) [.lock false, .read false, .lock true, .read true]).map fun s =>
      ((step? false s (.write false)).isSome, (step? false s (.write true)).isSome)) = some (true, true) := by
  decide

/-- the memo is computed (and stored) twice: "filled once" fails without the mutex -/
theorem unguarded_memo_filled_twice :
    ((run false (init (fun _ : Bool => [memoF ["base"]]) none)
      [.lock false, .read false, .lock true, .read true, .write false, .write true, .unlock false, .unlock true]).map fun s =>
      (s.hist, s.mem)) = some ([false, true], some ["base"]) := by
  decide

/-- the same schedule is refused when the section holds a mutex -/
theorem guarded_memo_refuses_that_schedule :
    (run true (init (fun _ : Bool => [memoF ["base"]]) none) [.lock false, .read false, .lock true]).isNone = true := by
  decide

end CV.Locked
