import ComposeVerif.Model.EnvLayersUnicity
import ComposeVerif.Spec.EnvLayers
/-!
# C16 — an `env_file` path listed twice loses its second position in a whole load  (finding, round 7)

"A service's final environment is its env_file entries in order (a later file overriding an earlier one)".
`env_file: [a, b, a]` is loaded as `[a, b]`: `override.EnforceUnicity` keeps the first position of a path
(`Model/EnvLayersUnicity.lean`, `uniqBy`).  A key of both files ends with `b`'s value; the written order says `a`'s.
The same list given to the Project method directly, and the same list as `label_file`, follow the written order.
Replayed on the real loader: `corpus/C16/repeated-env-file-path.json` (model = real), oracle key
`repeated-path-first-position:env_file`.
-/
namespace CV.EnvLayers.Neg
open CV.EnvLayers CV.EnvLayers.Spec

def fa : List Line := [.assign ['K'] [.lit ['a']]]
def fb : List Line := [.assign ['K'] [.lit ['b']]]

def fsR : FS := { node := fun p => if p = ['a'] then some (.file fa) else if p = ['b'] then some (.file fb) else none }

def cfgR : LoadCfg := { skipNormalization := false, skipResolveEnvironment := false, discard := false }

/-- `env_file: [a, b, a]`, `label_file: [a, b, a]` -/
def svcR : YService :=
  { yenv := .absent, ylabels := .absent,
    svc := { environment := [], envFiles := [⟨['a'], true, []⟩, ⟨['b'], true, []⟩, ⟨['a'], true, []⟩],
             labels := [], labelFiles := [['a'], ['b'], ['a']] } }

/-- the written-order clause through a whole load (all files present, no `environment`): the final value of every key
    of every service is `finalEnv` of the contents of its env files in the order they are written -/
def WrittenOrderThroughLoad : Prop :=
  ∀ (cfg : LoadCfg) (fs : FS) (n : Str) (y : YService) (contents : List (List Line)) (out : List (Str × Service)) (s : Service),
    y.yenv = .absent →
    y.svc.envFiles.map (fun f => fs.node f.path) = contents.map (fun ls => some (.file ls)) →
    loadProjectYU cfg [] fs [(n, y)] = .ok out → lookup n out = some s →
    ∀ k, lookup k s.environment = finalEnv [] contents [] k

theorem repeated_witness :
    (∃ s, loadProjectYU cfgR [] fsR [(['s'], svcR)] = .ok [(['s'], s)] ∧
          lookup ['K'] s.environment = some (some ['b']) ∧
          s.envFiles = [⟨['a'], true, []⟩, ⟨['b'], true, []⟩] ∧
          -- the label_file list is not de-duplicated: written order
          lookup ['K'] s.labels = some ['a'] ∧ s.labelFiles = [['a'], ['b'], ['a']]) ∧
    finalEnv [] [fa, fb, fa] [] ['K'] = some (some ['a']) := by
  refine ⟨⟨_, rfl, ?_, ?_, ?_, ?_⟩, ?_⟩ <;> decide

theorem repeated_env_file_written_order_false : ¬ WrittenOrderThroughLoad := by
  intro h
  obtain ⟨⟨s, hl, hk, _⟩, hf⟩ := repeated_witness
  have := h cfgR fsR ['s'] svcR [fa, fb, fa] _ s rfl rfl hl (by simp [lookup]) ['K']
  rw [hk, hf] at this
  cases this

/-- the Project method itself follows the written order: the same list, not passed through the loader -/
theorem repeated_direct_follows_written_order :
    (resolveServiceEnv [] fsR false svcR.svc).map (fun s => lookup ['K'] s.environment) = .ok (some (some ['a'])) := by
  rfl

end CV.EnvLayers.Neg
