import ComposeVerif.Model.Locked
/-!
# C19 — proved negations: the same critical sections WITHOUT the mutex (`locked := false`)

Concrete witnesses, each evaluated by `decide`.  They are what `Props/C19Locks.lean` excludes for the code as it is, and what
removing `versionWarningMu` / `t.mu` (or moving a read out of the locked region) would bring back.
-/
namespace CV.Locked

/-- two loads, one file with `version:` each -/
def negFiles : Bool → List String := fun b => if b then ["b.yml"] else ["a.yml"]

/-- both goroutines read `versionWarning` before either stores its append -/
def negRun : List (Label Bool) :=
  [.lock false, .read false, .lock true, .read true, .write false, .write true, .unlock false, .unlock true]

/-- **lost update**: without the mutex both appends run (`hist` has two entries, both goroutines are through) and
    `versionWarning` holds ONE file — the full-strength "no append is lost" fails for the unprotected sections -/
theorem unlocked_loses_update :
    ((run false (init (fun t => warnProg (negFiles t)) ([], [])) negRun).map fun s =>
      (s.mem.1, (s.rest false).length, (s.rest true).length, s.hist)) = some (["b.yml"], 0, 0, [false, true]) := by
  decide

/-- the same schedule is refused by the locked system: the second `Lock()` blocks -/
theorem locked_refuses_that_schedule :
    (run true (init (fun t => warnProg (negFiles t)) ([], [])) negRun).isNone = true := by
  decide

/-- **data race**: without the mutex a state is reachable in which one goroutine's write and the other's read of the
    guarded state are enabled together -/
theorem unlocked_races :
    ((run false (init (fun t => warnProg (negFiles t)) ([], [])) [.lock false, .read false, .lock true]).map fun s =>
      ((step? false s (.write false)).isSome, (step? false s (.read true)).isSome)) = some (true, true) := by
  decide

/-- `enter` without `t.mu`: caller and coordinator both find vertex 0 absent and both win it (the vertex is visited twice) -/
theorem unlocked_enter_wins_twice :
    ((run false (init (fun _ : Bool => [fun (m : (Nat → Status) × List Nat) =>
        (enterF 0 m.1, if m.1 0 = .absent then m.2 ++ [0] else m.2)]) (fun _ => .absent, [])) negRun).map fun s =>
      (s.hist, s.mem.1 0)) = some ([false, true], .entered) := by
  decide

end CV.Locked
