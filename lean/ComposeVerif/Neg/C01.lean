import ComposeVerif.Model.C01Cycles
/-!
# C01 — statements the unchanged tree falsifies (proved negations, concrete witnesses)

Each witness is replayed on the real code by the harness (corpus/C01/*.json) and listed in findings/C01.txt.
-/
namespace CV.C01.Neg
open CV.C01

/-! ## include: a cycle that only shows in an *override* position of the long syntax is not detected

`include: [{path: [b.yml, compose.yml]}]` in `compose.yml`: `ApplyInclude` tests only `path[0]` against the
files already being loaded, so `compose.yml` is loaded again as an override of `b.yml`, includes again, …
The real loader does not return (observed: > 10 s, memory growing; key `hang@cycle/include-override-position`). -/

def incWitness : Inc.FS := [("A", [["B", "A"]]), ("B", [])]

theorem incWitness_loops : ∀ (fuel : Nat) (inc : List String), (∀ x ∈ inc, x = "A") →
    Inc.loadModel incWitness fuel ["B", "A"] inc = .outOfFuel
  | 0, _, _ => rfl
  | fuel + 1, inc, h => by
    have hB : "B" ∉ inc ++ ["A"] := by
      intro hm
      rcases List.mem_append.mp hm with h' | h'
      · exact absurd (h _ h') (by decide)
      · simp only [List.mem_singleton] at h'
        exact absurd h' (by decide)
    have ih := incWitness_loops fuel (inc ++ ["A"]) (by
      intro x hx
      rcases List.mem_append.mp hx with h' | h'
      · exact h x h'
      · simpa using h')
    have hne : ¬ ("B" = "A") := by decide
    simp only [incWitness] at ih
    simp only [Inc.loadModel, Inc.loadFiles, incWitness, Inc.lookup, Inc.applyInclude, hB, hne, ↓reduceIte, ih]

/-- full-strength termination of the include loop is FALSE: no amount of fuel suffices on the witness -/
theorem include_terminates_false :
    ¬ (∀ (fs : Inc.FS) (files : List String), ∃ n, ∀ fuel, n ≤ fuel → Inc.loadModel fs fuel files [] ≠ .outOfFuel) := by
  intro h
  obtain ⟨n, hn⟩ := h incWitness ["B", "A"]
  exact hn n (Nat.le_refl n) (incWitness_loops n [] (by intro x hx; cases hx))

/-! ## extends: the base file is resolved with an unchecked `value.(string)` on `extends.file`

`a` extends `b` in `o.yml`; some service of `o.yml` has `extends: {service: x, file: 3}`.  After `o.yml` is
loaded, `paths.ResolveRelativePaths` runs `absExtendsPath` on every `services.*.extends.file` and panics
(key `panic@paths.(*relativePathsResolver).absExtendsPath`). -/

def extWitnessFS : Ext.FS := [("o.yml", .services [("b", .plain), ("c", .ext (.map (.str "b") .other))])]
def extWitnessSvcs : Ext.Services := [("a", .ext (.map (.str "b") (.str "o.yml")))]

/-- "the extends recursion never panics" is FALSE -/
theorem extends_never_panics_false :
    ¬ (∀ (fs : Ext.FS) (main : String) (fuel : Nat) (svcs : Ext.Services) (name : String) (s : String),
        (Ext.resolve fs main fuel svcs name []).1 ≠ .panic s) := by
  intro h
  exact h extWitnessFS "m" 3 extWitnessSvcs "a" "paths.absExtendsPath:value.(string)" (by decide)

end CV.C01.Neg
