import ComposeVerif.Model.C01Cycles
import ComposeVerif.Model.C01Reset
import ComposeVerif.Model.Unicity
import ComposeVerif.Model.ShortTransform
/-!
# C01 — statements the unchanged tree falsifies (proved negations, concrete witnesses)

Each witness is replayed on the real code by the harness (corpus/C01/*.json) and listed in findings/C01.txt.
-/
namespace CV.C01.Neg
open CV.C01

/-! ## alias expansion: a merge key that points at an enclosing anchor is followed forever

`checkForCycle` exempts visits "at the exact same path" and any path that contains a merge key; a `<<: *x`
inside `&x` is visited at the same (merge-stripped) path every time, so neither test ever fires. -/

section ResetWitness
open CV.C01.Reset

/-- `resolveReset` as it was before the repair (repo commit "resolveReset reports a node nested twice inside its
own expansion as a cycle"): no stack of active nodes, `checkForCycle` is the only protection -/
def preResolve : Nat → St → Nat → P → Except Err (St × Option Nat)
  | 0, _, _, _ => .error .outOfFuel
  | fuel + 1, st, n, path0 =>
    let path := normPath path0
    match st.arena[n]? with
    | none => .error .badIndex
    | some (.alias t) =>
      match checkForCycle st t path with
      | .error e => .error e
      | .ok st' => preResolve fuel st' t path
    | some node =>
      if node.tag = "!reset" then .ok ({ st with paths := st.paths ++ [path] }, none)
      else if node.tag = "!override" then .ok ({ st with paths := st.paths ++ [path] }, some n)
      else match node with
        | .seq tag items =>
          match resolveItems (preResolve fuel) path st items 0 with
          | .error e => .error e
          | .ok (st', kept) => .ok ({ st' with arena := setNode n (.seq tag kept) st'.arena }, some n)
        | .map tag entries =>
          match resolveEntries (preResolve fuel) path st entries with
          | .error e => .error e
          | .ok (st', kept) => .ok ({ st' with arena := setNode n (.map tag kept) st'.arena }, some n)
        | _ => .ok (st, some n)

def preRun (arena : List Node) (root : Nat) (fuel : Nat) : Except Err (List P) :=
  match preResolve fuel { arena := arena, visited := [], paths := [] } root [] with
  | .error e => .error e
  | .ok (st, _) => .ok st.paths

/-- `&x {<<: *x}` as an arena (the document root is the anchored mapping itself) -/
def resetWitness : List Node := [.map "" [("<<", 1)], .alias 0]

def WInv (st : St) : Prop := st.arena = resetWitness ∧ ∀ p ∈ visitedOf 0 st.visited, p = ["<<"]

theorem visitedOf_setVisited (n : Nat) (ps : List P) : ∀ v, visitedOf n (setVisited n ps v) = ps
  | [] => by simp [setVisited, visitedOf]
  | (k, qs) :: r => by
    unfold setVisited
    split
    · rename_i h; simp [visitedOf, h]
    · rename_i h; simp only [visitedOf, h, if_false]; exact visitedOf_setVisited n ps r

theorem check_ok (st : St) (h : WInv st) : ∃ st', checkForCycle st 0 ["<<"] = .ok st' ∧ WInv st' := by
  have hany : (visitedOf 0 st.visited).any (fun prev =>
      prev ≠ ["<<"] && !("<<" ∈ prev || "<<" ∈ (["<<"] : P)) &&
      (properPrefix prev ["<<"] || properPrefix ["<<"] prev) && !diffServices ["<<"] prev) = false := by
    rw [List.any_eq_false]
    intro p hp
    have := h.2 p hp
    subst this
    simp
  refine ⟨{ st with visited := setVisited 0 (visitedOf 0 st.visited ++ [["<<"]]) st.visited }, ?_, ?_⟩
  · unfold checkForCycle
    simp only [hany]
    rfl
  · refine ⟨h.1, ?_⟩
    intro p hp
    simp only [visitedOf_setVisited] at hp
    rcases List.mem_append.mp hp with h' | h'
    · exact h.2 p h'
    · simpa using h'

theorem resetWitness_loops : ∀ (fuel : Nat) (st : St), WInv st →
    preResolve fuel st 0 ["<<"] = .error .outOfFuel ∧
    ∀ p, normPath p = ["<<"] → preResolve fuel st 1 p = .error .outOfFuel
  | 0, _, _ => ⟨rfl, fun _ _ => rfl⟩
  | fuel + 1, st, h => by
    obtain ⟨ih0, ih1⟩ := resetWitness_loops fuel st h
    obtain ⟨st', hck, hinv'⟩ := check_ok st h
    obtain ⟨ih0', _⟩ := resetWitness_loops fuel st' hinv'
    refine ⟨?_, ?_⟩
    · unfold preResolve
      simp only [normPath, h.1, resetWitness, List.getElem?_cons_zero, Node.tag]
      have e1 : ¬ ("" = "!reset") := by decide
      have e2 : ¬ ("" = "!override") := by decide
      have ih1' := ih1 ["<<", "<<"] (by decide)
      simp only [e1, e2, List.not_mem_nil, ↓reduceIte, resolveEntries, List.cons_append, List.nil_append, ih1']
    · intro p hn
      unfold preResolve
      simp only [hn, h.1, resetWitness, List.getElem?_cons_succ, List.getElem?_cons_zero, hck]
      exact ih0'


/-- full-strength "alias expansion terminates" was FALSE before the repair: on `&x {<<: *x}` no amount of fuel suffices
(real code: the loader never returns; key `hang@cycle/alias-self-merge`, `hang@reset/alias-self-merge`) -/
theorem alias_resolution_total_false :
    ¬ (∀ (arena : List Node) (root : Nat), ∃ n, ∀ fuel, n ≤ fuel → preRun arena root fuel ≠ .error .outOfFuel) := by
  intro h
  obtain ⟨n, hn⟩ := h resetWitness 0
  apply hn (n + 2) (by omega)
  have hinv : WInv { arena := resetWitness, visited := [], paths := [] } := ⟨rfl, by intro p hp; cases hp⟩
  have h1 := (resetWitness_loops (n + 1) _ hinv).2 ["<<"] (by decide)
  have e1 : ¬ ("" = "!reset") := by decide
  have e2 : ¬ ("" = "!override") := by decide
  unfold preRun
  unfold preResolve
  simp only [normPath, resetWitness, List.getElem?_cons_zero, Node.tag, e1, e2, ↓reduceIte, resolveEntries,
    List.nil_append]
  simp only [resetWitness] at h1
  simp only [h1]

/-! ## alias expansion hands yaml.v3 a cyclic tree when the cycle passes through an `!override` node

`[&n1 !override {b: &n2 {services: *n1}, x-a: *n1}, *n2, *n2]`: `resolveReset` returns `!override` nodes as they are
(no descent, no visit recorded); expanding `*n2` from outside replaces the alias `*n1` inside `n2` by a direct pointer
to `n1`, whose child `n2` is.  `Decode` then recurses through `n1 → n2 → n1 → …` (yaml.v3 only guards alias nodes).
Real code: stack exhaustion (key `hang@alias-override-cycle`). -/

def directChild (arena : List Node) (a b : Nat) : Bool :=
  match arena[a]? with
  | some (.seq _ items) => items.contains b
  | some (.map _ es) => es.any (fun e => e.2 == b)
  | _ => false

def overrideWitness : List Node :=
  [.seq "" [1, 5, 6], .map "!override" [("b", 2), ("x-a", 4)], .map "" [("services", 3)], .alias 1, .alias 1, .alias 2, .alias 2]

/-- "the resolved node graph is a tree along direct child pointers" is FALSE -/
theorem resolve_output_tree_false :
    ¬ (∀ (arena : List Node) (root fuel : Nat) (st : St) (r : Option Nat),
        resolve fuel { arena := arena, visited := [], paths := [] } [] root [] = .ok (st, r) →
        ∀ a b, directChild st.arena a b = true → directChild st.arena b a = false) := by
  intro h
  have hc : (match resolve 8 { arena := overrideWitness, visited := [], paths := [] } [] 0 [] with
      | .ok (st, _) => directChild st.arena 1 2 && directChild st.arena 2 1
      | .error _ => false) = true := by rfl
  cases hres : resolve 8 { arena := overrideWitness, visited := [], paths := [] } [] 0 [] with
  | error e => rw [hres] at hc; cases hc
  | ok p =>
    obtain ⟨st, r⟩ := p
    rw [hres] at hc
    simp only [Bool.and_eq_true] at hc
    have := h overrideWitness 0 8 st r hres 1 2 hc.1
    rw [hc.2] at this
    cases this

end ResetWitness

/-! ## "`EnforceUnicity` shields `transformKeyValue`" (round 5: the reason the site review gave for the unchecked `e.(string)`)

The attempt to prove `Unicity.enforceTop v = .ok v' → Short.canonical ign v' ≠ .panic _` failed on the `[]` step:
`enforceUnicity` does not descend into sequences, `transform` does, and both match `*` against any path step.  The three
facts of the counterexample (`services:` as a LIST, `build.additional_contexts: [1]` in its element), with `transformKeyValue`'s
list loop as it was before the repair (repo commit 717fb8d on branch ag5-C01) kept as a definition.
Replayed on the real code: corpus/C01/fixed-transform-transformKeyValue.json. -/

section KeyValueWitness
open CV

/-- the loop of `transformKeyValue` before the repair: `e.(string)` unchecked -/
def preKvList (ign : Bool) : List Val → Val.KVs → Option (Short.Out Val.KVs)
  | [], acc => some (.ok acc)
  | .str s :: r, acc =>
    match Short.cutAt '=' s.toList with
    | none => if ign then none else some (.err "parse")
    | some (k, v) => preKvList ign r (Val.insert (String.ofList k) (Short.sv v) acc)
  | _ :: _, _ => some (.panic "transform.transformKeyValue")

def kvWitness : Val :=
  .map [("services", .seq [.map [("build", .map [("additional_contexts", .seq [.int 1])])]])]

/-- the subtree at a path as the walkers name it (`[]` = an element of a sequence; here: the first) -/
def subAt : Val → List String → Option Val
  | v, [] => some v
  | .map kvs, k :: r => match Val.lookup k kvs with
    | some c => subAt c r
    | none => none
  | .seq (x :: _), k :: r => if k = "[]" then subAt x r else none
  | _, _ :: _ => none

/-- the full statement — in whatever `EnforceUnicity` lets through, a list found at a path that the transformer table
sends to `transformKeyValue` does not crash its (pre-repair) loop — is false -/
theorem unicity_shields_transformKeyValue_false :
    ¬ (∀ (v v' : Val) (p : TPath) (l : List Val), Unicity.enforceTop v = .ok v' →
        TPath.firstMatch CV.Gen.transformers p = some "transformKeyValue" →
        subAt v' p = some (.seq l) →
        ∀ ign s, preKvList ign l [] ≠ some (.panic s)) := by
  intro h
  have h1 : Unicity.enforceTop kvWitness = .ok kvWitness := by rfl
  have h2 : TPath.firstMatch CV.Gen.transformers ["services", "[]", "build", "additional_contexts"] = some "transformKeyValue" := by rfl
  have h3 : subAt kvWitness ["services", "[]", "build", "additional_contexts"] = some (.seq [.int 1]) := by rfl
  exact h kvWitness kvWitness _ [.int 1] h1 h2 h3 false "transform.transformKeyValue" rfl

/-- the same input in the repaired model: an error -/
example : Short.canonical false kvWitness = .err "type" := by rfl

end KeyValueWitness

end CV.C01.Neg
