import ComposeVerif.Model.Paths
/-!
# C12 — statements the unchanged tree falsifies (concrete witnesses, `by decide`)

Included and extended files are resolved in two stages: first against a directory *relative to the
project directory* (`sub`, `../sib`, …), then — with the rest of the model — against the project
directory.  The second stage re-reads the value the first stage wrote.  When that intermediate value
starts with `~`, looks like a remote build context, or looks Windows-absolute, the second stage takes the
exemption branch and the path is anchored at the wrong place.  The full-strength statement
"two-stage = one-stage against the joined directory" is therefore false; each witness below is replayed
on the real loader (corpus/C12/*.json, findings/C12.txt).
-/
namespace CV.Paths.Neg
open CV.Paths

def W : Str := ['/', 'w']
def H : Option Str := some ['/', 'h']

/-- a directory named `~`: `x` from an included/extended file in `./~/` ends up in the home directory -/
theorem compose_fails_tilde_dir :
    absPathStr ⟨W, H, fun _ => false, some⟩ (absPathStr ⟨['~'], H, fun _ => false, some⟩ ['x'])
      ≠ absPathStr ⟨join W ['~'], H, fun _ => false, some⟩ ['x'] := by decide

/-- a value written `./~` in a file of the project directory itself: stage 1 strips the `./` guard -/
theorem compose_fails_dot_tilde :
    absPathStr ⟨W, H, fun _ => false, some⟩ (absPathStr ⟨['.'], H, fun _ => false, some⟩ ['.', '/', '~'])
      ≠ absPathStr ⟨join W ['.'], H, fun _ => false, some⟩ ['.', '/', '~'] := by decide

def gh : Str := ['g', 'i', 't', 'h', 'u', 'b', '.', 'c', 'o', 'm']

/-- build context `.` of a file in `./github.com/…`: stage 2 takes `github.com/x` for a remote context -/
theorem compose_fails_remote_dir :
    absContextStr ⟨W, H, fun _ => false, some⟩ (absContextStr ⟨gh, H, fun _ => false, some⟩ ['x'])
      ≠ absContextStr ⟨join W gh, H, fun _ => false, some⟩ ['x'] := by decide

/-- build context written `./github.com/x` in a file of the project directory itself -/
theorem compose_fails_dot_remote :
    absContextStr ⟨W, H, fun _ => false, some⟩ (absContextStr ⟨['.'], H, fun _ => false, some⟩ (['.', '/'] ++ gh ++ ['/', 'x']))
      ≠ absContextStr ⟨join W ['.'], H, fun _ => false, some⟩ (['.', '/'] ++ gh ++ ['/', 'x']) := by decide

/-- a directory named `C:`: the bind source `x` becomes `C:/x`, which stage 2 leaves alone as Windows-absolute -/
theorem compose_fails_drive_dir :
    (maybeUnixStr ⟨['C', ':'], H, fun _ => false, some⟩ ['x']).bind (maybeUnixStr ⟨W, H, fun _ => false, some⟩)
      ≠ maybeUnixStr ⟨join W ['C', ':'], H, fun _ => false, some⟩ ['x'] := by decide

end CV.Paths.Neg
