import ComposeVerif.Model.Paths
import ComposeVerif.Model.PathsSymlink
import ComposeVerif.Model.PathsLoaders
/-!
# C12 — statements the tree falsified before the round-2 repairs (concrete witnesses, `by decide`)

Included and extended files are resolved in two stages: first against a directory *relative to the
project directory* (`sub`, `../sib`, …), then — with the rest of the model — against the project
directory.  Before `fix: a path made relative to the project directory by the first resolution stage … keeps a
leading ./` the second stage re-read the value the first stage wrote: an intermediate value that starts
with `~`, looks like a remote build context, or looks Windows-absolute took the exemption branch of the second
stage and the path was anchored at the wrong place.  `absPathStr₀`, `absContextStr₀`, `maybeUnixStr₀` are the
resolvers as they were (plain `filepath.Join`); the witnesses below show that "two-stage = one-stage against
the joined directory" was false for them.  For the repaired resolvers the statement is a theorem
(`Props/C12.lean`: `resolve_compose`, `resolve_compose_context`, `resolve_compose_mount`, `resolve_compose_tree`)
and the same inputs are kept in corpus/C12 as regression cases.
-/
namespace CV.Paths.Neg
open CV.Paths

/-- `absPath` before the repair -/
def absPathStr₀ (cfg : Cfg) (s : Str) : Str :=
  let v := expandUser cfg.home s
  if isAbs v then v
  else if v ≠ [] then join cfg.wd v
  else v

/-- `maybeUnixPath` before the repair -/
def maybeUnixStr₀ (cfg : Cfg) (s : Str) : Out Str :=
  let p := expandUser cfg.home s
  if isAbs p then .ok p
  else match isWindowsAbs? p with
    | none => .panic "isWindowsAbs"
    | some true => .ok p
    | some false => .ok (join cfg.wd p)

/-- `absContextPath` before the repair -/
def absContextStr₀ (cfg : Cfg) (s : Str) : Str :=
  if containsStr schemeSep s then s
  else if isRemoteContext s then s
  else absPathStr₀ cfg s

def W : Str := ['/', 'w']
def H : Option Str := some ['/', 'h']

/-- a directory named `~`: `x` from an included/extended file in `./~/` ended up in the home directory -/
theorem compose_failed_tilde_dir :
    absPathStr₀ ⟨W, H, fun _ => false, some⟩ (absPathStr₀ ⟨['~'], H, fun _ => false, some⟩ ['x'])
      ≠ absPathStr₀ ⟨join W ['~'], H, fun _ => false, some⟩ ['x'] := by decide

/-- a value written `./~` in a file of the project directory itself: stage 1 stripped the `./` guard -/
theorem compose_failed_dot_tilde :
    absPathStr₀ ⟨W, H, fun _ => false, some⟩ (absPathStr₀ ⟨['.'], H, fun _ => false, some⟩ ['.', '/', '~'])
      ≠ absPathStr₀ ⟨join W ['.'], H, fun _ => false, some⟩ ['.', '/', '~'] := by decide

def gh : Str := ['g', 'i', 't', 'h', 'u', 'b', '.', 'c', 'o', 'm']

/-- build context `.` of a file in `./github.com/…`: stage 2 took `github.com/x` for a remote context -/
theorem compose_failed_remote_dir :
    absContextStr₀ ⟨W, H, fun _ => false, some⟩ (absContextStr₀ ⟨gh, H, fun _ => false, some⟩ ['x'])
      ≠ absContextStr₀ ⟨join W gh, H, fun _ => false, some⟩ ['x'] := by decide

/-- build context written `./github.com/x` in a file of the project directory itself -/
theorem compose_failed_dot_remote :
    absContextStr₀ ⟨W, H, fun _ => false, some⟩ (absContextStr₀ ⟨['.'], H, fun _ => false, some⟩ (['.', '/'] ++ gh ++ ['/', 'x']))
      ≠ absContextStr₀ ⟨join W ['.'], H, fun _ => false, some⟩ (['.', '/'] ++ gh ++ ['/', 'x']) := by decide

/-- a directory named `C:`: the bind source `x` became `C:/x`, which stage 2 left alone as Windows-absolute -/
theorem compose_failed_drive_dir :
    (maybeUnixStr₀ ⟨['C', ':'], H, fun _ => false, some⟩ ['x']).bind (maybeUnixStr₀ ⟨W, H, fun _ => false, some⟩)
      ≠ maybeUnixStr₀ ⟨join W ['C', ':'], H, fun _ => false, some⟩ ['x'] := by decide

/-- the same inputs through the repaired resolvers: the first stage keeps a leading `./` -/
theorem repaired_tilde_dir :
    absPathStr ⟨['~'], H, fun _ => false, some⟩ ['x'] = ['.', '/', '~', '/', 'x'] ∧
    absPathStr ⟨W, H, fun _ => false, some⟩ ['.', '/', '~', '/', 'x'] = ['/', 'w', '/', '~', '/', 'x'] := by decide

/-! ## `utils.ResolveSymbolicLink` before the repair (first symbolic link only) was not a projection -/

/-- `a → b`, `b/c → d` (both targets physical) -/
def nestedLinks : Sym.FS := Sym.ofTable [([['a']], some [['b']]), ([['b'], ['c']], some [['d']])]

/-- resolving `a/c/x` gave `b/c/x`; resolving that again gave `d/x` (finding `nonidempotent:develop.watch:nested-symlink`);
the repaired loop returns `d/x` at once -/
theorem resolveSymOnce_not_idempotent :
    Sym.resolveSymOnce nestedLinks [['a'], ['c'], ['x']] = .ok [['b'], ['c'], ['x']] ∧
    Sym.resolveSymOnce nestedLinks [['b'], ['c'], ['x']] = .ok [['d'], ['x']] ∧
    Sym.resolveSym nestedLinks [['a'], ['c'], ['x']] = .ok [['d'], ['x']] := by decide

/-! ## round 5: a symbolic link in the working directory of the *process* moved the watch paths of included files

Before `fix: utils.ResolveSymbolicLink leaves a relative path alone …` the components of the relative first-stage result
(`b/x` for `path: x` in a file of the directory `b`) were `Lstat`ed from the working directory of the process.
`cwdLink`: that directory holds a link `b → /e` (the answer to an absolute path is the identity here: no other link).
It satisfies the second condition of `SymOK` but not the first, and two-stage = one-stage fails. -/

def cwdLink (s : Str) : Option Str :=
  if s = ['b', '/', 'x'] then some ['/', 'e', '/', 'x'] else some s

/-- what `absSymbolicLink` computes on a string -/
def watchStr (sym : Str → Option Str) (cfg : Cfg) (s : Str) : Option Str := sym (absPathStr cfg s)

/-- `path: x` in an included file of the directory `b`, project directory `/w`: the loaded watch path was `/e/x`,
the property says `/w/b/x` -/
theorem compose_failed_cwd_symlink :
    (watchStr cwdLink ⟨['b'], H, fun _ => false, cwdLink⟩ ['x']).bind (watchStr cwdLink ⟨W, H, fun _ => false, cwdLink⟩)
        = some ['/', 'e', '/', 'x'] ∧
    watchStr cwdLink ⟨join W ['b'], H, fun _ => false, cwdLink⟩ ['x'] = some ['/', 'w', '/', 'b', '/', 'x'] := by decide

/-- the repaired function does not consult anything for the relative path: same input, both ways `/w/b/x` -/
theorem repaired_cwd_symlink :
    (watchStr (Sym.resolveStr (Sym.ofTable [])) ⟨['b'], H, fun _ => false, some⟩ ['x']).bind
        (watchStr (Sym.resolveStr (Sym.ofTable [])) ⟨W, H, fun _ => false, some⟩)
      = watchStr (Sym.resolveStr (Sym.ofTable [])) ⟨join W ['b'], H, fun _ => false, some⟩ ['x'] := by decide

/-! ## round 6 — a `RemoteResourceLoaders` that returns a sub-slice of its argument (seed C12-7)

`Loaders.child_keeps_every_slice` / `siblings_independent` hold because `RemoteResourceLoaders` builds a fresh list.
With the "no need to copy" variant (`remoteLoadersSub`: the slice without its trailing local loader) the child's
`append` finds capacity in the PARENT's array and overwrites the parent's local loader: options `[remote 1, local /w]`,
one nested load for `/w/a` — the parent now reads `[remote 1, local /w/a]`, and the next include entry is looked up
from `/w/a`.  Replayed on the real code by `c12.multi` / `c12.loaders` (on the unchanged tree the observation holds). -/
open Loaders in
theorem subslice_child_clobbers_parent :
    let m := alloc Heap.empty [some (.remote 1)] 0
    let o := toOptions m.1 m.2 ['/', 'w']
    let c := childLoadersSub o.1 o.2 ['/', 'w', '/', 'a']
    read o.1 o.2 = [some (.remote 1), some (.loc ['/', 'w'])] ∧
    read c.1 o.2 = [some (.remote 1), some (.loc ['/', 'w', '/', 'a'])] ∧
    localDir (read c.1 o.2) ≠ localDir (read o.1 o.2) := by decide

open Loaders in
/-- the same inputs with the real `RemoteResourceLoaders`: the parent is left alone -/
theorem fresh_child_keeps_parent :
    let m := alloc Heap.empty [some (.remote 1)] 0
    let o := toOptions m.1 m.2 ['/', 'w']
    let c := childLoaders o.1 o.2 ['/', 'w', '/', 'a']
    read c.1 o.2 = [some (.remote 1), some (.loc ['/', 'w'])] ∧
    read c.1 c.2 = [some (.remote 1), some (.loc ['/', 'w', '/', 'a'])] := by decide

end CV.Paths.Neg
