import ComposeVerif.Model.C02ExtendsX
/-!
# C02 — proved negation: deleting `extends` from the raw definition before the merge (seeds C02-3 / C02-6)

`a` extends its sibling `b`; `b` extends service `x` of another file.  With `delete(service, "extends")` moved in front
of the merge (`applyOneXSeed`), visiting `a` first leaves `b`'s raw definition in the main map *without* its reference
(the merged `b` was memoised into the other file's map, which is dropped): when the loop reaches `b` there is nothing
left to extend and `b` loses everything it inherits.  Visiting `b` first is fine.  The code as it is (`applyOneX`) gives
the same services in both orders (`Props/C02ExtendsX.lean`); the witness is replayed on the real code by the
`c02.extendsX` stream (every visit order of every generated map) and `corpus/C02/extendsx-sibling-through-file.json`.
-/
namespace CV.Det.Neg.ExtX
open CV CV.Det CV.Det.ExtX

def files : AL (AL (XSvc (List String))) := [("other.yaml", [("x", (none, ["from-x"]))])]
def main : AL (XS (List String)) := [("a", (.same "b", ["own-a"])), ("b", (.file "other.yaml" "x", ["own-b"]))]
def mrg (base own : List String) : List String := base ++ own

/-- the code as it is: both orders give `b = from-x + own-b`, `a = from-x + own-b + own-a` -/
theorem actual_both_orders :
    applyAllX mrg files 3 ["a", "b"] main = some [("a", (.none, ["from-x", "own-b", "own-a"])), ("b", (.none, ["from-x", "own-b"]))] ∧
    applyAllX mrg files 3 ["b", "a"] main = some [("a", (.none, ["from-x", "own-b", "own-a"])), ("b", (.none, ["from-x", "own-b"]))] := by
  decide

/-- **the seeded variant depends on the visit order**: `b` keeps what it inherits only when it is visited first -/
theorem seed_order_dependent :
    applyAllXSeed mrg files 3 ["a", "b"] main = some [("a", (.none, ["from-x", "own-b", "own-a"])), ("b", (.none, ["own-b"]))] ∧
    applyAllXSeed mrg files 3 ["b", "a"] main = some [("a", (.none, ["from-x", "own-b", "own-a"])), ("b", (.none, ["from-x", "own-b"]))] := by
  decide

end CV.Det.Neg.ExtX
