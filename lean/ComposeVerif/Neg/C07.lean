import ComposeVerif.Model.Template
import ComposeVerif.Spec.Template
import ComposeVerif.Model.TemplateDocs
/-!
# C07 — statements the implementation does (or did) not satisfy, with concrete witnesses

1. **Newline inside an operator argument** (finding `grammar:newline-in-argument`, not repaired).
   The grammar at full strength (`WFml`) lets the literal text of a default / replacement / error
   message contain a newline.  The regular expression's `.*` does not cross a line end, so
   `${A:-` newline `}` is not matched as a braced substitution and the result is `invalid template`.
   `subst_render` (Props/C07) is the provable statement: the same with `WF` (no newline in an argument).

2. **Brace counter skipped the character after `{`** (repaired by the `fix:` commit recorded in
   findings/C07.txt).  `firstCloseGoOld` is `getFirstBraceClosingIndex` as it was: on `${A:-{}} ${B}`
   it does not find the brace that closes `${A:-…` (the `}` of `{}` is skipped), so the whole text was
   re-matched and `{}} ${B` was interpolated as the default — an `Invalid template` error instead of
   `{} b`.  The model in Model/Template.lean is the repaired function.
-/
namespace CV.Template.Neg
open CV.Template

/-- the newline witness: `${A:-⏎}` with `A` unset -/
def nlWitness : List Seg := [.op ['A'] .colonDash [.lit ['\n']]]

theorem nlWitness_wfml : WFml nlWitness = true := by decide

theorem nlWitness_subst : subst (fun _ => none) (renderL nlWitness) = .err .invalid := by decide

theorem nlWitness_eval : evalOut (fun _ => none) nlWitness = .ok ['\n'] := by decide

/-- the refinement at full strength (newlines allowed inside operator arguments) is false -/
theorem subst_render_multiline_false :
    ¬ (∀ (env : Env) (t : List Seg), WFml t = true → subst env (renderL t) = evalOut env t) := by
  intro h
  have := h (fun _ => none) nlWitness nlWitness_wfml
  rw [nlWitness_subst, nlWitness_eval] at this
  cases this

/-- `getFirstBraceClosingIndex` before the repair: the character after every `{` is skipped -/
def firstCloseGoOld : Str → Nat → Int → Option Nat
  | [], _, _ => none
  | '}' :: cs, i, o => if o - 1 == 0 then some i else firstCloseGoOld cs (i + 1) (o - 1)
  | '{' :: [], _, _ => none
  | '{' :: _ :: cs, i, o => firstCloseGoOld cs (i + 2) (o + 1)
  | _ :: cs, i, o => firstCloseGoOld cs (i + 1) o

/-- on `${A:-{}} ${B}` the old counter finds no closing brace at all; the repaired one finds index 7 -/
theorem old_brace_counter_misses :
    firstCloseGoOld "${A:-{}} ${B}".toList 0 0 = none ∧ firstClose "${A:-{}} ${B}".toList = some 7 := by decide

/-- on `${A:-{{x}}}` the old counter stops one brace early (index 9 instead of 10): with `A` set the
    result had a stray `}` appended -/
theorem old_brace_counter_early :
    firstCloseGoOld "${A:-{{x}}}".toList 0 0 = some 9 ∧ firstClose "${A:-{{x}}}".toList = some 10 := by decide

end CV.Template.Neg

/-! 3. **An include entry that writes its lookup through the cloned options pointer** (seed C07-8; not the code).
   `Options.clone()` copies the `*interp.Options` pointer, so `loadOptions.Interpolate.LookupValue = config.LookupEnv`
   would overwrite the lookup of the including project: `walkDocsShared` (Model/TemplateDocs.lean).  With `A` unset in
   the project and set by the include's env file, `$A` in a document interpolated *after* the include yields the
   include's value.  `Props/C07Docs.load_is_stateless` is the statement the code (a fresh cell per entry) satisfies. -/
namespace CV.Template.Docs
open CV.Template CV.Template.Sites

def leakDocs : List Doc := [.incl [(['A'], ['w'])] [], .value ['$', 'A']]

theorem shared_lookup_leaks : loadValuesShared [] leakDocs = [.ok ['w']] := by decide

theorem spec_does_not_leak : specDocs [] leakDocs = [.ok []] := by decide

/-- the walk with a shared lookup cell is not stateless -/
theorem shared_walk_not_stateless : ¬ (∀ (env : GoMap) (ds : List Doc), loadValuesShared env ds = specDocs env ds) := by
  intro h
  have := h [] leakDocs
  rw [shared_lookup_leaks, spec_does_not_leak] at this
  cases this

end CV.Template.Docs
