import ComposeVerif.Model.Template
import ComposeVerif.Spec.Template
/-!
# C07 — statements the implementation does (or did) not satisfy, with concrete witnesses

1. **Newline inside an operator argument** (finding `grammar:newline-in-argument`, not repaired).
   The grammar at full strength (`WFml`) lets the literal text of a default / replacement / error
   message contain a newline.  The regular expression's `.*` does not cross a line end, so
   `${A:-` newline `}` is not matched as a braced substitution and the result is `invalid template`.
   `subst_render` (Props/C07) is the provable statement: the same with `WF` (no newline in an argument).

2. **Brace counter skipped the character after `{`** (repaired by the `fix:` commit recorded in
   findings/C07.txt).  `firstCloseGoOld` is `getFirstBraceClosingIndex` as it was: on `${A:-{}} ${B}`
   it does not find the brace that closes `${A:-…` (the `}` of `{}` is skipped), so the whole text was
   re-matched and `{}} ${B` was interpolated as the default — an `Invalid template` error instead of
   `{} b`.  The model in Model/Template.lean is the repaired function.
-/
namespace CV.Template.Neg
open CV.Template

/-- the newline witness: `${A:-⏎}` with `A` unset -/
def nlWitness : List Seg := [.op ['A'] .colonDash [.lit ['\n']]]

theorem nlWitness_wfml : WFml nlWitness = true := by decide

theorem nlWitness_subst : subst (fun _ => none) (renderL nlWitness) = .err .invalid := by decide

theorem nlWitness_eval : evalOut (fun _ => none) nlWitness = .ok ['\n'] := by decide

/-- the refinement at full strength (newlines allowed inside operator arguments) is false -/
theorem subst_render_multiline_false :
    ¬ (∀ (env : Env) (t : List Seg), WFml t = true → subst env (renderL t) = evalOut env t) := by
  intro h
  have := h (fun _ => none) nlWitness nlWitness_wfml
  rw [nlWitness_subst, nlWitness_eval] at this
  cases this

/-- `getFirstBraceClosingIndex` before the repair: the character after every `{` is skipped -/
def firstCloseGoOld : Str → Nat → Int → Option Nat
  | [], _, _ => none
  | '}' :: cs, i, o => if o - 1 == 0 then some i else firstCloseGoOld cs (i + 1) (o - 1)
  | '{' :: [], _, _ => none
  | '{' :: _ :: cs, i, o => firstCloseGoOld cs (i + 2) (o + 1)
  | _ :: cs, i, o => firstCloseGoOld cs (i + 1) o

/-- on `${A:-{}} ${B}` the old counter finds no closing brace at all; the repaired one finds index 7 -/
theorem old_brace_counter_misses :
    firstCloseGoOld "${A:-{}} ${B}".toList 0 0 = none ∧ firstClose "${A:-{}} ${B}".toList = some 7 := by decide

/-- on `${A:-{{x}}}` the old counter stops one brace early (index 9 instead of 10): with `A` set the
    result had a stray `}` appended -/
theorem old_brace_counter_early :
    firstCloseGoOld "${A:-{{x}}}".toList 0 0 = some 9 ∧ firstClose "${A:-{{x}}}".toList = some 10 := by decide

end CV.Template.Neg
