import ComposeVerif.Model.Schema
import ComposeVerif.Lemmas.C02Deep4
/-!
# C02 — where the composed model is *not* order independent: `uniqueItems` in the schema model

`Schema.conforms` (C01's model of gojsonschema) compares the items of a `uniqueItems` array through `jsonKey`, which
writes the entries of a mapping in list order.  gojsonschema marshals the items with `encoding/json`, which sorts the keys
of a map; the correspondence of the schema model feeds it key-sorted maps, so the two agree there.  As a function on
association lists the model tells two spellings of one array apart — which is why `Props/C02Whole.lean` cannot discharge
the `schema` field of `Residual` for validation-on loads, and what the integrator is asked to change (a `jsonKey` that
sorts keys).  This is a fact about the model, **not** a defect of compose-go: the real validation cannot see the order.
-/
namespace CV.Det.Neg.Whole
open CV CV.Val CV.Schema CV.Deep

def p1 : Val := .map [("target", .int 80), ("published", .str "81")]
def p2 : Val := .map [("published", .str "81"), ("target", .int 80)]
/-- `{"uniqueItems": true}` -/
def uniq : S := .node [] [] [] .allow none [] [] none [] true none none none

theorem wf_p1 : MWF [("target", Val.int 80), ("published", Val.str "81")] := by
  refine ⟨by decide, ?_⟩
  intro k x hx
  simp only [lookup] at hx
  split at hx
  · cases hx; exact .int _
  · split at hx
    · cases hx; exact .str _
    · cases hx

/-- the two arrays are two spellings of one array of two equal mappings … -/
theorem same_array : Eqv (.seq [p1, p2]) (.seq [p1, p1]) := by
  refine .seqCons (Eqv.refl _ (WF.map_iff.mpr wf_p1)) (.seqCons ?_ .seqNil)
  refine Eqv.map_iff.mpr ⟨fun k => ?_, fun k x y hx hy => ?_⟩
  · simp only [lookup]; split <;> split <;> simp_all
  · simp only [lookup] at hx hy
    split at hx
    · split at hy
      · simp_all
      · cases hx; simp_all; cases hy; exact .str _
    · split at hx
      · cases hx; simp_all; cases hy; exact .int _
      · cases hx

/-- … and the schema model accepts the one and rejects the other -/
theorem schema_model_reads_key_order :
    conforms uniq (.seq [p1, p2]) = true ∧ conforms uniq (.seq [p1, p1]) = false := by
  constructor
  · simp [conforms, uniq, uniqueJson, p1, p2, jsonKey, jsonKeyKVs, tyOk]; decide
  · simp [conforms, uniq, uniqueJson]

end CV.Det.Neg.Whole
