import ComposeVerif.Lemmas.Schema
import ComposeVerif.Gen.Schema
/-!
Negation witness for "every attribute `Normalize` asserts to be a string is a string in every schema-valid
document": the schema admits `null` for `services.*.pid` (an empty `pid:`), and `loader.Normalize` does
`n.(string)` on it — DESIGN.md §10 #2, reproduced on the real code by the C01 oracle (`panic@loader.Normalize`).
-/
namespace CV.Schema
open CV CV.Gen

theorem pid_admits_null : Ty.null ∈ kindsAt composeSchema ["services", "*", "pid"] := by decide

theorem pid_null_document_conforms :
    conforms composeSchema (.map [("services", .map [("a", .map [("image", .str "x"), ("pid", .null)])])]) = true := by
  decide +kernel

end CV.Schema
