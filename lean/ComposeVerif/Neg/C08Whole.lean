import ComposeVerif.Lemmas.C08Canonical
/-!
# C08, composed pipeline — the converse of `canonical_mono` is false

`Props/C08Whole.load_on_ok_imp_off_ok` goes from interpolation on to interpolation off.  The other direction fails already
at one transformer: `transform.Canonical(dict, opts.SkipInterpolation)` keeps a port string it cannot parse when the flag is
set (it may still hold `${…}`) and reports a parse error otherwise.  Replayed on the real loader (dictionary level,
`SkipValidation`: the schema's `ports` format check is off) by `corpus/C08/whole-onoff-canonical-ports.json` — check
`c08onoff` with `expect_off_only`: `services: {a: {image: x, ports: ["x"]}}` loads with `SkipInterpolation` and fails with
interpolation on.  With default options both loads fail (schema format), and at the level of the typed `Project` the
`SkipInterpolation` load fails in the decoder: no finding against the property, which observes Projects.
-/
namespace CV.Short
open CV

/-- the lenient reading accepts `ports: ["x"]` unchanged, the strict reading reports a parse error -/
theorem canonical_flag_converse_false :
    ¬ (∀ v r, transformPorts true v = .ok r → transformPorts false v = .ok r) := by
  intro h
  have h1 : transformPorts true (.seq [.str "x"]) = .ok (.seq [.str "x"]) := by rfl
  have h2 := h _ _ h1
  have e : transformPorts false (.seq [.str "x"]) = .err "parse" := by rfl
  rw [e] at h2
  cases h2

end CV.Short
