import ComposeVerif.Lemmas.EnvLayers
/-!
# C16 — a statement of the property that the unchanged tree falsifies

"A missing env file is an error unless marked not required."  At full strength, *missing* means that
no file exists at the path.  `loadEnvFile` decides it with `os.IsNotExist(err)` on the error of `os.Stat`,
which does not hold for ENOTDIR: an env file `required: false` whose path lies *under a regular file*
(`a.env/x` where `a.env` is a file) is not skipped, the load fails with "open …: not a directory".
The provable statement is `missing_optional_skipped_partial` in `Props/C16.lean`
(hypothesis `fs f.path = none`, i.e. the plain ENOENT case).

The witness below is replayed on the real code on every run (`corpus/C16/optional-under-file.json`,
oracle key `missing-optional-not-skipped:enotdir`).
-/
namespace CV.EnvLayers.Neg
open CV.EnvLayers CV.EnvLayers.Spec

/-- the full-strength statement: a missing, not-required env file contributes nothing -/
def MissingOptionalSkipped : Prop :=
  ∀ (penv : List (Key × Str)) (fs : FS) (pre post : List EnvFile) (f : EnvFile) (acc : List (Key × Str)),
    Missing fs f.path → f.required = false →
      loadEnvFiles penv fs (pre ++ f :: post) acc = loadEnvFiles penv fs (pre ++ post) acc

/-- `a.env` is a regular file, the service lists `a.env/x` with `required: false` -/
def witnessFS : FS := fun p =>
  if p = ['a', '.', 'e', 'n', 'v'] then some (.file [.assign ['A'] [.lit ['1']]])
  else if p = ['a', '.', 'e', 'n', 'v', '/', 'x'] then some .notdir
  else none

def witnessFile : EnvFile := ⟨['a', '.', 'e', 'n', 'v', '/', 'x'], false, []⟩

theorem witness_missing : Missing witnessFS witnessFile.path ∧ witnessFile.required = false := by
  unfold Missing
  decide

theorem witness_fails : loadEnvFiles [] witnessFS [witnessFile] [] = .error .read := by
  decide

theorem missing_optional_skipped_false : ¬ MissingOptionalSkipped := by
  intro h
  have e := h [] witnessFS [] [] witnessFile [] witness_missing.1 witness_missing.2
  rw [List.nil_append, witness_fails] at e
  cases e

end CV.EnvLayers.Neg
