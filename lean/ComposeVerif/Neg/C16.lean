import ComposeVerif.Lemmas.EnvLayers
/-!
# C16 — a statement of the property that the tree falsified **before** the `fix:` commit

"A missing env file is an error unless marked not required."  At full strength, *missing* means that
no file exists at the path.  Before the repair `loadEnvFile` decided it with `os.IsNotExist(err)` on the
error of `os.Stat`, which does not hold for ENOTDIR: an env file `required: false` whose path lies *under a
regular file* (`a.env/x` where `a.env` is a file) was not skipped, the load failed with
"open …: not a directory".  The repair (`fileIsMissing`: `fs.ErrNotExist` or `ENOTDIR`) is in the model now and
the statement is proved at full strength (`missing_optional_skipped` in `Props/C16.lean`).

This file keeps the **pre-fix** loader (`loadEnvFilePre`) and the witness on which it violates the statement;
the same input is replayed on the real code on every run (`corpus/C16/optional-under-file.json`) and must pass now.
-/
namespace CV.EnvLayers.Neg
open CV.EnvLayers CV.EnvLayers.Spec

/-- `loadEnvFile` before the fix: only ENOENT (`fs p = none`) counted as missing -/
def loadEnvFilePre (fs : FS) (f : EnvFile) (look : Look) : Except Err (List (Key × Str)) :=
  match fs f.path with
  | none => if f.required then .error .notFound else .ok []
  | some .notdir => .error .read          -- went on to `os.Open`: "not a directory"
  | some _ => loadMappingFile fs f.path f.format look

def loadEnvFilesPre (penv : List (Key × Str)) (fs : FS) : List EnvFile → List (Key × Str) → Except Err (List (Key × Str))
  | [], acc => .ok acc
  | f :: r, acc =>
    match loadEnvFilePre fs f (envChain penv acc) with
    | .error e => .error e
    | .ok vars => loadEnvFilesPre penv fs r (overrideBy acc vars)

/-- the full-strength statement, about a given loop over the env files:
    a missing, not-required env file contributes nothing -/
def MissingOptionalSkipped
    (load : List (Key × Str) → FS → List EnvFile → List (Key × Str) → Except Err (List (Key × Str))) : Prop :=
  ∀ (penv : List (Key × Str)) (fs : FS) (pre post : List EnvFile) (f : EnvFile) (acc : List (Key × Str)),
    Missing fs f.path → f.required = false →
      load penv fs (pre ++ f :: post) acc = load penv fs (pre ++ post) acc

/-- `a.env` is a regular file, the service lists `a.env/x` with `required: false` -/
def witnessFS : FS := { node := fun p =>
  if p = ['a', '.', 'e', 'n', 'v'] then some (.file [.assign ['A'] [.lit ['1']]])
  else if p = ['a', '.', 'e', 'n', 'v', '/', 'x'] then some .notdir
  else none }

def witnessFile : EnvFile := ⟨['a', '.', 'e', 'n', 'v', '/', 'x'], false, []⟩

theorem witness_missing : Missing witnessFS witnessFile.path ∧ witnessFile.required = false :=
  ⟨Or.inr rfl, rfl⟩

theorem witness_failed_pre : loadEnvFilesPre [] witnessFS [witnessFile] [] = .error .read := by
  decide

/-- after the fix the same input is skipped -/
theorem witness_skipped_now : loadEnvFiles [] witnessFS [witnessFile] [] = .ok [] := by
  decide

theorem missing_optional_skipped_false_pre : ¬ MissingOptionalSkipped loadEnvFilesPre := by
  intro h
  have e := h [] witnessFS [] [] witnessFile [] witness_missing.1 witness_missing.2
  rw [List.nil_append, witness_failed_pre] at e
  cases e

end CV.EnvLayers.Neg
