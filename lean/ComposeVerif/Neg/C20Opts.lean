import ComposeVerif.Model.SecretsOpts
import ComposeVerif.Spec.Secrets
import ComposeVerif.Lemmas.SecretsOpts
import ComposeVerif.Lemmas.SecretsRender
import ComposeVerif.Neg.C20
/-!
# C20 — proved negation (round 6): before the `fix:` a caller-registered type for the carrier key leaks the value

`loader.processExtensions` ran **every** entry of `extras` through the caller's `KnownExtensions`, the private carrier
`x-#value` included.  A caller registering e.g. `int` (or `*string`, `bool`, `float64`) for that key turns the carried
string into a value `secretConfigDecoderHook`'s `.(string)` assertion rejects: `Content` stays empty and the value
stays in the secret's `Extensions`, which `SecretConfig.MarshalYAML` writes inline.  Real code (pre-fix):
`corpus/C20/known-extension-carrier-key.json`; repaired by the `name == types.SecretConfigXValue` test.
-/
namespace CV.Secrets.NegOpts
open CV CV.Val CV.Secrets

def canary : List Char := "12345678".toList

/-- the caller's type for `x-#value` is `int`: the text of the number becomes the number; other keys keep their value -/
def numDec : String → Val → Option Val
  | "x-#value", .str "12345678" => some (.int 12345678)
  | _, v => some v

def known : KnownExt := { names := [xValue], dec := numDec }
def dict : KVs := [("secrets", .map [("tok", .map [("environment", .str "TOKEN")])])]
def env : Env := [("TOKEN", "12345678")]

/-- the pre-fix load keeps the value in the extensions and leaves `Content` empty -/
def leaked : Proj := { secrets := [("tok", { name := "p_tok", environment := "TOKEN", extensions := [(xValue, .int 12345678)] })], configs := [] }

theorem w_loads_prefix : loadK { known := known, carrierGuard := false } env "p" dict = .ok leaked := by rfl

/-- with the test in place the same registration is harmless -/
theorem w_loads_fixed : loadK { known := known } env "p" dict =
    .ok { secrets := [("tok", { name := "p_tok", environment := "TOKEN", content := "12345678" })], configs := [] } := by rfl

theorem w_leaks_prefix : ¬ Clean canary (render .yaml false leaked) := by decide

theorem numDec_ok : DecOk (fun s => ¬ occurs canary s) { names := ["x-note", "x-magic", xValue], dec := numDec } := by
  intro n v v' h hv
  change numDec n v = some v' at h
  unfold numDec at h
  split at h
  · -- the only value the decoder changes is the tainted one: it is not untainted
    exact absurd hv (by simp only [AllStr]; decide)
  · cases h; exact hv

theorem numDec_ok' : DecOk (fun s => ¬ occurs canary s) known := by
  intro n v v' h hv
  change numDec n v = some v' at h
  unfold numDec at h
  split at h
  · exact absurd hv (by simp only [AllStr]; decide)
  · cases h; exact hv

theorem vocab_ok : VocabOk (fun s => ¬ occurs canary s) :=
  ⟨by decide, by decide, cutClosed_not_occurs canary⟩

theorem unguarded_carrier_leaks :
    ¬ (∀ (c : List Char), VocabOk (fun s => ¬ occurs c s) → ∀ (k : KnownExt), DecOk (fun s => ¬ occurs c s) k →
        ∀ (env : Env) (pname : String) (dict : KVs), Clean c (.map dict) →
          GenNamesOk (fun s => ¬ occurs c s) pname "secrets" dict → GenNamesOk (fun s => ¬ occurs c s) pname "configs" dict →
          ∀ (p : Proj), loadK { known := k, carrierGuard := false } env pname dict = .ok p → ∀ r, Clean c (render r false p)) := by
  intro h
  have := h canary vocab_ok known numDec_ok' env "p" dict (by decide)
    (by intro objs hl e he; simp only [dict, Val.lookup] at hl; cases hl; simp at he; subst he; decide)
    (by intro objs hl; simp [dict, Val.lookup] at hl)
    leaked w_loads_prefix .yaml
  exact w_leaks_prefix this

end CV.Secrets.NegOpts
