import ComposeVerif.Spec.Interp
/-!
# C08 at the level of whole documents

* `walk f` — the traversal of `recursiveInterpolate` with the `case string:` arm abstracted to `f` (`interp c = walk (leaf c)`,
  theorem `interp_eq_walk`).
* `castTree c = walk (castOnly c)` — what a document denotes when **nothing is substituted**: every string leaf on a cast
  row is cast, every other value is kept.  This is the document "with interpolation off" as far as typed values go (the
  decode-time cast of loader/mapstructure.go computes `castOnly` leaf by leaf, `Props/C08.lean: decode_time_is_castOnly`).
* `LeafRel R p v v'` — `v'` is `v` except at string leaves, where the two strings are related by `R` at the leaf's path
  (same keys in the same order, same lengths, non-string values identical).
* `IsTemplateOf env` — the relation "the left string is a well-formed template of the grammar that evaluates, under `env`,
  to the right string": `${V}`, `$V`, `${UNSET:-literal}`, `pre${V}post`, any nesting (C07's `WF` / `renderL` / `evalL`).
-/
namespace CV.Interp
open CV CV.TPath

mutual
/-- the traversal of `recursiveInterpolate`, string arm abstracted -/
def walk (f : TPath → String → Out Val) (p : TPath) : Val → Out Val
  | .str s => f p s
  | .map kvs =>
    match walkKVs f p kvs with
    | .ok kvs' => .ok (.map kvs')
    | .err e => .err e
    | .panic s => .panic s
  | .seq xs =>
    match walkList f p xs with
    | .ok xs' => .ok (.seq xs')
    | .err e => .err e
    | .panic s => .panic s
  | v => .ok v
def walkKVs (f : TPath → String → Out Val) (p : TPath) : List (String × Val) → Out (List (String × Val))
  | [] => .ok []
  | (k, v) :: r =>
    match walk f (next p k) v with
    | .ok v' =>
      match walkKVs f p r with
      | .ok r' => .ok ((k, v') :: r')
      | .err e => .err e
      | .panic s => .panic s
    | .err e => .err e
    | .panic s => .panic s
def walkList (f : TPath → String → Out Val) (p : TPath) : List Val → Out (List Val)
  | [] => .ok []
  | v :: r =>
    match walk f (next p "[]") v with
    | .ok v' =>
      match walkList f p r with
      | .ok r' => .ok (v' :: r')
      | .err e => .err e
      | .panic s => .panic s
    | .err e => .err e
    | .panic s => .panic s
end

/-- the document with nothing substituted: string leaves on a cast row are cast (or are the cast error naming the
    path), everything else is kept -/
def castTree (c : Cfg) (p : TPath) (v : Val) : Out Val := walk (castOnly c) p v

/-- `Interpolate` with nothing substituted (top-level mapping) -/
def castDocument (c : Cfg) (kvs : List (String × Val)) : Out (List (String × Val)) := walkKVs (castOnly c) root kvs

mutual
/-- `v'` is `v` up to string leaves, which are related by `R` at their path -/
def LeafRel (R : TPath → String → String → Prop) (p : TPath) : Val → Val → Prop
  | .str s, v' => ∃ s', v' = .str s' ∧ R p s s'
  | .map kvs, v' => ∃ kvs', v' = .map kvs' ∧ LeafRelKVs R p kvs kvs'
  | .seq xs, v' => ∃ xs', v' = .seq xs' ∧ LeafRelList R p xs xs'
  | .null, v' => v' = .null
  | .bool b, v' => v' = .bool b
  | .int i, v' => v' = .int i
  | .float f, v' => v' = .float f
def LeafRelKVs (R : TPath → String → String → Prop) (p : TPath) : List (String × Val) → List (String × Val) → Prop
  | [], l' => l' = []
  | (k, v) :: r, l' => ∃ v' r', l' = (k, v') :: r' ∧ LeafRel R (next p k) v v' ∧ LeafRelKVs R p r r'
def LeafRelList (R : TPath → String → String → Prop) (p : TPath) : List Val → List Val → Prop
  | [], l' => l' = []
  | v :: r, l' => ∃ v' r', l' = v' :: r' ∧ LeafRel R (next p "[]") v v' ∧ LeafRelList R p r r'
end

/-- `s` is the rendering of a well-formed template of the grammar that evaluates to `t` under `env` -/
def IsTemplateOf (env : CV.Template.Env) (s t : String) : Prop :=
  ∃ tm : List CV.Template.Seg, CV.Template.WF tm = true ∧ s = String.ofList (CV.Template.renderL tm) ∧
    CV.Template.evalL env tm = .ok t.toList

/-- the step of loader/loader.go (`loadYamlFile`): `if opts.Interpolate != nil && !opts.SkipInterpolation { cfg, err =
    interp.Interpolate(cfg, *opts.Interpolate) }` — with `skip` the document is handed on as it is -/
def interpolateStage (skip : Bool) (c : Cfg) (kvs : List (String × Val)) : Out (List (String × Val)) :=
  if skip then .ok kvs else interpolate c kvs

end CV.Interp
