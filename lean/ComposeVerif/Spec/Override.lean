import ComposeVerif.Model.Unicity
/-!
# What property C04 says about each attribute (the rule table of the property text)

`expected` lists, for one concrete path per attribute named by the property, which merge rule and which
unicity indexer the statement requires:

* "KEY=VALUE style attributes merge by key whichever spelling either side uses" and "env/label/cap/dns/sysctl
  style entries by key" = merged *to a sequence* (`toSeq`; default append for attributes that are only lists)
  and then de-duplicated by the text before `=` (`keyValue`);
* "command/entrypoint/healthcheck test are replaced wholesale" = `override`;
* "keyed lists (ports, volumes and devices by target, secrets and configs by target)" = default append, then the
  matching indexer;
* attributes not listed take the default rules (no special merger, no indexer).

`s` / `n` / `v` stand for arbitrary service / network / volume names (the tables use `*` there).
-/
namespace CV.Override
open CV CV.Merge CV.Unicity

abbrev Row := TPath × Option Rule × Option Indexer

def svc (rest : List String) : TPath := ["services", "s"] ++ rest

/-- KEY=VALUE style attributes: to-sequence merge + key/value unicity -/
def kvRows : List Row := [
  (svc ["environment"], some .toSeq, some .keyValue),
  (svc ["labels"], some .toSeq, some .keyValue),
  (svc ["annotations"], some .toSeq, some .keyValue),
  (svc ["sysctls"], some .toSeq, some .keyValue),
  (svc ["tmpfs"], some .toSeq, some .keyValue),
  (svc ["dns"], some .toSeq, some .keyValue),
  (svc ["dns_opt"], some .toSeq, some .keyValue),
  (svc ["dns_search"], some .toSeq, some .keyValue),
  (svc ["build", "args"], some .toSeq, some .keyValue),
  (svc ["build", "labels"], some .toSeq, some .keyValue),
  (svc ["build", "additional_contexts"], some .toSeq, some .keyValue),
  (svc ["deploy", "labels"], some .toSeq, some .keyValue),
  (["networks", "n", "labels"], some .toSeq, some .keyValue)]

/-- the row the tree did not honour before the round-2 repair (`override.unique` had no `volumes.*.labels`) -/
def volumeLabelsRow : Row := (["volumes", "v", "labels"], some .toSeq, some .keyValue)

def otherRows : List Row := [
  -- replaced wholesale
  (svc ["command"], some .override, none),
  (svc ["entrypoint"], some .override, none),
  (svc ["healthcheck", "test"], some .override, none),
  -- keyed lists: default append, one entry per key
  (svc ["ports"], none, some .port),
  (svc ["volumes"], none, some .volume),
  (svc ["devices"], none, some .deviceMapping),
  (svc ["secrets"], none, some (.mount "/run/secrets")),
  (svc ["configs"], none, some (.mount "")),
  (svc ["env_file"], some .toSeq, some .envFile),
  (svc ["expose"], none, some .expose),
  (svc ["cap_add"], none, some .keyValue),
  (svc ["cap_drop"], none, some .keyValue),
  (svc ["links"], none, some .keyValue),
  (svc ["profiles"], none, some .keyValue),
  (svc ["build", "tags"], none, some .keyValue),
  (svc ["networks", "n", "aliases"], none, some .keyValue),
  (svc ["networks", "n", "link_local_ips"], none, some .keyValue),
  -- structured attributes with their own merger
  (svc ["depends_on"], some .dependsOn, none),
  (svc ["networks"], some .networks, none),
  (svc ["build"], some .build, none),
  (svc ["logging"], some .logging, none),
  (svc ["extra_hosts"], some .extraHosts, none),
  (svc ["build", "extra_hosts"], some .extraHosts, none),
  (svc ["ulimits", "nofile"], some .ulimit, none),
  (svc ["label_file"], some .toSeq, none),
  (["networks", "n", "ipam", "config"], some .ipam, none),
  -- default rules: scalars replaced, mappings merged key by key, sequences appended
  (svc ["image"], none, none),
  (svc ["healthcheck"], none, none),
  (svc ["deploy"], none, none),
  (svc ["deploy", "resources", "limits"], none, none),
  (svc ["security_opt"], none, none),
  (svc ["ulimits"], none, none),
  (svc [], none, none),
  (["services"], none, none),
  (["networks", "n"], none, none),
  (["networks", "n", "driver_opts"], none, none),
  (["volumes", "v"], none, none),
  (["volumes", "v", "driver_opts"], none, none),
  (["secrets", "x"], none, none),
  (["configs", "x"], none, none)]

/-- the rule table as the property states it -/
def expected : List Row := kvRows ++ [volumeLabelsRow] ++ otherRows

/-- the part of it the tree honoured before the repair (kept for `Neg/C04.lean`) -/
def expectedPartial : List Row := kvRows ++ otherRows

/-- what the regenerated Go tables say at a path -/
def actual (p : TPath) : Option Rule × Option Indexer := (ruleAt p, indexerAt p)

end CV.Override
