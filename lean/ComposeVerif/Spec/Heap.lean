import ComposeVerif.Model.Heap
/-!
# C14 — what the property says, on the heap model

* `Isolated v w`   no mutable model state is shared: no address occurs in both
* `DeepEq v w`     equal up to addresses (`reflect.DeepEqual`)
* `Confined n m ws` a derivation's writes after the copy go through memory allocated since the receiver's
                   frontier `n` only, and store only values built from such memory ("no receiver escape")
* `DerivStep`      one derivation: deep copy of the receiver by plan `p`, then confined writes
* `History`        any sequence of derivations, each applied to the previous result
-/
namespace CV.Heap

def Isolated (v w : GoVal) : Prop := ∀ a, a ∈ addrs v → a ∉ addrs w

def DeepEq (v w : GoVal) : Prop := erase v = erase w

/-- every address of `v` was allocated before the frontier `n` -/
def Below (n : Nat) (v : GoVal) : Prop := ∀ a ∈ addrs v, a < n

def cellAddrs : Cell → List Nat
  | .pointee v => addrs v
  | .kids ks => addrsKids ks

def Confined (n m : Nat) (ws : List (Nat × Cell)) : Prop :=
  ∀ w ∈ ws, n ≤ w.1 ∧ ∀ a ∈ cellAddrs w.2, n ≤ a ∧ a < m

/-- `v'` (frontier `n'`) is derived from receiver `v` (frontier `n`): copy by `p`, then writes `ws` confined to `[n, n')` -/
def DerivStep (p : Plan) (v : GoVal) (n : Nat) (ws : List (Nat × Cell)) (v' : GoVal) (n' : Nat) : Prop :=
  (exec p v n).2 ≤ n' ∧ Confined n n' ws ∧ v' = writes ws (exec p v n).1

/-- a history of derivations starting from `v`: the projects derived, in order, with the writes each step performed -/
inductive History (t : Ty) (p : Plan) : GoVal → Nat → List (List (Nat × Cell) × GoVal) → Prop where
  | nil (v : GoVal) (n : Nat) : History t p v n []
  | cons {v v' : GoVal} {n n' : Nat} {ws : List (Nat × Cell)} {rest : List (List (Nat × Cell) × GoVal)} :
      DerivStep p v n ws v' n' → hasTy t v' = true → History t p v' n' rest → History t p v n ((ws, v') :: rest)

end CV.Heap
