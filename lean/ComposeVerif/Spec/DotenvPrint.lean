import ComposeVerif.Spec.Dotenv
import ComposeVerif.Spec.Template
/-!
# A canonical printer for env files (round 6)

`printCanon m` writes one line `KEY="…"` per variable, in the order of the map: the value between double quotes with
`$` doubled (the template escape), then `"` as `\"` and `\` as `\\`.  Every value — quotes, backslashes, dollar signs,
`#`, line feeds, carriage returns, any code point — has a canonical spelling; a line feed inside a value makes the
printed value a multi-line double-quoted value.
-/
namespace CV.Dotenv
open CV CV.Template

/-- write arbitrary text between double quotes (same function as `Lemmas/DotenvR4.lean:dqEncode`, restated here so
    that the printer lives in the specification layer; `dqEnc_eq` in `Lemmas/DotenvPrint.lean` proves them equal) -/
def dqEnc : Str → List QItem
  | [] => []
  | c :: s => (if c == '"' then QItem.quote else if c == '\\' then QItem.esc '\\' else QItem.chr c) :: dqEnc s

def canonLine (kv : Str × Str) : Line :=
  .assign [] none kv.1 [] .eq [] (.dq (dqEnc (escapeDollars kv.2))) [] none

/-- the canonical text of a map -/
def printCanon (m : Map) : Str := render (m.map canonLine)

/-- maps that have a canonical text: names are valid keys, pairwise distinct -/
def Printable (m : Map) : Prop := (∀ kv ∈ m, validKey kv.1 = true) ∧ (m.map Prod.fst).Nodup

end CV.Dotenv
