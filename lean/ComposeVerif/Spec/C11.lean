import ComposeVerif.Model.Val
/-!
# C11 — what "a default is made explicit" means, on finite maps seen through `lookup`

A mapping is observed through its lookup function `String → Option Val` (so the statements do not
depend on the order of the entries, i.e. on Go's map iteration order).

* `filled k dv look`   : the mapping `look` with attribute `k` defaulted to `dv` when the key is absent
                         (Go: `if _, ok := m[k]; !ok { m[k] = dv }`);
* `filledNil k dv look`: same, but an explicit `null` counts as absent (Go: `if m[k] == nil { m[k] = dv }`).

The two facts the property is made of are theorems about these functions alone (`Props/C11.lean`):
writing the default out changes nothing (`filled_explicit_default`), and an explicit value is kept
(`filled_preserves`).  The model is then shown to *be* `filled …` attribute by attribute.
-/
namespace CV.C11.Spec
open CV

abbrev Look := String → Option Val

def filled (k : String) (dv : Val) (look : Look) : Look := fun k' =>
  if k' = k then
    match look k with
    | some x => some x
    | none => some dv
  else look k'

def filledNil (k : String) (dv : Val) (look : Look) : Look := fun k' =>
  if k' = k then
    match look k with
    | none => some dv
    | some .null => some dv
    | some x => some x
  else look k'

/-- the mapping with `k` written out as `v` -/
def written (k : String) (v : Val) (look : Look) : Look := fun k' => if k' = k then some v else look k'

/-- the name the specification gives to a top-level resource declared under `key` -/
def resourceName (project key : String) (external : Bool) (explicitName : Option String) : String :=
  match explicitName with
  | some n => n
  | none => if external then key else project ++ "_" ++ key

end CV.C11.Spec
