import ComposeVerif.Model.Template
/-!
# Specification of Compose variable substitution (property C07)

`T ::= (literal | $$ | $NAME | ${NAME} | ${NAME op T})*` as an AST with `render`
(concrete syntax) and `eval` (what the property says the result is).  Nothing in
this file looks at the implementation's scanner: values are inserted verbatim
("never expanded again" is definitional), arguments are evaluated eagerly and
before the variable is looked up (the property text leaves this open; the code
decides it), the first error in left-to-right order wins.
-/
namespace CV.Template

inductive Seg where
  | lit (s : Str)
  | esc
  | var (n : Str) (braced : Bool)
  | op (n : Str) (o : Op) (arg : List Seg)
deriving Repr

mutual
def Seg.render : Seg → Str
  | .lit s => s
  | .esc => ['$', '$']
  | .var n false => '$' :: n
  | .var n true => '$' :: '{' :: n ++ ['}']
  | .op n o arg => '$' :: '{' :: n ++ o.str ++ renderL arg ++ ['}']
def renderL : List Seg → Str
  | [] => []
  | s :: r => s.render ++ renderL r
end

/-- the table of the property statement -/
def opSpec (o : Op) (name : Str) (v : Option Str) (d : Str) : Except Err Str :=
  let unset := v.isNone
  let empty := v == some []
  let val := v.getD []
  match o with
  | .colonDash => if unset || empty then .ok d else .ok val          -- `${VAR:-d}`: d when unset-or-empty
  | .dash => if unset then .ok d else .ok val                        -- `${VAR-d}`: d when unset
  | .colonPlus => if !unset && !empty then .ok d else .ok []         -- `${VAR:+r}`: r when set-and-non-empty, nothing otherwise
  | .plus => if !unset then .ok d else .ok []                        -- `${VAR+r}`: r when set
  | .colonQ => if unset || empty then .error (.required name d) else .ok val
  | .q => if unset then .error (.required name d) else .ok val

mutual
def Seg.eval (env : Env) : Seg → Except Err Str
  | .lit s => .ok s
  | .esc => .ok ['$']
  | .var n _ => .ok ((env n).getD [])
  | .op n o arg =>
    match evalL env arg with
    | .error e => .error e
    | .ok d => opSpec o n (env n) d
def evalL (env : Env) : List Seg → Except Err Str
  | [] => .ok []
  | s :: r =>
    match s.eval env with
    | .error e => .error e
    | .ok a =>
      match evalL env r with
      | .error e => .error e
      | .ok b => .ok (a ++ b)
end

def evalOut (env : Env) (t : List Seg) : Out :=
  match evalL env t with
  | .ok s => .ok s
  | .error e => .err e

/-! ## Well-formedness: exactly the ASTs whose concrete syntax is unambiguous -/

def validName : Str → Bool
  | [] => false
  | c :: cs => isNameStart c && cs.all isNameChar

def noNameHead : Str → Bool
  | [] => true
  | c :: _ => !isNameChar c

def litOkTop (s : Str) : Bool := s.all (· != '$')

/-- braces are balanced: the depth (starting from `d`) never goes below zero and ends at zero -/
def braceBal : Str → Nat → Bool
  | [], d => d == 0
  | '{' :: cs, d => braceBal cs (d + 1)
  | '}' :: cs, d => d != 0 && braceBal cs (d - 1)
  | _ :: cs, d => braceBal cs d

/-- a literal inside an operator argument: no `$`, no newline (the regex's `.` does not cross lines),
    and its own braces balanced (an unbalanced `}` would close the substitution) -/
def litOkArg (s : Str) : Bool := s.all (fun c => c != '$' && c != '\n') && braceBal s 0
/-- the same without the newline restriction (used to state what the implementation does *not* satisfy) -/
def litOkArgML (s : Str) : Bool := s.all (fun c => c != '$') && braceBal s 0

mutual
/-- `inArg`: inside an operator argument literals may not contain newlines or unbalanced braces -/
def Seg.wf (inArg : Bool) : Seg → Bool
  | .lit s => if inArg then litOkArg s else litOkTop s
  | .esc => true
  | .var n _ => validName n
  | .op n _ arg => validName n && wfL true arg
/-- an unbraced `$NAME` must not be followed by a name character -/
def wfL (inArg : Bool) : List Seg → Bool
  | [] => true
  | s :: r => s.wf inArg && wfL inArg r &&
      (match s with
       | .var _ false => noNameHead (renderL r)
       | _ => true)
end

def WF (t : List Seg) : Bool := wfL false t

/-! The grammar at full strength also allows a newline inside an operator argument (`WFml`).
    The implementation does not support that (`Neg/C07.lean`); `WF` is the provable restriction. -/
mutual
def Seg.wfML (inArg : Bool) : Seg → Bool
  | .lit s => if inArg then litOkArgML s else litOkTop s
  | .esc => true
  | .var n _ => validName n
  | .op n _ arg => validName n && wfLML true arg
def wfLML (inArg : Bool) : List Seg → Bool
  | [] => true
  | s :: r => s.wfML inArg && wfLML inArg r &&
      (match s with
       | .var _ false => noNameHead (renderL r)
       | _ => true)
end

def WFml (t : List Seg) : Bool := wfLML false t

end CV.Template

namespace CV.Template

/-! ## Auxiliary notions used by the statements of `Props/C07` -/

/-- `$` ↦ `$$` (what `interpolation`/`C08` use to protect literal text) -/
def escapeDollars : Str → Str
  | [] => []
  | c :: cs => if c = '$' then '$' :: '$' :: escapeDollars cs else c :: escapeDollars cs

/-- there is a `}` before the first newline -/
def closesOnLine (s : Str) : Prop := ∃ c ∈ s.takeWhile (· != '\n'), c = '}'

/-- the text after `${` is `NAME}`… or `NAME op … }` with the `}` on the same line -/
def WellFormedBrace (r : Str) : Prop :=
  ∃ n tail, r = n ++ tail ∧ validName n = true ∧ noNameHead tail = true ∧
    (tail.head? = some '}' ∨ ∃ (o : Op) (r3 : Str), tail = o.str ++ r3 ∧ closesOnLine r3)

/-- a `$` that starts nothing: not followed by `$`, `{` or a name-start character -/
def loneAfter (X : Str) : Prop := ∀ c, X.head? = some c → c ≠ '$' ∧ c ≠ '{' ∧ isNameStart c = false

end CV.Template
