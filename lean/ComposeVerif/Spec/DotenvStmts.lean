import ComposeVerif.Spec.Dotenv
/-!
# The statement sequence of an env file (C18, round 6): everything its meaning depends on
-/
namespace CV.Dotenv
open CV CV.Template

/-- the statements of a file: everything `evalLines` looks at -/
def stmtSeq : List Line → List (Str × Option Value)
  | [] => []
  | .blank _ :: ls => stmtSeq ls
  | .comment _ _ :: ls => stmtSeq ls
  | .bare _ _ key _ :: ls => (key, none) :: stmtSeq ls
  | .assign _ _ key _ _ _ v _ _ :: ls => (key, some v) :: stmtSeq ls

/-- the meaning of a statement sequence -/
def evalStmts (lookup : Env) : List (Str × Option Value) → Map → POut
  | [], m => .ok m
  | (key, none) :: r, m =>
    match lookup key with
    | some v => evalStmts lookup r (put m key v)
    | none => evalStmts lookup r m
  | (key, some v) :: r, m =>
    match v.eval (envOf lookup m) with
    | .ok s => evalStmts lookup r (put m key s)
    | .err e => .err (.tmpl e) m
    | .panic p => .panic (.tmpl p)

end CV.Dotenv
