import ComposeVerif.Model.EnvLayers
/-!
# Specification of C16: what the property says, independent of how the code computes it

A service's final environment, key by key:

* the `environment` entry wins; written with a value it is that value; written without a value
  it is the project environment's value, and *unset* (`some none`) when the project environment
  has none — even when an env file defines the key;
* otherwise the **last** env file that gives the key a value;
* a file gives `k` the value of its **last** line about `k`: `k=<text>` evaluates `${r}` against
  earlier files, then the project environment, then earlier lines of the same file (else empty);
  a bare `k` takes the value from earlier files / project environment and otherwise leaves `k`
  as the earlier lines left it.

Labels are the same with `label_file` / `labels`, no project environment and no value-less form.
Nothing here iterates forwards or threads a map: it is a recursion from the *last* line / file.
-/
namespace CV.EnvLayers.Spec
open CV.EnvLayers

def orElse (a : Option Str) (b : Option Str) : Option Str :=
  match a with
  | some v => some v
  | none => b

/-- value given to `k` by the lines of one file, listed LAST LINE FIRST -/
def fileValRev (look : Look) : List Line → Key → Option Str
  | [], _ => none
  | .assign k' v :: earlier, k =>
    if k' = k then some (evalSegs (fun n => orElse (look n) (fileValRev look earlier n)) v)
    else fileValRev look earlier k
  | .bare k' :: earlier, k =>
    if k' = k then orElse (look k) (fileValRev look earlier k)
    else fileValRev look earlier k
  | .bad :: earlier, k => fileValRev look earlier k

def fileVal (look : Look) (ls : List Line) (k : Key) : Option Str := fileValRev look ls.reverse k

/-- value given to `k` by the env files, listed LAST FILE FIRST; references see earlier files, then `penv` -/
def filesValRev (penv : List (Key × Str)) : List (List Line) → Key → Option Str
  | [], _ => none
  | f :: earlier, k =>
    orElse (fileVal (fun n => orElse (filesValRev penv earlier n) (lookup n penv)) f k)
      (filesValRev penv earlier k)

def filesVal (penv : List (Key × Str)) (files : List (List Line)) (k : Key) : Option Str :=
  filesValRev penv files.reverse k

/-- the final environment of a service at key `k`:
    `none` = key absent, `some none` = present without value (unset), `some (some v)` = value -/
def finalEnv (penv : List (Key × Str)) (files : List (List Line)) (environment : List (Key × Option Str))
    (k : Key) : Option (Option Str) :=
  match lookup k environment with
  | some (some v) => some (some v)
  | some none => some (lookup k penv)
  | none => (filesVal penv files k).map some

/-- label files: references see earlier label files only -/
def labelFilesValRev : List (List Line) → Key → Option Str
  | [], _ => none
  | f :: earlier, k =>
    orElse (fileVal (fun n => labelFilesValRev earlier n) f k) (labelFilesValRev earlier k)

def finalLabel (files : List (List Line)) (labels : List (Key × Str)) (k : Key) : Option Str :=
  orElse (lookup k labels) (labelFilesValRev files.reverse k)

/-- the same as a fold over ordered layers, lowest precedence first: a later layer that speaks about `k` wins -/
def pick {α : Type} (layers : List (Key → Option α)) (k : Key) : Option α :=
  layers.foldl (fun acc L => match L k with | some v => some v | none => acc) none

/-! ### the property on a concrete layer assignment (used by the oracle) -/

structure FileLayer where
  lines : List Line
  present : Bool
  required : Bool

def presentFiles (fl : List FileLayer) : List (List Line) :=
  (fl.filter (·.present)).map (·.lines)

/-- a required file that is missing makes the load fail; otherwise missing files are skipped -/
def missingRequired (fl : List FileLayer) : Bool := fl.any fun f => !f.present && f.required

end CV.EnvLayers.Spec
