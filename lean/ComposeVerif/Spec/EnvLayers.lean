import ComposeVerif.Model.EnvLayers
/-!
# Specification of C16: what the property says, independent of how the code computes it

A service's final environment, key by key:

* the `environment` entry wins; written with a value it is that value; written without a value
  it is the project environment's value, and *unset* (`some none`) when the project environment
  has none — even when an env file defines the key;
* otherwise the **last** env file that gives the key a value;
* a file gives `k` the value of its **last** line about `k`: `k=<text>` evaluates `${r}` against
  earlier files, then the project environment, then earlier lines of the same file (else empty);
  a bare `k` takes the value from earlier files / project environment and otherwise leaves `k`
  as the earlier lines left it.

Labels are the same with `label_file` / `labels`, no project environment and no value-less form.
Nothing here iterates forwards or threads a map: it is a recursion from the *last* line / file.
-/
namespace CV.EnvLayers.Spec
open CV.EnvLayers

def orElse (a : Option Str) (b : Option Str) : Option Str :=
  match a with
  | some v => some v
  | none => b

/-- what the interpolation grammar (C07's specification, `Template.evalL`) says a value evaluates to under `look`;
    a value whose evaluation is an error (`${X:?msg}` unsatisfied) makes the whole file fail and never gets here -/
def specValue (look : Look) (v : List Seg) : Str :=
  match CV.Template.evalL look v with
  | .ok s => s
  | .error _ => []

/-- value of `k` after the lines of one file, listed LAST LINE FIRST; `base` = what was there before the file -/
def fileValRevFrom (look : Look) (base : Key → Option Str) : List Line → Key → Option Str
  | [], k => base k
  | .assign k' v :: earlier, k =>
    if k' = k then some (specValue (fun n => orElse (look n) (fileValRevFrom look base earlier n)) v)
    else fileValRevFrom look base earlier k
  | .bare k' :: earlier, k =>
    if k' = k then orElse (look k) (fileValRevFrom look base earlier k)
    else fileValRevFrom look base earlier k
  | .bad :: earlier, k => fileValRevFrom look base earlier k

/-- value given to `k` by a file (lines in file order) read with the lookup `look` -/
def fileVal (look : Look) (ls : List Line) (k : Key) : Option Str :=
  fileValRevFrom look (fun _ => none) ls.reverse k

/-- what a reference inside an env file sees before the file's own earlier lines:
    the earlier files, then the project environment -/
def envLook (penv : List (Key × Str)) (earlier : Key → Option Str) : Look :=
  fun n => orElse (earlier n) (lookup n penv)

/-- value of `k` after the env files, listed LAST FILE FIRST; `base` = what was there before -/
def filesValRevFrom (penv : List (Key × Str)) (base : Key → Option Str) : List (List Line) → Key → Option Str
  | [], k => base k
  | f :: earlier, k =>
    orElse (fileVal (envLook penv (filesValRevFrom penv base earlier)) f k) (filesValRevFrom penv base earlier k)

/-- value given to `k` by the env files (in `env_file` order) -/
def filesVal (penv : List (Key × Str)) (files : List (List Line)) (k : Key) : Option Str :=
  filesValRevFrom penv (fun _ => none) files.reverse k

/-- the final environment of a service at key `k`:
    `none` = key absent, `some none` = present without value (unset), `some (some v)` = value -/
def finalEnv (penv : List (Key × Str)) (files : List (List Line)) (environment : List (Key × Option Str))
    (k : Key) : Option (Option Str) :=
  match lookup k environment with
  | some (some v) => some (some v)
  | some none => some (lookup k penv)
  | none => (filesVal penv files k).map some

/-- label files: references see earlier label files only -/
def labelFilesValRevFrom (base : Key → Option Str) : List (List Line) → Key → Option Str
  | [], k => base k
  | f :: earlier, k =>
    orElse (fileVal (labelFilesValRevFrom base earlier) f k) (labelFilesValRevFrom base earlier k)

def labelFilesVal (files : List (List Line)) (k : Key) : Option Str :=
  labelFilesValRevFrom (fun _ => none) files.reverse k

def finalLabel (files : List (List Line)) (labels : List (Key × Str)) (k : Key) : Option Str :=
  orElse (lookup k labels) (labelFilesVal files k)

/-- every value in the file is an unambiguous template (`Template.WF`: its rendering parses back to it) -/
def WFLines (ls : List Line) : Prop := ∀ k v, Line.assign k v ∈ ls → CV.Template.WF v = true

/-- no `env_file` format is registered (the state of the library; `dotenv.RegisterFormat` is for embedding programs) -/
def DefaultFormats (fs : FS) : Prop := ∀ n, fs.formats n = none

/-- the outside world the layering specification speaks about: every regular file is well-formed in that sense and
    files are read by the dotenv parser (no custom format registered) -/
def WFFS (fs : FS) : Prop := (∀ p ls, fs p = some (.file ls) → WFLines ls) ∧ DefaultFormats fs

/-- no file exists at path `p`: the path is absent, or one of its parents is a regular file -/
def Missing (fs : FS) (p : Str) : Prop := fs p = none ∨ fs p = some .notdir

/-- the lines of the env files that exist as regular files, in `env_file` order -/
def envContents (fs : FS) (efs : List EnvFile) : List (List Line) :=
  efs.filterMap fun f => match fs f.path with
    | some (.file ls) => some ls
    | _ => none

/-- the lines of the label files, in `label_file` order -/
def labelContents (fs : FS) (paths : List Str) : List (List Line) :=
  paths.filterMap fun p => match fs p with
    | some (.file ls) => some ls
    | _ => none

/-! ### which file fails

`finalEnv` speaks about services whose files all load.  When they do not, the property still fixes *where* the load
fails: at the first listed file — in `env_file` order — that is missing though required, unreadable, or contains a line
that fails; a line fails when it is rejected by the dotenv grammar or when its template is an error of the interpolation
grammar (`${X:?msg}` with `X` unset …) **in the lookup chain of that line**: earlier files, project environment,
earlier lines of the same file. -/

/-- what the references of a line see: the caller's lookup, then what the lines before it (`pre`) give -/
def lineLook (look : Look) (pre : List Line) : Look := fun n => orElse (look n) (fileVal look pre n)

/-- the error of the first failing line after the lines `pre`, if any -/
def fileFailureFrom (look : Look) : List Line → List Line → Option Err
  | _, [] => none
  | _, .bad :: _ => some .parse
  | pre, .bare k :: r => fileFailureFrom look (pre ++ [.bare k]) r
  | pre, .assign k v :: r =>
    match CV.Template.evalL (lineLook look pre) v with
    | .error _ => some .template
    | .ok _ => fileFailureFrom look (pre ++ [.assign k v]) r

def fileFailure (look : Look) (ls : List Line) : Option Err := fileFailureFrom look [] ls

/-- the error of the first failing env file after the file contents `earlier`, if any -/
def envFailureFrom (penv : List (Key × Str)) (fs : FS) : List (List Line) → List EnvFile → Option Err
  | _, [] => none
  | earlier, f :: r =>
    match fs f.path with
    | none => if f.required then some .notFound else envFailureFrom penv fs earlier r
    | some .notdir => if f.required then some .notFound else envFailureFrom penv fs earlier r
    | some .dir => if f.format ≠ [] then some .format else some .read
    | some (.file ls) =>
      if f.format ≠ [] then some .format
      else match fileFailure (envLook penv (filesVal penv earlier)) ls with
        | some e => some e
        | none => envFailureFrom penv fs (earlier ++ [ls]) r

/-- the same for label files: a missing label file always fails; references see earlier label files only -/
def labelFailureFrom (fs : FS) : List (List Line) → List Str → Option Err
  | _, [] => none
  | earlier, p :: r =>
    match fs p with
    | none => some .notFound
    | some .notdir => some .notFound
    | some .dir => some .read
    | some (.file ls) =>
      match fileFailure (labelFilesVal earlier) ls with
      | some e => some e
      | none => labelFailureFrom fs (earlier ++ [ls]) r

/-! ### the same as a fold over ordered layers (lowest precedence first) -/

/-- a later layer that speaks about `k` wins -/
def pickFrom {α : Type} (init : Option α) (layers : List (Key → Option α)) (k : Key) : Option α :=
  layers.foldl (fun acc L => match L k with | some v => some v | none => acc) init

def pick {α : Type} (layers : List (Key → Option α)) (k : Key) : Option α := pickFrom none layers k

/-- one layer per env file; the files before it (`pre`) are what its references can see -/
def fileLayersFrom (penv : List (Key × Str)) : List (List Line) → List (List Line) → List (Key → Option (Option Str))
  | _, [] => []
  | pre, f :: r =>
    (fun k => (fileVal (envLook penv (filesVal penv pre)) f k).map some) :: fileLayersFrom penv (pre ++ [f]) r

/-- the `environment` layer: a value-less entry shows the project environment's value (or no value) -/
def environmentLayer (penv : List (Key × Str)) (environment : List (Key × Option Str)) : Key → Option (Option Str) :=
  fun k => match lookup k environment with
    | some (some v) => some (some v)
    | some none => some (lookup k penv)
    | none => none

/-- env_file 1, …, env_file n, environment -/
def envLayers (penv : List (Key × Str)) (files : List (List Line)) (environment : List (Key × Option Str)) :
    List (Key → Option (Option Str)) :=
  fileLayersFrom penv [] files ++ [environmentLayer penv environment]

/-! ### the property on a concrete layer assignment (used by the oracle) -/

structure FileLayer where
  lines : List Line
  present : Bool
  required : Bool

def presentFiles (fl : List FileLayer) : List (List Line) :=
  (fl.filter (·.present)).map (·.lines)

/-- a required file that is missing makes the load fail; otherwise missing files are skipped -/
def missingRequired (fl : List FileLayer) : Bool := fl.any fun f => !f.present && f.required

end CV.EnvLayers.Spec
