import ComposeVerif.Model.Encode
import ComposeVerif.Model.Decode
import ComposeVerif.Lemmas.Encode
/-!
# C09 — scope of the first generic round-trip theorem

`plainB`: the type (and everything below it) is rendered and decoded by the tag-driven machinery alone — no hand-written
marshaller / decoder / `IsZero`, no `any`, every rendered field has a YAML key, keys and Go names are distinct.
`Stable`: the typed value is one that the reload reproduces exactly — it contains no distinction the rendering cannot
carry: a slice / map is non-empty (an empty one and nil are both left out by `omitempty`), a field that `omitempty`
leaves out holds exactly its zero value, an inlined extension map is nil.
-/
namespace CV.Generic
open CV CV.TypeDesc CV.Marshal CV.Encode CV.Decode

/-- named types with a hand-written marshaller, decoder or zero test, or whose marshaller pre-processes the value -/
def customNames : List String :=
  ["UnitBytes", "Duration", "EnvFile", "HostsList", "SSHKey", "SSHConfig", "UlimitsConfig", "ShellCommand", "ServiceConfig",
   "SecretConfig", "ConfigObjConfig", "DeviceCount", "HealthCheckTest", "StringList", "StringOrNumberList", "Mapping",
   "Labels", "Options", "MappingWithEquals", "NanoCPUs", "Project"]

def noCustom (env : Env) (n : String) : Bool :=
  !customNames.contains n && !hasMethod env n "DecodeMapstructure" && !hasMethod env n "IsZero"
    && !hasMethod env n "MarshalYAML"

def isNull : Val → Bool
  | .null => true
  | _ => false

theorem isNull_eq {v : Val} (h : isNull v = true) : v = .null := by
  cases v <;> simp_all [isNull]

def nodupB : List String → Bool
  | [] => true
  | x :: r => !r.contains x && nodupB r

def plainB (env : Env) : Nat → TyExpr → Bool
  | 0, _ => false
  | _ + 1, .prim p => p != "any"
  | _ + 1, .other _ => false
  | f + 1, .ptr e => plainB env f e
  | f + 1, .slice e => plainB env f e
  | f + 1, .map e => plainB env f e
  | f + 1, .named n =>
    noCustom env n &&
    match findStruct env.structs n with
    | some s =>
      nodupB ((s.fields.filter rendered).map (·.goName))
      && nodupB ((s.fields.filter (keyed .yaml)).map (keyOf .yaml))
      && s.fields.all fun fd => !rendered fd ||
          (!fd.yamlSkip && (if fd.yamlInline then isNull (zeroVal env f fd.ty)
              && !((s.fields.filter (keyed .yaml)).map (keyOf .yaml)).contains fd.yamlKey
            else plainB env f fd.ty))
    | none => match findNamed env.named n with
      | some e => plainB env f e
      | none => false

/-- is the field left out of the YAML rendering? (the encoder's own test) -/
def omittedY (env : Env) (fd : FieldDesc) (v : Val) : Bool := fd.yamlOmit && zeroOf env .yaml fd.ty v

def Stable (env : Env) : Nat → TyExpr → Val → Prop
  | 0, _, _ => False
  | _ + 1, .prim _, v => isScalar v = true ∧ v ≠ .null
  | _ + 1, .other _, _ => False
  | f + 1, .ptr e, v => v = .null ∨ Stable env f e v
  | f + 1, .slice e, v => ∃ xs, v = .seq xs ∧ xs ≠ [] ∧ ∀ x ∈ xs, Stable env f e x
  | f + 1, .map e, v => ∃ kvs, v = .map kvs ∧ kvs ≠ [] ∧ ∀ p ∈ kvs, Stable env f e p.2
  | f + 1, .named n, v =>
    match findStruct env.structs n with
    | some s => ∃ vals : FieldDesc → Val,
        v = .map ((s.fields.filter rendered).map fun fd => (fd.goName, vals fd)) ∧
        ∀ fd ∈ s.fields, rendered fd = true →
          (fd.yamlInline = true → vals fd = .null) ∧
          (fd.yamlInline = false → omittedY env fd (vals fd) = true → vals fd = zeroVal env f fd.ty) ∧
          (fd.yamlInline = false → omittedY env fd (vals fd) = false → Stable env f fd.ty (vals fd))
    | none => match findNamed env.named n with
      | some e => Stable env f e v
      | none => False

end CV.Generic
