import ComposeVerif.Spec.Generic
/-!
# C09 — scope of the generic round trip for **both renderings**, with hand-written codecs admitted as leaves

Same idea as `Spec/Generic.lean`, generalised twice:

* the rendering format is a parameter.  The JSON rendering is read back by the same decoder (YAML parser, yaml tags), so a
  field must carry the *same key* in both (`keyOf fmt fd = fd.yamlKey`: `tags_consistent`), the inlined extension map must be
  skipped by JSON (it is: `json:"-"`), and "left out" means the JSON encoder's own test (`isEmptyJ`: never a struct);
* `Leaves`: named types whose rendering / decoding is hand-written take part through a proved round trip of their own
  (`LeafSound`), on the values that round trip covers (`ok`).
-/
namespace CV.GenericF
open CV CV.TypeDesc CV.Marshal CV.Encode CV.Decode CV.Generic

structure Leaves where
  names : List String
  ok : String → Val → Prop
  /-- nesting depth (fuel) the leaf codecs need below the named type itself: 0 for a hand-written marshaller, the depth
      of the underlying type expression for a named type rendered by the default encoders (`map[string]*string`: 3) -/
  depth : Nat := 0

/-- a struct type that is decoded field by field by the generic decoder (no `DecodeMapstructure`); it may have a
    hand-written *marshaller* that pre-processes the value and then renders the struct by its tags (`ServiceConfig.MarshalYAML`
    clears `Name`): such a type is in scope for the values the pre-processing leaves alone (`Stable`, first conjunct) -/
def preProcessed : List String := ["ServiceConfig"]

def structOnly (env : Env) (n : String) : Bool :=
  preProcessed.contains n && (customDecode n).isNone && !hasMethod env n "DecodeMapstructure"

def plainB (env : Env) (fmt : Fmt) (lv : List String) : Nat → TyExpr → Bool
  | 0, _ => false
  | _ + 1, .prim p => p != "any"
  | _ + 1, .other _ => false
  | f + 1, .ptr e => plainB env fmt lv f e
  | f + 1, .slice e => plainB env fmt lv f e
  | f + 1, .map e => plainB env fmt lv f e
  | f + 1, .named n =>
    if lv.contains n then true else
    match findStruct env.structs n with
    | some s =>
      (noCustom env n || structOnly env n)
      && nodupB ((s.fields.filter rendered).map (·.goName))
      && nodupB ((s.fields.filter (keyed fmt)).map (keyOf fmt))
      && s.fields.all fun fd => !rendered fd ||
          (!fd.yamlSkip &&
            (if fd.yamlInline then isNull (zeroVal env f fd.ty) && (fmt == .yaml || skipOf fmt fd)
                && !((s.fields.filter (keyed fmt)).map (keyOf fmt)).contains fd.yamlKey
             else if skipOf fmt fd then
               -- rendered by the other format only (`ServiceConfig.Name`: `json:"-"`): this rendering leaves it out, the
               -- decoder must not find its key under another field's name
               !((s.fields.filter (keyed fmt)).map (keyOf fmt)).contains fd.yamlKey
             else keyOf fmt fd == fd.yamlKey && plainB env fmt lv f fd.ty))
    | none => noCustom env n && match findNamed env.named n with
      | some e => plainB env fmt lv f e
      | none => false

/-- is the field left out of the rendering? (skipped by this format's tag, or the encoder's own omitempty test) -/
def omittedF (env : Env) (fmt : Fmt) (fd : FieldDesc) (v : Val) : Bool :=
  skipOf fmt fd || (omitOf fmt fd && zeroOf env fmt fd.ty v)

def Stable (env : Env) (fmt : Fmt) (L : Leaves) : Nat → TyExpr → Val → Prop
  | 0, _, _ => False
  | _ + 1, .prim _, v => isScalar v = true ∧ v ≠ .null
  | _ + 1, .other _, _ => False
  | f + 1, .ptr e, v => v = .null ∨ Stable env fmt L f e v
  | f + 1, .slice e, v => ∃ xs, v = .seq xs ∧ xs ≠ [] ∧ ∀ x ∈ xs, Stable env fmt L f e x
  | f + 1, .map e, v => ∃ kvs, v = .map kvs ∧ kvs ≠ [] ∧ ∀ p ∈ kvs, Stable env fmt L f e p.2
  | f + 1, .named n, v =>
    if L.names.contains n then L.depth ≤ f ∧ L.ok n v ∧ v ≠ .null else
    match findStruct env.structs n with
    | some s =>
      -- the type has no marshaller of its own, or its marshaller's pre-processing is the identity on this value
      (custom fmt n v = none ∨ custom fmt n v = some (.inr (n, v))) ∧
      ∃ vals : FieldDesc → Val,
        v = .map ((s.fields.filter rendered).map fun fd => (fd.goName, vals fd)) ∧
        ∀ fd ∈ s.fields, rendered fd = true →
          (fd.yamlInline = true → vals fd = .null) ∧
          (fd.yamlInline = false → omittedF env fmt fd (vals fd) = true → vals fd = zeroVal env f fd.ty) ∧
          (fd.yamlInline = false → omittedF env fmt fd (vals fd) = false → Stable env fmt L f fd.ty (vals fd))
    | none => match findNamed env.named n with
      | some e => Stable env fmt L f e v
      | none => False

/-- what the round trip gives for one value -/
def RT (env : Env) (fmt : Fmt) (f : Nat) (ty : TyExpr) (v : Val) : Prop :=
  ∃ t, encode env fmt f ty v = .ok t ∧ decode env f ty t = .ok v ∧ (v ≠ .null → t ≠ .null)

/-- every leaf has a round trip of its own on its `ok` values, at any nesting depth from `L.depth` on -/
def LeafSound (env : Env) (fmt : Fmt) (L : Leaves) : Prop :=
  ∀ n, L.names.contains n = true → ∀ (f : Nat) (v : Val), L.depth ≤ f → L.ok n v → v ≠ .null → RT env fmt (f + 1) (.named n) v

end CV.GenericF
