import ComposeVerif.Model.Name
/-!
# What C17 says (specification)

* the project name as a decision function over the four sources, in the order of the property:
  explicit request, `COMPOSE_PROJECT_NAME` of the project environment, `name:` of the last compose file that
  sets one (interpolated, normalised; falls through when empty), normalised base name of the project directory;
* the project environment as a lookup through ordered layers: explicit variables, OS variables, `.env` files
  (later file first), the value of a `.env` line being expanded with the variables *above* it
  (explicit/OS, earlier files, earlier lines).
-/
namespace CV.Name.Spec
open CV CV.Name

inductive Decision
  | name (n : Str)
  | rejected      -- a requested name that is not of the form [a-z0-9][a-z0-9_-]*
  | failed        -- the `name:` of the compose file cannot be interpolated
  | noName        -- no source yields a name: the load must fail
deriving Repr, DecidableEq

structure Sources where
  /-- name requested explicitly (`[]` = none) -/
  explicit : Str
  /-- `COMPOSE_PROJECT_NAME` of the project environment -/
  fromEnv : Option Str
  /-- interpolated `name:` of the last compose file that sets one (`[]` when none does) -/
  fromFiles : Except Unit Str
  /-- base name of the project directory -/
  dirBase : Str

def decide (s : Sources) : Decision :=
  if s.explicit ≠ [] then
    if validName s.explicit then .name s.explicit else .rejected
  else
    match s.fromEnv.filter (· ≠ []) with
    | some n => if validName n then .name n else .rejected
    | none =>
      match s.fromFiles with
      | .error _ => .failed
      | .ok t =>
        if normalize t ≠ [] then .name (normalize t)
        else if normalize s.dirBase ≠ [] then .name (normalize s.dirBase)
        else .noName

/-- the raw `name:` the property selects: the last non-empty one, files and documents in order -/
def selectedName (files : List (List (Option Str))) : Str :=
  ((files.flatten.filterMap id).filter (· ≠ [])).getLast?.getD []

def sourcesOf (w : World) (o : PO) (files : List (List (Option Str))) : Sources where
  explicit := o.name
  fromEnv := o.env.get cpn
  fromFiles := match Template.subst o.env.get (selectedName files) with
    | .ok s => .ok s
    | _ => .error ()
  dirBase := projDir w o

/-! ## environment layers -/

/-- first layer that defines `k` -/
def lookupLayers (ls : List Env) (k : Str) : Option Str :=
  match ls with
  | [] => none
  | l :: ls => match l.get k with
    | some v => some v
    | none => lookupLayers ls k

/-- one `.env` file: a line sees `above`, then the earlier files, then the earlier lines -/
def fileLayer (above earlier : Env) : List (Str × Str) → Env → Except Unit Env
  | [], out => .ok out
  | (k, t) :: ls, out =>
    match Template.subst (lookupLayers [above, earlier, out]) t with
    | .ok v => fileLayer above earlier ls ((k, v) :: out)
    | _ => .error ()

/-- the `.env` files in order; the result lists later files first -/
def dotenvLayers (above : Env) : List (List (Str × Str)) → List Env → Except Unit (List Env)
  | [], acc => .ok acc
  | f :: fs, acc =>
    match fileLayer above acc.flatten f [] with
    | .ok out => dotenvLayers above fs (out :: acc)
    | .error e => .error e

/-- explicit variables: the last binding of a key wins -/
def explicitLayer (opts : List Opt) : Env :=
  (opts.filterMap fun | .withEnv l => some (asEqualsMap l) | _ => none).reverse.flatten

end CV.Name.Spec
