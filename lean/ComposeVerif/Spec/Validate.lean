import ComposeVerif.Model.Validate
/-!
# What the structural exclusivity checks are meant to enforce on the merged tree

`Reaches p v q w`: the walk of `validation.check` started at `(p, v)` visits the node `w` at path `q`
(it never descends below a path that matches a row of the table).  `Passes c w`: the node satisfies the
row's rule, written from the property text / the compose specification.
-/
namespace CV.Validate
open CV CV.TPath

inductive Reaches : TPath → Val → TPath → Val → Prop
  | here {p : TPath} {v : Val} : Reaches p v p v
  | inMap {p q : TPath} {kvs : Val.KVs} {k : String} {c w : Val} :
      firstMatch table p = none → (k, c) ∈ kvs → Reaches (next p k) c q w → Reaches p (.map kvs) q w
  | inSeq {p q : TPath} {xs : List Val} {c w : Val} :
      firstMatch table p = none → c ∈ xs → Reaches (next p "[]") c q w → Reaches p (.seq xs) q w

/-- an `external: true` resource carries nothing but `name` and extensions -/
def ExternalOK (kvs : Val.KVs) : Prop :=
  Val.lookup "external" kvs = none ∨ (∃ x, Val.lookup "external" kvs = some x ∧ asBoolean x = some false) ∨
  (∃ x, Val.lookup "external" kvs = some x ∧ asBoolean x = some true ∧ ∀ e ∈ kvs, externalAllowed e.1 = true)

def Passes : Checker → Val → Prop
  -- a volume is null, or a mapping that does not combine `external` with creation parameters
  | .volume, w => w = .null ∨ ∃ kvs, w = .map kvs ∧ ExternalOK kvs
  -- a secret / config is a mapping with exactly one of its sources, or none but a driver / `external`
  | .fileObject keys, w => ∃ kvs, w = .map kvs ∧
      (countPresent keys kvs = 1 ∨ (countPresent keys kvs = 0 ∧ (has "driver" kvs = true ∨ has "external" kvs = true)))
  -- a watch path is a non-blank string
  | .path, w => ∃ s, w = .str s ∧ s ≠ ""
  -- a device request does not give both `count` and `device_ids`
  | .deviceRequest, w => ∃ kvs, w = .map kvs ∧ ¬ (has "count" kvs = true ∧ has "device_ids" kvs = true)

/-- every checked node of the tree passes its rule -/
def ValidTree (t : Val) : Prop :=
  ∀ q w c, Reaches TPath.root t q w → firstMatch table q = some c → Passes c w

end CV.Validate
