import ComposeVerif.Model.Secrets
/-!
# C20 — what the property says, as predicates on trees

`AllStr P v`: every mapping key, every string leaf and the text of every number / boolean of `v` satisfies `P`.  With
`P s := ¬ canary occurs in s` this is "the canary occurs nowhere in `v`"; the theorems are
proved for an arbitrary `P` ("untainted"), so they cover any notion of occurrence.

Taint confinement is expressed by *first-occurrence exemptions*: `ObjOkF P c kvs` says that
every key of the object satisfies `P` and every value does too, except possibly a string stored
under the first entry whose key is the carrier `c` (`x-#value` for secrets, `content` for configs).
-/
namespace CV.Secrets
open CV CV.Val

mutual
def AllStr (P : String → Prop) : Val → Prop
  | .str s => P s
  | .float s => P s
  | .seq xs => AllStrL P xs
  | .map kvs => AllStrKV P kvs
  | .null => True
  | .bool b => P (fmtV (.bool b))     -- the text a scalar is turned into when it lands in a string field / a label
  | .int i => P (fmtV (.int i))
def AllStrL (P : String → Prop) : List Val → Prop
  | [] => True
  | x :: xs => AllStr P x ∧ AllStrL P xs
def AllStrKV (P : String → Prop) : KVs → Prop
  | [] => True
  | (k, v) :: r => P k ∧ AllStr P v ∧ AllStrKV P r
end

/-- the canary `c` occurs in `s` (as a contiguous substring of code points) -/
def occursB (c : List Char) : List Char → Bool
  | [] => c.isEmpty
  | x :: xs => c.isPrefixOf (x :: xs) || occursB c xs

def occurs (c : List Char) (s : String) : Prop := occursB c s.toList = true

instance (c : List Char) (s : String) : Decidable (occurs c s) := by unfold occurs; infer_instance

/-- `occursB` decides "is a contiguous sublist" -/
theorem occursB_iff_infix (c : List Char) : ∀ l : List Char, occursB c l = true ↔ c <:+: l
  | [] => by simp [occursB]
  | x :: xs => by
    simp only [occursB, Bool.or_eq_true, List.isPrefixOf_iff_prefix, occursB_iff_infix c xs, List.infix_cons_iff]

/-- the canary occurs nowhere in the tree: not in a key, not in a string leaf -/
def Clean (c : List Char) (v : Val) : Prop := AllStr (fun s => ¬ occurs c s) v

def isStr : Val → Prop
  | .str _ => True
  | _ => False

/-- all keys satisfy `P`; all values do, except a string under the *first* entry keyed `c` -/
def ObjOkF (P : String → Prop) (c : String) : KVs → Prop
  | [] => True
  | (k, v) :: r =>
    P k ∧ (if k = c then (isStr v ∨ AllStr P v) ∧ AllStrKV P r else AllStr P v ∧ ObjOkF P c r)

/-- the value of a secret / config section entry after `resolve*Environment` -/
def ValOkF (P : String → Prop) (c : String) : Val → Prop
  | .map kvs => ObjOkF P c kvs
  | v => AllStr P v

/-- the `#extensions` entry of a raw secret: clean, or a mapping with the carrier exemption -/
def ExtOk (P : String → Prop) : Val → Prop
  | .map ex => ObjOkF P xValue ex
  | v => AllStr P v

/-- a raw resource object as the struct decode reads it (only look-ups matter):
every field value is clean except under `x-#value`, `Content` and the carrier `c`; `#extensions` is `ExtOk` -/
def RawOk (P : String → Prop) (c : String) (kvs : KVs) : Prop :=
  (∀ k v, lookup k kvs = some v → k ≠ xValue → k ≠ "Content" → k ≠ c → k ≠ extKey → AllStr P v) ∧
  (∀ v, lookup extKey kvs = some v → ExtOk P v)

def OptP (P : String → Prop) (s : String) : Prop := s = "" ∨ P s

def StrMapOk (P : String → Prop) : List (String × String) → Prop
  | [] => True
  | (k, v) :: r => P k ∧ P v ∧ StrMapOk P r

/-- every field of the typed object satisfies `P`, except possibly `content` -/
structure FileObj.CleanBut (P : String → Prop) (o : FileObj) : Prop where
  name : OptP P o.name
  file : OptP P o.file
  environment : OptP P o.environment
  labels : StrMapOk P o.labels
  driver : OptP P o.driver
  driverOpts : StrMapOk P o.driverOpts
  templateDriver : OptP P o.templateDriver
  extensions : AllStrKV P o.extensions

/-- the keys the renderers write themselves -/
def vocabulary : List String :=
  ["name", "file", "environment", "content", "external", "labels", "driver", "driver_opts", "template_driver", "secrets", "configs",
   "true", "", "<nil>"]   -- `external: true`; the value of a null label / driver option; `fmt.Sprint(nil)` in a label list

/-- the keys the loader writes into the raw tree -/
def carrierKeys : List String := [xValue, extKey, "Content", "content", "name"]

/-- the names `setNameFromKey` generates for the resources of a section satisfy `P` -/
def GenNamesOk (P : String → Prop) (pname sect : String) (dict : KVs) : Prop :=
  ∀ objs, lookup sect dict = some (.map objs) → ∀ e ∈ objs, P (pname ++ "_" ++ e.1)

/-- no config of the model names the empty variable as its source -/
def NoEmptySource (dict : KVs) : Prop :=
  ∀ objs, lookup "configs" dict = some (.map objs) → ∀ e ∈ objs, ∀ kvs, e.2 = .map kvs → lookup "environment" kvs ≠ some (.str "")

/-- `P` survives `strings.Cut(s, "=")` (labels given as a list of `key=value` strings) — true of "the canary does
not occur in `s`" (`cutClosed_not_occurs`) -/
def CutClosed (P : String → Prop) : Prop := ∀ s, P s → P (cutEq s).1 ∧ P (cutEq s).2

/-- what the theorems assume about `P`: it holds of every key the loader and the renderers write themselves -/
structure VocabOk (P : String → Prop) : Prop where
  vocab : ∀ k ∈ vocabulary, P k
  carriers : ∀ k ∈ carrierKeys, P k
  cut : CutClosed P

/-- a heap whose allocated addresses are all below `next` -/
def Heap.WF (h : Heap) : Prop := ∀ e ∈ h.maps, e.1 < h.next


end CV.Secrets
