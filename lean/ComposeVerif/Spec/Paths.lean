import ComposeVerif.Model.Paths
/-!
# C12 — what the property says a path attribute becomes  (the short specification)

A path-bearing attribute has a *kind* (which exemptions apply) and its written value has a *shape*:

* exempt     left as written: absolute paths; for build contexts anything containing `://` or starting
             with a remote prefix (git, http(s), ssh, github.com/, git@); for `extends.file` a reference a
             remote resource loader accepts; for mount sources / secret and config files / bind devices a
             Windows-absolute path (`C:\x`, `C:/x`, `\\server\share\x`)
* tilde      `~rest` becomes the user's home directory joined with `rest`
* relative   becomes the base directory joined with it (lexically cleaned); when the base is itself relative
             (first resolution stage of an included / extended file, whose result is resolved again against the
             project directory) a result that would be re-read as `~…`, a remote context or a Windows-absolute
             path keeps a leading `./` — it still denotes the same local path
* the empty string (and `~` without a usable absolute `$HOME`) is outside what the property speaks about.
-/
namespace CV.Paths.Spec
open CV.Paths

inductive Kind where
  /-- env_file path, label_file, develop.watch path -/
  | localPath
  /-- build context, additional contexts -/
  | context
  /-- bind-mount source, secret/config file, bind device of a local volume -/
  | mount
  /-- extends.file -/
  | extendsFile
deriving DecidableEq, Repr

def kindOf : String → Option Kind
  | "local" => some .localPath | "context" => some .context
  | "mount" => some .mount | "extends" => some .extendsFile
  | _ => none

inductive Shape where
  | exempt | tilde | relative | unspecified
deriving DecidableEq, Repr

def shapeName : Shape → String
  | .exempt => "exempt" | .tilde => "tilde" | .relative => "relative" | .unspecified => "unspecified"

/-- `C:\…` / `c:/…` -/
def driveAbs : Str → Bool
  | c :: ':' :: s :: _ => isLetter c && isSlash s
  | _ => false

def notSlash (c : Char) : Bool := !isSlash c

/-- `\\server\share\…` (either slash), server and share non-empty and not starting with a dot -/
def uncAbs : Str → Bool
  | a :: b :: rest =>
    let server := rest.takeWhile notSlash
    let r1 := rest.dropWhile notSlash
    isSlash a && isSlash b && server ≠ [] && server.head? ≠ some '.' &&
      (match r1 with
       | _ :: r2 =>
         let share := r2.takeWhile notSlash
         let r3 := r2.dropWhile notSlash
         share ≠ [] && share.head? ≠ some '.' && r3 ≠ []
       | [] => false)
  | _ => false

def winAbs (p : Str) : Bool := driveAbs p || uncAbs p

def urlLike (s : Str) : Bool := containsStr schemeSep s || isRemoteContext s

def classify (k : Kind) (remote : Str → Bool) (s : Str) : Shape :=
  if k = .context ∧ urlLike s = true then .exempt
  else if k = .extendsFile ∧ remote s = true then .exempt
  else if s = [] then .unspecified
  else if s.head? = some '~' then .tilde
  else if isAbs s then .exempt
  else if k = .mount ∧ winAbs s = true then .exempt
  else .relative

/-- would a later stage read this relative result as something else than a local path? -/
def reread (j : Str) : Bool := (j.head? = some '~') || isRemoteContext j || winAbs j

/-- keep a relative result recognisable as a local path -/
def localize (j : Str) : Str := if !isAbs j && reread j then '.' :: '/' :: j else j

/-- the value the property prescribes (`none` = the property does not say) -/
def expected? (k : Kind) (wd : Str) (home : Option Str) (remote : Str → Bool) (s : Str) : Option Str :=
  match classify k remote s with
  | .exempt => some s
  | .relative => some (localize (join wd s))
  | .tilde =>
    match home with
    | some h => if isAbs h then some (join h (s.drop 1)) else none
    | none => none
  | .unspecified => none

end CV.Paths.Spec
