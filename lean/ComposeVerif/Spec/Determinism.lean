/-!
# C02 — the *reviewed* static facts

`translator/static.go` lists, from the typed syntax of the source tree as it is now, every place where Go's
map iteration order or package-level state could reach a result.  The lists below are what a reviewer has
looked at and justified (one line per row here, a paragraph in `design/C02.md`); `Props/C02.lean` proves the
regenerated lists equal to them, so a **new** site — or the removal of a sort — breaks the build until it is
reviewed.  Rows are `(file, function, kind, target)`; a kind starting with `?` means the ranged operand comes
from a package outside the module and could not be typed: it is analysed as if it were a map.
-/
namespace CV.Det.Spec

abbrev Site := String × String × String × String

/-- range-over-map loops that build a slice / string and do not sort it in the same function -/
def reviewedOrderLeakSites : List Site := [
  -- slice of strings from strings.Split (not a map)
  ("cli/options.go", "WithDefaultProfiles", "?append", "profiles"),
  -- traversal helpers (property C13): the *set* of roots/leaves/descendants is what the traversal uses
  ("graph/graph.go", "graph.leaves", "append", "res"),
  ("graph/graph.go", "graph.roots", "append", "res"),
  ("graph/graph.go", "vertex.descendents", "append", "vx"),
  -- yaml node.Content is a slice
  ("loader/reset.go", "ResetProcessor.resolveReset", "?append", "nodes"),
  -- regexp matches: a slice
  ("template/variables.go", "extractVariable", "?append", "values"),
  -- both callers (MarshalYAML, MarshalJSON) sort the result: Props.C02.hostsRender_perm
  ("types/hostList.go", "HostsList.AsList", "append", "l"),
  -- public helpers, not called by the loader nor by the renderers (callers get an unordered list)
  ("types/labels.go", "Labels.AsList", "index-store", "s"),
  ("types/project.go", "Project.ServicesWithCapabilities", "append", "capabilities"),
  ("types/project.go", "Project.ServicesWithCapabilities", "append", "gpu"),
  ("types/project.go", "Project.ServicesWithCapabilities", "append", "tpu"),
  ("types/services.go", "Services.GetProfiles", "append", "profiles"),
  ("types/types.go", "ServiceConfig.GetDependencies", "append", "dependencies"),
  ("types/types.go", "ServiceConfig.GetDependents", "append", "dependent"),
  ("utils/set.go", "Set.Elements", "append", "elements"),
  ("utils/stringutils.go", "GetAsStringList", "append", "m")]

/-- which of these a load or a project rendering can reach -/
def reachableFromLoadOrRender (s : Site) : Bool :=
  s.2.1 = "HostsList.AsList"

/-- reachable sites for which `Props/C02.lean` has an order-independence theorem -/
def provedInsensitive : List Site := [
  ("types/hostList.go", "HostsList.AsList", "append", "l")]   -- hostsRender_perm

/-- range-over-map loops left early with a value -/
def reviewedEarlyExitSites : List Site := [
  -- `return out, err`: the error path (the partial map is discarded by the caller)
  ("interpolation/interpolation.go", "Interpolate", "return", "config"),
  -- first match over the cast table: castTable_exclusive ⇒ castTable_order_independent
  ("interpolation/interpolation.go", "Options.getCasterForPath", "return", "o.TypeCastMapping"),
  -- `return nil, formatInvalidKeyError(…)`: an error path
  ("loader/loader.go", "convertToStringKeysRecursive", "return", "mapping"),
  -- first match over a rule table: *_exclusive ⇒ *_order_independent
  ("override/merge.go", "mergeYaml", "return", "mergeSpecials"),
  ("override/uncity.go", "enforceUnicity", "return", "unique"),
  ("paths/resolve.go", "relativePathsResolver.resolveRelativePaths", "return", "r.resolvers"),
  ("transform/canonical.go", "transform", "return", "transformers"),
  ("transform/defaults.go", "setDefaults", "return", "defaultValues"),
  -- only on platforms with case-insensitive variable names (Windows); documented as indefinite there
  ("types/config.go", "ConfigDetails.LookupEnv", "return", "cd.Environment"),
  -- a slice of path parts
  -- a slice from strings.Split, used as a bound on the number of rounds (C12's repair of ResolveSymbolicLink)
  ("utils/pathutils.go", "ResolveSymbolicLink", "?return", "strings.Split(path, string(os.PathSeparator))"),
  ("utils/pathutils.go", "getSymbolinkLink", "?return", "parts"),
  ("validation/validation.go", "check", "return", "checks")]

/-- package-level variables written outside `init` -/
def reviewedGlobalWrites : List Site := [
  -- only by the public RegisterFormat, which no load calls
  ("dotenv/format.go", "RegisterFormat", "assign", "formats"),
  -- decides whether a warning is logged, nothing else: Props.C02.load_indep_global
  ("loader/loader.go", "Options.warnObsoleteVersion", "assign", "versionWarning")]

/-- `range` operands typed outside the module (all slices, except `ports` in ParsePortConfig, a map whose keys
are collected and sorted before use) -/
def reviewedUntypedRangeSites : List Site := [
  ("cli/options.go", "WithDefaultProfiles", "range", "strings.Split(o.Environment[consts.ComposeProfiles], \",\")"),
  ("dotenv/godotenv.go", "loadFile", "range", "rawEnv"),
  ("format/volume.go", "populateFieldFromBuffer", "range", "strings.Split(strBuffer, \",\")"),
  ("loader/reset.go", "ResetProcessor.resolveReset", "range", "node.Content"),
  ("loader/reset.go", "checkAcyclic", "range", "node.Content"),   -- C01 round 2: the tree check before Decode; a yaml.Node's content is a slice
  ("schema/schema.go", "humanReadableType", "range", "allTypes"),
  ("template/template.go", "matchGroups", "range", "pattern.SubexpNames()[1:]"),
  ("template/variables.go", "extractVariable", "range", "matches"),
  ("types/types.go", "ParsePortConfig", "range", "ports"),
  ("utils/pathutils.go", "ResolveSymbolicLink", "range", "strings.Split(path, string(os.PathSeparator))"),
  ("utils/pathutils.go", "getSymbolinkLink", "range", "parts")]

/-- every package-level variable of the library.  Read-only after `init` unless listed in `reviewedGlobalWrites`:
rule tables (`mergeSpecials`, `unique`, `transformers`, `defaultValues`, `checks`, `interpolateTypeCastMapping`,
`bindOptions`, `omitempty`, `userDefinedKeys`) are filled by `init`/literals and only ranged or indexed afterwards;
compiled regular expressions, sentinel errors, string constants declared with `var`, default file-name slices.
A new package-level variable (a cache, a counter, a registry) breaks `packageVars_reviewed` until it is reviewed. -/
def reviewedPackageVars : List Site := [
  ("cli/options.go", "", "slice", "DefaultFileNames"),
  ("cli/options.go", "", "slice", "DefaultOverrideFileNames"),
  ("dotenv/format.go", "", "map", "formats"),
  ("dotenv/godotenv.go", "", "func", "noLookupFn"),
  ("dotenv/godotenv.go", "", "slice", "utf8BOM"),
  ("dotenv/godotenv.go", "", "unknown", "startsWithDigitRegex"),
  ("dotenv/parser.go", "", "unknown", "escapeSeqRegex"),
  ("dotenv/parser.go", "", "unknown", "exportRegex"),
  ("errdefs/errors.go", "", "unknown", "ErrDisabled"),
  ("errdefs/errors.go", "", "unknown", "ErrIncompatible"),
  ("errdefs/errors.go", "", "unknown", "ErrInvalid"),
  ("errdefs/errors.go", "", "unknown", "ErrNotFound"),
  ("errdefs/errors.go", "", "unknown", "ErrUnsupported"),
  ("format/volume.go", "", "map", "bindOptions"),
  ("format/volume.go", "", "slice", "Propagations"),
  ("loader/interpolate.go", "", "map", "interpolateTypeCastMapping"),
  ("loader/loader.go", "", "slice", "userDefinedKeys"),
  ("loader/loader.go", "", "slice", "versionWarning"),
  ("loader/loader.go", "", "unknown", "versionWarningMu"),   -- sync.Mutex guarding versionWarning (fix: commit for C19); holds no load-visible state
  ("loader/omitEmpty.go", "", "slice", "omitempty"),
  ("override/merge.go", "", "map", "mergeSpecials"),
  ("override/uncity.go", "", "map", "unique"),
  ("schema/schema.go", "", "basic", "Schema"),
  ("template/template.go", "", "basic", "delimiter"),
  ("template/template.go", "", "basic", "groupBraced"),
  ("template/template.go", "", "basic", "groupEscaped"),
  ("template/template.go", "", "basic", "groupInvalid"),
  ("template/template.go", "", "basic", "groupNamed"),
  ("template/template.go", "", "basic", "substitutionBraced"),
  ("template/template.go", "", "basic", "substitutionNamed"),
  ("template/template.go", "", "unknown", "DefaultPattern"),
  ("template/template.go", "", "unknown", "patternString"),
  ("transform/canonical.go", "", "map", "transformers"),
  ("transform/defaults.go", "", "map", "defaultValues"),
  ("types/config.go", "", "unknown", "isCaseInsensitiveEnvVars"),
  ("types/hostList.go", "", "slice", "hostListSerapators"),
  ("validation/validation.go", "", "map", "checks")]

/-- maps declared in a function that a range-over-map body both reads and writes under a key that does not mention the
loop's key variable (a cache, a "seen" set: what one iteration stores is seen by the next, so the iteration order can
reach the result).  None on the reviewed tree; seed C02-4 (`parsed[envFile.Path]` in `WithServicesEnvironmentResolved`)
is exactly such a site. -/
def reviewedLoopCarriedMaps : List Site := []

end CV.Det.Spec
