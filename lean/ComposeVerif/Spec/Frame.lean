import ComposeVerif.Model.Merge
/-!
# "Anything a later file does not mention is preserved unchanged" — what *mention* means at any depth

`getPath v path` is the value at a key path.  A later file `o` does **not mention** `path` when, walking down `path`,
`o` is a chain of mappings that ends — before the path does — in a mapping that lacks the next key (`Unmentioned`).
`RuleFree p path`: on the way down no custom merge rule intervenes and no key is an `x-` extension (extensions are
replaced as a whole by the later file, so below a mentioned `x-` key nothing of the earlier file survives).
-/
namespace CV.Override
open CV CV.Val CV.Merge

def getPath : Val → List String → Option Val
  | v, [] => some v
  | .map kvs, k :: r => (lookup k kvs).bind fun x => getPath x r
  | _, _ :: _ => none

/-- the later file does not mention `path` (its mappings have distinct keys, as every decoded YAML mapping has) -/
def Unmentioned : Val → List String → Prop
  | .map kvs, k :: r => (keys kvs).Nodup ∧ (match lookup k kvs with | none => True | some v => Unmentioned v r)
  | _, _ => False

/-- no custom rule and no `x-` key on the way from `p` down `path` (the last component included: its own rule is
irrelevant because the later file never reaches it, but an `x-` test is made on every key that is reached) -/
def RuleFree (p : TPath) : List String → Prop
  | [] => True
  | k :: r => ruleAt p = none ∧ hasXPrefix k = false ∧ RuleFree (next p k) r

end CV.Override
