import ComposeVerif.Model.HeapProg
/-!
# C14 — "carries every field not affected by the operation", on the heap model

`Keeps a0 g ws ks`: the writes `ws`, performed in order on the project struct `ks` that lives at address `a0`, keep its field
`g`: a write through another address does not reach the memory of that field; a write through `a0` itself (a field store
`newProject.F = …`, which replaces the pointee) stores a struct whose field `g` is the one it had.
-/
namespace CV.Heap

inductive Keeps (a0 g : Nat) : List (Nat × Cell) → List (Key × GoVal) → Prop where
  | nil (ks) : Keeps a0 g [] ks
  | other {a cell r ks} : a ≠ a0 → a ∉ addrs ((kidOf (.fld g) ks).getD .nil) →
      Keeps a0 g r (writeKids a cell ks) → Keeps a0 g ((a, cell) :: r) ks
  | root {ks' r ks} : kidOf (.fld g) ks' = kidOf (.fld g) ks →
      Keeps a0 g r ks' → Keeps a0 g ((a0, .pointee (.struct ks')) :: r) ks

end CV.Heap
