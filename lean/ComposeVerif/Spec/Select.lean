import ComposeVerif.Model.Select
/-!
# C15 — what the property says, as set algebra over the service names

Nothing here follows the control flow of `types/project.go`: services are looked at as a set of
names with a content, the dependency closure is an inductive reachability predicate, and each
operation is described by what must hold between the project before and the project after.
Every clause is a decidable proposition (bounded quantifiers over the lists of the record), so the
same text is (a) what `Props/C15.lean` proves about the model for all inputs and (b) what the
driver decides on the *real* before/after pairs (op `c15hist`, field `spec`).
-/
namespace CV.Sel

/-! ## sets of names -/

/-- there is a value and it satisfies `P` -/
def sat {α} (o : Option α) (P : α → Prop) : Prop := match o with | some a => P a | none => False
/-- if there is a value it satisfies `P` -/
def allp {α} (o : Option α) (P : α → Prop) : Prop := match o with | some a => P a | none => True
instance {α} (o : Option α) (P : α → Prop) [∀ a, Decidable (P a)] : Decidable (sat o P) := by
  unfold sat; cases o <;> exact inferInstance
instance {α} (o : Option α) (P : α → Prop) [∀ a, Decidable (P a)] : Decidable (allp o P) := by
  unfold allp; cases o <;> exact inferInstance

/-- same set of names -/
def SameSet (a b : List String) : Prop := (∀ x ∈ a, x ∈ b) ∧ (∀ x ∈ b, x ∈ a)
instance (a b : List String) : Decidable (SameSet a b) := by unfold SameSet; exact inferInstance

/-- every service the project knows about, enabled or not -/
def known (p : Proj) : List String := keys p.services ++ keys p.disabled

/-- the enabled and disabled sets are sets (no duplicate) and are disjoint -/
def Partition (p : Proj) : Prop :=
  (keys p.services).Nodup ∧ (keys p.disabled).Nodup ∧ ∀ k ∈ keys p.services, k ∉ keys p.disabled
instance (p : Proj) : Decidable (Partition p) := by unfold Partition; exact inferInstance

/-- every service, enabled or not, is filed under its own `Name` (what the loader guarantees; the dependents
policy of `ForEachService` goes through `Name`).  The spec clauses are only decided on such projects. -/
def Named (p : Proj) : Prop := ∀ kv ∈ p.services ++ p.disabled, kv.2.name = kv.1
instance (p : Proj) : Decidable (Named p) := by unfold Named; exact inferInstance

/-- the service recorded under `k`, wherever it is -/
def find (p : Proj) (k : String) : Option Svc :=
  match lookup k p.services with
  | some s => some s
  | none => lookup k p.disabled

/-! ## profiles -/

/-- the rule of the property: no profile, a listed profile, or `*` listed -/
def Active (s : Svc) (P : List String) : Prop :=
  s.profiles = [] ∨ "*" ∈ P ∨ ∃ x ∈ s.profiles, x ∈ P
instance (s : Svc) (P : List String) : Decidable (Active s P) := by unfold Active; exact inferInstance

/-- every enabled service is active under the recorded profile list (what a load leaves behind, and an
invariant of every operation) -/
def ProfilesOK (p : Proj) : Prop := ∀ kv ∈ p.services, Active kv.2 p.profiles
instance (p : Proj) : Decidable (ProfilesOK p) := by unfold ProfilesOK; exact inferInstance

/-! ## dependency closure -/

/-- `y` is pulled in by `x` under the policy (both enabled) -/
def Edge (svcs : AL Svc) : Policy → String → String → Prop
  | .deps, x, y => ∃ s, lookup x svcs = some s ∧ y ∈ keys s.deps ∧ y ∈ keys svcs
  | .dependents, x, y => x ∈ keys svcs ∧ ∃ s, lookup y svcs = some s ∧ x ∈ keys s.deps
  | .ignore, _, _ => False

/-- least set containing the enabled roots and closed under `Edge` -/
inductive Reach (svcs : AL Svc) (pol : Policy) (roots : List String) : String → Prop
  | root {x} : x ∈ roots → x ∈ keys svcs → Reach svcs pol roots x
  | step {x y} : Reach svcs pol roots x → Edge svcs pol x y → Reach svcs pol roots y

/-- executable successor list (same relation as `Edge`, see `mem_succ_iff`) -/
def succ (svcs : AL Svc) (pol : Policy) (x : String) : List String :=
  match pol with
  | .deps => match lookup x svcs with
    | some s => (keys s.deps).filter (fun y => y ∈ keys svcs)
    | none => []
  | .dependents => if x ∈ keys svcs then keys (svcs.filter (fun kv => x ∈ keys kv.2.deps)) else []
  | .ignore => []

/-- a required dependency of `x` that is not an enabled service (only `IncludeDependencies` looks) -/
def MissingRequired (svcs : AL Svc) (pol : Policy) (x : String) : Prop :=
  pol = .deps ∧ sat (lookup x svcs) fun s => ∃ kv ∈ s.deps, kv.2.required = true ∧ kv.1 ∉ keys svcs
instance (svcs : AL Svc) (pol : Policy) (x : String) : Decidable (MissingRequired svcs pol x) := by
  unfold MissingRequired; exact inferInstance

/-- `S` contains the enabled roots and is closed under the successor relation -/
def Closed (svcs : AL Svc) (pol : Policy) (roots S : List String) : Prop :=
  (∀ r ∈ roots, r ∈ keys svcs → r ∈ S) ∧ ∀ x ∈ S, ∀ y ∈ succ svcs pol x, y ∈ S
instance (svcs : AL Svc) (pol : Policy) (roots S : List String) : Decidable (Closed svcs pol roots S) := by
  unfold Closed; exact inferInstance

/-- one round of saturation -/
def expand (svcs : AL Svc) (pol : Policy) (S : List String) : List String :=
  (S ++ S.flatMap (succ svcs pol)).eraseDups

/-- saturation by iteration (the oracle's way to compute the closure; `closure_sound`/`closure_complete`
 in `Props/C15.lean` tie it to `Reach`) -/
def closureN (svcs : AL Svc) (pol : Policy) : Nat → List String → List String
  | 0, S => S
  | n + 1, S => closureN svcs pol n (expand svcs pol S)

def closure (svcs : AL Svc) (pol : Policy) (roots : List String) : List String :=
  closureN svcs pol svcs.length ((roots.filter (fun r => r ∈ keys svcs)).eraseDups)

/-! ## per-operation clauses (before `p`, after `q`) -/

/-- content of a service up to its `depends_on` and its `environment` -/
def sameButDeps (a b : Svc) : Prop := { a with deps := [], env := [] } = { b with deps := [], env := [] }
instance (a b : Svc) : Decidable (sameButDeps a b) := by unfold sameButDeps; exact inferInstance

/-- `b` is `a` with some unset variables (`KEY` without a value) given a value; nothing else changes -/
def envLe : AL (Option String) → AL (Option String) → Bool
  | [], [] => true
  | (k, v) :: r, (k', v') :: r' => k == k' && (v == v' || v == none) && envLe r r'
  | _, _ => false

/-- the environment of a service only ever gets more resolved -/
def envMore (a b : Svc) : Prop := envLe a.env b.env = true
instance (a b : Svc) : Decidable (envMore a b) := by unfold envMore; exact inferInstance

/-- dependencies only ever shrink, and keep their attributes -/
def depsShrink (old new : Svc) : Prop := ∀ kv ∈ new.deps, lookup kv.1 old.deps = some kv.2
instance (a b : Svc) : Decidable (depsShrink a b) := by unfold depsShrink; exact inferInstance

/-- no service lost, none duplicated, none invented; contents carried over up to shrinking `depends_on` -/
def Conserved (p q : Proj) : Prop :=
  Partition q ∧ SameSet (known p) (known q) ∧
  ∀ k ∈ known q, sat (find p k) fun s => sat (find q k) fun t => sameButDeps s t ∧ depsShrink s t ∧ envMore s t
instance (p q : Proj) : Decidable (Conserved p q) := by unfold Conserved; exact inferInstance

def sameResources (p q : Proj) : Prop :=
  p.networks = q.networks ∧ p.volumes = q.volumes ∧ p.secrets = q.secrets ∧ p.configs = q.configs ∧
  p.environment = q.environment
instance (p q : Proj) : Decidable (sameResources p q) := by unfold sameResources; exact inferInstance

/-- enabled services of `q` do not depend on any name of `gone` -/
def NoDepOn (q : Proj) (gone : List String) : Prop :=
  ∀ kv ∈ q.services, ∀ d ∈ keys kv.2.deps, d ∉ gone
instance (q : Proj) (g : List String) : Decidable (NoDepOn q g) := by unfold NoDepOn; exact inferInstance

/-- every dependency of an enabled service is an enabled service -/
def NoDangling (q : Proj) : Prop :=
  ∀ kv ∈ q.services, ∀ d ∈ keys kv.2.deps, d ∈ keys q.services
instance (q : Proj) : Decidable (NoDangling q) := by unfold NoDangling; exact inferInstance

/-- `WithProfiles P` -/
def ProfilesSpec (p : Proj) (P : List String) (q : Proj) : Prop :=
  q.profiles = P ∧
  (∀ k ∈ known q, sat (find q k) fun s => (k ∈ keys q.services ↔ Active s P)) ∧
  (∀ k ∈ known q, find q k = find p k)
instance (p : Proj) (P : List String) (q : Proj) : Decidable (ProfilesSpec p P q) := by
  unfold ProfilesSpec; exact inferInstance

/-- profiles a call `WithServicesEnabled names` must add: those of the named services that are disabled -/
def wantedProfiles (p : Proj) (names : List String) : List String :=
  names.flatMap (fun n => if n ∈ keys p.services then [] else
    match lookup n p.disabled with | some s => s.profiles | none => [])

/-- a service after `WithServicesEnvironmentResolved`: a variable listed without a value takes the value the
project environment has for it, if any (services without `env_file`; files are C16's subject) -/
def resolvedSvc (penv : AL String) (s : Svc) : Svc :=
  { s with env := s.env.map fun kv => (kv.1, match kv.2 with | some v => some v | none => lookup kv.1 penv) }

/-- `WithServicesEnabled names` -/
def EnableSpec (p : Proj) (names : List String) (q : Proj) : Prop :=
  if names = [] then q = p else
  q.profiles = p.profiles ++ wantedProfiles p names ∧
  (∀ k ∈ known q, sat (find q k) fun s => (k ∈ keys q.services ↔ Active s (p.profiles ++ wantedProfiles p names))) ∧
  -- an enabled service is the old one with its environment resolved, a disabled one is the old one
  (∀ k ∈ known q, sat (find p k) fun s =>
      find q k = some (if k ∈ keys q.services then resolvedSvc p.environment s else s)) ∧
  -- enabling a known service enables it and activates its profiles
  (ProfilesOK p → ∀ n ∈ names, n ∈ known p → n ∈ keys q.services ∧
    sat (find q n) fun s => Active s q.profiles ∧ (n ∉ keys p.services → ∀ x ∈ s.profiles, x ∈ q.profiles))
instance (p : Proj) (names : List String) (q : Proj) : Decidable (EnableSpec p names q) := by
  unfold EnableSpec; exact inferInstance

/-- the arguments of `WithServicesDisabled` up to and including the first occurrence of `x` -/
def upTo (x : String) : List String → List String
  | [] => []
  | n :: ns => if n = x then [n] else n :: upTo x ns

/-- `WithServicesDisabled names` -/
def DisableSpec (p : Proj) (names : List String) (q : Proj) : Prop :=
  SameSet (keys q.services) ((keys p.services).filter (fun k => k ∉ names)) ∧
  NoDepOn q names ∧
  -- a service that stays enabled loses exactly its dependencies on the named services
  (∀ kv ∈ q.services, sat (lookup kv.1 p.services) fun s =>
      kv.2.deps = s.deps.filter (fun d => d.1 ∉ names)) ∧
  -- a service that was disabled before is not touched
  (∀ kv ∈ p.disabled, lookup kv.1 q.disabled = some kv.2) ∧
  q.profiles = p.profiles
instance (p : Proj) (names : List String) (q : Proj) : Decidable (DisableSpec p names q) := by
  unfold DisableSpec; exact inferInstance

/-- exact content of the services moved by `WithServicesDisabled names`: a moved service has lost its dependencies
on the names listed up to and including itself (the names are processed in argument order; this is the only way
the order of the arguments matters) -/
def DisableMovedSpec (p : Proj) (names : List String) (q : Proj) : Prop :=
  ∀ kv ∈ q.disabled, kv.1 ∈ keys p.services → sat (lookup kv.1 p.services) fun s =>
    kv.2 = { s with deps := s.deps.filter (fun d => d.1 ∉ upTo kv.1 names) }
instance (p : Proj) (names : List String) (q : Proj) : Decidable (DisableMovedSpec p names q) := by
  unfold DisableMovedSpec; exact inferInstance

/-- exact content of the services disabled by `WithSelectedServices` (after the `fix:` commit): a non-selected
service has lost its dependencies on the non-selected services whose name is not greater than its own -/
def SelectMovedSpec (p : Proj) (S : List String) (q : Proj) : Prop :=
  ∀ kv ∈ q.disabled, kv.1 ∈ keys p.services → sat (lookup kv.1 p.services) fun s =>
    kv.2 = { s with deps := s.deps.filter (fun d => ¬(d.1 ∈ keys p.services ∧ d.1 ∉ S ∧ d.1 ≤ kv.1)) }
instance (p : Proj) (S : List String) (q : Proj) : Decidable (SelectMovedSpec p S q) := by
  unfold SelectMovedSpec; exact inferInstance

/-- the outcome the property prescribes for `WithSelectedServices names pol`:
`none` = "no such service", `some S` = the set of services that stay enabled -/
def selectWanted (p : Proj) (names : List String) (pol : Policy) : Option (List String) :=
  if names.any (fun n => n ∉ keys p.services) then none
  else
    let S := closure p.services pol names
    if S.any (fun x => decide (MissingRequired p.services pol x)) then none else some S

/-- `WithSelectedServices names pol` succeeded with `q` and `S` is the wanted selection -/
def SelectSpec (p : Proj) (S : List String) (q : Proj) : Prop :=
  SameSet (keys q.services) S ∧
  NoDangling q ∧
  -- a selected service keeps exactly its dependencies on selected services
  (∀ kv ∈ q.services, sat (lookup kv.1 p.services) fun s =>
      kv.2.deps = s.deps.filter (fun d => d.1 ∈ S)) ∧
  (∀ kv ∈ p.disabled, lookup kv.1 q.disabled = some kv.2) ∧
  q.profiles = p.profiles
instance (p : Proj) (S : List String) (q : Proj) : Decidable (SelectSpec p S q) := by
  unfold SelectSpec; exact inferInstance

/-- names of top-level resources of one kind that enabled services reference -/
def referenced (p : Proj) (f : Svc → List String) : List String := p.services.flatMap (fun kv => f kv.2)

def volRefs (s : Svc) : List String := (s.vols.filter (fun v => v.1 = "volume" ∧ v.2 ≠ "")).map Prod.snd
def secretRefs (s : Svc) : List String := s.secrets ++ (match s.build with | some l => l | none => [])

/-- `out` is `m` restricted to the referenced names -/
def Restricted (refs : List String) (m out : AL String) : Prop :=
  (keys out).Nodup ∧
  (∀ kv ∈ out, kv.1 ∈ refs ∧ lookup kv.1 m = some kv.2) ∧
  (∀ kv ∈ m, kv.1 ∈ refs → (lookup kv.1 out).isSome)
instance (refs : List String) (m out : AL String) : Decidable (Restricted refs m out) := by
  unfold Restricted; exact inferInstance

/-- `WithoutUnnecessaryResources` -/
def PruneSpec (p q : Proj) : Prop :=
  q.services = p.services ∧ q.disabled = p.disabled ∧ q.profiles = p.profiles ∧
  Restricted (referenced p (·.nets)) p.networks q.networks ∧
  Restricted (referenced p volRefs) p.volumes q.volumes ∧
  Restricted (referenced p secretRefs) p.secrets q.secrets ∧
  Restricted (referenced p (·.configs)) p.configs q.configs
instance (p q : Proj) : Decidable (PruneSpec p q) := by unfold PruneSpec; exact inferInstance

/-! ## `ForEachService` itself (round 5): the callback sequence -/

/-- `y` comes strictly before `x` in `l` -/
def before (l : List String) (y x : String) : Bool := (l.takeWhile (fun z => z != x)).contains y

/-- the roots of a walk: no name = every enabled service (`getServicesByNames`) -/
def rootsOf (p : Proj) (names : List String) : List String := if names.isEmpty then keys p.services else names

/-- the outcome the property prescribes for `ForEachService names fn options` (`fn` never failing):
`none` = "no such service", `some S` = the set of services `fn` is called with -/
def eachWanted (p : Proj) (names : List String) (pol : Policy) : Option (List String) :=
  selectWanted p (rootsOf p names) pol

/-- the callback sequence of a successful `ForEachService`: every service of the closure exactly once, and a service
pulled in by `x` (a dependency of `x`; a dependent of `x` under `IncludeDependents`) is called before `x` unless it
lies on a dependency cycle through `x` -/
def ForEachSpec (p : Proj) (names : List String) (pol : Policy) (calls : List String) : Prop :=
  calls.Nodup ∧ SameSet calls (closure p.services pol (rootsOf p names)) ∧
  ∀ x ∈ calls, ∀ y ∈ succ p.services pol x, before calls y x = true ∨ x ∈ closure p.services pol [y]
instance (p : Proj) (names : List String) (pol : Policy) (calls : List String) : Decidable (ForEachSpec p names pol calls) := by
  unfold ForEachSpec; exact inferInstance

end CV.Sel
