import ComposeVerif.Model.TypeDesc
/-!
# C09 — what the property says about the struct descriptors (short spec)

A field of a model type is *tag-consistent* when the YAML rendering and the JSON rendering name it
identically (or both leave it out), so that one schema and one decoder accept both renderings.
-/
namespace CV.RoundTrip
open CV.TypeDesc

/-- fields whose YAML and JSON treatment differ *by design* (documented in the source):
    `ServiceConfig.Name` is cleared by `ServiceConfig.MarshalYAML` and is `json:"-"` (the map key carries it) -/
def byDesign : List (String × String) := [("ServiceConfig", "Name")]

/-- the property's per-field requirement on the tags -/
def FieldOK (ty : String) (f : FieldDesc) : Bool :=
  !f.exported                                             -- invisible to both encoders
  || (f.yamlSkip && f.jsonSkip)                           -- left out of both renderings
  || (f.yamlInline && f.jsonSkip && f.goName == "Extensions")   -- extension attributes: inlined in YAML, omitted from JSON by design
  || (!f.yamlSkip && !f.jsonSkip && !f.yamlInline && f.yamlKey == f.jsonKey)
  || byDesign.contains (ty, f.goName)

/-- omitempty must agree, except where JSON deliberately keeps `null` (ShellCommand: nil ≠ empty) -/
def OmitOK (f : FieldDesc) : Bool :=
  !f.exported || f.yamlSkip || f.jsonSkip || f.yamlInline || f.yamlOmit == f.jsonOmit
  || (f.ty == .named "ShellCommand" && f.yamlOmit && !f.jsonOmit)

def refsOfStruct (s : StructDesc) : List String := s.fields.flatMap fun f => if f.exported && !(f.yamlSkip && f.jsonSkip) then f.ty.refs else []

/-- one step of the reachability closure over type names -/
def step (ss : List StructDesc) (ns : List (String × TyExpr)) (seen : List String) : List String :=
  let next := seen.flatMap fun n =>
    match findStruct ss n with
    | some s => refsOfStruct s
    | none => match findNamed ns n with
      | some e => e.refs
      | none => []
  (seen ++ next).eraseDups

def closure (ss : List StructDesc) (ns : List (String × TyExpr)) : Nat → List String → List String
  | 0, seen => seen
  | k + 1, seen => closure ss ns k (step ss ns seen)

/-- the model types: everything a `Project` can contain -/
def modelTypes (ss : List StructDesc) (ns : List (String × TyExpr)) : List String := closure ss ns 9 ["Project"]

def renderedYamlKeys (s : StructDesc) : List String :=
  s.fields.filterMap fun f => if f.exported && !f.yamlSkip && !f.yamlInline then some f.yamlKey else none

def renderedJsonKeys (s : StructDesc) : List String :=
  s.fields.filterMap fun f => if f.exported && !f.jsonSkip then some f.jsonKey else none

def nodupB : List String → Bool
  | [] => true
  | x :: r => !r.contains x && nodupB r

/-- the type has hand-written marshallers for both renderings (its tags then play no role) -/
def fullyCustom (cm : List (String × List String)) (ty : String) : Bool :=
  match cm.find? (·.1 == ty) with
  | some (_, ms) => (ms.contains "MarshalYAML" || ms.contains "*MarshalYAML") && (ms.contains "MarshalJSON" || ms.contains "*MarshalJSON")
  | none => false

def TagsConsistent (ss : List StructDesc) (mt : List String) : Bool :=
  ss.all fun s => !mt.contains s.name || s.fields.all (FieldOK s.name)

def KeysDistinct (ss : List StructDesc) (mt : List String) : Bool :=
  ss.all fun s => !mt.contains s.name || (nodupB (renderedYamlKeys s) && nodupB (renderedJsonKeys s))

def OmitAgrees (ss : List StructDesc) (cm : List (String × List String)) (mt : List String) : Bool :=
  ss.all fun s => !mt.contains s.name || fullyCustom cm s.name || s.fields.all OmitOK

def Closed (ss : List StructDesc) (ns : List (String × TyExpr)) (mt : List String) : Bool := step ss ns mt == mt

def customTypes (cm : List (String × List String)) (mt : List String) : List String :=
  (cm.filter fun p => mt.contains p.1).map Prod.fst

/-- the model types whose rendering or decoding is hand-written, as covered by `Model/Marshal.lean`
    (`Project`, `ServiceConfig`, `SecretConfig`, `ConfigObjConfig` only pre-process and delegate to the tag-driven
    encoding; `NanoCPUs` is a float and stays opaque) -/
def modelledCustoms : List String :=
  ["ConfigObjConfig", "DeviceCount", "Duration", "EnvFile", "HealthCheckTest", "HostsList", "Labels", "Mapping",
   "MappingWithEquals", "NanoCPUs", "Options", "Project", "SSHConfig", "SSHKey", "SecretConfig", "ServiceConfig", "ShellCommand",
   "StringList", "StringOrNumberList", "UlimitsConfig", "UnitBytes"]

/-- all descriptor obligations at once (decided in one kernel run, the named theorems are its projections) -/
def Facts (ss : List StructDesc) (ns : List (String × TyExpr)) (cm : List (String × List String)) (mt : List String) : Bool :=
  TagsConsistent ss mt && Closed ss ns mt && KeysDistinct ss mt && OmitAgrees ss cm mt && (customTypes cm mt == modelledCustoms)

end CV.RoundTrip
