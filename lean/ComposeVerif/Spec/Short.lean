import ComposeVerif.Model.ShortParse
/-!
# C03 specification: one AST per short-syntax grammar, with `render` (the short string) and `long` (the long form)

* ports   `[IP:][HOST[-HOST]]:CONTAINER[-CONTAINER][/PROTO]`
* volumes `[SOURCE:]TARGET[:FLAG,...]`
* devices `SRC[:DST[:PERM]]`

`long` says what the property says: one entry per container port, host ports paired index-wise
(a host range for a single container port is kept as a range), a bind mount iff the source is a
path, later flags override earlier ones.  It does not mention the scanning loops of the Go code.
-/
namespace CV.Short.Spec
open CV CV.Short

/-! ## ports -/

/-- a decimal number with optional leading zeros -/
structure Num where
  zeros : Nat
  val : Nat
deriving Repr, DecidableEq

def Num.render (n : Num) : Str := List.replicate n.zeros '0' ++ natToDec n.val

structure Range where
  lo : Num
  hi : Option Num
deriving Repr, DecidableEq

def Range.render (r : Range) : Str :=
  match r.hi with
  | none => r.lo.render
  | some h => r.lo.render ++ '-' :: h.render

def Range.last (r : Range) : Nat := match r.hi with | none => r.lo.val | some h => h.val
/-- number of ports in the range -/
def Range.size (r : Range) : Nat := r.last - r.lo.val + 1
def Range.wf (r : Range) : Bool := r.lo.val ≤ r.last && r.last ≤ 65535

structure IP where
  bracket : Bool        -- `[addr]` (mandatory for IPv6)
  addr : Str
deriving Repr, DecidableEq

def IP.render (i : IP) : Str := if i.bracket then '[' :: i.addr ++ [']'] else i.addr
def IP.wf (i : IP) : Bool :=
  validIP i.addr && !i.addr.contains '[' && !i.addr.contains ']' && (i.bracket || !i.addr.contains ':')

structure PortSpec where
  ip : Option IP
  host : Option Range
  cont : Range
  proto : Option Str      -- `some []` renders the bare slash `80/`
deriving Repr, DecidableEq

def PortSpec.render (a : PortSpec) : Str :=
  let c := a.cont.render ++ (match a.proto with | none => [] | some p => '/' :: p)
  match a.ip, a.host with
  | none, none => c
  | none, some h => h.render ++ ':' :: c
  | some i, none => i.render ++ ':' :: ':' :: c
  | some i, some h => i.render ++ ':' :: h.render ++ ':' :: c

def protoOf (p : Option Str) : Str :=
  match p with
  | none => ['t', 'c', 'p']
  | some [] => ['t', 'c', 'p']
  | some p => lower p

def PortSpec.wf (a : PortSpec) : Bool :=
  a.cont.wf
  && (match a.host with | none => true | some h => h.wf && (h.size = a.cont.size || a.cont.size = 1))
  && (match a.ip with | none => true | some i => i.wf)
  && (match a.proto with
      | none => true
      | some p => (p = [] || validProto (lower p)) && !p.contains ':' && !p.contains '/')

/-- published port of the `i`-th entry -/
def published (a : PortSpec) (i : Nat) : Str :=
  match a.host with
  | none => []
  | some h =>
    if a.cont.size = 1 ∧ h.size ≠ 1 then natToDec h.lo.val ++ '-' :: natToDec h.last
    else natToDec (h.lo.val + i)

/-- the long form: one entry per container port, in increasing order of the container port -/
def PortSpec.long (a : PortSpec) : List PortCfg :=
  (List.range a.cont.size).map fun i =>
    { hostIP := (match a.ip with | none => [] | some i => i.addr)
      target := a.cont.lo.val + i
      published := published a i
      protocol := protoOf a.proto }

/-! ## volumes -/

/-- one colon-free section, or a Windows drive path `L:rest` -/
inductive Seg where
  | plain (s : Str)
  | drive (l : Char) (rest : Str)
deriving Repr, DecidableEq

def Seg.render : Seg → Str
  | .plain s => s
  | .drive l rest => l :: ':' :: rest

def clean (s : Str) : Bool := !s.contains ':' && !s.contains NUL

def Seg.wf : Seg → Bool
  | .plain s => s ≠ [] && clean s && !(match s with | [c] => isLetter c | _ => false)
  | .drive l rest => isLetter l && clean rest

inductive Flag where
  | ro | rw | nocopy
  | prop (i : Fin 6)
  | z | Z
  | other (s : Str)
deriving Repr, DecidableEq

def propName (i : Fin 6) : Str := propagations.getD i.val []

def Flag.render : Flag → Str
  | .ro => ['r', 'o'] | .rw => ['r', 'w'] | .nocopy => ['n', 'o', 'c', 'o', 'p', 'y']
  | .prop i => propName i
  | .z => ['z'] | .Z => ['Z']
  | .other s => s

def knownFlags : List Str := [['r', 'o'], ['r', 'w'], ['n', 'o', 'c', 'o', 'p', 'y'], ['z'], ['Z']] ++ propagations

def Flag.wf : Flag → Bool
  | .other s => clean s && !s.contains ',' && !knownFlags.contains s
  | _ => true

structure VolSpec where
  source : Option Seg
  target : Seg
  flags : List Flag        -- rendered only when a source is present and the list is non-empty
deriving Repr, DecidableEq

def renderFlags : List Flag → Str
  | [] => []
  | [f] => f.render
  | f :: g :: r => f.render ++ ',' :: renderFlags (g :: r)

def VolSpec.render (a : VolSpec) : Str :=
  match a.source with
  | none => a.target.render
  | some s =>
    s.render ++ ':' :: a.target.render ++ (if a.flags = [] then [] else ':' :: renderFlags a.flags)

def VolSpec.wf (a : VolSpec) : Bool :=
  a.target.wf
  && (match a.source with | none => a.flags = [] | some s => s.wf)
  && a.flags.all Flag.wf
  && (a.flags = [] || renderFlags a.flags ≠ [])

/-- later flags override earlier ones -/
def applyFlag (v : Vol) : Flag → Vol
  | .ro => { v with readOnly := true }
  | .rw => { v with readOnly := false }
  | .nocopy => { v with volume := some true }
  | .prop i => { v with bind := some { (v.bind.getD {}) with propagation := propName i } }
  | .z => { v with bind := some { (v.bind.getD {}) with selinux := ['z'] } }
  | .Z => { v with bind := some { (v.bind.getD {}) with selinux := ['Z'] } }
  | .other _ => v

/-- a source is a host path iff it starts with `.`, `/`, `~`, `\\` or a drive letter and a colon -/
def isPath : Option Seg → Bool
  | none => false
  | some (.drive _ _) => true
  | some (.plain s) =>
    match s with
    | c :: r => c = '.' || c = '/' || c = '~' || (c = '\\' && r.head? = some '\\')
    | [] => false

/-- the long form of a short volume spec (before `path.Clean` of the target, which the transformer adds) -/
def VolSpec.long (a : VolSpec) : Vol :=
  let base : Vol := { source := (match a.source with | none => [] | some s => s.render), target := a.target.render }
  let v := a.flags.foldl applyFlag base
  if a.source = none ∧ byteLen a.target.render ≤ 2 then { v with type := ['v', 'o', 'l', 'u', 'm', 'e'] }
  else if isPath a.source then
    { v with type := ['b', 'i', 'n', 'd'], bind := some { (v.bind.getD {}) with createHostPath := true } }
  else
    { v with type := ['v', 'o', 'l', 'u', 'm', 'e'], volume := some (v.volume.getD false) }

/-! ## devices -/

structure DevSpec where
  src : Str
  dst : Option Str
  perm : Option Str      -- only with a destination
deriving Repr, DecidableEq

def DevSpec.render (a : DevSpec) : Str :=
  match a.dst, a.perm with
  | none, _ => a.src
  | some d, none => a.src ++ ':' :: d
  | some d, some p => a.src ++ ':' :: d ++ ':' :: p

def DevSpec.wf (a : DevSpec) : Bool :=
  !a.src.contains ':' && (match a.dst with | none => true | some d => !d.contains ':')
    && (match a.perm with | none => true | some p => !p.contains ':')

/-- (source, target, permissions) -/
def DevSpec.long (a : DevSpec) : Str × Str × Str :=
  let dst := match a.dst with | none => a.src | some d => if d = [] then a.src else d
  let perm := match a.dst, a.perm with | some _, some p => p | _, _ => ['r', 'w', 'm']
  (a.src, dst, perm)

end CV.Short.Spec
