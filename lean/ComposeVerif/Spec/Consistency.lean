import ComposeVerif.Model.Consistency
/-!
# What property C10 *says*: `Consistent : Proj → Prop`

Written from the text of the property, one `Rule` per clause, plus the three further rules the Go
function enforces (`xPlatform`, `xHealthcheck`, `xWatch`, and `SecretsSourced` at project level).
Everything is phrased with list *membership*, so it does not depend on any iteration order.
-/
namespace CV.Consistency

inductive Rule
  | image | networks | volumes | secrets | configs | buildSecrets | dependsOn | serviceRef
  | exclDockerfile | exclNetworkMode | exclContainerName
  | pairScale | pairCpus | pairMemLimit | pairMemReservation | pairPids
  | xPlatform | xHealthcheck | xWatch
deriving DecidableEq, Repr

def Rule.all : List Rule :=
  [.image, .networks, .volumes, .secrets, .configs, .buildSecrets, .dependsOn, .serviceRef,
   .exclDockerfile, .exclNetworkMode, .exclContainerName,
   .pairScale, .pairCpus, .pairMemLimit, .pairMemReservation, .pairPids,
   .xPlatform, .xHealthcheck, .xWatch]

def Rule.name : Rule → String
  | .image => "image" | .networks => "networks" | .volumes => "volumes" | .secrets => "secrets"
  | .configs => "configs" | .buildSecrets => "buildSecrets" | .dependsOn => "dependsOn" | .serviceRef => "serviceRef"
  | .exclDockerfile => "exclDockerfile" | .exclNetworkMode => "exclNetworkMode" | .exclContainerName => "exclContainerName"
  | .pairScale => "pairScale" | .pairCpus => "pairCpus" | .pairMemLimit => "pairMemLimit"
  | .pairMemReservation => "pairMemReservation" | .pairPids => "pairPids"
  | .xPlatform => "xPlatform" | .xHealthcheck => "xHealthcheck" | .xWatch => "xWatch"

/-- the rules that are part of the text of property C10 (the `x…` rules are extra rules of the code) -/
def Rule.inProperty : Rule → Bool
  | .xPlatform | .xHealthcheck | .xWatch => false
  | _ => true

/-- rule `r` holds for service `s` of project `p` -/
def Holds (p : Proj) (s : Svc) : Rule → Prop
  -- every service has an image or a build
  | .image => s.image ≠ "" ∨ s.build ≠ none
  -- every network, volume, secret and config a service uses is declared
  | .networks => ∀ n ∈ s.networks, n ∈ p.networks
  | .volumes => ∀ v ∈ s.volumes, v.1 = volumeTypeVolume → v.2 ≠ "" → v.2 ∈ p.volumes
  | .secrets => ∀ x ∈ s.secrets, x ∈ p.secretNames
  | .configs => ∀ x ∈ s.configs, x ∈ p.configs
  | .buildSecrets => ∀ b, s.build = some b → ∀ x ∈ b.secrets, x ∈ p.secretNames
  -- every depends_on / `service:` reference names an existing service (or an optional one disabled by profiles)
  | .dependsOn => ∀ d ∈ s.dependsOn, d.1 ∈ p.enabled ∨ (d.1 ∈ p.disabled ∧ d.2 = false)
  | .serviceRef => ∀ x, serviceRef s.networkMode = some x → x ∈ p.enabled
  -- mutually exclusive settings are not combined
  | .exclDockerfile => ∀ b, s.build = some b → b.dockerfile = "" ∨ b.inline = ""
  | .exclNetworkMode => s.networkMode = "" ∨ s.networks = []
  | .exclContainerName => s.containerName = "" ∨ getScale s ≤ 1
  -- paired settings agree
  | .pairScale => ∀ sc d r, s.scale = some sc → s.deploy = some d → d.replicas = some r → sc = r
  | .pairCpus => ∀ d l, s.deploy = some d → d.limits = some l → s.cpus ≠ "0" → l.cpus = s.cpus
  | .pairMemLimit => ∀ d l, s.deploy = some d → d.limits = some l → s.memLimit ≠ 0 → l.mem = s.memLimit
  | .pairMemReservation => ∀ d m, s.deploy = some d → d.reservationsMem = some m → s.memReservation ≠ 0 → m = s.memReservation
  | .pairPids => ∀ d l, s.deploy = some d → d.limits = some l → s.pidsLimit ≠ 0 → l.pids = s.pidsLimit
  -- further rules of the code
  | .xPlatform => ∀ b, s.build = some b → b.platforms ≠ [] → s.platform ≠ "" → s.platform ∈ b.platforms
  | .xHealthcheck => ∀ t rest, s.hc = some (t :: rest) → t ∈ hcKinds
  | .xWatch => ∀ w ∈ s.watch, w.1 = watchActionRebuild ∨ w.2 ≠ ""

/-- `a` depends on `b`, both enabled -/
def DepRel (p : Proj) (a b : String) : Prop :=
  ∃ s, (a, s) ∈ p.services ∧ b ∈ p.enabled ∧ ∃ r, (b, r) ∈ s.dependsOn

/-- a non-empty walk -/
inductive Walk {α : Type} (E : α → α → Prop) : α → α → Prop
  | single {a b : α} : E a b → Walk E a b
  | cons {a b c : α} : E a b → Walk E b c → Walk E a c

/-- the dependency graph over enabled services is acyclic -/
def Acyclic (p : Proj) : Prop := ∀ v, ¬ Walk (DepRel p) v v

/-- every non-external secret names a source -/
def SecretsSourced (p : Proj) : Prop :=
  ∀ e ∈ p.secrets, e.2.external = true ∨ e.2.file ≠ "" ∨ e.2.environment ≠ ""

/-- the property's notion: all property rules for every enabled service, and an acyclic graph -/
def Consistent (p : Proj) : Prop :=
  (∀ e ∈ p.services, ∀ r, r.inProperty = true → Holds p e.2 r) ∧ Acyclic p

/-- everything `checkConsistency` enforces -/
def ConsistentFull (p : Proj) : Prop :=
  (∀ e ∈ p.services, ∀ r, Holds p e.2 r) ∧ SecretsSourced p ∧ Acyclic p

theorem ConsistentFull.consistent {p : Proj} (h : ConsistentFull p) : Consistent p :=
  ⟨fun e he r _ => h.1 e he r, h.2.2⟩

/-! ## decision procedure (proved equivalent to the `Prop`s in `Props/C10.lean`) -/

/-- the model function that enforces rule `r` -/
def ruleCheck (p : Proj) (s : Svc) : Rule → Option Err
  | .image => rImage s | .networks => rNetworks p s | .volumes => rVolumes p s | .secrets => rSecrets p s
  | .configs => rConfigs p s | .buildSecrets => rBuildSecrets p s | .dependsOn => rDependsOn p s
  | .serviceRef => rServiceRef p s | .exclDockerfile => rDockerfile s | .exclNetworkMode => rNetworkMode s
  | .exclContainerName => rContainerName s | .pairScale => rScale s | .pairCpus => rCpus s
  | .pairMemLimit => rMemLimit s | .pairMemReservation => rMemReservation s | .pairPids => rPids s
  | .xPlatform => rPlatform s | .xHealthcheck => rHealthcheck s | .xWatch => rWatch s

/-- the graph `newGraph` is meant to build: edges to enabled services only, nothing deleted -/
def exactGraph (p : Proj) : Graph :=
  p.services.map fun e => (e.1, (e.2.dependsOn.map Prod.fst).filter (p.enabled.contains ·))

def acyclicB (p : Proj) : Bool := !hasCycle (exactGraph p)

def rulesB (p : Proj) : Bool := p.services.all fun e => Rule.all.all fun r => (ruleCheck p e.2 r).isNone

def secretsB (p : Proj) : Bool := p.secrets.all fun e => (checkSecret e.2).isNone

def consistentB (p : Proj) : Bool := rulesB p && secretsB p && acyclicB p

/-- names of the broken rules (failure keys of the oracle) -/
def brokenRules (p : Proj) : List String :=
  (Rule.all.filter fun r => p.services.any fun e => (ruleCheck p e.2 r).isSome).map Rule.name ++
  (if secretsB p then [] else ["secretSource"]) ++ (if acyclicB p then [] else ["cycle"])

end CV.Consistency
