import ComposeVerif.Model.TypeDesc
import ComposeVerif.Model.SchemaPaths
/-!
# C09 — every rendered YAML key of every model field is a key the schema accepts at that place

`fieldPaths` walks the struct descriptors from `Project`, building the attribute path of every rendered field
(`*` under a `map[string]T`, `[]` under a slice); `accepted` asks the schema model whether some schema applies at that
path (`schemasAtPath … ≠ []`: with `additionalProperties: false` an unknown key has none).
-/
namespace CV.SchemaKeys
open CV CV.TypeDesc CV.Schema

/-- types whose rendering is hand-written and not a mapping of their fields (their field tags name no schema key) -/
def opaqueTypes : List String := ["SSHKey", "UlimitsConfig"]

mutual
def walkTy (ss : List StructDesc) (ns : List (String × TyExpr)) : Nat → List String → TyExpr → List (List String × String × Bool)
  | 0, _, _ => []
  | f + 1, path, ty =>
    match ty with
    | .prim _ => []
    | .other _ => []
    | .ptr e => walkTy ss ns f path e
    | .slice e => walkTy ss ns f (path ++ ["[]"]) e
    | .map e => walkTy ss ns f (path ++ ["*"]) e
    | .named n =>
      if opaqueTypes.contains n then [] else
      match findStruct ss n with
      | some s => walkFields ss ns f path s.name s.fields
      | none => match findNamed ns n with
        | some e => walkTy ss ns f path e
        | none => []
def walkFields (ss : List StructDesc) (ns : List (String × TyExpr)) : Nat → List String → String → List FieldDesc → List (List String × String × Bool)
  | 0, _, _, _ => []
  | _ + 1, _, _, [] => []
  | f + 1, path, sn, fd :: rest =>
    let here :=
      if !fd.exported || fd.yamlSkip || fd.yamlInline then []
      else (path ++ [fd.yamlKey], sn ++ "." ++ fd.goName, fd.yamlOmit) :: walkTy ss ns f (path ++ [fd.yamlKey]) fd.ty
    here ++ walkFields ss ns f path sn rest
end

/-- every (attribute path, Type.Field, omitempty) of the rendered YAML keys of a project -/
def fieldPaths (ss : List StructDesc) (ns : List (String × TyExpr)) : List (List String × String × Bool) :=
  walkTy ss ns 200 [] (.named "Project")

def accepted (s : S) (path : List String) : Bool := !(schemasAtPath [s] (path.map stepOfPart)).isEmpty

/-- the places where the Go model has a field whose key the schema does not know there, outermost only
    (everything below an unknown key is unknown too) -/
def unacceptedRoots (s : S) (ss : List StructDesc) (ns : List (String × TyExpr)) : List (List String × String × Bool) :=
  let bad := (fieldPaths ss ns).filter (fun p => !accepted s p.1)
  bad.filter fun p => !(bad.any fun q => q.1.length < p.1.length && q.1.isPrefixOf p.1)

def dotted (p : List String) : String := String.intercalate "." p

/-- places where the Go model has a field the schema does not have (outermost only): the legacy v1 service attributes,
    `ServiceConfig.Name` (never rendered), the halves of the shared `Resource` struct that the schema allows only on one
    side (`limits` / `reservations`), and the halves of the shared `FileObjectConfig` that secrets / configs do not have.
    All are `omitempty` and no schema-valid file can set them, so they are never rendered for a loaded project. -/
def knownGaps : List (List String) := [
  ["services", "*", "name"],
  ["services", "*", "deploy", "resources", "limits", "devices"],
  ["services", "*", "deploy", "resources", "limits", "generic_resources"],
  ["services", "*", "deploy", "resources", "reservations", "pids"],
  ["services", "*", "dockerfile"],
  ["services", "*", "log_driver"],
  ["services", "*", "log_opt"],
  ["services", "*", "net"],
  ["services", "*", "volume_driver"],
  ["secrets", "*", "content"],
  ["configs", "*", "driver"],
  ["configs", "*", "driver_opts"]]

def underGap (path : List String) : Bool := knownGaps.any fun g => g.isPrefixOf path

/-- every rendered key is accepted by the schema at its place, except under the known gaps -/
def KeysAccepted (s : S) (ss : List StructDesc) (ns : List (String × TyExpr)) : Bool :=
  (fieldPaths ss ns).all fun p => underGap p.1 || accepted s p.1

/-- the gaps themselves are `omitempty` fields (a zero value there is never rendered) -/
def GapsOmitted (ss : List StructDesc) (ns : List (String × TyExpr)) : Bool :=
  (fieldPaths ss ns).all fun p => !knownGaps.contains p.1 || p.2.2

end CV.SchemaKeys
