import ComposeVerif.Model.ShortShell
/-!
# Specification: the shell-words grammar of a command string (C03, round 6)

A command line is a list of words separated by non-empty runs of blanks (space, tab, CR, LF); a word is a non-empty list
of segments: a run of ordinary characters, a single-quoted text (anything but `'`), a double-quoted text (`\c` = the character `c`;
no bare `"`), or an escaped character. Its long form is the list of the words' values — the list spelling of
`command` / `entrypoint`.
-/
namespace CV.Short.Spec
open CV CV.Short

/-- characters with no meaning to the parser: not a blank, not one of ``\ ` ( ) " ' ; & | < >`` -/
def ordinary (c : Char) : Bool :=
  !(shIsSpace c) && c ≠ '\\' && c ≠ '`' && c ≠ ')' && c ≠ '(' && c ≠ '"' && c ≠ '\'' && !(shIsOp c)

/-- the text between double quotes: `\c` stands for `c` (any `c`), every other character for itself -/
def dqValue : Str → Str
  | '\\' :: c :: r => c :: dqValue r
  | c :: r => c :: dqValue r
  | [] => []

/-- no unescaped `"` inside, no lone `\` at the end -/
def dqWf : Str → Bool
  | '\\' :: _ :: r => dqWf r
  | c :: r => c ≠ '\\' && c ≠ '"' && dqWf r
  | [] => true

inductive ShSeg
  | plain (s : Str)
  | sq (s : Str)
  | dq (s : Str)
  | esc (c : Char)
deriving Repr, DecidableEq

def ShSeg.render : ShSeg → Str
  | .plain s => s
  | .sq s => '\'' :: s ++ ['\'']
  | .dq s => '"' :: s ++ ['"']
  | .esc c => ['\\', c]

def ShSeg.value : ShSeg → Str
  | .plain s => s
  | .sq s => s
  | .dq s => dqValue s
  | .esc c => [c]

def ShSeg.wf : ShSeg → Bool
  | .plain s => s ≠ [] && s.all ordinary
  | .sq s => s.all (· ≠ '\'')
  | .dq s => dqWf s
  | .esc _ => true

/-- a word and the run of blanks in front of it -/
structure ShWord where
  sep : Str
  segs : List ShSeg
deriving Repr, DecidableEq

def ShWord.body (w : ShWord) : Str := (w.segs.map ShSeg.render).flatten
def ShWord.value (w : ShWord) : Str := (w.segs.map ShSeg.value).flatten
def ShWord.render (w : ShWord) : Str := w.sep ++ w.body

structure ShSpec where
  words : List ShWord
  trail : Str          -- blanks after the last word
deriving Repr, DecidableEq

def blanks (s : Str) : Bool := s.all shIsSpace

/-- every word has segments, all well-formed; separators are blanks, non-empty except in front of the first word -/
def wordsWf : Bool → List ShWord → Bool
  | _, [] => true
  | first, w :: r => blanks w.sep && (first || w.sep ≠ []) && w.segs ≠ [] && w.segs.all ShSeg.wf && wordsWf false r

def ShSpec.wf (a : ShSpec) : Bool := wordsWf true a.words && blanks a.trail

def ShSpec.render (a : ShSpec) : Str := (a.words.map ShWord.render).flatten ++ a.trail

/-- the list spelling -/
def ShSpec.long (a : ShSpec) : List Str := a.words.map ShWord.value

end CV.Short.Spec
