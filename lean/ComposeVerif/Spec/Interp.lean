import ComposeVerif.Model.Interp
import ComposeVerif.Spec.Template
/-!
# What property C08 says, in the vocabulary of the model

* `SameShape v v'` — `v'` is `v` except that string scalars may have become other scalars: same keys in the
  same order, same list lengths, every non-string scalar identical.
* `escapeDollars` / `escapeAll` — "writing every `$` as `$$`" (in string *values*; mapping keys are not
  interpolated, so they are not rewritten).
* `castOnly` — what a string value denotes when nothing is substituted: itself, or its cast at a cast path
  (this is also what the decode-time cast of loader/mapstructure.go computes with interpolation off).
* `leaves` — the string leaves of a tree with the `tree.Path` the walk gives them.
* `NoCast` — no string leaf of the tree lies on a row of the cast table.
-/
namespace CV.Interp
open CV CV.TPath

def isScalar : Val → Prop
  | .str _ => True | .bool _ => True | .int _ => True | .float _ => True
  | _ => False

mutual
def SameShape : Val → Val → Prop
  | .str _, v' => isScalar v'
  | .map kvs, v' => ∃ kvs', v' = .map kvs' ∧ SameShapeKVs kvs kvs'
  | .seq xs, v' => ∃ xs', v' = .seq xs' ∧ SameShapeList xs xs'
  | .null, v' => v' = .null
  | .bool b, v' => v' = .bool b
  | .int i, v' => v' = .int i
  | .float f, v' => v' = .float f
def SameShapeKVs : List (String × Val) → List (String × Val) → Prop
  | [], l' => l' = []
  | (k, v) :: r, l' => ∃ v' r', l' = (k, v') :: r' ∧ SameShape v v' ∧ SameShapeKVs r r'
def SameShapeList : List Val → List Val → Prop
  | [], l' => l' = []
  | v :: r, l' => ∃ v' r', l' = v' :: r' ∧ SameShape v v' ∧ SameShapeList r r'
end

/-- every `$` written `$$` (`CV.Template.escapeDollars`, shared with C07) -/
def escapeStr (s : String) : String := String.ofList (CV.Template.escapeDollars s.toList)

mutual
/-- every `$` of every string value written `$$` -/
def escapeAll : Val → Val
  | .str s => .str (escapeStr s)
  | .map kvs => .map (escapeKVs kvs)
  | .seq xs => .seq (escapeList xs)
  | v => v
def escapeKVs : List (String × Val) → List (String × Val)
  | [] => []
  | (k, v) :: r => (k, escapeAll v) :: escapeKVs r
def escapeList : List Val → List Val
  | [] => []
  | v :: r => escapeAll v :: escapeList r
end

/-- the value of a string leaf when nothing is substituted: cast at a cast path, itself elsewhere -/
def castOnly (c : Cfg) (p : TPath) (s : String) : Out Val :=
  match firstMatch c.table p with
  | none => .ok (.str s)
  | some name =>
    match (Caster.ofName name).apply c.fp s with
    | some v => .ok v
    | none => .err (.cast (pathString p))

mutual
/-- the string leaves with their paths, in walk order -/
def leaves (p : TPath) : Val → List (TPath × String)
  | .str s => [(p, s)]
  | .map kvs => leavesKVs p kvs
  | .seq xs => leavesList p xs
  | _ => []
def leavesKVs (p : TPath) : List (String × Val) → List (TPath × String)
  | [] => []
  | (k, v) :: r => leaves (next p k) v ++ leavesKVs p r
def leavesList (p : TPath) : List Val → List (TPath × String)
  | [] => []
  | v :: r => leaves (next p "[]") v ++ leavesList p r
end

/-- no string leaf lies on a row of the table -/
def NoCast (t : Table) (p : TPath) (v : Val) : Prop := ∀ q s, (q, s) ∈ leaves p v → firstMatch t q = none

/-- a variable name of the template grammar: `[_A-Za-z][_A-Za-z0-9]*` -/
def ValidName (n : Str) : Prop :=
  (∃ c r, n = c :: r ∧ CV.Template.isNameStart c = true) ∧ ∀ c ∈ n, CV.Template.isNameChar c = true

/-- the expected rows of the cast table (the typed attributes of the Compose model that are supplied through
    variables in practice; pinned when the check was written, see also harness/c08load.go `pinnedCastRows`) -/
def expectedRows : List (List String × Caster) := [
  (["services", "*", "configs", "[]", "mode"], .toInt),
  (["services", "*", "cpu_count"], .toInt64),
  (["services", "*", "cpu_percent"], .toFloat),
  (["services", "*", "cpu_period"], .toInt64),
  (["services", "*", "cpu_quota"], .toInt64),
  (["services", "*", "cpu_rt_period"], .toInt64),
  (["services", "*", "cpu_rt_runtime"], .toInt64),
  (["services", "*", "cpus"], .toFloat32),
  (["services", "*", "cpu_shares"], .toInt64),
  (["services", "*", "init"], .toBoolean),
  (["services", "*", "deploy", "replicas"], .toInt),
  (["services", "*", "deploy", "update_config", "parallelism"], .toInt),
  (["services", "*", "deploy", "update_config", "max_failure_ratio"], .toFloat),
  (["services", "*", "deploy", "rollback_config", "parallelism"], .toInt),
  (["services", "*", "deploy", "rollback_config", "max_failure_ratio"], .toFloat),
  (["services", "*", "deploy", "restart_policy", "max_attempts"], .toInt),
  (["services", "*", "deploy", "placement", "max_replicas_per_node"], .toInt),
  (["services", "*", "healthcheck", "retries"], .toInt),
  (["services", "*", "healthcheck", "disable"], .toBoolean),
  (["services", "*", "oom_kill_disable"], .toBoolean),
  (["services", "*", "oom_score_adj"], .toInt64),
  (["services", "*", "pids_limit"], .toInt64),
  (["services", "*", "ports", "[]", "target"], .toInt),
  (["services", "*", "privileged"], .toBoolean),
  (["services", "*", "read_only"], .toBoolean),
  (["services", "*", "scale"], .toInt),
  (["services", "*", "secrets", "[]", "mode"], .toInt),
  (["services", "*", "stdin_open"], .toBoolean),
  (["services", "*", "tty"], .toBoolean),
  (["services", "*", "ulimits", "*"], .toInt),
  (["services", "*", "ulimits", "*", "hard"], .toInt),
  (["services", "*", "ulimits", "*", "soft"], .toInt),
  (["services", "*", "volumes", "[]", "read_only"], .toBoolean),
  (["services", "*", "volumes", "[]", "volume", "nocopy"], .toBoolean),
  (["networks", "*", "external"], .toBoolean),
  (["networks", "*", "internal"], .toBoolean),
  (["networks", "*", "attachable"], .toBoolean),
  (["networks", "*", "enable_ipv6"], .toBoolean),
  (["volumes", "*", "external"], .toBoolean),
  (["secrets", "*", "external"], .toBoolean),
  (["configs", "*", "external"], .toBoolean)]

/-- what yaml.v3's `resolve` makes of a *plain literal* as `!!int` (int64 range): only texts starting with a digit or a
    sign are candidates (`resolveTable`), underscores are dropped, then `yamlIntCore`.  Tied to yaml.v3 by the
    `c08casters` correspondence (`yaml.Unmarshal` of the text into `any`). -/
def yamlInt (s : String) : Option Int :=
  match s.toList with
  | c :: _ => if c.isDigit || c == '+' || c == '-' then yamlIntCore (stripUnderscores s.toList) else none
  | [] => none

/-- the numeric kind a caster produces, as the decode-time cast sees the Go target kind -/
inductive NumKind | int | float | bool
deriving DecidableEq, Repr

def Caster.kind : Caster → Option NumKind
  | .toInt => some .int | .toInt64 => some .int
  | .toFloat => some .float | .toFloat32 => some .float
  | .toBoolean => some .bool
  | .unknown _ => none

end CV.Interp
