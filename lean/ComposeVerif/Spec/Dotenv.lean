import ComposeVerif.Model.Dotenv
/-!
# Specification of the env-file grammar (property C18)

A file is a list of lines, each terminated by a line feed:

```
Line  ::= ws                                               blank
        | ws '#' text                                      comment
        | ws [export ws⁺] KEY ws                           bare key: inherited from the lookup
        | ws [export ws⁺] KEY ws ('='|':') ws Value ws ['#' text]
Value ::= text                                             unquoted (no line feed, no " #", trimmed)
        | ' item* '                                        single-quoted: literal
        | " item* "                                        double-quoted: escapes, then interpolation
item  ::= c | \q | \c                                      (q the enclosing quote, c any other character)
```

`evalLines` is what the property says such a file denotes: lines are processed top to
bottom, a later assignment to the same key replaces the earlier one (`put`), a bare key
takes its value from the lookup (and is absent when the lookup has none), single-quoted
values are taken literally (only `\'` stands for a quote character), unquoted and
double-quoted values are interpolated (`Template.subst`, the subject of property C07)
in the environment "lookup first, earlier lines second" (`envOf`); in double quotes the
escape sequences are processed first (`expandEscapes`, characterised by the
`expandEscapes_*` theorems of `Props/C18.lean`).

Nothing here looks at the scanner: no indices, no cut sets, no state flags.
-/
namespace CV.Dotenv
open CV CV.Template

inductive Sep | eq | colon
deriving Repr, DecidableEq

def Sep.char : Sep → Char
  | .eq => '='
  | .colon => ':'

/-- one item between quotes -/
inductive QItem
  | chr (c : Char)   -- an ordinary character (not the quote, not a backslash)
  | quote            -- `\q`: the quote character itself
  | esc (c : Char)   -- `\c` for any other character c: denotes the two characters `\c`
deriving Repr, DecidableEq

inductive Value
  | unq (s : Str)
  | sq (items : List QItem)
  | dq (items : List QItem)
deriving Repr, DecidableEq

inductive Line
  | blank (ws : Str)
  | comment (ws : Str) (text : Str)
  | bare (indent : Str) (exp : Option Str) (key : Str) (trail : Str)
  | assign (indent : Str) (exp : Option Str) (key : Str) (ws1 : Str) (sep : Sep) (ws2 : Str)
      (v : Value) (trail : Str) (cmt : Option Str)
deriving Repr, DecidableEq

/-! ## concrete syntax -/

def QItem.render (q : Char) : QItem → Str
  | .chr c => [c]
  | .quote => ['\\', q]
  | .esc c => ['\\', c]

def renderItems (q : Char) : List QItem → Str
  | [] => []
  | i :: r => i.render q ++ renderItems q r

def Value.render : Value → Str
  | .unq s => s
  | .sq items => '\'' :: renderItems '\'' items ++ ['\'']
  | .dq items => '"' :: renderItems '"' items ++ ['"']

def renderExp : Option Str → Str
  | none => []
  | some ws => exportKw ++ ws

def renderCmt : Option Str → Str
  | none => []
  | some t => '#' :: t

def Line.render : Line → Str
  | .blank ws => ws
  | .comment ws t => ws ++ '#' :: t
  | .bare indent exp key trail => indent ++ (renderExp exp ++ (key ++ trail))
  | .assign indent exp key ws1 sep ws2 v trail cmt =>
    indent ++ (renderExp exp ++ (key ++ (ws1 ++ sep.char :: (ws2 ++ (v.render ++ (trail ++ renderCmt cmt))))))

/-- every line is terminated by a line feed -/
def render : List Line → Str
  | [] => []
  | l :: ls => l.render ++ '\n' :: render ls

/-- the same file without the final line feed -/
def renderNoFinalNL : List Line → Str
  | [] => []
  | [l] => l.render
  | l :: ls => l.render ++ '\n' :: renderNoFinalNL ls

/-! ## meaning -/

/-- the characters a quoted item stands for before escape processing -/
def QItem.raw (q : Char) : QItem → Str
  | .chr c => [c]
  | .quote => [q]
  | .esc c => ['\\', c]

def rawItems (q : Char) : List QItem → Str
  | [] => []
  | i :: r => i.raw q ++ rawItems q r

def Value.eval (env : Env) : Value → Template.Out
  | .unq s => Template.subst env s
  | .sq items => .ok (rawItems '\'' items)
  | .dq items => Template.subst env (expandEscapes (rawItems '"' items))

def evalFrom (lookup : Env) : List Line → Map → POut
  | [], m => .ok m
  | .blank _ :: ls, m => evalFrom lookup ls m
  | .comment _ _ :: ls, m => evalFrom lookup ls m
  | .bare _ _ key _ :: ls, m =>
    match lookup key with
    | some v => evalFrom lookup ls (put m key v)
    | none => evalFrom lookup ls m
  | .assign _ _ key _ _ _ v _ _ :: ls, m =>
    match v.eval (envOf lookup m) with
    | .ok s => evalFrom lookup ls (put m key s)
    | .err e => .err (.tmpl e) m
    | .panic p => .panic (.tmpl p)

def evalLines (lookup : Env) (ls : List Line) : POut := evalFrom lookup ls []

/-- several files read in order (`GetEnvFromFile`): every file is evaluated against the caller's environment
    first and the variables of the earlier files second (then its own earlier lines, by `evalLines`); its
    variables replace those of earlier files; the first failing file stops the fold and the variables
    accumulated before it are returned with the error -/
def evalFilesFrom (cur : Env) : List (List Line) → Map → POut
  | [], m => .ok m
  | ls :: fs, m =>
    match evalLines (envOf cur m) ls with
    | .ok env => evalFilesFrom cur fs (mergeInto m env)
    | .err e _ => .err e m
    | .panic s => .panic s

/-- `ReadWithLookup`: every file is evaluated against the lookup function alone (earlier files are not visible),
    variables whose name starts with a digit are dropped, later files replace earlier variables -/
def evalReadFrom (lookup : Env) : List (List Line) → Map → POut
  | [], m => .ok m
  | ls :: fs, m =>
    match evalLines lookup ls with
    | .ok env => evalReadFrom lookup fs (mergeInto m (env.filter fun kv => !startsWithDigit kv.1))
    | .err e _ => .err e m
    | .panic s => .panic s

/-! ## well-formedness: the lines whose concrete syntax is unambiguous -/

def nbAll (ws : Str) : Bool := ws.all isSpaceNB

/-- a key: non-empty, key runes only, and not the word `export` on its own -/
def validKey (k : Str) : Bool :=
  !k.isEmpty && k.all isKeyRune && (!exportKw.isPrefixOf k || decide (6 < k.length))

/-- whitespace after `export`: non-empty, no line break, first character in the regexp class `\s` -/
def expOk : Option Str → Bool
  | none => true
  | some [] => false
  | some (c :: r) => isSpaceRE c && isSpaceNB c && nbAll r

/-- no occurrence of the inline-comment marker `" #"` -/
def noSpHash : Str → Bool
  | [] => true
  | c :: r => !(c == ' ' && r.head? == some '#') && noSpHash r

def lastNotSpace (s : Str) : Bool :=
  match s.getLast? with
  | none => true
  | some c => !isSpaceU c

def QItem.wf (q : Char) : QItem → Bool
  | .chr c => c != q && c != '\\'
  | .quote => true
  | .esc c => c != q

/-- the unquoted text: no line feed, no `" #"`, does not start with a quote or a space, does not end with a space -/
def unqOk (s : Str) : Bool :=
  s.all (· != '\n') && noSpHash s && lastNotSpace s &&
  (match s with
   | [] => true
   | c :: _ => c != '"' && c != '\'' && !isSpaceNB c)

def Value.wf : Value → Bool
  | .unq s => unqOk s
  | .sq items => items.all (QItem.wf '\'')
  | .dq items => items.all (QItem.wf '"')

def cmtOk : Option Str → Bool
  | none => true
  | some t => t.all (· != '\n')

def Line.wf : Line → Bool
  | .blank ws => nbAll ws
  | .comment ws t => nbAll ws && t.all (· != '\n')
  | .bare indent exp key trail => nbAll indent && expOk exp && validKey key && nbAll trail
  | .assign indent exp key ws1 _ ws2 v trail cmt =>
    nbAll indent && expOk exp && validKey key && nbAll ws1 && nbAll ws2 && v.wf && nbAll trail && cmtOk cmt &&
    (match v, cmt with
     | .unq s, some _ => !s.isEmpty && trail.getLast? == some ' '   -- an inline comment needs `" #"`
     | _, _ => true)

def WF (ls : List Line) : Bool := ls.all Line.wf

end CV.Dotenv
