import ComposeVerif.Model.Extends
/-!
# What `extends` means  (the specification side of C05)

`Flat E S n v`: in the services mapping `S`, service `n` *flattens* to `v` —
a service without `extends` is itself; a service that extends `ref` (in the same mapping, or in
the services mapping of another file) is the flattened base with the service's own attributes
merged on top by `E.extend`, minus the `extends` attribute.  The relation is inductive, so it
holds exactly along finite (acyclic) chains whose bases and files all exist.
-/
namespace CV.Extends
open CV CV.Val

/-- the services mapping of file `f`, when the file loads and resolves -/
def fileServices (fs : FS) (f : String) : Option KVs :=
  match fsLookup f fs with
  | some (.ok doc false) =>
    match lookup "services" doc with
    | some (.map svcs) => some svcs
    | _ => none
  | _ => none

/-- the mapping a reference `(ref, file)` written in mapping `S` points into (it must contain `ref`) -/
def baseMap (E : Env) (S : KVs) (ref : String) : Option String → Option KVs
  | none => if (lookup ref S).isSome then some S else none
  | some f =>
    match fileServices E.fs f with
    | some S' => if (lookup ref S').isSome then some S' else none
    | none => none

inductive Flat (E : Env) : KVs → String → Val → Prop where
  | leaf {S : KVs} {n : String} {svc : KVs} :
      lookup n S = some (.map svc) → lookup "extends" svc = none → Flat E S n (.map svc)
  | step {S : KVs} {n : String} {svc : KVs} {e : Val} {ref : String} {file : Option String}
      {S' b m : KVs} :
      lookup n S = some (.map svc) → lookup "extends" svc = some e →
      parseExtends e = .ok (ref, file) → baseMap E S ref file = some S' →
      Flat E S' ref (.map b) → E.extend b svc = .ok m →
      Flat E S n (.map (erase "extends" m))

/-- one link of a chain: service `n` of mapping `S` extends service `n'` of mapping `S'` -/
def Link (E : Env) (a b : KVs × String) : Prop :=
  ∃ svc e file, lookup a.2 a.1 = some (.map svc) ∧ lookup "extends" svc = some e ∧
    parseExtends e = .ok (b.2, file) ∧ baseMap E a.1 b.2 file = some b.1

/-- `b` is reachable from `a` by one or more links -/
inductive Reach (E : Env) : (KVs × String) → (KVs × String) → Prop where
  | one {a b} : Link E a b → Reach E a b
  | cons {a b c} : Link E a b → Reach E b c → Reach E a c

/-- the chain starting at `a` runs into a cycle -/
def Cyclic (E : Env) (a : KVs × String) : Prop :=
  Reach E a a ∨ ∃ c, Reach E a c ∧ Reach E c c

/-- the flatten specification as a function (fuel = an upper bound of the chain length): what the property says a
service resolves to, computed without tracker, memoisation or visit order -/
def flattenF (E : Env) : Nat → KVs → String → Out Val
  | 0, _, _ => .err "flatten:chain-too-long"
  | fuel + 1, S, n =>
    match lookup n S with
    | some (.map svc) =>
      (match lookup "extends" svc with
      | none => .ok (.map svc)
      | some e =>
        match parseExtends e with
        | .panic s => .panic s
        | .err c => .err c
        | .ok (ref, file) =>
          match baseMap E S ref file with
          | none => .err "flatten:no-base"
          | some S' =>
            match flattenF E fuel S' ref with
            | .ok (.map b) =>
              (match E.extend b svc with
              | .ok m => .ok (.map (erase "extends" m))
              | .err c => .err c
              | .panic s => .panic s)
            | .ok _ => .err "flatten:base-not-a-mapping"
            | .err c => .err c
            | .panic s => .panic s)
    | _ => .err "flatten:not-a-service"

/-- outcome of following the `extends` links only (no merge, no tracker): the chain ends at a service without `extends`,
gets stuck (missing base / file, malformed reference, not a mapping), or is still going after `fuel` links -/
inductive WalkRes where
  | leaf | stuck | long
deriving DecidableEq, Repr

def walkChain (E : Env) : Nat → KVs → String → WalkRes
  | 0, _, _ => .long
  | fuel + 1, S, n =>
    match lookup n S with
    | some (.map svc) =>
      (match lookup "extends" svc with
      | none => .leaf
      | some e =>
        match parseExtends e with
        | .ok (ref, file) =>
          (match baseMap E S ref file with
          | some S' => walkChain E fuel S' ref
          | none => .stuck)
        | _ => .stuck)
    | _ => .stuck

/-- the error class the chain of service `n` gets stuck with, if it does: follow the links only; the first link that
cannot be followed names the class (`notFound`, `noFile`, the load error of the file, `noServices`, `notFoundInFile`,
`resolveErr`, `fileServicesNotMapping`, a malformed reference, `serviceNotMapping`) -/
def stuckClass (E : Env) : Nat → KVs → String → Option String
  | 0, _, _ => none
  | fuel + 1, S, n =>
    match lookup n S with
    | some (.map svc) =>
      (match lookup "extends" svc with
      | none => none
      | some e =>
        match parseExtends e with
        | .err c => some c
        | .panic _ => none
        | .ok (ref, file) =>
          match resolveBase E "" n ref file S with
          | .err c => some c
          | .panic _ => none
          | .ok (S', _, _) => stuckClass E fuel S' ref)
    | some .null => none
    | none => none
    | some _ => some "serviceNotMapping"

end CV.Extends
