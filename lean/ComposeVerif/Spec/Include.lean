import ComposeVerif.Model.Include
/-!
# What C06 says, in terms a reader can check without reading `include.go`

* the five resource sections, well-formedness of a (validated) included model and of the including model;
* `ConflictAt`: "a resource defined differently on both sides";
* `pasted`: the pointwise meaning of "a single file containing, besides its own content, the included
  resources": per section and name, the including file's own definition if it has one, else the definition of
  the first included model that has one; every other top-level key is the including file's (minus `include`).
-/
namespace CV.Include
open CV CV.Val

/-- the included model is a validated model: each resource section is absent, null, or a mapping with distinct names -/
def WfSource (src : KVs) : Prop :=
  ∀ k, k ∈ resourceKinds →
    lookup k src = none ∨ lookup k src = some .null ∨ ∃ f, lookup k src = some (.map f) ∧ (f.map Prod.fst).Nodup

/-- the including document's resource sections are absent, null or mappings -/
def WfTarget (tgt : KVs) : Prop := ∀ k, k ∈ resourceKinds → ∃ to, targetSection k tgt = some to

/-- section `k` defines some name on both sides with values that are not the same (`same` = `reflect.DeepEqual`, or
`sameResource`: equal after resolving relative paths against the including project's directory) -/
def ConflictAt (same : String → Val → Val → Bool) (src tgt : KVs) (k : String) : Prop :=
  ∃ f to n a c, lookup k src = some (.map f) ∧ targetSection k tgt = some to ∧ (n, a) ∈ f ∧ lookup n to = some c ∧
    same k a c = false

/-- the definition of resource `n` of kind `k` in a model, if any -/
def resourceOf (m : KVs) (k n : String) : Option Val :=
  match lookup k m with
  | some (.map sec) => lookup n sec
  | _ => none

/-- the first model of the list that defines the resource -/
def firstDef (ms : List KVs) (k n : String) : Option Val :=
  match ms with
  | [] => none
  | m :: rest => match resourceOf m k n with
    | some v => some v
    | none => firstDef rest k n

/-- pointwise paste: own definition first, then the included models in order -/
def pastedResource (own : KVs) (included : List KVs) (k n : String) : Option Val :=
  firstDef (own :: included) k n

end CV.Include

namespace CV.Include
open CV CV.Val

/-- the included projects as loaded on their own, in the order of the `include:` list: for each entry the plan
(files, project directory, working directory), the layered environment, and the sub-load — nothing is imported -/
def subLoads (W : World) (wd L : String) (env : Env) (chain : List String) : List IncCfg → Out (List KVs)
  | [] => .ok []
  | r :: rs =>
    (plan W (baseDir wd L) L chain r).bind fun pl =>
    (includeEnv W (baseDir wd L) pl.projDir env r.envFile).bind fun env' =>
    (W.loadModel pl.relwd pl.projDir pl.paths env' chain).bind fun im =>
    (subLoads W wd L env chain rs).bind fun ims => .ok (im :: ims)

end CV.Include
