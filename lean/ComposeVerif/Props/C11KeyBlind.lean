import ComposeVerif.Model.C11Pipeline
import ComposeVerif.Gen.Tables
/-!
# C11 — the defaults do not depend on the *name* of a service

Service keys are user defined: `a`, `web.1`, `x-ray` (a key that looks like an extension) are all services, and the
property quantifies over all of them.  The walker of `transform.SetDefaultValues` decides by `tree.Path.Matches`
alone, and every row of the regenerated table `defaultValues` has `*` at the position of the service key — so two
services with the same attributes get the same defaults whatever they are called:

* `defaultValues_star_at_key` — the regenerated table has `*` as the second part of every pattern;
* `setDefaults_keyBlind` (+ `…KVs`, `…List`) — for any table with that shape, the walker returns the same outcome at two
  paths that differ only in their second part, for every document (structural induction over the document);
* `services_entry_key_irrelevant` — renaming a service in the `services` mapping renames it in the result, nothing else;
* `walker_blind_to_service_key`, `service_pipeline_blind_to_service_key` — instances for `services.<x>` / `services.<y>`:
  `SetDefaultValues`, and Canonical ; SetDefaultValues ; Normalize on the attributes of one service.

Seeded change C11-8 (`setDefaultsMapping` skips keys that start with `x-`) falsifies `walker_blind_to_service_key`
with `x := "a"`, `y := "x-ray"`; the streams `sd-*:x-key` / `pipeline:x-service` and the oracle's `svc` scenarios
are the same statement on the real code.
-/
namespace CV.C11
open CV CV.Val

/-- two paths that differ at most in their second part (under `services`: the service key) -/
def SameButKey (p q : TPath) : Prop := ∃ a x y r, p = a :: x :: r ∧ q = a :: y :: r

/-- every pattern that has a second part has `*` there -/
def starAtKey (tbl : List (List String × String)) : Bool :=
  tbl.all fun row => match row.1 with
    | _ :: b :: _ => b == "*"
    | _ => true

theorem defaultValues_star_at_key : starAtKey CV.Gen.defaultValues = true := by decide

theorem pmatch_sameButKey {pat : List String} {p q : TPath}
    (hs : (match pat with | _ :: b :: _ => b == "*" | _ => true) = true) (h : SameButKey p q) :
    TPath.pmatch pat p = TPath.pmatch pat q := by
  obtain ⟨a, x, y, r, rfl, rfl⟩ := h
  cases pat with
  | nil => rfl
  | cons a' t =>
    cases t with
    | nil => simp [TPath.pmatch]
    | cons b t' =>
      simp only [beq_iff_eq] at hs
      subst hs
      simp [TPath.pmatch]

theorem firstMatch_sameButKey : ∀ {tbl : List (List String × String)} {p q : TPath},
    starAtKey tbl = true → SameButKey p q → TPath.firstMatch tbl p = TPath.firstMatch tbl q
  | [], _, _, _, _ => rfl
  | (pat, hn) :: rest, p, q, hs, h => by
    unfold starAtKey at hs
    simp only [List.all_cons, Bool.and_eq_true] at hs
    unfold TPath.firstMatch
    rw [pmatch_sameButKey hs.1 h, firstMatch_sameButKey (tbl := rest) (by unfold starAtKey; exact hs.2) h]

theorem next_sameButKey {p q : TPath} (h : SameButKey p q) (k : String) : SameButKey (p.next k) (q.next k) := by
  obtain ⟨a, x, y, r, rfl, rfl⟩ := h
  refine ⟨a, x, y, r ++ [k.replace "." TPath.ghost], ?_, ?_⟩ <;> simp [TPath.next, TPath.root]

mutual
/-- **the walker is blind to the second part of the path** (the service key), for every document -/
theorem setDefaults_keyBlind (tbl : List (List String × String)) (hs : starAtKey tbl = true) :
    ∀ (v : Val) (p q : TPath), SameButKey p q → setDefaults tbl p v = setDefaults tbl q v
  | v, p, q, h => by
    unfold setDefaults
    rw [firstMatch_sameButKey hs h]
    cases TPath.firstMatch tbl q with
    | some hn => rfl
    | none =>
      cases v with
      | map kvs => simp only; rw [setDefaultsKVs_keyBlind tbl hs kvs p q h]
      | seq xs => simp only; rw [setDefaultsList_keyBlind tbl hs xs p q h]
      | null => rfl
      | bool _ => rfl
      | int _ => rfl
      | float _ => rfl
      | str _ => rfl
theorem setDefaultsKVs_keyBlind (tbl : List (List String × String)) (hs : starAtKey tbl = true) :
    ∀ (kvs : List (String × Val)) (p q : TPath), SameButKey p q → setDefaultsKVs tbl p kvs = setDefaultsKVs tbl q kvs
  | [], p, q, _ => by unfold setDefaultsKVs; rfl
  | (k, v) :: r, p, q, h => by
    unfold setDefaultsKVs
    rw [setDefaults_keyBlind tbl hs v _ _ (next_sameButKey h k), setDefaultsKVs_keyBlind tbl hs r p q h]
theorem setDefaultsList_keyBlind (tbl : List (List String × String)) (hs : starAtKey tbl = true) :
    ∀ (xs : List Val) (p q : TPath), SameButKey p q → setDefaultsList tbl p xs = setDefaultsList tbl q xs
  | [], p, q, _ => by unfold setDefaultsList; rfl
  | v :: r, p, q, h => by
    unfold setDefaultsList
    rw [setDefaults_keyBlind tbl hs v _ _ (next_sameButKey h "[]"), setDefaultsList_keyBlind tbl hs r p q h]
end

/-- **`SetDefaultValues` treats `services.<x>` and `services.<y>` alike**: same attributes, same defaults, same
errors — `x-ray` is a service like `a` -/
theorem walker_blind_to_service_key (x y : String) (rest : List String) (v : Val) :
    setDefaults CV.Gen.defaultValues ("services" :: x :: rest) v =
      setDefaults CV.Gen.defaultValues ("services" :: y :: rest) v :=
  setDefaults_keyBlind _ defaultValues_star_at_key v _ _ ⟨"services", x, y, rest, rfl, rfl⟩

/-- **renaming a service** in the `services` mapping renames it in the result of `SetDefaultValues` and changes nothing
else: the first entry stored under `x` or under `y` comes out with the same value, the rest of the mapping the same -/
theorem services_entry_key_irrelevant (x y : String) (v v' : Val) (r r' : List (String × Val)) :
    setDefaultsKVs CV.Gen.defaultValues ["services"] ((x, v) :: r) = .ok ((x, v') :: r') ↔
      setDefaultsKVs CV.Gen.defaultValues ["services"] ((y, v) :: r) = .ok ((y, v') :: r') := by
  have hn : ∀ k : String, TPath.next ["services"] k = ["services", k.replace "." TPath.ghost] := fun k => by
    simp [TPath.next, TPath.root]
  have hb := setDefaults_keyBlind _ defaultValues_star_at_key v _ _
    ⟨"services", x.replace "." TPath.ghost, y.replace "." TPath.ghost, [], rfl, rfl⟩
  rw [setDefaultsKVs, setDefaultsKVs, hn, hn, hb]
  cases setDefaults CV.Gen.defaultValues ["services", y.replace "." TPath.ghost] v with
  | ok w =>
    cases setDefaultsKVs CV.Gen.defaultValues ["services"] r with
    | ok r2 => simp
    | err e => simp
    | panic z => simp
  | err e => simp
  | panic z => simp

/-- the three defaulting stages on the attributes of one service do not depend on the key it is stored under -/
theorem service_pipeline_blind_to_service_key (x y : String) (clean : String → String) (env : Env) (s : KVs) :
    svcPipeline CV.Gen.defaultValues ["services", x] clean env s =
      svcPipeline CV.Gen.defaultValues ["services", y] clean env s := by
  unfold svcPipeline
  cases canonSvcAttrs s with
  | ok c => simp only; rw [setDefaultsKVs_keyBlind _ defaultValues_star_at_key c _ _ ⟨"services", x, y, [], rfl, rfl⟩]
  | err e => rfl
  | panic z => rfl

/-- non-vacuity: the two paths of the instance are related, and the regenerated table is not empty -/
example : SameButKey ["services", "a", "ports", "[]"] ["services", "x-ray", "ports", "[]"] := ⟨_, _, _, _, rfl, rfl⟩
example : CV.Gen.defaultValues ≠ [] := by decide
-- the instance the seeded change breaks, evaluated (the kernel cannot unfold `String.replace` inside `TPath.next`):
-- a long-form port of service `x-ray` gets what the one of `a` gets
#guard (match setDefaults CV.Gen.defaultValues ["services", "x-ray"] (.map [("ports", .seq [.map [("target", .int 80)]])]) with
  | .ok v => v == .map [("ports", .seq [.map [("target", .int 80), ("protocol", .str "tcp"), ("mode", .str "ingress")]])]
  | _ => false)

end CV.C11
