import ComposeVerif.Props.C13Collect
import ComposeVerif.Props.C13Lts
import ComposeVerif.Lemmas.TravLtsProj
/-!
# C13, round 6 — the round-6 LTS theorems composed with `CollectInDependencyOrder` (`TravProj.plan`)

Statements about the project's `depends_on` relation (`depAdj p`), for every project with distinct service names, every
direction, limit, root selection and schedule: transitive visit order in both directions, termination of every fair
schedule (the side condition "limit ≥ 1" is discharged by `limitOf`), the bound as an invariant, behaviour after
cancellation.
-/
namespace CV.TravProj
open CV.DepGraph CV.Trav

/-- **visit order ⊇ transitive dependency order, both directions.**  Forward walk: when the visitor of `v` is entered,
the visitor of every service `d` that `v` transitively depends on (through visited services) has returned.  Reverse walk
(`InReverseOrder`): the visitor of every service `d` that transitively depends on `v` has returned. -/
theorem collect_order_transitive (p : Proj) (hnd : (names p).Nodup) (inverse : Bool) (maxc : Int) (after : List Name)
    {g : Graph} {lim : Option Nat} (h : plan p inverse maxc after = .walk g lim) {s : St} (hr : Reach g lim s)
    (l1 l2 : List Ev) (v : V) (hlog : s.log = l1 ++ Ev.start v :: l2) (d : V) (hd : g.skip d = false) :
    (inverse = false → DependsVia p (fun m => g.skip m = false) v d → d ∈ finishes l2) ∧
    (inverse = true → DependsVia p (fun m => g.skip m = false) d v → d ∈ finishes l2) := by
  have ⟨hg, _, hpre, _⟩ := collect_walk_graph p hnd inverse maxc after h
  constructor
  · intro hi hc
    subst hi
    exact visit_order_extends_prerequisite_order hg hr
      (preChain_of_dependsVia_fwd (fun v d => by simpa using hpre v d) hc) hd l1 l2 hlog
  · intro hi hc
    subst hi
    exact visit_order_extends_prerequisite_order hg hr
      (preChain_of_dependsVia_rev (fun v d => by simpa using hpre v d) hc) hd l1 l2 hlog

/-- **every fair schedule of an accepted project ends** (and none is infinite): for every option combination — the
LTS side condition "limit ≥ 1" is discharged by `limitOf` (a non-positive `WithMaxConcurrency` sets no limit). -/
theorem collect_fair_schedule_ends (p : Proj) (hnd : (names p).Nodup) (inverse : Bool) (maxc : Int) (after : List Name)
    {g : Graph} {lim : Option Nat} (h : plan p inverse maxc after = .walk g lim) :
    WellFounded (fun s' s : St => Reach g lim s ∧ ∃ l, step? g lim s l = some s') ∧
    ∀ (f : Nat → St), f 0 = init g →
      (∀ i, (∃ l, step? g lim (f i) l = some (f (i + 1))) ∨
        (f (i + 1) = f i ∧ (∀ l, internal l = true → step? g lim (f i) l = none) ∧
          ∀ v, wpc (f i).workers v ≠ some .running)) →
      ∃ i, terminal (f i) := by
  have ⟨hg, _, _, _, _, _, hl⟩ := collect_walk_graph p hnd inverse maxc after h
  exact ⟨step_wellFounded hg, fun f h0 hs => fair_schedule_ends hg (fun n hn => (hl n hn).1) f h0 hs⟩

/-- **after the coordinator has seen the cancellation** nothing new is started, along any continuation (project level) -/
theorem collect_quiet_after_cancel_partial (p : Proj) (hnd : (names p).Nodup) (inverse : Bool) (maxc : Int)
    (after : List Name) {g : Graph} {lim : Option Nat} (h : plan p inverse maxc after = .walk g lim) {s : St}
    (hr : Reach g lim s) (hc : s.cAlive = false) (hleft : ∃ v ∈ names p, v ∉ s.received) (ls : List Label) (s' : St)
    (hrun : runL g lim s ls = some s') :
    s.cancelled = true ∧
    (∀ v, v ∈ s'.workers.map (·.1) → v ∈ s.workers.map (·.1)) ∧
    (∀ v, v ∈ starts s'.log → v ∈ starts s.log ∨ v ∈ s.workers.map (·.1)) := by
  have ⟨hg, hv, _⟩ := collect_walk_graph p hnd inverse maxc after h
  have hleft' : ∃ v ∈ g.verts, v ∉ s.received := by rw [hv]; exact hleft
  have h1 := no_new_worker_after_cancel_partial hg hr hc hleft'
  have h2 := no_new_visits_after_cancel_partial hg hr hc hleft' ls s' hrun
  exact ⟨h1.1, h2.2.2.1, h2.2.2.2⟩

/-- **the caller is never refused**, for the graph of every accepted project (both directions): `post` is the converse
of `pre` there (`collect_walk_graph`), which discharges the hypothesis of `caller_never_refused` -/
theorem collect_caller_never_refused (p : Proj) (hnd : (names p).Nodup) (inverse : Bool) (maxc : Int) (after : List Name)
    {g : Graph} {lim : Option Nat} (h : plan p inverse maxc after = .walk g lim) {s : St} (hr : Reach g lim s)
    (todo : List V) (v : V) :
    (s.m = some ⟨todo, .ready v⟩ → step? g lim s (.ready .M) = some (putSched s .M (some ⟨todo, .enter v⟩))) ∧
    (s.m = some ⟨todo, .enter v⟩ → step? g lim s (.enter .M) =
      some (putSched { s with status := setStatus s.status v .entered } .M (some ⟨todo, .spawn v⟩))) := by
  have ⟨hg, _, hpre, hpost, _⟩ := collect_walk_graph p hnd inverse maxc after h
  refine caller_never_refused hg (fun v u hu => ?_) hr todo v
  have := (hpost v u).mp hu
  exact (hpre u v).mpr (by cases inverse <;> simpa using this)

/-- non-vacuity of `collect_order_transitive`: in the chain 2 → 1 → 0, service 2 depends on 0 through 1 -/
example : DependsVia chain3 (fun _ => True) 2 0 :=
  .cons (m := 1) (by decide) trivial (.one (by decide))

end CV.TravProj
