import ComposeVerif.Lemmas.NameLoader
import ComposeVerif.Lemmas.NameExamples
import ComposeVerif.Gen.NameFacts
/-!
# C17 — the loader-level entry of the name decision, and the glue between the cli and the loader (round 5)

`Props/C17.lean` proves the property over `cli.NewProjectOptions … LoadProject`.  The loader has its own public
entry (`loader.LoadWithContext` with `Options.SetProjectName(name, imperativelySet)`, `Options.SkipInterpolation`,
a possibly nil `ConfigDetails.Environment`); `Model/NameLoader.lean` models it in full (`projectNameL`, `loadL`) and
puts the cli in front of it again with `cli.WithInterpolation` (`loadX`, `runX`).  The theorems here state the
clauses of the property for **every** input of that entry, and the refinement that makes the theorems of
`Props/C17.lean` theorems about it.
-/
namespace CV.Name
open CV CV.Name.Spec

/-! ## facts regenerated from the source -/

/-- the bodies of the glue the round-5 model mirrors are the ones in the source now: `Options.SetProjectName`,
    `loadModelWithContext` (name decided before anything is loaded), `cli.WithInterpolation` (appends a load option,
    `SkipInterpolation = !b`), `cli.WithEnvFile` (deprecated, empty path = `WithEnvFiles()`),
    `ProjectOptions.LoadProject` (the project environment handed over as `ConfigDetails.Environment`) and
    `ProjectOptions.prepare` (`withNamePrecedenceLoad` is appended AFTER the caller's load options, so it overrides a
    `SetProjectName` smuggled in through `WithLoadOptions`) -/
theorem loader_entry_functions_are_source :
    CV.Gen.c17_body_SetProjectName =
      "{ o.projectName = name o.projectNameImperativelySet = imperativelySet }" ∧
    CV.Gen.c17_body_loadModelWithContext =
      "{ if len(configDetails.ConfigFiles) < 1 { return nil, errors.New(\"No files specified\") } err := projectName(configDetails, opts) if err != nil { return nil, err } return load(ctx, *configDetails, opts, nil) }" ∧
    CV.Gen.c17_body_WithInterpolation =
      "{ return func(o *ProjectOptions) error { o.loadOptions = append(o.loadOptions, func(options *loader.Options) { options.SkipInterpolation = !interpolation }) return nil } }" ∧
    CV.Gen.c17_body_WithEnvFile =
      "{ var files []string if file != \"\" { files = []string{file} } return WithEnvFiles(files...) }" ∧
    CV.Gen.c17_body_LoadProject =
      "{ config, err := o.prepare(ctx) if err != nil { return nil, err } project, err := loader.LoadWithContext(ctx, types.ConfigDetails{ ConfigFiles: config.ConfigFiles, WorkingDir: config.WorkingDir, Environment: o.Environment, }, o.loadOptions...) if err != nil { return nil, err } for _, config := range config.ConfigFiles { project.ComposeFiles = append(project.ComposeFiles, config.Filename) } return project, nil }" ∧
    CV.Gen.c17_body_prepare =
      "{ defaultDir, err := o.GetWorkingDir() if err != nil { return &types.ConfigDetails{}, err } configDetails, err := o.ReadConfigFiles(ctx, defaultDir, o) if err != nil { return configDetails, err } o.loadOptions = append(o.loadOptions, withNamePrecedenceLoad(defaultDir, o), withConvertWindowsPaths(o), withListeners(o)) return configDetails, nil }" := by
  exact ⟨rfl, rfl, rfl, rfl, rfl, rfl⟩

/-! ## refinement: the cli path is an instance of the loader entry -/

/-- **composition**: the load of `Props/C17.lean` (`loadFiles`: what `LoadProject` does once the files are read) is
    the loader entry `loadL` on the project environment, with the `(name, imperative)` pair of
    `withNamePrecedenceLoad` and interpolation on.  (The model of `loader.projectName` used there returns a
    non-imperative name as it is; the full one normalises it; on the pairs the cli produces the two coincide because
    normalisation is idempotent.) -/
theorem cli_load_is_loader_entry (w : World) (o : PO) (files : List (List (Option Str))) :
    loadFiles w o files = loadL files (some o.env) (loptsOf w o false) w.probe :=
  loadFiles_eq_loadL w o files

/-- … and so is the whole `LoadProject` / `NewProjectOptions + LoadProject`, when no `WithInterpolation(false)` is
    in effect -/
theorem loadX_interp_is_load (w : World) (o : PO) : loadX w o false = load w o := by
  unfold loadX load
  cases o.configs with
  | nil => rfl
  | cons c cs =>
    simp only
    cases readConfigs w (c :: cs) with
    | error e => rfl
    | ok files => exact (loadFiles_eq_loadL w o files).symm

theorem runX_interp_is_run (w : World) (opts : List Opt) (interps : List Bool) (h : interpFlag interps = true) :
    runX w opts interps = run w opts := by
  unfold runX run
  cases runOpts w opts { configs := w.given } with
  | error e => rfl
  | ok o => simp only [h, Bool.not_true]; exact loadX_interp_is_load w o

/-- the last `WithInterpolation` decides, none means "interpolate" -/
theorem interpFlag_last (pre : List Bool) (b : Bool) : interpFlag (pre ++ [b]) = b ∧ interpFlag [] = true := by
  simp [interpFlag]

/-! ## the clauses of the property on the loader entry: every `(name, imperative, SkipInterpolation, environment)` -/

/-- **a successful load always has a non-empty name of the form `[a-z0-9][a-z0-9_-]*`** — for every input of the
    loader entry: a name set imperatively or not, valid or not, interpolation on or off, environment nil or not,
    any files.  (Before the round-5 `fix:` this was false: `SetProjectName("My App", false)` and no `name:` in the
    files loaded a project named `My App`.) -/
theorem loader_entry_name_valid (files : List (List (Option Str))) (env : Option Env) (lo : LOpts) (probe : Str)
    (r : Loaded) (h : loadL files env lo probe = .ok r) : validName r.name = true ∧ r.name ≠ [] := by
  obtain ⟨h1, h2, _, _⟩ := loadL_ok_inv files env lo probe r h
  rcases projectNameL_valid files _ lo r.name h1 with h3 | h3
  · exact absurd h3 h2
  · exact ⟨h3, h2⟩

/-- the same through the cli, `WithInterpolation(false)` included -/
theorem name_valid_any_interpolation (w : World) (opts : List Opt) (interps : List Bool) (r : Loaded)
    (h : runX w opts interps = .ok r) : validName r.name = true ∧ r.name ≠ [] := by
  unfold runX at h
  split at h
  · rename_i o _
    unfold loadX at h
    split at h
    · cases h
    · split at h
      · cases h
      · exact loader_entry_name_valid _ _ _ _ r h
  · cases h

/-- **visible to interpolation as `COMPOSE_PROJECT_NAME`**: the loaded environment is the given one (the empty one
    for a nil map) with `COMPOSE_PROJECT_NAME ↦ name` on top, nothing else changes, and — unless interpolation is
    switched off — the strings of the model were interpolated against exactly that environment -/
theorem loader_entry_name_exported (files : List (List (Option Str))) (env : Option Env) (lo : LOpts) (probe : Str)
    (r : Loaded) (h : loadL files env lo probe = .ok r) :
    r.env = (cpn, r.name) :: env.getD [] ∧ r.env.get cpn = some r.name ∧
    (∀ k, k ≠ cpn → r.env.get k = (env.getD []).get k) ∧
    (lo.skipInterp = false → Template.subst r.env.get probe = .ok r.probe) ∧
    (lo.skipInterp = true → r.probe = probe) := by
  obtain ⟨_, _, h3, h4⟩ := loadL_ok_inv files env lo probe r h
  refine ⟨h3, by rw [h3]; exact get_cons_self _ _ _, ?_, ?_, ?_⟩
  · intro k hk
    rw [h3]
    simp only [Env.get, List.lookup]
    have : (k == cpn) = false := by simpa using hk
    rw [this]
  · intro hs
    rw [hs, pipeline_false] at h4
    split at h4
    · cases h4
    · split at h4
      · cases h4
      · cases h4
      · rename_i p hp; cases h4; exact hp
  · intro hs
    rw [hs, pipeline_true] at h4
    cases h4; rfl

/-- **an imperatively set name that is not already in that form is rejected**, whatever the files, the
    environment and the interpolation switch -/
theorem loader_entry_imperative_invalid_rejected (files : List (List (Option Str))) (env : Option Env) (lo : LOpts)
    (probe : Str) (hi : lo.imperative = true) (hn : lo.name ≠ []) (hv : validName lo.name = false) :
    loadL files env lo probe = .error .invalidName := by
  have hne : normalize lo.name ≠ lo.name := by
    intro h
    rcases (norm_fixed_iff lo.name).mp h with h | h
    · exact hn h
    · rw [hv] at h; cases h
  simp [loadL, projectNameL, hi, hne]

/-- **the explicitly requested name wins**: a successful load with an imperatively set name has exactly that name —
    no `name:` of any file, no `COMPOSE_PROJECT_NAME` of the environment handed to the loader takes part -/
theorem loader_entry_imperative_wins (files : List (List (Option Str))) (env : Option Env) (lo : LOpts) (probe : Str)
    (r : Loaded) (hi : lo.imperative = true) (h : loadL files env lo probe = .ok r) : r.name = lo.name := by
  obtain ⟨h1, _, _, _⟩ := loadL_ok_inv files env lo probe r h
  unfold projectNameL at h1
  simp only [hi, if_true] at h1
  split at h1
  · cases h1
  · exact (Except.ok.inj h1).symm

/-- explicit_name_wins, with `WithInterpolation` in play: a successful run whose last `WithName` is non-empty has
    exactly that name — `SkipInterpolation` changes nothing about the precedence -/
theorem explicit_name_wins_any_interpolation (w : World) (opts : List Opt) (interps : List Bool) (r : Loaded)
    (h : runX w opts interps = .ok r) (hreq : requestedName opts [] ≠ []) : r.name = requestedName opts [] := by
  unfold runX at h
  split at h
  · rename_i o ho
    have hn : o.name = requestedName opts [] := runOpts_name w opts { configs := w.given } o ho
    have hne : o.name ≠ [] := by rw [hn]; exact hreq
    unfold loadX at h
    split at h
    · cases h
    · split at h
      · cases h
      · have hc : cliName w o = (o.name, true) := by simp [cliName, hne]
        have := loader_entry_imperative_wins _ _ _ _ r (by simp [loptsOf, hc]) h
        rw [this, ← hn]
        simp [loptsOf, hc]
  · cases h

/-- **name_decision with `WithInterpolation` in play** (the precedence clause of the property for both positions of
    the switch): a successful `LoadProject` has the name `Spec.decide` selects from the four sources — explicit request,
    `COMPOSE_PROJECT_NAME` of the project environment, the `name:` of the last selected file that sets one
    (interpolated, or as written under `WithInterpolation(false)`; normalised), the project directory — over the
    config files the options selected -/
theorem name_decision_any_interpolation (w : World) (o : PO) (skip : Bool) (r : Loaded) (h : loadX w o skip = .ok r) :
    ∃ files, o.configs ≠ [] ∧ readConfigs w o.configs = .ok files ∧
      Spec.decide (sourcesOfX w o files skip) = .name r.name := by
  unfold loadX at h
  split at h
  · cases h
  · rename_i c cs hc
    split at h
    · cases h
    · rename_i files hf
      refine ⟨files, by rw [hc]; exact List.cons_ne_nil _ _, hf, ?_⟩
      obtain ⟨h1, h2, _, _⟩ := loadL_ok_inv files (some o.env) (loptsOf w o skip) w.probe r h
      have ha := projectNameL_agrees_cli w o files skip
      simp only [Option.getD_some] at h1
      rw [h1] at ha
      cases hd : Spec.decide (sourcesOfX w o files skip) with
      | name n => rw [hd] at ha; have := ha.1; cases this; rfl
      | rejected => rw [hd] at ha; cases ha
      | failed => rw [hd] at ha; rcases ha with ha | ha <;> cases ha
      | noName => rw [hd] at ha; exact absurd (Except.ok.inj ha) h2

/-- … and it is complete for rejection: the specification says `rejected` (an explicit name or a
    `COMPOSE_PROJECT_NAME` that is not in the form) ⇒ `invalidName`, with or without interpolation -/
theorem name_rejected_any_interpolation (w : World) (o : PO) (files : List (List (Option Str))) (skip : Bool)
    (hd : Spec.decide (sourcesOfX w o files skip) = .rejected) :
    loadL files (some o.env) (loptsOf w o skip) w.probe = .error .invalidName := by
  have ha := projectNameL_agrees_cli w o files skip
  rw [hd] at ha
  unfold loadL
  simp only [Option.getD_some]
  rw [show projectNameL files o.env (loptsOf w o skip) = .error .invalidName from ha]

/-- **the decision of the loader entry is the specification's**: with the imperatively set name as the explicit
    request and the name that was not set imperatively in the place of the directory name, `loader.projectName`
    returns what `Spec.decide` selects — the `name:` of the last file that sets one, interpolated (or as written
    under `SkipInterpolation`) and normalised, else the **normalised** guess.  `himp` excludes only
    `SetProjectName("", true)` (an explicit request for no name: see the example below, it ends in `emptyName`). -/
theorem loader_entry_decision (files : List (List (Option Str))) (env : Env) (lo : LOpts)
    (himp : lo.imperative = true → lo.name ≠ []) :
    Agrees (Spec.decide (lsources files env lo)) (projectNameL files env lo) :=
  projectNameL_agrees files env lo himp

/-- `SkipInterpolation`: the environment takes no part in the name at all -/
theorem loader_entry_skip_ignores_env (files : List (List (Option Str))) (env env' : Env) (lo : LOpts)
    (hs : lo.skipInterp = true) : projectNameL files env lo = projectNameL files env' lo := by
  simp [projectNameL, hs, interpName_true]

/-- `SkipInterpolation`, not imperative: the name is the normalised `name:` *as written* (a `${X}` is not looked
    up: it normalises to `x`), else the normalised guess -/
theorem loader_entry_skip_name (files : List (List (Option Str))) (env : Env) (lo : LOpts)
    (hs : lo.skipInterp = true) (hi : lo.imperative = false) :
    projectNameL files env lo =
      .ok (if normalize (selectedName files) ≠ [] then normalize (selectedName files) else normalize lo.name) := by
  simp only [projectNameL, hi, hs, interpName_true, lastName_selected, Bool.false_eq_true, if_false]
  split <;> rfl

/-- `cli.WithEnvFile(f)` (deprecated) is `WithEnvFiles(f)`; the empty path selects the default `.env` -/
theorem withEnvFile_is_withEnvFiles (w : World) (o : PO) (f : Str) :
    applyOpt w o (withEnvFileOpt f) = (if f = [] then withEnvFiles w o [] else .ok { o with envFiles := [.named f] }) := by
  unfold withEnvFileOpt applyOpt
  by_cases h : f = []
  · simp [h]
  · simp [h, withEnvFiles]

/-! ## non-vacuity (`exF`: two files, the second one's second document says `name: $X`) -/

-- not imperative: the last file's name, interpolated; under SkipInterpolation as written (`$X` ↦ `x`)
example : okL (projectNameL exF [("X".toList, "Val".toList)] { name := "Dir".toList }) = some "val" := by decide
example : okL (projectNameL exF [("X".toList, "Val".toList)] { name := "Dir".toList, skipInterp := true }) = some "x" := by decide
-- the name normalises to empty: the NORMALISED guess (round-5 fix), not the earlier file
example : okL (projectNameL exF [("X".toList, "_".toList)] { name := "My Dir".toList }) = some "mydir" := by decide
example : okL (projectNameL [] [] { name := "My Dir".toList }) = some "mydir" := by decide
-- imperative: as it is, or rejected; the empty imperative name passes `projectName` and ends in `emptyName`
example : okL (projectNameL exF [] { name := "req".toList, imperative := true }) = some "req" := by decide
example : errL (projectNameL exF [] { name := "Req".toList, imperative := true }) = some .invalidName := by decide
example : errL (loadL exF none { name := [], imperative := true } []) = some .emptyName := by decide
-- a nil environment: the export allocates it
example : (loadL [] none { name := "d".toList } []).toOption.map (·.env) = some [(cpn, "d".toList)] := by decide
-- SkipInterpolation leaves the strings of the model alone
example : (loadL [] none { name := "d".toList, skipInterp := true } "$COMPOSE_PROJECT_NAME!".toList).toOption.map (fun r => String.ofList r.probe) =
    some "$COMPOSE_PROJECT_NAME!" := by decide
-- the hypotheses of `loader_entry_imperative_invalid_rejected` / `loader_entry_decision`
example : ("Req".toList ≠ []) ∧ validName "Req".toList = false := by decide
example : Spec.decide (lsources exF [("X".toList, "_".toList)] { name := "My Dir".toList }) = .name "mydir".toList := by decide
-- through the cli: the second file says `name: $X`; with interpolation the OS value, without it the text itself
example : nameOf (runX (mkW ["X=Val"] g12 "f1".toList "$X".toList "d".toList) [.withOsEnv] []) = some "val" := by decide
example : nameOf (runX (mkW ["X=Val"] g12 "f1".toList "$X".toList "d".toList) [.withOsEnv] [true, false]) = some "x" := by decide
-- … and the explicit name / COMPOSE_PROJECT_NAME still come first
example : nameOf (runX (mkW ["COMPOSE_PROJECT_NAME=os"] g12 "f1".toList "$X".toList "d".toList) [.withOsEnv] [false]) = some "os" := by decide
example : errOf (runX (mkW ["COMPOSE_PROJECT_NAME=O.s"] g12 "f1".toList "$X".toList "d".toList) [.withOsEnv] [false]) = some .invalidName := by decide
-- `WithInterpolation`: the last call decides
example : interpFlag [false, true] = true ∧ interpFlag [true, false] = false ∧ interpFlag [] = true := by decide

end CV.Name
