import ComposeVerif.Props.C09GenericF
import ComposeVerif.Props.C09
/-!
# C09 — every hand-written codec of the model types packaged as a leaf of the generic round trip

`Props/C09GenericF.lean` composes two proved custom round trips (byte sizes, durations) into the generic theorem.  Here the
remaining ones are packaged: device counts, commands, health-check tests, string lists, the mapping family, extra hosts.
Two kinds of leaf:

* a type with a hand-written **marshaller** (`Encode.custom`): the model's rendering does not look at the descriptors;
* a type that only has a hand-written **decoder** and is rendered by the default encoders through its underlying type
  expression (`DeviceCount = int64`, `StringList = []string`, `Mapping = map[string]string`, `MappingWithEquals =
  map[string]*string`): the rendering walks `env.named`, so the leaf needs (a) that the environment really declares the
  type that way (`leafEnvB`, decided for the regenerated descriptors), (b) enough nesting depth (`Leaves.depth = 3`).

`allLeaves_sound` is the composition; `generic_roundtrip_all_leaves` the instance of the generic theorem;
`plain_model_types_all_leaves` lists the model types of the current source it covers (both renderings);
`not_plain_model_types` is the complement — the types that still need something outside the theorem.
-/
namespace CV.C09
open CV CV.TypeDesc CV.Marshal CV.Encode CV.Decode CV.Generic CV.GenericF

/-! ## the environment facts the default-encoded leaves rely on -/

/-- underlying type expressions of the named types that are decoded by hand and rendered by the default encoders -/
def defaultLeafTypes : List (String × TyExpr) :=
  [("DeviceCount", .prim "int64"), ("NanoCPUs", .prim "float32"),
   ("ShellCommand", .slice (.prim "string")),      -- hand-written `MarshalYAML` only: JSON renders the slice
   ("HealthCheckTest", .slice (.prim "string")), ("StringList", .slice (.prim "string")),
   ("StringOrNumberList", .slice (.prim "string")),
   ("Mapping", .map (.prim "string")), ("Labels", .map (.prim "string")), ("Options", .map (.prim "string")),
   ("MappingWithEquals", .map (.ptr (.prim "string")))]

/-- the environment declares each of them as a named non-struct type with that underlying expression -/
def leafEnvB (env : Env) : Bool :=
  defaultLeafTypes.all fun p => (findStruct env.structs p.1).isNone && (findNamed env.named p.1 == some p.2)

/-- holds for the regenerated descriptors (re-decided whenever `types/*.go` changes) -/
theorem leafEnv_gen : leafEnvB genEnv = true := by decide

theorem leafEnv_lookup (env : Env) (h : leafEnvB env = true) (n : String) (e : TyExpr) (hm : (n, e) ∈ defaultLeafTypes) :
    findStruct env.structs n = none ∧ findNamed env.named n = some e := by
  simp only [leafEnvB, List.all_eq_true, Bool.and_eq_true, Option.isNone_iff_eq_none, beq_iff_eq] at h
  exact h (n, e) hm

/-! ## default encoders on the underlying expressions -/

theorem mapOut_self (g : Val → Out) : ∀ xs : List Val, (∀ x ∈ xs, g x = .ok x) → mapOut g xs = .ok xs := by
  intro xs; induction xs with
  | nil => intro _; rfl
  | cons x r ih =>
    intro h
    simp only [mapOut, h x (List.mem_cons_self ..), ih (fun y hy => h y (List.mem_cons_of_mem _ hy))]

theorem mapKVs_self (g : Val → Out) : ∀ kvs : List (String × Val), (∀ p ∈ kvs, g p.2 = .ok p.2) → mapKVs g kvs = .ok kvs := by
  intro kvs; induction kvs with
  | nil => intro _; rfl
  | cons p r ih =>
    intro h
    obtain ⟨k, x⟩ := p
    have hx : g x = .ok x := h (k, x) (List.mem_cons_self ..)
    simp only [mapKVs, hx, ih (fun y hy => h y (List.mem_cons_of_mem _ hy))]

/-- `[]string` by either encoder: the list itself -/
theorem encode_strSlice (env : Env) (fmt : Fmt) (f : Nat) (xs : List Val) :
    encode env fmt (f + 2) (.slice (.prim "string")) (.seq xs) = .ok (.seq xs) := by
  simp only [encode]
  rw [mapOut_self _ xs (fun _ _ => rfl)]

/-- `map[string]string` by either encoder -/
theorem encode_strMap (env : Env) (fmt : Fmt) (f : Nat) (kvs : List (String × Val)) :
    encode env fmt (f + 2) (.map (.prim "string")) (.map kvs) = .ok (.map kvs) := by
  simp only [encode]
  rw [mapKVs_self _ kvs (fun _ _ => rfl)]

/-- `map[string]*string` by either encoder: a nil pointer is written `null` -/
theorem encode_strPtrMap (env : Env) (fmt : Fmt) (f : Nat) (kvs : List (String × Val)) :
    encode env fmt (f + 3) (.map (.ptr (.prim "string"))) (.map kvs) = .ok (.map kvs) := by
  simp only [encode]
  rw [mapKVs_self _ kvs (fun p _ => by cases p.2 <;> rfl)]

/-! ## the leaves -/

def IsInt64 (v : Val) : Prop := ∃ i : Int, v = .int i ∧ inInt64 i
def IsInt (v : Val) : Prop := ∃ i : Int, v = .int i
def IsStrList (v : Val) : Prop := ∃ xs, v = .seq xs ∧ allStr xs = true
def IsStrStrMap (v : Val) : Prop := ∃ kvs, v = .map kvs ∧ allStrVals kvs = true
def IsStrPtrStrMap (v : Val) : Prop := ∃ kvs, v = .map kvs ∧ allStrOrNullVals kvs = true
/-- a host list in the marshaller's order (a Go map has no order: this is the representative the reload produces) -/
def IsHostsList (v : Val) : Prop :=
  ∃ es : List HEnt, v = .map (es.map entVal) ∧ (∀ e ∈ es, entOK e) ∧ (es.map Prod.fst).Nodup ∧ sortH es = es

/-- cpus: a number; its text is opaque to the model (the float rendering is trusted, tied by `c09.struct` / `c09.load`) -/
def IsNumber (v : Val) : Prop := (∃ i : Int, v = .int i) ∨ (∃ r, v = .float r)
/-- a ulimit as `DecodeMapstructure` produces them: a single limit, or a soft/hard pair (never both) -/
def IsUlimit (v : Val) : Prop := ∃ single soft hard : Int, v = mkUlimitT single soft hard ∧ (single ≠ 0 → soft = 0 ∧ hard = 0)

/-- the values of each hand-written type that its codec pair reproduces -/
def leafOK (n : String) (v : Val) : Prop :=
  if n = "UnitBytes" ∨ n = "Duration" then IsInt64 v
  else if n = "DeviceCount" then IsInt v
  else if n = "ShellCommand" ∨ n = "HealthCheckTest" ∨ n = "StringList" ∨ n = "StringOrNumberList" then IsStrList v
  else if n = "Mapping" ∨ n = "Labels" ∨ n = "Options" then IsStrStrMap v
  else if n = "MappingWithEquals" then IsStrPtrStrMap v
  else if n = "HostsList" then IsHostsList v
  else if n = "NanoCPUs" then IsNumber v
  else if n = "UlimitsConfig" then IsUlimit v
  else False

def allLeafNames : List String :=
  ["UnitBytes", "Duration", "DeviceCount", "ShellCommand", "HealthCheckTest", "StringList", "StringOrNumberList",
   "Mapping", "Labels", "Options", "MappingWithEquals", "HostsList", "NanoCPUs", "UlimitsConfig"]

/-- all fourteen hand-written codecs whose round trip through `loader.Transform` alone is the identity -/
def allLeaves : Leaves := { names := allLeafNames, ok := leafOK, depth := 3 }

/-! ### one lemma per leaf: `RT` at every depth ≥ 3 -/

theorem leaf_UnitBytes (env : Env) (fmt : Fmt) (f : Nat) (v : Val) (h : IsInt64 v) : RT env fmt (f + 1) (.named "UnitBytes") v :=
  sizeAndDuration_sound env fmt "UnitBytes" (by decide) f v (Nat.zero_le _) h (by obtain ⟨i, hv, _⟩ := h; subst hv; simp)

theorem leaf_Duration (env : Env) (fmt : Fmt) (f : Nat) (v : Val) (h : IsInt64 v) : RT env fmt (f + 1) (.named "Duration") v :=
  sizeAndDuration_sound env fmt "Duration" (by decide) f v (Nat.zero_le _) h (by obtain ⟨i, hv, _⟩ := h; subst hv; simp)

theorem leaf_DeviceCount (env : Env) (henv : leafEnvB env = true) (fmt : Fmt) (f : Nat) (v : Val) (h : IsInt v) :
    RT env fmt (f + 2) (.named "DeviceCount") v := by
  obtain ⟨i, hv⟩ := h; subst hv
  obtain ⟨hs, hn⟩ := leafEnv_lookup env henv "DeviceCount" (.prim "int64") (by simp [defaultLeafTypes])
  refine ⟨.int i, ?_, ?_, fun _ => by simp⟩
  · have hc : custom fmt "DeviceCount" (.int i) = none := by cases fmt <;> rfl
    simp only [encode, hc, hs, hn]
  · simp [decode, customDecode, decode_DeviceCount]

/-- the four `[]string` types decoded by hand; `dec` is the type's `DecodeMapstructure` -/
theorem leaf_strList (env : Env) (henv : leafEnvB env = true) (fmt : Fmt) (f : Nat) (n : String) (dec : Val → Out)
    (hm : (n, TyExpr.slice (.prim "string")) ∈ defaultLeafTypes)
    (hc : ∀ v, custom fmt n v = none ∨ custom fmt n v = some (.inl (marshal_StrSlice v)))
    (hd : customDecode n = some dec) (hdec : ∀ xs, allStr xs = true → dec (.seq xs) = .ok (.seq xs))
    (v : Val) (h : IsStrList v) : RT env fmt (f + 3) (.named n) v := by
  obtain ⟨xs, hv, hxs⟩ := h; subst hv
  obtain ⟨hs, hn⟩ := leafEnv_lookup env henv n _ hm
  refine ⟨.seq xs, ?_, ?_, fun _ => by simp⟩
  · rcases hc (.seq xs) with h | h
    · rw [encode]
      simp only [h, hs, hn]
      exact encode_strSlice env fmt f xs
    · simp only [encode, h, marshal_StrSlice, hxs, if_true]
  · simp only [decode, hd, hdec xs hxs]

theorem leaf_strMap (env : Env) (henv : leafEnvB env = true) (fmt : Fmt) (f : Nat) (n : String) (dec : Val → Out)
    (hm : (n, TyExpr.map (.prim "string")) ∈ defaultLeafTypes)
    (hc : ∀ v, custom fmt n v = none)
    (hd : customDecode n = some dec) (hdec : ∀ kvs, allStrVals kvs = true → dec (.map kvs) = .ok (.map kvs))
    (v : Val) (h : IsStrStrMap v) : RT env fmt (f + 3) (.named n) v := by
  obtain ⟨kvs, hv, hk⟩ := h; subst hv
  obtain ⟨hs, hn⟩ := leafEnv_lookup env henv n _ hm
  refine ⟨.map kvs, ?_, ?_, fun _ => by simp⟩
  · rw [encode]
    simp only [hc, hs, hn]
    exact encode_strMap env fmt f kvs
  · simp only [decode, hd, hdec kvs hk]

theorem decode_Mapping_strs (kvs : List (String × Val)) (h : allStrVals kvs = true) : decode_Mapping (.map kvs) = .ok (.map kvs) := by
  have := custom_roundtrip_Mapping (.map kvs) (by simpa [IsStrMap] using h)
  simpa [marshal_StrMap, h, Out.bind] using this

theorem decode_Options_strs (kvs : List (String × Val)) (h : allStrVals kvs = true) : decode_Options (.map kvs) = .ok (.map kvs) := by
  have := custom_roundtrip_Options (.map kvs) (by simpa [IsStrMap] using h)
  simpa [marshal_StrMap, h, Out.bind] using this

theorem decode_MappingWithEquals_strs (kvs : List (String × Val)) (h : allStrOrNullVals kvs = true) :
    decode_MappingWithEquals (.map kvs) = .ok (.map kvs) := by
  have := custom_roundtrip_MappingWithEquals (.map kvs) (by simpa [IsStrPtrMap] using h)
  simpa [marshal_StrPtrMap, h, Out.bind] using this

theorem decode_StringOrNumberList_strs (xs : List Val) (h : allStr xs = true) :
    decode_StringOrNumberList (.seq xs) = .ok (.seq xs) := by
  have := custom_roundtrip_StringOrNumberList (.seq xs) (by simpa [IsStrSlice] using h)
  simpa [marshal_StrSlice, h, Out.bind] using this

theorem leaf_MappingWithEquals (env : Env) (henv : leafEnvB env = true) (fmt : Fmt) (f : Nat) (v : Val) (h : IsStrPtrStrMap v) :
    RT env fmt (f + 4) (.named "MappingWithEquals") v := by
  obtain ⟨kvs, hv, hk⟩ := h; subst hv
  obtain ⟨hs, hn⟩ := leafEnv_lookup env henv "MappingWithEquals" (.map (.ptr (.prim "string"))) (by simp [defaultLeafTypes])
  refine ⟨.map kvs, ?_, ?_, fun _ => by simp⟩
  · have hc : custom fmt "MappingWithEquals" (.map kvs) = none := by cases fmt <;> rfl
    rw [encode]
    simp only [hc, hs, hn]
    exact encode_strPtrMap env fmt f kvs
  · simp only [decode, customDecode, decode_MappingWithEquals_strs kvs hk]

theorem leaf_HostsList (env : Env) (fmt : Fmt) (f : Nat) (v : Val) (h : IsHostsList v) : RT env fmt (f + 1) (.named "HostsList") v := by
  obtain ⟨es, hv, hok, hnd, hsorted⟩ := h; subst hv
  have hrt := (custom_roundtrip_HostsList es hok hnd).1
  rw [hsorted] at hrt
  cases hm : marshal_HostsList (.map (es.map entVal)) with
  | ok t =>
    rw [hm] at hrt
    refine ⟨t, ?_, ?_, fun _ => ?_⟩
    · have hc : custom fmt "HostsList" (.map (es.map entVal)) = some (.inl (nilAs (.seq []) marshal_HostsList (.map (es.map entVal)))) := by
        cases fmt <;> rfl
      simp only [encode, hc, nilAs, hm]
    · simpa [decode, customDecode, Out.bind] using hrt
    · simp only [marshal_HostsList] at hm
      injection hm with hm; subst hm; simp
  | err c => rw [hm] at hrt; simp [Out.bind] at hrt
  | unmodelled c => rw [hm] at hrt; simp [Out.bind] at hrt

theorem leaf_NanoCPUs (env : Env) (henv : leafEnvB env = true) (fmt : Fmt) (f : Nat) (v : Val) (h : IsNumber v) :
    RT env fmt (f + 2) (.named "NanoCPUs") v := by
  obtain ⟨hs, hn⟩ := leafEnv_lookup env henv "NanoCPUs" (.prim "float32") (by simp [defaultLeafTypes])
  have hc : custom fmt "NanoCPUs" v = none := by cases fmt <;> rfl
  refine ⟨v, ?_, ?_, fun h => h⟩
  · simp only [encode, hc, hs, hn]
  · rcases h with ⟨i, rfl⟩ | ⟨r, rfl⟩ <;> simp [decode, customDecode]

/-- `DecodeMapstructure` alone agrees with the full attribute pipeline (schema + `transformUlimits` + decoding) wherever
    that one succeeds: the generic decoder may use the former -/
theorem decodeDM_of_decode_Ulimits (t : Val) (a b c : Int) (h : decode_Ulimits t = .ok (mkUlimit a b c)) :
    decodeDM_Ulimits t = .ok (mkUlimitT a b c) := by
  unfold decode_Ulimits at h
  split at h
  · cases h
  · cases t with
    | int i =>
      simp [mkUlimit] at h
      obtain ⟨h1, h2, h3⟩ := h
      subst h1 h2 h3; rfl
    | map kvs =>
      simp only at h
      split at h
      · rename_i s h' hs hh
        simp [mkUlimit] at h
        obtain ⟨h1, h2, h3⟩ := h
        subst h1 h2 h3
        simp only [decodeDM_Ulimits, ulimitKey, hs, hh]
      · cases h
    | _ => simp at h

theorem leaf_Ulimits (env : Env) (fmt : Fmt) (f : Nat) (v : Val) (h : IsUlimit v) : RT env fmt (f + 1) (.named "UlimitsConfig") v := by
  obtain ⟨single, soft, hard, hv, canon⟩ := h; subst hv
  by_cases hs : single = 0
  · subst hs
    refine ⟨.map [("soft", .int soft), ("hard", .int hard)], ?_, ?_, fun _ => by simp⟩
    · cases fmt <;> simp [encode, custom, marshalY_Ulimits, marshalJ_Ulimits, mkUlimitT, getInt, Val.lookup]
    · simp [decode, customDecode, decodeDM_Ulimits, ulimitKey, Val.lookup]
  · obtain ⟨h1, h2⟩ := canon hs
    subst h1 h2
    refine ⟨.int single, ?_, ?_, fun _ => by simp⟩
    · cases fmt <;> simp [encode, custom, marshalY_Ulimits, marshalJ_Ulimits, mkUlimitT, getInt, Val.lookup, hs]
    · simp [decode, customDecode, decodeDM_Ulimits]

example : IsUlimit (mkUlimitT 0 1024 2048) := ⟨0, 1024, 2048, rfl, by decide⟩
example : IsUlimit (mkUlimitT (-1) 0 0) := ⟨-1, 0, 0, rfl, by decide⟩

/-- **all hand-written codecs as leaves**: for an environment that declares the default-encoded ones as the source does,
    each of the fourteen types round-trips on its `leafOK` values, in both renderings, at every depth ≥ 3 -/
theorem allLeaves_sound (env : Env) (henv : leafEnvB env = true) (fmt : Fmt) : LeafSound env fmt allLeaves := by
  intro n hn f v hf hok hnn
  obtain ⟨g, rfl⟩ : ∃ g, f = g + 3 := ⟨f - 3, by simp only [allLeaves] at hf; omega⟩
  simp only [allLeaves, allLeafNames, List.contains_cons, List.contains_nil, Bool.or_false, Bool.or_eq_true, beq_iff_eq] at hn
  simp only [allLeaves] at hok
  rcases hn with h | h | h | h | h | h | h | h | h | h | h | h | h | h <;> subst h
  · exact leaf_UnitBytes env fmt _ v (by simpa [leafOK] using hok)
  · exact leaf_Duration env fmt _ v (by simpa [leafOK] using hok)
  · exact leaf_DeviceCount env henv fmt _ v (by simpa [leafOK] using hok)
  · exact leaf_strList env henv fmt (g + 1) "ShellCommand" decode_ShellCommand (by simp [defaultLeafTypes])
      (fun v => by cases fmt <;> simp [custom]) rfl
      (fun xs h => by simp [decode_ShellCommand, h]) v (by simpa [leafOK] using hok)
  · exact leaf_strList env henv fmt (g + 1) "HealthCheckTest" decode_HealthCheckTest (by simp [defaultLeafTypes])
      (fun v => by cases fmt <;> simp [custom]) rfl
      (fun xs h => by simp [decode_HealthCheckTest, h]) v (by simpa [leafOK] using hok)
  · exact leaf_strList env henv fmt (g + 1) "StringList" decode_StringList (by simp [defaultLeafTypes])
      (fun v => by cases fmt <;> simp [custom]) rfl
      (fun xs h => by simp [decode_StringList, h]) v (by simpa [leafOK] using hok)
  · exact leaf_strList env henv fmt (g + 1) "StringOrNumberList" decode_StringOrNumberList (by simp [defaultLeafTypes])
      (fun v => by cases fmt <;> simp [custom]) rfl
      decode_StringOrNumberList_strs v (by simpa [leafOK] using hok)
  · exact leaf_strMap env henv fmt (g + 1) "Mapping" decode_Mapping (by simp [defaultLeafTypes])
      (fun v => by cases fmt <;> simp [custom]) rfl decode_Mapping_strs v (by simpa [leafOK] using hok)
  · exact leaf_strMap env henv fmt (g + 1) "Labels" decode_Labels (by simp [defaultLeafTypes])
      (fun v => by cases fmt <;> simp [custom]) rfl decode_Mapping_strs v (by simpa [leafOK] using hok)
  · exact leaf_strMap env henv fmt (g + 1) "Options" decode_Options (by simp [defaultLeafTypes])
      (fun v => by cases fmt <;> simp [custom]) rfl decode_Options_strs v (by simpa [leafOK] using hok)
  · exact leaf_MappingWithEquals env henv fmt _ v (by simpa [leafOK] using hok)
  · exact leaf_HostsList env fmt _ v (by simpa [leafOK] using hok)
  · exact leaf_NanoCPUs env henv fmt _ v (by simpa [leafOK] using hok)
  · exact leaf_Ulimits env fmt _ v (by simpa [leafOK] using hok)

/-- **the generic round trip with every identity codec composed in** (YAML and JSON): a type built from scalars,
    pointers, slices, maps, tag-driven structs and the fourteen hand-written types, a stable value of it ⇒ the rendering
    succeeds and decoding it gives the value back -/
theorem generic_roundtrip_all_leaves (env : Env) (henv : leafEnvB env = true) (fmt : Fmt) (f : Nat) (ty : TyExpr) (v : Val)
    (hp : GenericF.plainB env fmt allLeaves.names f ty = true) (hs : GenericF.Stable env fmt allLeaves f ty v) :
    ∃ t, encode env fmt f ty v = .ok t ∧ decode env f ty t = .ok v :=
  generic_roundtrip_fmt env fmt allLeaves (allLeaves_sound env henv fmt) f ty v hp hs

/-! ## which model types of the current source the theorem covers (re-decided whenever `types/*.go` changes) -/

/-- in scope of `generic_roundtrip_all_leaves`, both renderings: 55 of the 67 model types -/
def coveredModelTypes : List String :=
  ["Networks", "Volumes", "NetworkConfig", "VolumeConfig", "Mapping", "DevelopConfig", "BlkioConfig", "ShellCommand",
   "ServiceConfigObjConfig", "CredentialSpecConfig", "DependsOnConfig", "DeployConfig", "DeviceMapping", "StringList",
   "MappingWithEquals", "StringOrNumberList", "ExtendsConfig", "HostsList", "DeviceRequest", "HealthCheckConfig",
   "Labels", "LoggingConfig", "UnitBytes", "ServiceNetworkConfig", "ServicePortConfig", "ServiceSecretConfig",
   "Duration", "UlimitsConfig", "ServiceVolumeConfig", "ServiceHook", "Options", "IPAMConfig", "External",
   "FileObjectConfig", "Trigger", "WeightDevice", "ThrottleDevice", "FileReferenceConfig", "ServiceDependency",
   "UpdateConfig", "Resources", "RestartPolicy", "Placement", "DeviceCount", "HealthCheckTest", "ServiceVolumeBind",
   "ServiceVolumeVolume", "ServiceVolumeTmpfs", "IPAMPool", "WatchAction", "Resource", "PlacementPreferences",
   "NanoCPUs", "GenericResource", "DiscreteGenericResource"]

/-- outside: the four types whose marshaller pre-processes the value (`Project`, `ServiceConfig`, `SecretConfig`,
    `ConfigObjConfig`: name / content cleared, restored by later reload stages), the two decoded after a canonicalisation
    step of their own (`EnvFile`, `SSHKey`/`SSHConfig`: `transform.Canonical`), the raw extension map, and what contains them -/
def uncoveredModelTypes : List String :=
  ["Project", "Services", "Secrets", "Configs", "Extensions", "ServiceConfig", "SecretConfig", "ConfigObjConfig",
   "BuildConfig", "EnvFile", "SSHConfig", "SSHKey"]

theorem plain_model_types_all_leaves :
    (coveredModelTypes.all fun n =>
      GenericF.plainB genEnv .yaml allLeafNames 14 (.named n) && GenericF.plainB genEnv .json allLeafNames 14 (.named n)) = true := by
  decide

/-- the two lists partition the model types: nothing is silently left out -/
theorem covered_uncovered_partition :
    ((RoundTrip.modelTypes Gen.structs Gen.namedTypes).all fun n => coveredModelTypes.contains n != uncoveredModelTypes.contains n) = true
    ∧ ((coveredModelTypes ++ uncoveredModelTypes).all fun n => (RoundTrip.modelTypes Gen.structs Gen.namedTypes).contains n) = true := by
  decide

/-- and the uncovered ones really are outside the theorem's scope (so the list above is not a stale under-claim) -/
theorem uncovered_not_plain :
    (uncoveredModelTypes.all fun n => !GenericF.plainB genEnv .yaml allLeafNames 14 (.named n)) = true := by
  decide

/-- instance: **`DeployConfig`** (resources with cpus and byte sizes, update / rollback configs with durations, restart
    policy, placement, labels) — a type reaching six hand-written codecs — round-trips in both renderings -/
theorem roundtrip_DeployConfig (fmt : Fmt) (v : Val) (hs : GenericF.Stable genEnv fmt allLeaves 14 (.named "DeployConfig") v) :
    ∃ t, encode genEnv fmt 14 (.named "DeployConfig") v = .ok t ∧ decode genEnv 14 (.named "DeployConfig") t = .ok v := by
  have hp : GenericF.plainB genEnv fmt allLeaves.names 14 (.named "DeployConfig") = true := by
    cases fmt <;> decide
  exact generic_roundtrip_all_leaves genEnv leafEnv_gen fmt 14 _ v hp hs

/-! ## non-vacuity -/

def lcVals (fd : FieldDesc) : Val :=
  if fd.goName = "Driver" then .str "json-file"
  else if fd.goName = "Options" then .map [("max-size", .str "10m")]
  else .null

/-- non-vacuity: a logging configuration with driver options (a default-encoded leaf, `Options`) is a stable value -/
theorem logging_stable (fmt : Fmt) : GenericF.Stable genEnv fmt allLeaves 6 (.named "LoggingConfig")
    (.map [("Driver", .str "json-file"), ("Options", .map [("max-size", .str "10m")]), ("Extensions", .null)]) := by
  have hfs : findStruct genEnv.structs "LoggingConfig" = some Gen.struct_LoggingConfig := by decide
  have hl : allLeaves.names.contains "LoggingConfig" = false := by decide
  simp only [GenericF.Stable, hl, hfs, Bool.false_eq_true, if_false]
  refine ⟨Or.inl (by cases fmt <;> rfl), lcVals, rfl, ?_⟩
  intro fd hm hr
  simp only [Gen.struct_LoggingConfig, List.mem_cons, List.mem_nil_iff, or_false] at hm
  rcases hm with h | h | h <;> subst h
  · refine ⟨fun h => by simp at h, ?_, ?_⟩
    · intro _ h; cases fmt <;> simp [omittedF, skipOf, omitOf, zeroOf, isZeroY, isEmptyJ, primZero, lcVals] at h
    · intro _ _; simp [GenericF.Stable, lcVals, isScalar]
  · refine ⟨fun h => by simp at h, ?_, ?_⟩
    · intro _ h
      exfalso
      cases fmt
      · revert h; decide
      · revert h; decide
    · intro _ _
      have hl2 : allLeaves.names.contains "Options" = true := by decide
      simp only [GenericF.Stable, hl2, if_true]
      refine ⟨by decide, ?_, by simp [lcVals]⟩
      simp only [allLeaves, leafOK]
      simp [IsStrStrMap, lcVals, allStrVals]
  · exact ⟨fun _ => rfl, fun h => by simp at h, fun h => by simp at h⟩

example (fmt : Fmt) : ∃ t, encode genEnv fmt 6 (.named "LoggingConfig")
      (.map [("Driver", .str "json-file"), ("Options", .map [("max-size", .str "10m")]), ("Extensions", .null)]) = .ok t ∧
    decode genEnv 6 (.named "LoggingConfig") t =
      .ok (.map [("Driver", .str "json-file"), ("Options", .map [("max-size", .str "10m")]), ("Extensions", .null)]) :=
  generic_roundtrip_all_leaves genEnv leafEnv_gen fmt 6 _ _ (by cases fmt <;> decide) (logging_stable fmt)
end CV.C09
