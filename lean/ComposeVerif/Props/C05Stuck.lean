import ComposeVerif.Props.C05
import ComposeVerif.Lemmas.ExtendsStuck
/-!
# C05 — "a missing base or file is an error": and it is *that* error

`stuckClass` (Spec/Extends.lean) follows the links of a service without merging anything and names the class of the
first link that cannot be followed.  Resolving such a service reports exactly that class — the tracker does not
intervene (it would mean a cycle, and a chain that gets stuck has none) and the recursion does not run out of fuel.
-/
namespace CV.Extends
open CV CV.Val

/-- resolving, from the raw services mapping, a service whose chain gets stuck with class `c` fails with `c` -/
theorem stuck_service_error_class {E : Env} (hE : FuelFree E) (hC : NoCircularEnv E)
    (hmain : fileServices E.fs E.mainFile = none) {S : KVs} {n c : String} {f : Nat}
    (h : stuckClass E f S n = some c) :
    applySvc E (fuelFor E S) E.mainFile n S [] = .err c := by
  rcases applySvc_stuck E f (fuelFor E S) E.mainFile n S [] S (Inv.refl E S) h with r | r | r
  · exact r
  · exfalso
    obtain ⟨c', hc1, hc2⟩ := applySvc_circular_sound E hC hmain S _ E.mainFile n S [] S (Inv.refl E S)
      (Or.inl ⟨rfl, rfl⟩) (TrOK.nil E S (S, n)) r
    have hcyc : Cyclic E (S, n) := by
      rcases hc1 with hc1 | hc1
      · rw [hc1] at hc2; exact Or.inl hc2
      · exact Or.inr ⟨c', hc1, hc2⟩
    rw [hcyc.stuckClass_none f S n] at h; cases h
  · exfalso
    exact (applySvc_no_fuel E hE S (fuelFor E S) E.mainFile n S [] (by simp [allFiles]) (KeysSub.self E S)
      List.nodup_nil (fun _ hk => by cases hk) (by simp [fuelFor])).1 r

/-- … so a document whose first visited service gets stuck with class `c` makes `ApplyExtends` fail with `c` -/
theorem first_visited_stuck_is_error {E : Env} (hE : FuelFree E) (hC : NoCircularEnv E)
    (hmain : fileServices E.fs E.mainFile = none) {dict S : KVs} {n c : String} {rest : List String} {f : Nat}
    (hS : lookup "services" dict = some (.map S)) (h : stuckClass E f S n = some c) :
    applyExtendsOrd E (n :: rest) dict = .err c := by
  have := stuck_service_error_class hE hC hmain h
  simp [applyExtendsOrd, hS, applyAll, this]

/-- the per-service form, at any depth: whatever has been memoised and whatever the tracker holds, the outcome on a
stuck chain is the class, a tracker rejection, or the fuel marker — never a result, never another class -/
theorem stuck_service_outcomes (E : Env) {c : String} (f fuel : Nat) (cf n : String) (cur orig : KVs) (tr : List Key)
    (hi : Inv E orig cur) (h : stuckClass E f orig n = some c) :
    applySvc E fuel cf n cur tr = .err c ∨ applySvc E fuel cf n cur tr = .err "circular" ∨
      applySvc E fuel cf n cur tr = .panic fuelMark :=
  applySvc_stuck E f fuel cf n cur tr orig hi h

/-- a stuck chain excludes a flattened form and a cycle -/
theorem stuck_excludes_flat_and_cycle {E : Env} {S : KVs} {n c : String} {f : Nat}
    (h : stuckClass E f S n = some c) : (∀ v, ¬ Flat E S n v) ∧ ¬ Cyclic E (S, n) := by
  constructor
  · intro v hf
    rw [hf.stuckClass_none f] at h; cases h
  · intro hc
    rw [hc.stuckClass_none f S n] at h; cases h

/-! ### non-vacuity: the three usual classes, computed -/

example : stuckClass Neg.env 3 [("a", .map [("extends", .str "zz")])] "a" = some "notFound" := rfl
example : stuckClass Neg.env 3 [("a", .map [("extends", .map [("service", .str "b"), ("file", .str "nope.yaml")])])] "a"
    = some "noFile" := rfl
example : stuckClass Neg.env 3 [("a", .map [("extends", .map [("service", .str "zz"), ("file", .str "o.yaml")])])] "a"
    = some "notFoundInFile" := rfl

end CV.Extends
