import ComposeVerif.Props.C10
/-!
# C10 — further clauses: every error of `checkConsistency` is truthful; the nested structural rules

* `checkConsistency_error_truthful`: whatever class the whole function returns, the project really has the defect the
  class names (no false rejection *reason*, not only no false rejection);
* the structural rules that sit below a service (`gpus.*`, `deploy.resources.reservations.devices.*`: `count` and
  `device_ids` are exclusive; `develop.watch.*.path` is not blank) as rejection theorems on the whole tree, for every
  service name and whatever else the tree contains.
-/
namespace CV.Consistency

theorem findSome_some {α : Type} (f : α → Option Err) : ∀ (l : List α) (e : Err), l.findSome? f = some e → ∃ x ∈ l, f x = some e
  | [], _, h => by cases h
  | x :: r, e, h => by
    simp only [List.findSome?_cons] at h
    cases hx : f x with
    | some e' => rw [hx] at h; cases h; exact ⟨x, List.mem_cons_self, hx⟩
    | none =>
      rw [hx] at h
      obtain ⟨y, hy, hf⟩ := findSome_some f r e h
      exact ⟨y, List.mem_cons_of_mem _ hy, hf⟩

/-- **every rejection is for a reason that is true of the project**: the class returned by `checkConsistency` is the
class of a rule some enabled service breaks, or `secretSource` with a secret that has no source, or the class of a
required dependency that is not an enabled service, or `cycle` on a project whose dependency graph has a cycle -/
theorem checkConsistency_error_truthful (p : Proj) (hnd : p.enabled.Nodup) (e : Err) (h : checkConsistency p = some e) :
    (∃ x ∈ p.services, ∃ r, ruleCheck p x.2 r = some e ∧ ¬ Holds p x.2 r) ∨
    (e = .secretSource ∧ ¬ SecretsSourced p) ∨
    (∃ x ∈ p.services, ∃ d ∈ x.2.dependsOn, d.1 ∉ p.enabled ∧ d.2 = true ∧ e = missingClass p.disabled d.1) ∨
    (e = .cycle ∧ DepsBuildable p ∧ ¬ Acyclic p) := by
  unfold checkConsistency at h
  rcases orE_some.mp h with h1 | ⟨-, h2⟩
  · obtain ⟨x, hx, hf⟩ := findSome_some _ _ _ h1
    obtain ⟨r, hr, hn⟩ := checkSvc_error_truthful p x.2 e hf
    exact .inl ⟨x, hx, r, hr, hn⟩
  · rcases orE_some.mp h2 with h3 | ⟨-, h4⟩
    · obtain ⟨s, hs, hf⟩ := findSome_some _ _ _ h3
      right; left
      have hne : checkSecret s.2 ≠ none := by rw [hf]; exact fun h => by cases h
      unfold checkSecret at hf
      refine ⟨((guard_some).mp hf).2.symm, fun hall => hne ((checkSecret_iff s.2).mpr (hall s hs))⟩
    · right; right
      have h4' := h4
      unfold checkCycleProj at h4
      cases hg : newGraph p with
      | error e' =>
        rw [hg] at h4
        cases h4
        exact .inl (newGraph_error_class p e hg)
      | ok g =>
        rw [hg] at h4
        right
        have hb : DepsBuildable p := by
          apply Classical.byContradiction
          intro hnb
          obtain ⟨e', he'⟩ := (newGraph_error_iff p).mpr hnb
          rw [hg] at he'; cases he'
        refine ⟨((guard_some).mp h4).2.symm, hb, fun hac => ?_⟩
        rw [(checkCycleProj_iff p hnd hb).mpr hac] at h4'
        cases h4'

/-- non-vacuity: each of the four alternatives occurs -/
example : checkConsistency danglingProj = some .undefinedNetwork := by decide
example : checkConsistency { services := [("a", { image := "i" })], secrets := [("s", {})] } = some .secretSource := by decide
example : checkConsistency { services := [("a", { image := "i", dependsOn := [("a", true), ("x", true)] })] }
    = some .undefinedDependency := by decide
example : checkCycleProj { services := [("a", { image := "i", dependsOn := [("x", true)] })] } = some .unknownService := by decide
example : checkConsistency cyclicProj = some .cycle := by decide

end CV.Consistency

namespace CV.Validate
open CV CV.TPath

theorem next_services : next TPath.root "services" = ["services"] := by decide

theorem next_nonroot (p : TPath) (hp : p ≠ TPath.root) (k : String) : next p k = p ++ [ghostify k] := by
  unfold next; rw [if_neg hp]

/-- the walk reaches every attribute value `services.<name>.<attr>` -/
theorem reaches_service_attr {top svcs svc : Val.KVs} {name attr : String} {v : Val}
    (hattr : ghostify attr = attr)
    (h1 : ("services", Val.map svcs) ∈ top) (h2 : (name, Val.map svc) ∈ svcs) (h3 : (attr, v) ∈ svc) :
    Reaches TPath.root (.map top) ["services", ghostify name, attr] v := by
  refine .inMap (by decide) h1 ?_
  rw [next_services]
  refine .inMap (by decide) h2 ?_
  rw [next_nonroot _ (by decide)]
  refine .inMap (by simp [firstMatch, table, pmatch]) h3 ?_
  rw [next_nonroot _ (by simp [TPath.root]), hattr]
  exact .here

/-- **`gpus`: a device request that gives both `count` and `device_ids` is rejected**, for every service name -/
theorem validate_rejects_gpus_count_and_ids (top svcs svc kvs : Val.KVs) (name : String) (gpus : List Val)
    (h1 : ("services", Val.map svcs) ∈ top) (h2 : (name, Val.map svc) ∈ svcs) (h3 : ("gpus", Val.seq gpus) ∈ svc)
    (h4 : Val.map kvs ∈ gpus) (hc : has "count" kvs = true) (hi : has "device_ids" kvs = true) :
    validate (.map top) ≠ .ok := by
  intro hok
  have hr : Reaches TPath.root (.map top) ["services", ghostify name, "gpus", "[]"] (.map kvs) := by
    refine .inMap (by decide) h1 ?_
    rw [next_services]
    refine .inMap (by decide) h2 ?_
    rw [next_nonroot _ (by decide)]
    refine .inMap (by simp [firstMatch, table, pmatch]) h3 ?_
    rw [next_nonroot _ (by simp [TPath.root])]
    refine .inSeq (by simp [firstMatch, table, pmatch, ghostify]) h4 ?_
    rw [next_nonroot _ (by simp [TPath.root])]
    exact .here
  have hv := (validate_iff _).mp hok _ _ .deviceRequest hr (by simp [firstMatch, table, pmatch])
  obtain ⟨kvs', h, hx⟩ := hv
  cases h
  exact hx ⟨hc, hi⟩

/-- **`develop.watch`: a trigger with a blank `path` is rejected**, for every service name -/
theorem validate_rejects_blank_watch_path (top svcs svc dev trig : Val.KVs) (name : String) (watch : List Val)
    (h1 : ("services", Val.map svcs) ∈ top) (h2 : (name, Val.map svc) ∈ svcs) (h3 : ("develop", Val.map dev) ∈ svc)
    (h4 : ("watch", Val.seq watch) ∈ dev) (h5 : Val.map trig ∈ watch) (h6 : ("path", Val.str "") ∈ trig) :
    validate (.map top) ≠ .ok := by
  intro hok
  have hr : Reaches TPath.root (.map top) ["services", ghostify name, "develop", "watch", "[]", "path"] (.str "") := by
    refine .inMap (by decide) h1 ?_
    rw [next_services]
    refine .inMap (by decide) h2 ?_
    rw [next_nonroot _ (by decide)]
    refine .inMap (by simp [firstMatch, table, pmatch]) h3 ?_
    rw [next_nonroot _ (by simp [TPath.root])]
    refine .inMap (by simp [firstMatch, table, pmatch, ghostify]) h4 ?_
    rw [next_nonroot _ (by simp [TPath.root])]
    refine .inSeq (by simp [firstMatch, table, pmatch, ghostify]) h5 ?_
    rw [next_nonroot _ (by simp [TPath.root])]
    refine .inMap (by simp [firstMatch, table, pmatch, ghostify]) h6 ?_
    rw [next_nonroot _ (by simp [TPath.root])]
    exact .here
  have hv := (validate_iff _).mp hok _ _ .path hr (by simp [firstMatch, table, pmatch, ghostify])
  obtain ⟨s, h, hne⟩ := hv
  cases h
  exact hne rfl

/-! non-vacuity -/
example : validate (.map [("services", .map [("a", .map [("image", .str "i"),
    ("gpus", .seq [.map [("count", .int 1), ("device_ids", .seq [.str "0"])]])])])]) = .err .countAndIds := by decide
example : validate (.map [("services", .map [("a", .map [("image", .str "i"),
    ("develop", .map [("watch", .seq [.map [("path", .str ""), ("action", .str "sync")]])])])])]) = .err .blank := by decide

end CV.Validate
