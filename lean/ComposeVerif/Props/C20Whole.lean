import ComposeVerif.Props.C20
import ComposeVerif.Model.Pipeline
import ComposeVerif.Lemmas.SecretsLoad
/-!
# C20 — the composed pipeline (round 6)

`Model/Pipeline.lean` composes the stage models in the loader's order up to the raw model `load` hands to
`modelToProject`; its `envStage` is where values of the environment enter the secrets and configs sections.  The
theorems here are about that composed function: what its environment stage does to the two sections is exactly the
first stage of C20's own pipeline (`Secrets.loadDict` starts "just before `ResolveEnvironment`"), and whatever model
the stages before it produce, if it is untainted then after the stage the taint sits only under the carriers.
-/
namespace CV.Secrets
open CV CV.Val

theorem lookup_resolveServicesEnv_ne {k : String} (hk : k ≠ "services") (env : Env) (dict : KVs) :
    Val.lookup k (Pipeline.resolveServicesEnv env dict) = Val.lookup k dict := by
  unfold Pipeline.resolveServicesEnv
  split
  · exact lookup_insert_ne hk _ _
  · rfl

/-- the environment stage of the composed pipeline acts on the `secrets` section exactly as C20's first stage does
(the services' environment resolution and the configs resolution do not touch it) -/
theorem pipeline_envStage_secrets (env : Env) (dict : KVs) :
    Val.lookup "secrets" (Pipeline.resolveEnvironment env dict) = Val.lookup "secrets" (resolveSecretsEnv env dict) := by
  unfold Pipeline.resolveEnvironment resolveConfigsEnv resolveSecretsEnv
  rw [lookup_resolveSection_ne (by decide), lookup_resolveSection_self, lookup_resolveSection_self,
    lookup_resolveServicesEnv_ne (by decide)]

/-- … and on the `configs` section -/
theorem pipeline_envStage_configs (env : Env) (dict : KVs) :
    Val.lookup "configs" (Pipeline.resolveEnvironment env dict) = Val.lookup "configs" (resolveConfigsEnv env dict) := by
  unfold Pipeline.resolveEnvironment resolveConfigsEnv resolveSecretsEnv
  rw [lookup_resolveSection_self, lookup_resolveSection_self, lookup_resolveSection_ne (by decide),
    lookup_resolveServicesEnv_ne (by decide)]

/-- **taint confinement at the environment stage of the composed pipeline**: for every configuration `c` (options,
environment, …) and every model the earlier stages hand over, if that model is untainted then in the model
`Pipeline.envStage` returns every secret is untainted except a string under its first `x-#value` entry, and every
config except a string under its first `content` entry: values of the environment enter the two sections there only -/
theorem pipeline_envStage_confines_taint {P : String → Prop} (hxv : P xValue) (hct : P "content")
    (c : Pipeline.Cfg) {kvs d : KVs} (h : AllStrKV P kvs) (he : Pipeline.envStage c (.map kvs) = .ok d) :
    (∀ objs, Val.lookup "secrets" d = some (.map objs) → ∀ e ∈ objs, P e.1 ∧ ValOkF P xValue e.2) ∧
    (∀ objs, Val.lookup "configs" d = some (.map objs) → ∀ e ∈ objs, P e.1 ∧ ValOkF P "content" e.2) := by
  simp only [Pipeline.envStage] at he
  cases he
  constructor
  · intro objs hl
    rw [pipeline_envStage_secrets, resolveSecretsEnv, lookup_resolveSection_self] at hl
    cases hs : Val.lookup "secrets" kvs with
    | none => rw [hs] at hl; simp [rsv] at hl
    | some v =>
      rw [hs] at hl
      cases v with
      | map objs0 =>
        simp only [rsv, Option.some.injEq, Val.map.injEq] at hl
        subst hl
        have h0 : AllStrKV P objs0 := by simpa [AllStr] using AllStrKV_lookup h hs
        exact forall_resolveObjs (Q0 := fun n v => P n ∧ AllStr P v) (Q1 := fun n v => P n ∧ ValOkF P xValue v) xValue c.env
          (fun n v hq => ⟨hq.1, ValOkF_resolveObj hxv c.env hq.2⟩) (fun e he => AllStrKV_forall h0 e he)
      | _ => simp [rsv] at hl
  · intro objs hl
    rw [pipeline_envStage_configs, resolveConfigsEnv, lookup_resolveSection_self] at hl
    cases hs : Val.lookup "configs" kvs with
    | none => rw [hs] at hl; simp [rsv] at hl
    | some v =>
      rw [hs] at hl
      cases v with
      | map objs0 =>
        simp only [rsv, Option.some.injEq, Val.map.injEq] at hl
        subst hl
        have h0 : AllStrKV P objs0 := by simpa [AllStr] using AllStrKV_lookup h hs
        exact forall_resolveObjs (Q0 := fun n v => P n ∧ AllStr P v) (Q1 := fun n v => P n ∧ ValOkF P "content" v) "content" c.env
          (fun n v hq => ⟨hq.1, ValOkF_resolveObj hct c.env hq.2⟩) (fun e he => AllStrKV_forall h0 e he)
      | _ => simp [rsv] at hl

end CV.Secrets
