import ComposeVerif.Lemmas.C01Pipeline
import ComposeVerif.Model.C01Pipeline
import ComposeVerif.Lemmas.C01PipeConv
import ComposeVerif.Props.C01
import ComposeVerif.Props.C04
import ComposeVerif.Props.C11
import ComposeVerif.Props.C12
/-!
# C01 — the stage models of the whole pipeline have no panic outcome

`loadYamlFile` / `loadYamlModel` / `load` run, on the raw tree,

    convert → Interpolate → fixEmpty → ApplyExtends → reset.Apply → ApplyInclude → Merge → EnforceUnicity
      → [schema.Validate] → Canonical → OmitEmpty → EnforceUnicity → SetDefaultValues → [validation.Validate]
      → ResolveRelativePaths → ResolveEnvironment → Normalize

Each stage has an executable model whose outcome type has a `panic site` constructor for every unchecked assertion of
the Go body; the models are tied to the code by their owners' correspondence streams.  This module states, stage by
stage, that the panic constructor is unreachable — importing the owners' theorems where they exist, proving the missing
ones here (from the owners' definitions, nothing added to their files) — and says exactly what is left to the site review.

| stage | model (owner) | theorem | strength |
|---|---|---|---|
| convert / top-level test | `C01.convert`, `convertTop`, `parseYAMLTop` (C01) | `convertTop_total`, `parseYAML_total` | every tree |
| alias expansion + tree check | `C01.Reset.run` (C01) | `alias_resolution_total`, `decode_input_acyclic` | every arena (no panic constructor; never loops) |
| Interpolate | `Interp.interpolate` (C08) | `interpolate_never_panics` (here, from C07 `subst_never_panics`) | every tree, table, environment |
| fixEmpty | `C01.fixEmpty` (C01) | total function; `walkers_establish_schema_input` | every tree |
| ApplyExtends | `C01.Ext.resolve` (C01) | `extends_never_panics`, `extends_terminates` (Props/C01) | every services map / file system; the merge inside is the next row |
| ExtendService / Merge | `Merge.extendService`, `Merge.merge` (C04) | `extendService_never_panics`, `merge_never_panics` | every pair of trees |
| ApplyInclude | `C01.Inc.loadModel` (C01) | `include_terminates`, no panic constructor reachable (`Inc.loadModel_ne_panic`) | every file system |
| EnforceUnicity (both runs) | `Unicity.enforceTop` (C04) | `enforceTop_never_panics` | every tree |
| Canonical | `Short.canonical` (C03) | `canonical_never_panics` (here) | every tree (since the round-5 repair of `transformKeyValue`; before: ok, err, or that ONE site) |
| OmitEmpty | `C01.omitEmptyTop` (C01) | `omitEmpty_total`, `omitEmpty_leaves_no_nil` | every tree |
| SetDefaultValues | `C11.setDefaultValues` (C11) | `setDefaultValues_never_panics` (here) | every tree, every table |
| validation.Validate | `Validate.validate` (C10) | `validate_only_panic_sites` (here) | every tree: ok, err, or one of THREE sites, each `schema`-guarded — see below |
| ResolveRelativePaths | `Paths.resolve` (C12) | `resolve_never_panics` | every tree |
| Normalize (+ normalizeNetworks, setNameFromKey) | `C11.normalize` (C11) | `normalize_never_panics` | every tree |

Left to the site review (`Props/C01Sites.lean`) and the oracle, not to a theorem:
* (until round 5: `transformKeyValue`'s `e.(string)` was reachable in the *model* of `Canonical` on any tree, and the
  argument for the pipeline was "the first `EnforceUnicity` — its `keyValueIndexer` on the same pattern — rejects a
  non-string item before".  Trying to PROVE that composition showed it false: `enforceUnicity` does not descend into
  sequences, `transform` does and matches `*` against the `[]` step, so `services: [{build: {additional_contexts: [1]}}]`
  with schema validation and extends skipped crashed the real loader.  Repaired in compose-go (`fix:` 717fb8d); the site
  is gone from the code, from C03's model and from this statement.)
* `checkFileObject` / `checkPath` / `checkDeviceRequest`: reachable on trees that did not pass the schema; in the pipeline
  `validation.Validate` runs under the same `!SkipValidation` test as `schema.Validate`, after it, and the schema allows
  only the asserted kind at the three patterns — rows marked `schema`, `Sites.schema_guards_hold`, `kindsAt_sound`.
* stages without a stage model in this file: `ResolveEnvironment` (C20's `Secrets` model has its own totality facts),
  the typed decode `Transform` (C03 `ShortDecode`, C09), `checkConsistency` (C10: a pure function on the typed project;
  its nil dereferences are listed by `Gen/NilDerefs.lean`, `Sites.nil_derefs_guarded`).
-/
namespace CV.C01.Pipeline
open CV

/-- **Interpolate**: no input makes the interpolation stage panic (the only candidate, `template.Substitute`, has no
panic: C07 `subst_never_panics`) -/
theorem interpolate_never_panics (c : Interp.Cfg) (kvs : List (String × Val)) (site : String) :
    Interp.interpolate c kvs ≠ .panic site :=
  interpKVs_never_panics c kvs TPath.root site

/-- **SetDefaultValues**: for every tree and every rule table the outcome is ok or err -/
theorem setDefaultValues_never_panics (tbl : List (List String × String)) (d : Val.KVs) (site : String) :
    C11.setDefaultValues tbl d ≠ .panic site :=
  setDefaults_never_panics tbl (.map d) TPath.root site

/-- **Canonical**: on every tree, for either value of `ignoreParseError`, the outcome is ok or err -/
theorem canonical_never_panics (ign : Bool) (v : Val) (site : String) : Short.canonical ign v ≠ .panic site :=
  fun h => transform_onlyKV ign v TPath.root site h

/-- the inputs that used to reach `e.(string)`: a non-string item under the `transformKeyValue` pattern, in a service
of a mapping and in an element of a `services:` LIST (the shape `EnforceUnicity` never looks into) — errors now -/
example : Short.canonical false (.map [("services", .map [("a", .map [("build", .map [("additional_contexts", .seq [.int 1])])])])])
    = .err "type" := by rfl
example : Short.canonical false (.map [("services", .seq [.map [("build", .map [("additional_contexts", .seq [.int 1])])]])])
    = .err "type" := by rfl
example : ∃ r, Short.canonical false (.map [("services", .map [("a", .map [("build", .map [("additional_contexts", .seq [.str "c=./d"])])])])])
    = .ok r := ⟨_, rfl⟩

/-- **validation.Validate**: on every tree the outcome is ok, err, or a panic at one of the three assertion sites that
the site review marks `schema` -/
theorem validate_only_panic_sites (t : Val) (site : String) (h : Validate.validate t = .panic site) :
    site ∈ ["validation.init.checkFileObject", "validation.checkPath", "validation.checkDeviceRequest"] :=
  validate_panic_site t site h

/-- **the composition**: every stage that has a model is free of panics on EVERY tree — unconditionally for twelve
stages, and up to three named (schema-guarded) sites for `validation.Validate` -/
theorem pipeline_stages_never_panic :
    (∀ raw s, convertTop raw ≠ .panic s) ∧
    (∀ c kvs s, Interp.interpolate c kvs ≠ .panic s) ∧
    (∀ base over s, Merge.extendService base over ≠ .panic s) ∧
    (∀ base over s, Merge.merge base over ≠ .panic s) ∧
    (∀ v s, Unicity.enforceTop v ≠ .panic s) ∧
    (∀ ign v s, Short.canonical ign v ≠ .panic s) ∧
    (∀ pats m s, omitEmptyTop pats m ≠ .panic s) ∧
    (∀ tbl d s, C11.setDefaultValues tbl d ≠ .panic s) ∧
    (∀ t s, Validate.validate t = .panic s →
      s ∈ ["validation.init.checkFileObject", "validation.checkPath", "validation.checkDeviceRequest"]) ∧
    (∀ cfg v s, Paths.resolve cfg v ≠ .panic s) ∧
    (∀ clean env d s, C11.normalize clean env d ≠ .panic s) ∧
    (∀ fs fuel main svcs name tr s, (Ext.resolve fs main fuel svcs name tr).1 ≠ .panic s) ∧
    (∀ fs fuel files inc s, Inc.loadModel fs fuel files inc ≠ .panic s) :=
  ⟨convertTop_total, interpolate_never_panics, C04.extendService_never_panics, C04.merge_never_panics,
   C04.enforceTop_never_panics, canonical_never_panics, omitEmpty_total, setDefaultValues_never_panics,
   validate_only_panic_sites, Paths.resolve_never_panics, C11.normalize_never_panics,
   fun fs fuel main svcs name tr s => extends_never_panics fs fuel main svcs name tr s,
   fun fs fuel files inc s => Inc.loadModel_ne_panic fs fuel files inc s⟩

end CV.C01.Pipeline

/-!
# the stages composed (round 5): `Model/C01Pipeline.lean`

`Pipe.loadModel` chains the stage models in the order and under the option tests of `processRawYaml` /
`loadYamlModel` / `load`.  The conjunction above becomes a statement about ONE function, for every option set, every
parameter (tables, environment, working directory, schema verdict), every list of documents:
a panic outcome of the composition can only be one of the three sites of `validation.Validate` — and with
`SkipValidation` (the option under which every panic of the earlier rounds was found) there is none at all.
`ApplyExtends` / processors / `ApplyInclude` enter as a parameter with the hypothesis that they do not panic (their own
theorems: `extends_never_panics`, `Inc.loadModel_ne_panic`, `alias_resolution_total`).
-/
namespace CV.C01.Pipe
open CV

/-- a panic outcome, if any, is at one of the sites `S` -/
def PS {α : Type} (S : List String) (o : Out α) : Prop := ∀ s, o = .panic s → s ∈ S

theorem ps_ok {α : Type} (S : List String) (a : α) : PS S (Out.ok a) := by intro s h; cases h
theorem ps_err {α : Type} (S : List String) (e : String) : PS S (Out.err e : Out α) := by intro s h; cases h
theorem ps_nil_mono {α : Type} {S : List String} {o : Out α} (h : PS [] o) : PS S o := fun s e => absurd (h s e) (by simp)
theorem ps_bind {α β : Type} {S : List String} {o : Out α} {f : α → Out β} (ho : PS S o) (hf : ∀ a, PS S (f a)) :
    PS S (o.bind f) := by
  intro s h
  cases o with
  | ok a => exact hf a s h
  | err e => cases h
  | panic t => simp only [Out.bind] at h; cases h; exact ho _ rfl

theorem ps_ofWalker {α : Type} (st : String) (x : C01.Out α) (h : ∀ s, x ≠ .panic s) : PS [] (ofWalker st x) := by
  intro s e; cases x <;> simp only [ofWalker] at e <;> cases e; exact absurd rfl (h _)
theorem ps_ofInterp {α : Type} (x : Interp.Out α) (h : ∀ s, x ≠ .panic s) : PS [] (ofInterp x) := by
  intro s e; cases x <;> simp only [ofInterp] at e <;> cases e; exact absurd rfl (h _)
theorem ps_ofMerge {α : Type} (st : String) (x : Merge.Out α) (h : ∀ s, x ≠ .panic s) : PS [] (ofMerge st x) := by
  intro s e; cases x <;> simp only [ofMerge] at e <;> cases e; exact absurd rfl (h _)
theorem ps_ofShort {α : Type} (x : Short.Out α) (h : ∀ s, x ≠ .panic s) : PS [] (ofShort x) := by
  intro s e; cases x <;> simp only [ofShort] at e <;> cases e; exact absurd rfl (h _)
theorem ps_ofC11 {α : Type} (st : String) (x : C11.Out α) (h : ∀ s, x ≠ .panic s) : PS [] (ofC11 st x) := by
  intro s e; cases x <;> simp only [ofC11] at e <;> cases e; exact absurd rfl (h _)
theorem ps_ofPaths {α : Type} (x : Paths.Out α) (h : ∀ s, x ≠ .panic s) : PS [] (ofPaths x) := by
  intro s e; cases x <;> simp only [ofPaths] at e <;> cases e; exact absurd rfl (h _)

def validateSites : List String :=
  ["validation.init.checkFileObject", "validation.checkPath", "validation.checkDeviceRequest"]

theorem ps_ofValidate (v : Val) : PS validateSites (ofValidate v (Validate.validate v)) := by
  intro s e
  cases hv : Validate.validate v with
  | ok => rw [hv] at e; cases e
  | err c => rw [hv] at e; cases e
  | panic t => rw [hv] at e; simp only [ofValidate] at e; cases e; exact Pipeline.validate_only_panic_sites v _ hv

/-- **the glue is lossless**: the `GoVal` ↔ `Val` conversions between the walkers' models and the other owners' models are
inverse to each other on everything the composition passes through them — every `Val`, and every tree that `convert` +
`fixEmpty` produce (no nil slice, no `map[interface{}]interface{}`) -/
theorem conversions_lossless :
    (∀ v : Val, toVal (ofVal v) = v) ∧
    (∀ raw g : GoVal, convert raw = .ok g → ofVal (toVal (fixEmpty g)) = fixEmpty g) :=
  ⟨toVal_ofVal, fun raw g h =>
    have hw := walkers_establish_schema_input raw g h
    ofVal_toVal _ hw.2 hw.1⟩

/-- **one document**: `processRawYaml` — convert, interpolate, fixEmpty, extends / include, merge, unicity, schema,
canonical, omitEmpty, unicity — has no panic outcome, for every option set, parameter set, accumulated `dict` and raw
document, provided the extends / include stage has none -/
theorem processRawYaml_never_panics (o : Opts) (P : Params) (hExt : ∀ v s, P.extInc v ≠ .panic s)
    (dict : Val) (raw : GoVal) (s : String) : processRawYaml o P dict raw ≠ .panic s := by
  have key : PS [] (processRawYaml o P dict raw) := by
    unfold processRawYaml
    refine ps_bind (ps_ofWalker _ _ (convertTop_total raw)) fun kvs0 => ?_
    refine ps_bind (by split; exact ps_ok _ _; exact ps_ofInterp _ (Pipeline.interpolate_never_panics _ _)) fun cfg1 => ?_
    refine ps_bind (fun t e => absurd e (hExt _ t)) fun cfg2 => ?_
    refine ps_bind (ps_ofMerge _ _ (C04.merge_never_panics _ _)) fun d1 => ?_
    refine ps_bind (ps_ofMerge _ _ (C04.enforceTop_never_panics _)) fun d2 => ?_
    refine ps_bind (by split; exact ps_ok _ _; split; exact ps_ok _ _; exact ps_err _ _) fun d3 => ?_
    refine ps_bind (ps_ofShort _ (Pipeline.canonical_never_panics _ _)) fun d4 => ?_
    refine ps_bind (ps_ofWalker _ _ (omitEmpty_total _ _)) fun d5 => ?_
    exact ps_ofMerge _ _ (C04.enforceTop_never_panics _)
  exact fun e => absurd (key s e) (by simp)

/-- **all documents of all files** -/
theorem loadFiles_never_panics (o : Opts) (P : Params) (hExt : ∀ v s, P.extInc v ≠ .panic s) :
    ∀ (raws : List GoVal) (dict : Val) (s : String), loadFiles o P dict raws ≠ .panic s
  | [], dict, s => by simp [loadFiles]
  | raw :: rest, dict, s => by
    unfold loadFiles
    intro e
    cases h : processRawYaml o P dict raw with
    | ok d => rw [h] at e; exact loadFiles_never_panics o P hExt rest d s e
    | err x => rw [h] at e; cases e
    | panic t => exact processRawYaml_never_panics o P hExt dict raw t h

/-- **the whole model load, full statement**: for every option set, parameter set and list of documents the composition
answers ok, err, or a panic at one of the three assertion sites of `validation.Validate` (each `schema`-guarded in the
site review) -/
theorem loadModel_panics_only_at_validate_sites (o : Opts) (P : Params) (hExt : ∀ v s, P.extInc v ≠ .panic s)
    (raws : List GoVal) (s : String) (h : loadModel o P raws = .panic s) : s ∈ validateSites := by
  have key : PS validateSites (loadModel o P raws) := by
    unfold loadModel
    refine ps_bind (ps_nil_mono fun t e => absurd e (loadFiles_never_panics o P hExt raws _ t)) fun d0 => ?_
    refine ps_bind (by split; exact ps_ok _ _; exact ps_nil_mono (ps_ofC11 _ _ (Pipeline.setDefaultValues_never_panics _ _))) fun d1 => ?_
    refine ps_bind (by split; exact ps_ok _ _; exact ps_ofValidate d1) fun d2 => ?_
    refine ps_bind (by split; exact ps_nil_mono (ps_ofPaths _ (Paths.resolve_never_panics _ _)); exact ps_ok _ _) fun d3 => ?_
    simp only
    split
    · exact ps_err _ _
    · split
      · exact ps_err _ _
      · split
        · exact ps_ok _ _
        · exact ps_bind (ps_nil_mono (ps_ofC11 _ _ (C11.normalize_never_panics _ _ _))) fun kvs => ps_ok _ _
  exact key s h

/-- **with `SkipValidation`** (schema and `validation.Validate` both off — every tree reaches every other stage
unchecked): the composition never panics -/
theorem loadModel_never_panics_skipValidation (o : Opts) (P : Params) (hExt : ∀ v s, P.extInc v ≠ .panic s)
    (hskip : o.skipValidation = true) (raws : List GoVal) (s : String) : loadModel o P raws ≠ .panic s := by
  have key : PS [] (loadModel o P raws) := by
    unfold loadModel
    refine ps_bind (fun t e => absurd e (loadFiles_never_panics o P hExt raws _ t)) fun d0 => ?_
    refine ps_bind (by split; exact ps_ok _ _; exact ps_ofC11 _ _ (Pipeline.setDefaultValues_never_panics _ _)) fun d1 => ?_
    refine ps_bind (by simp only [hskip, if_true]; exact ps_ok _ _) fun d2 => ?_
    refine ps_bind (by split; exact ps_ofPaths _ (Paths.resolve_never_panics _ _); exact ps_ok _ _) fun d3 => ?_
    simp only
    split
    · exact ps_err _ _
    · split
      · exact ps_err _ _
      · split
        · exact ps_ok _ _
        · exact ps_bind (ps_ofC11 _ _ (C11.normalize_never_panics _ _ _)) fun kvs => ps_ok _ _
  exact fun e => absurd (key s e) (by simp)

/-! non-vacuity: the hypothesis on the parameter is satisfiable (the identity stage), and the exception of the full
statement is real IN THE COMPOSITION when the schema verdict is not tied to the tree: with a `schemaOK` that accepts
everything, `gpus: [1]` travels through convert, merge, unicity, canonical, omitEmpty, unicity and reaches
`checkDeviceRequest`'s `.(map[string]any)` (`configs: {a: 1}` does not get that far: `transformMaybeExternal` rejects it).  (What rules it out in the loader is gojsonschema — `schema_guards_hold`,
`kindsAt_sound` — plus the fact, not proved, that the stages in between keep the kind at the three patterns.) -/
example : ∀ (v : Val) (s : String), (fun v => Out.ok v : Val → Out Val) v ≠ .panic s := by intro v s h; cases h

example (c : Interp.Cfg) (pc : Paths.Cfg) :
    loadModel ⟨true, false, true, true, false⟩
      { interp := c, omitPats := [], defaults := [], paths := pc, clean := id, env := [], projectName := "p",
        schemaOK := fun _ => true, extInc := fun v => .ok v, resolveEnv := id }
      [.map [("services", .map [("s", .map [("gpus", .seq [.int 1])])])]]
    = .panic "validation.checkDeviceRequest" := by rfl

example (c : Interp.Cfg) (pc : Paths.Cfg) :
    loadModel ⟨true, true, true, true, false⟩
      { interp := c, omitPats := [], defaults := [], paths := pc, clean := id, env := [], projectName := "p",
        schemaOK := fun _ => true, extInc := fun v => .ok v, resolveEnv := id }
      [.map [("configs", .map [("a", .map [("file", .str "f")])])], .map [("services", .map [("s", .map [("image", .str "i")])])]]
    = .ok (.map [("configs", .map [("a", .map [("file", .str "f")])]), ("services", .map [("s", .map [("image", .str "i")])])]) := by rfl

end CV.C01.Pipe
