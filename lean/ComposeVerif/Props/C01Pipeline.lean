import ComposeVerif.Lemmas.C01Pipeline
import ComposeVerif.Props.C01
import ComposeVerif.Props.C04
import ComposeVerif.Props.C11
import ComposeVerif.Props.C12
/-!
# C01 — the stage models of the whole pipeline have no panic outcome

`loadYamlFile` / `loadYamlModel` / `load` run, on the raw tree,

    convert → Interpolate → fixEmpty → ApplyExtends → reset.Apply → ApplyInclude → Merge → EnforceUnicity
      → [schema.Validate] → Canonical → OmitEmpty → EnforceUnicity → SetDefaultValues → [validation.Validate]
      → ResolveRelativePaths → ResolveEnvironment → Normalize

Each stage has an executable model whose outcome type has a `panic site` constructor for every unchecked assertion of
the Go body; the models are tied to the code by their owners' correspondence streams.  This module states, stage by
stage, that the panic constructor is unreachable — importing the owners' theorems where they exist, proving the missing
ones here (from the owners' definitions, nothing added to their files) — and says exactly what is left to the site review.

| stage | model (owner) | theorem | strength |
|---|---|---|---|
| convert / top-level test | `C01.convert`, `convertTop`, `parseYAMLTop` (C01) | `convertTop_total`, `parseYAML_total` | every tree |
| alias expansion + tree check | `C01.Reset.run` (C01) | `alias_resolution_total`, `decode_input_acyclic` | every arena (no panic constructor; never loops) |
| Interpolate | `Interp.interpolate` (C08) | `interpolate_never_panics` (here, from C07 `subst_never_panics`) | every tree, table, environment |
| fixEmpty | `C01.fixEmpty` (C01) | total function; `walkers_establish_schema_input` | every tree |
| ApplyExtends | `C01.Ext.resolve` (C01) | `extends_never_panics`, `extends_terminates` (Props/C01) | every services map / file system; the merge inside is the next row |
| ExtendService / Merge | `Merge.extendService`, `Merge.merge` (C04) | `extendService_never_panics`, `merge_never_panics` | every pair of trees |
| ApplyInclude | `C01.Inc.loadModel` (C01) | `include_terminates`, no panic constructor reachable (`Inc.loadModel_ne_panic`) | every file system |
| EnforceUnicity (both runs) | `Unicity.enforceTop` (C04) | `enforceTop_never_panics` | every tree |
| Canonical | `Short.canonical` (C03) | `canonical_never_panics` (here) | every tree (since the round-5 repair of `transformKeyValue`; before: ok, err, or that ONE site) |
| OmitEmpty | `C01.omitEmptyTop` (C01) | `omitEmpty_total`, `omitEmpty_leaves_no_nil` | every tree |
| SetDefaultValues | `C11.setDefaultValues` (C11) | `setDefaultValues_never_panics` (here) | every tree, every table |
| validation.Validate | `Validate.validate` (C10) | `validate_only_panic_sites` (here) | every tree: ok, err, or one of THREE sites, each `schema`-guarded — see below |
| ResolveRelativePaths | `Paths.resolve` (C12) | `resolve_never_panics` | every tree |
| Normalize (+ normalizeNetworks, setNameFromKey) | `C11.normalize` (C11) | `normalize_never_panics` | every tree |

Left to the site review (`Props/C01Sites.lean`) and the oracle, not to a theorem:
* (until round 5: `transformKeyValue`'s `e.(string)` was reachable in the *model* of `Canonical` on any tree, and the
  argument for the pipeline was "the first `EnforceUnicity` — its `keyValueIndexer` on the same pattern — rejects a
  non-string item before".  Trying to PROVE that composition showed it false: `enforceUnicity` does not descend into
  sequences, `transform` does and matches `*` against the `[]` step, so `services: [{build: {additional_contexts: [1]}}]`
  with schema validation and extends skipped crashed the real loader.  Repaired in compose-go (`fix:` 717fb8d); the site
  is gone from the code, from C03's model and from this statement.)
* `checkFileObject` / `checkPath` / `checkDeviceRequest`: reachable on trees that did not pass the schema; in the pipeline
  `validation.Validate` runs under the same `!SkipValidation` test as `schema.Validate`, after it, and the schema allows
  only the asserted kind at the three patterns — rows marked `schema`, `Sites.schema_guards_hold`, `kindsAt_sound`.
* stages without a stage model in this file: `ResolveEnvironment` (C20's `Secrets` model has its own totality facts),
  the typed decode `Transform` (C03 `ShortDecode`, C09), `checkConsistency` (C10: a pure function on the typed project;
  its nil dereferences are listed by `Gen/NilDerefs.lean`, `Sites.nil_derefs_guarded`).
-/
namespace CV.C01.Pipeline
open CV

/-- **Interpolate**: no input makes the interpolation stage panic (the only candidate, `template.Substitute`, has no
panic: C07 `subst_never_panics`) -/
theorem interpolate_never_panics (c : Interp.Cfg) (kvs : List (String × Val)) (site : String) :
    Interp.interpolate c kvs ≠ .panic site :=
  interpKVs_never_panics c kvs TPath.root site

/-- **SetDefaultValues**: for every tree and every rule table the outcome is ok or err -/
theorem setDefaultValues_never_panics (tbl : List (List String × String)) (d : Val.KVs) (site : String) :
    C11.setDefaultValues tbl d ≠ .panic site :=
  setDefaults_never_panics tbl (.map d) TPath.root site

/-- **Canonical**: on every tree, for either value of `ignoreParseError`, the outcome is ok or err -/
theorem canonical_never_panics (ign : Bool) (v : Val) (site : String) : Short.canonical ign v ≠ .panic site :=
  fun h => transform_onlyKV ign v TPath.root site h

/-- the inputs that used to reach `e.(string)`: a non-string item under the `transformKeyValue` pattern, in a service
of a mapping and in an element of a `services:` LIST (the shape `EnforceUnicity` never looks into) — errors now -/
example : Short.canonical false (.map [("services", .map [("a", .map [("build", .map [("additional_contexts", .seq [.int 1])])])])])
    = .err "type" := by rfl
example : Short.canonical false (.map [("services", .seq [.map [("build", .map [("additional_contexts", .seq [.int 1])])]])])
    = .err "type" := by rfl
example : ∃ r, Short.canonical false (.map [("services", .map [("a", .map [("build", .map [("additional_contexts", .seq [.str "c=./d"])])])])])
    = .ok r := ⟨_, rfl⟩

/-- **validation.Validate**: on every tree the outcome is ok, err, or a panic at one of the three assertion sites that
the site review marks `schema` -/
theorem validate_only_panic_sites (t : Val) (site : String) (h : Validate.validate t = .panic site) :
    site ∈ ["validation.init.checkFileObject", "validation.checkPath", "validation.checkDeviceRequest"] :=
  validate_panic_site t site h

/-- **the composition**: every stage that has a model is free of panics on EVERY tree — unconditionally for twelve
stages, and up to three named (schema-guarded) sites for `validation.Validate` -/
theorem pipeline_stages_never_panic :
    (∀ raw s, convertTop raw ≠ .panic s) ∧
    (∀ c kvs s, Interp.interpolate c kvs ≠ .panic s) ∧
    (∀ base over s, Merge.extendService base over ≠ .panic s) ∧
    (∀ base over s, Merge.merge base over ≠ .panic s) ∧
    (∀ v s, Unicity.enforceTop v ≠ .panic s) ∧
    (∀ ign v s, Short.canonical ign v ≠ .panic s) ∧
    (∀ pats m s, omitEmptyTop pats m ≠ .panic s) ∧
    (∀ tbl d s, C11.setDefaultValues tbl d ≠ .panic s) ∧
    (∀ t s, Validate.validate t = .panic s →
      s ∈ ["validation.init.checkFileObject", "validation.checkPath", "validation.checkDeviceRequest"]) ∧
    (∀ cfg v s, Paths.resolve cfg v ≠ .panic s) ∧
    (∀ clean env d s, C11.normalize clean env d ≠ .panic s) ∧
    (∀ fs fuel main svcs name tr s, (Ext.resolve fs main fuel svcs name tr).1 ≠ .panic s) ∧
    (∀ fs fuel files inc s, Inc.loadModel fs fuel files inc ≠ .panic s) :=
  ⟨convertTop_total, interpolate_never_panics, C04.extendService_never_panics, C04.merge_never_panics,
   C04.enforceTop_never_panics, canonical_never_panics, omitEmpty_total, setDefaultValues_never_panics,
   validate_only_panic_sites, Paths.resolve_never_panics, C11.normalize_never_panics,
   fun fs fuel main svcs name tr s => extends_never_panics fs fuel main svcs name tr s,
   fun fs fuel files inc s => Inc.loadModel_ne_panic fs fuel files inc s⟩

end CV.C01.Pipeline
