import ComposeVerif.Props.C17
import ComposeVerif.Props.C17Loader
import ComposeVerif.Model.NameOptions
/-!
# C17 — option *sequences* with the profile options; the decided name is the project's name everywhere (round 6)

`Model/NameOptions.lean` runs any sequence of the options of `cli/options.go` that read or write the project
environment, the profile options included (`runXOpts`, `runXP`).  Proved here, for **every** sequence:

* the profile options are a *frame* for everything `Props/C17.lean` / `Props/C17Loader.lean` prove: erasing them
  from the sequence gives the same `ProjectOptions`, the same error, the same loaded name / environment
  (`runXOpts_base`, `runXP_is_runX`), so every clause of the property holds with profile options anywhere;
* which call decides the profiles (the last profile option, whatever follows it), and what `WithDefaultProfiles()`
  reads: `COMPOSE_PROFILES` of the project environment *at that call* — in the documented order the layered
  environment explicit > OS > .env;
* the resources without a `name:` are named after the name the precedence selected — the explicit one when there
  is one, whatever the compose files say.
-/
namespace CV.Name
open CV CV.Name.Spec

/-! ## facts regenerated from the source -/

/-- the bodies of the option functions the round-6 model mirrors, `loader.WithProfiles` (`opts.Profiles = profiles`:
    the last call decides), `ServiceConfig.HasProfile`, `Project.WithProfiles` (`Profiles` is the selection) -/
theorem profile_functions_are_source :
    CV.Gen.c17_body_WithDefaultProfiles =
      "{ return func(o *ProjectOptions) error { if len(profiles) == 0 { for _, s := range strings.Split(o.Environment[consts.ComposeProfiles], \",\") { profiles = append(profiles, strings.TrimSpace(s)) } } o.loadOptions = append(o.loadOptions, loader.WithProfiles(profiles)) return nil } }" ∧
    CV.Gen.c17_body_WithProfiles =
      "{ return func(o *ProjectOptions) error { o.loadOptions = append(o.loadOptions, loader.WithProfiles(profiles)) return nil } }" ∧
    CV.Gen.c17_body_WithLoadOptions =
      "{ return func(o *ProjectOptions) error { o.loadOptions = append(o.loadOptions, loadOptions...) return nil } }" ∧
    CV.Gen.c17_body_loaderWithProfiles = "{ return func(opts *Options) { opts.Profiles = profiles } }" ∧
    CV.Gen.c17_body_HasProfile =
      "{ if len(s.Profiles) == 0 { return true } for _, p := range profiles { if p == \"*\" { return true } for _, sp := range s.Profiles { if sp == p { return true } } } return false }" ∧
    CV.Gen.c17_body_ProjectWithProfiles =
      "{ newProject := p.deepCopy() enabled := Services{} disabled := Services{} for name, service := range newProject.AllServices() { if service.HasProfile(profiles) { enabled[name] = service } else { disabled[name] = service } } newProject.Services = enabled newProject.DisabledServices = disabled newProject.Profiles = slices.Clone(profiles) return newProject, nil }" ∧
    CV.Gen.c17_composeProfilesConst = String.ofList profilesKey := by
  exact ⟨rfl, rfl, rfl, rfl, rfl, rfl, by decide⟩

/-- where the decided name enters the model the resources are named from: `loader.load` overwrites `dict["name"]`
    with `opts.projectName` **unconditionally** right before `Normalize`, and `setNameFromKey` formats an implicit
    name as `<dict["name"]>_<key>` -/
theorem decided_name_names_the_resources_in_source :
    CV.Gen.c17_nameIntoModel =
      ["dict[\"name\"] = opts.projectName", "dict, err = Normalize(dict, configDetails.Environment)"] ∧
    CV.Gen.c17_resourceNameFmt = ["fmt.Sprintf(\"%s_%s\", dict[\"name\"], key)"] := by
  exact ⟨rfl, rfl⟩

/-- `ProjectOptions.LoadModel` (the raw-model entry of the cli) hands the loader the **project environment**, like
    `LoadProject` — it did not before the round-6 `fix:` (finding `load-model:name-precedence`): the model's one
    `loadX` stands for both entries -/
theorem loadModel_uses_project_environment_in_source :
    CV.Gen.c17_body_LoadModel =
      "{ configDetails, err := o.prepare(ctx) if err != nil { return nil, err } configDetails.Environment = o.Environment return loader.LoadModelWithContext(ctx, *configDetails, o.loadOptions...) }" := rfl

/-! ## the profile options are a frame for the rest of the property -/

theorem runXOpts_append (w : World) (a b : List XOpt) (st : XState) :
    runXOpts w (a ++ b) st = match runXOpts w a st with
      | .ok s1 => runXOpts w b s1
      | .error e => .error e := by
  induction a generalizing st with
  | nil => rfl
  | cons x xs ih =>
    simp only [List.cons_append, runXOpts]
    cases applyX w st x with
    | ok s1 => exact ih s1
    | error e => rfl

/-- erasing the profile options from a sequence changes nothing about the `ProjectOptions` it builds, nor about
    the error it stops with -/
theorem runXOpts_base (w : World) (xs : List XOpt) (st : XState) :
    (match runXOpts w xs st with | .ok st' => Except.ok st'.1 | .error e => .error e)
      = runOpts w (baseOpts xs) st.1 := by
  induction xs generalizing st with
  | nil => rfl
  | cons x xs ih =>
    cases x with
    | base b =>
      simp only [runXOpts, applyX, baseOpts, runOpts]
      cases applyOpt w st.1 b with
      | ok o' => exact ih (o', st.2)
      | error e => rfl
    | profiles l => simp only [runXOpts, applyX, baseOpts]; exact ih (st.1, some l)
    | defaultProfiles l => simp only [runXOpts, applyX, baseOpts]; exact ih (st.1, some _)

/-- **composition**: a run with profile options anywhere is, at `Project.Name` / `Project.Environment` / the
    interpolated strings and at the error, the run of `Model/NameLoader.lean` on the sequence without them — every
    theorem of `Props/C17.lean` and `Props/C17Loader.lean` is a theorem about these sequences -/
theorem runXP_is_runX (w : World) (x : Extras) (xs : List XOpt) (interps : List Bool) :
    (match runXP w x xs interps with | .ok r => Except.ok r.base | .error e => .error e)
      = runX w (baseOpts xs) interps := by
  have hb := runXOpts_base w xs ({ configs := w.given }, none)
  unfold runXP runX
  cases h : runXOpts w xs ({ configs := w.given }, none) with
  | error e => rw [h] at hb; simp only at hb; rw [← hb]
  | ok st =>
    rw [h] at hb
    simp only at hb
    rw [← hb]
    simp only
    cases loadX w st.1 (!interpFlag interps) with
    | ok r => rfl
    | error e => rfl

theorem runXP_ok_base (w : World) (x : Extras) (xs : List XOpt) (interps : List Bool) (r : LoadedX)
    (h : runXP w x xs interps = .ok r) : runX w (baseOpts xs) interps = .ok r.base := by
  have := runXP_is_runX w x xs interps
  rw [h] at this
  exact this.symm

/-- a successful load has a valid non-empty name, with profile options and `WithInterpolation` calls anywhere -/
theorem name_valid_any_sequence (w : World) (x : Extras) (xs : List XOpt) (interps : List Bool) (r : LoadedX)
    (h : runXP w x xs interps = .ok r) : validName r.base.name = true ∧ r.base.name ≠ [] :=
  name_valid_any_interpolation w (baseOpts xs) interps r.base (runXP_ok_base w x xs interps r h)

/-! ## the decided name is the project's name everywhere -/

theorem implicitName_inj (a b k : Str) (h : implicitName a k = implicitName b k) : a = b :=
  List.append_cancel_right h

theorem runXP_resources (w : World) (x : Extras) (xs : List XOpt) (interps : List Bool) (r : LoadedX)
    (h : runXP w x xs interps = .ok r) :
    r.resources = x.resourceKeys.map fun k => (k, implicitName r.base.name k) := by
  unfold runXP at h
  split at h
  · split at h
    · cases h; rfl
    · cases h
  · cases h

/-- **the imperative name wins everywhere** (the clause seed C11-7 breaks): a successful run whose last `WithName`
    is non-empty has exactly that name, and every resource without a `name:` of its own is called
    `<that name>_<key>` — whatever `name:` the compose files carry, whatever the environment, the directory, the
    order of the options, the position of the interpolation switch, the profile options -/
theorem explicit_name_wins_everywhere (w : World) (x : Extras) (xs : List XOpt) (interps : List Bool) (r : LoadedX)
    (h : runXP w x xs interps = .ok r) (hreq : requestedName (baseOpts xs) [] ≠ []) :
    r.base.name = requestedName (baseOpts xs) [] ∧
    r.resources = x.resourceKeys.map fun k => (k, implicitName (requestedName (baseOpts xs) []) k) := by
  have hn := explicit_name_wins_any_interpolation w (baseOpts xs) interps r.base (runXP_ok_base w x xs interps r h) hreq
  refine ⟨hn, ?_⟩
  rw [runXP_resources w x xs interps r h, hn]

/-- **the precedence clause, at the resource names**: the unnamed resources of a loaded project are named after the
    name `Spec.decide` selects from the four sources (explicit request, `COMPOSE_PROJECT_NAME` of the project
    environment, `name:` of the last selected file, project directory) -/
theorem resources_named_after_decision (w : World) (o : PO) (skip : Bool) (r : Loaded) (h : loadX w o skip = .ok r)
    (x : Extras) (p : Option (List Str)) :
    ∃ files n, readConfigs w o.configs = .ok files ∧ Spec.decide (sourcesOfX w o files skip) = .name n ∧
      (decorate x p r).base.name = n ∧
      (decorate x p r).resources = x.resourceKeys.map fun k => (k, implicitName n k) := by
  obtain ⟨files, _, hf, hd⟩ := name_decision_any_interpolation w o skip r h
  exact ⟨files, r.name, hf, hd, rfl, rfl⟩

/-- a resource named after a *losing* source is a different name: two projects' implicit names of one key coincide
    only if the project names do -/
theorem resources_distinguish_names (x : Extras) (p q : Option (List Str)) (r r' : Loaded) (k : Str)
    (hk : k ∈ x.resourceKeys) (h : (decorate x p r).resources = (decorate x q r').resources) : r.name = r'.name := by
  simp only [decorate] at h
  have h2 := List.map_inj_left.mp h k hk
  exact implicitName_inj _ _ k (Prod.mk.inj h2).2

/-! ## which call selects the profiles -/

/-- options of `Model/Name.lean` after a profile option leave the selection alone (a later `WithEnv` of
    `COMPOSE_PROFILES` included) -/
theorem base_options_keep_selection (w : World) (post : List Opt) (s1 st' : XState)
    (h : runXOpts w (post.map .base) s1 = .ok st') : st'.2 = s1.2 := by
  induction post generalizing s1 with
  | nil => simp only [List.map_nil, runXOpts] at h; cases h; rfl
  | cons b bs ih =>
    simp only [List.map_cons, runXOpts, applyX] at h
    cases hb : applyOpt w s1.1 b with
    | ok o' => rw [hb] at h; exact ih (o', s1.2) h
    | error e => rw [hb] at h; cases h

theorem runXOpts_map_base (w : World) (l : List Opt) (o : PO) (p : Option (List Str)) :
    runXOpts w (l.map .base) (o, p) = match runOpts w l o with
      | .ok o' => .ok (o', p)
      | .error e => .error e := by
  induction l generalizing o with
  | nil => rfl
  | cons b bs ih =>
    simp only [List.map_cons, runXOpts, applyX, runOpts]
    cases applyOpt w o b with
    | ok o' => exact ih o'
    | error e => rfl

/-- no profile option: no profile is selected (`Project.Profiles` is empty, services with `profiles:` are disabled) -/
theorem no_profile_option_none (w : World) (l : List Opt) (o : PO) (st' : XState)
    (h : runXOpts w (l.map .base) (o, none) = .ok st') : st'.2 = none :=
  base_options_keep_selection w l (o, none) st' h

/-- `WithProfiles(l)`: the **last** profile option decides, whatever ran before it and whatever options of the
    other kinds follow it -/
theorem withProfiles_last_decides (w : World) (pre : List XOpt) (l : List Str) (post : List Opt) (st st' : XState)
    (h : runXOpts w (pre ++ .profiles l :: post.map .base) st = .ok st') : st'.2 = some l := by
  rw [runXOpts_append] at h
  cases h1 : runXOpts w pre st with
  | error e => rw [h1] at h; cases h
  | ok s1 =>
    rw [h1] at h
    simp only [runXOpts, applyX] at h
    exact base_options_keep_selection w post (s1.1, some l) st' h

/-- `WithDefaultProfiles(l…)` with profiles given: they are the selection, the environment is not consulted -/
theorem defaultProfiles_given_decide (w : World) (pre : List XOpt) (l : List Str) (hl : l ≠ []) (post : List Opt)
    (st st' : XState) (h : runXOpts w (pre ++ .defaultProfiles l :: post.map .base) st = .ok st') : st'.2 = some l := by
  rw [runXOpts_append] at h
  cases h1 : runXOpts w pre st with
  | error e => rw [h1] at h; cases h
  | ok s1 =>
    rw [h1] at h
    simp only [runXOpts, applyX, hl, if_false] at h
    exact base_options_keep_selection w post (s1.1, some l) st' h

/-- `WithDefaultProfiles()`: `COMPOSE_PROFILES` of the project environment **as it is when the option runs**, split
    at `,`, entries trimmed — what later options write into the environment does not matter -/
theorem defaultProfiles_reads_env_at_call (w : World) (pre : List XOpt) (post : List Opt) (st st' : XState)
    (h : runXOpts w (pre ++ .defaultProfiles [] :: post.map .base) st = .ok st') :
    ∃ s1, runXOpts w pre st = .ok s1 ∧ st'.2 = some (envProfiles s1.1.env) := by
  rw [runXOpts_append] at h
  cases h1 : runXOpts w pre st with
  | error e => rw [h1] at h; cases h
  | ok s1 =>
    rw [h1] at h
    simp only [runXOpts, applyX, if_true] at h
    exact ⟨s1, rfl, base_options_keep_selection w post (s1.1, some _) st' h⟩

/-- **documented order** (`… WithOsEnv, WithEnvFiles, WithDotEnv, WithDefaultProfiles()`): the profiles are read from
    `COMPOSE_PROFILES` of the layered environment explicit > OS > .env -/
theorem defaultProfiles_documented_order (w : World) (pre : List Opt) (hpre : ∀ x ∈ pre, x ≠ .withDotEnv)
    (o0 : PO) (h0 : o0.env = []) (p0 : Option (List Str)) (post : List Opt) (st' : XState)
    (h : runXOpts w ((pre ++ [Opt.withDotEnv]).map XOpt.base ++ XOpt.defaultProfiles [] :: post.map XOpt.base) (o0, p0) = .ok st') :
    ∃ o1 m, runOpts w pre o0 = .ok o1 ∧ getEnvFromFile w o1.env o1.envFiles [] = .ok m ∧
      st'.2 = some ((splitOn [','] ((lookupLayers [explicitLayer pre, osLayer w pre, m] profilesKey).getD [])).map trimSpace) := by
  obtain ⟨s1, hs1, hp⟩ := defaultProfiles_reads_env_at_call w _ post (o0, p0) st' h
  rw [runXOpts_map_base] at hs1
  cases hr : runOpts w (pre ++ [.withDotEnv]) o0 with
  | error e => rw [hr] at hs1; cases hs1
  | ok o' =>
    rw [hr] at hs1
    cases hs1
    obtain ⟨o1, m, h1, _, hm, hk⟩ := env_precedence_documented_order w pre hpre o0 o' h0 hr
    refine ⟨o1, m, h1, hm, ?_⟩
    rw [hp]
    simp only [envProfiles, hk profilesKey]

/-! ## `strings.TrimSpace`, `HasProfile` -/

theorem dropWhile_head_not (p : Char → Bool) (l : Str) (c : Char) (h : (l.dropWhile p).head? = some c) : p c = false := by
  induction l with
  | nil => cases h
  | cons a as ih =>
    simp only [List.dropWhile] at h
    split at h
    · exact ih h
    · rename_i hpa
      simp only [List.head?_cons, Option.some.injEq] at h
      subst h
      simpa using hpa

/-- the result of `TrimSpace` does not end in a space … -/
theorem trimSpace_last_not_space (s : Str) (c : Char) (h : (trimSpace s).getLast? = some c) : isSpaceGo c = false := by
  unfold trimSpace trimRight at h
  rw [List.getLast?_reverse] at h
  exact dropWhile_head_not _ _ c h

theorem trimRight_prefix (t : Str) : trimRight t ++ (t.reverse.takeWhile isSpaceGo).reverse = t := by
  unfold trimRight
  rw [← List.reverse_append, List.takeWhile_append_dropWhile, List.reverse_reverse]

/-- … nor start with one -/
theorem trimSpace_head_not_space (s : Str) (c : Char) (h : (trimSpace s).head? = some c) : isSpaceGo c = false := by
  unfold trimSpace at h
  apply dropWhile_head_not isSpaceGo s c
  have hp := trimRight_prefix (s.dropWhile isSpaceGo)
  cases ht : trimRight (s.dropWhile isSpaceGo) with
  | nil => rw [ht] at h; cases h
  | cons a as =>
    rw [ht] at h hp
    simp only [List.head?_cons, Option.some.injEq] at h
    subst h
    rw [← hp]
    rfl

/-- a string without any space is not changed -/
theorem trimSpace_fixed (s : Str) (h : ∀ c ∈ s, isSpaceGo c = false) : trimSpace s = s := by
  have h1 : s.dropWhile isSpaceGo = s := by
    cases s with
    | nil => rfl
    | cons a as => simp only [List.dropWhile, h a (List.mem_cons_self ..)]
  have h2 : s.reverse.dropWhile isSpaceGo = s.reverse := by
    cases hr : s.reverse with
    | nil => rfl
    | cons a as =>
      have : a ∈ s := by rw [← List.mem_reverse, hr]; exact List.mem_cons_self ..
      simp only [List.dropWhile, h a this]
  unfold trimSpace trimRight
  rw [h1, h2, List.reverse_reverse]

/-- every profile read from `COMPOSE_PROFILES` is trimmed: no entry starts or ends with a space, wherever the
    variable came from -/
theorem envProfiles_trimmed (env : Env) (p : Str) (hp : p ∈ envProfiles env) (c : Char) :
    (p.head? = some c → isSpaceGo c = false) ∧ (p.getLast? = some c → isSpaceGo c = false) := by
  unfold envProfiles at hp
  obtain ⟨q, _, rfl⟩ := List.mem_map.mp hp
  exact ⟨trimSpace_head_not_space q c, trimSpace_last_not_space q c⟩

/-- … and there is always at least one entry (an unset or empty variable selects the profile `""`) -/
theorem envProfiles_ne_nil (env : Env) : envProfiles env ≠ [] := by
  unfold envProfiles splitOn
  cases ((env.get profilesKey).getD []).length <;> simp [splitOnFuel] <;> split <;> simp

/-- a service without `profiles:` is always enabled; one with `profiles:` iff a selected profile is `*` or listed -/
theorem hasProfile_iff (svc selected : List Str) :
    hasProfile svc selected = true ↔ svc = [] ∨ ∃ p ∈ selected, p = ['*'] ∨ p ∈ svc := by
  unfold hasProfile
  cases svc with
  | nil => simp
  | cons a as => simp [List.any_eq_true, List.contains_iff_mem]

/-! ## non-vacuity: the branches on concrete values -/

example : envProfiles [(profilesKey, " dev , test ".toList)] = strs ["dev", "test"] := by decide
example : envProfiles [] = strs [""] := by decide                         -- unset: the one-entry list [""]
example : envProfiles [(profilesKey, "x,,test".toList)] = strs ["x", "", "test"] := by decide
example : envProfiles [(profilesKey, "dev;qa".toList)] = strs ["dev;qa"] := by decide
example : trimSpace " qa　".toList = "qa".toList := by decide
example : trimSpace "​qa".toList = "​qa".toList := by decide    -- ZERO WIDTH SPACE is not a space
example : trimSpace " \t\n".toList = [] := by decide
example : hasProfile (strs ["dev", "qa"]) (strs ["test", "qa"]) = true := by decide
example : hasProfile (strs ["dev", "qa"]) (strs ["test", ""]) = false := by decide
example : hasProfile (strs ["test"]) (strs ["*"]) = true := by decide
example : hasProfile (strs ["test"]) [] = false := by decide

/-- call-time dependence: `WithDefaultProfiles()` **before** the `WithEnv` that sets `COMPOSE_PROFILES` selects `[""]`,
    after it the value -/
example (w : World) : (runXOpts w [.defaultProfiles [], .base (.withEnv (strs ["COMPOSE_PROFILES=dev"]))] ({}, none)).toOption.map (·.2)
    = some (some (strs [""])) := rfl
example (w : World) : (runXOpts w [.base (.withEnv (strs ["COMPOSE_PROFILES=dev"])), .defaultProfiles []] ({}, none)).toOption.map (·.2)
    = some (some (strs ["dev"])) := rfl
example : implicitName "cli".toList "default".toList = "cli_default".toList := by decide


/-! ## which orders matter

`env_any_option_order` (Props/C17.lean) gives the environment of *any* sequence.  The orders that do **not**
matter, as equalities of the whole option state; the ones that do are in `Neg/C17.lean`
(`WithDotEnv` before `WithOsEnv`; `WithEnv` after `WithDotEnv`) and in the call-time examples above. -/

/-- `WithEnv` and `WithOsEnv` commute: explicit variables win over OS variables whichever is called first -/
theorem withEnv_withOsEnv_commute (w : World) (l : List Str) (o : PO) :
    runOpts w [.withEnv l, .withOsEnv] o = runOpts w [.withOsEnv, .withEnv l] o := by
  simp only [runOpts, applyOpt, List.append_assoc]

/-- two `WithEnv` calls are one call with the later list in front (the later binding wins) -/
theorem withEnv_twice (w : World) (l1 l2 : List Str) (o o' : PO) (h : runOpts w [.withEnv l1, .withEnv l2] o = .ok o') :
    o'.env = asEqualsMap l2 ++ asEqualsMap l1 ++ o.env ∧ o'.name = o.name ∧ o'.envFiles = o.envFiles ∧
      o'.workDir = o.workDir ∧ o'.configs = o.configs := by
  simp only [runOpts, applyOpt] at h
  cases h
  simp only [List.append_assoc, and_self]

/-- `WithOsEnv` is idempotent on what a lookup sees -/
theorem withOsEnv_twice (w : World) (o o1 o2 : PO) (h1 : runOpts w [.withOsEnv] o = .ok o1)
    (h2 : runOpts w [.withOsEnv, .withOsEnv] o = .ok o2) (k : Str) : o2.env.get k = o1.env.get k := by
  simp only [runOpts, applyOpt] at h1 h2
  cases h1; cases h2
  simp only [get_append]
  cases o.env.get k <;> cases (asEqualsMap w.os).get k <;> rfl

/-- no option reads `Name`: the state an option leaves, up to the name -/
theorem applyOpt_name_frame (w : World) (o : PO) (n : Str) (x : Opt) (hx : ∀ m, x ≠ .withName m) :
    applyOpt w { o with name := n } x = match applyOpt w o x with
      | .ok o1 => .ok { o1 with name := n }
      | .error e => .error e := by
  cases x with
  | withName m => exact absurd rfl (hx m)
  | withEnv l => rfl
  | withOsEnv => rfl
  | withEnvFiles fs =>
    simp only [applyOpt, withEnvFiles]
    cases fs with
    | cons f fs => rfl
    | nil =>
      simp only
      have hd : defaultEnvFile w { o with name := n } = { defaultEnvFile w o with name := n } := by
        simp only [defaultEnvFile, projDirId]
        split <;> rfl
      cases (asEqualsMap w.os).get disableKey with
      | none => simp only [hd]
      | some v =>
        simp only
        cases parseBool v with
        | none => rfl
        | some b => cases b <;> simp only [hd]
  | withDotEnv =>
    simp only [applyOpt]
    cases getEnvFromFile w o.env o.envFiles [] <;> rfl
  | withWorkDir d => cases d <;> rfl
  | withConfigFileEnv =>
    obtain ⟨nm, env, efs, wd, cfgs⟩ := o
    simp only [applyOpt, withConfigFileEnv]
    cases cfgs with
    | cons c cs => rfl
    | nil =>
      simp only
      cases env.get composeFileKey with
      | none => rfl
      | some f =>
        simp only
        cases resolvePaths w _ <;> rfl
  | withDefaultConfigPath =>
    obtain ⟨nm, env, efs, wd, cfgs⟩ := o
    simp only [applyOpt, withDefaultConfigPath]
    cases cfgs with
    | cons c cs => rfl
    | nil => rfl

/-- **the position of `WithName` never matters**: a valid `WithName(n)` commutes with every other option (equal
    states, equal errors) — the explicit name wins wherever it stands among the options -/
theorem withName_commutes (w : World) (n : Str) (hn : normalize n = n) (x : Opt) (hx : ∀ m, x ≠ .withName m) (o : PO) :
    runOpts w [.withName n, x] o = runOpts w [x, .withName n] o := by
  have hN : ∀ p : PO, applyOpt w p (.withName n) = .ok { p with name := n } := by
    intro p; simp only [applyOpt, hn, if_true]
  simp only [runOpts, hN]
  rw [applyOpt_name_frame w o n x hx]
  cases applyOpt w o x <;> rfl

end CV.Name
