import ComposeVerif.Props.C04
/-!
# C04 — one law per row of the two Go tables

`Props/C04.lean` proves what each *merger* / *indexer* does and, by `decide`, that the 54 attribute paths of the
property text get the rule the text states.  This module closes the gap between the two **for every row of the
regenerated tables and every concrete path the row matches** (any service / network / volume / ulimit name):

* `row_rule`, `row_indexer` — at a path matched by a row, the rule / indexer found is the row's (uses exclusivity);
* `row_step` — `mergeYaml` at such a path is one application of the row's merger;
* `every_row_has_law` — for **every** row of `Gen.mergeSpecials`, every matching path and all inputs, the closed law
  of the row's merger (`RowLaw`): append of the two `KEY=VALUE` sequences, wholesale replace, append-new for
  extra_hosts, "convert both sides, then merge key by key" for depends_on / networks / build, the driver test of
  logging, pools by subnet for ipam, and for ulimits "the later file's value, whatever the base held";
* `every_unique_row_has_law` — for **every** row of `Gen.unique`, every matching path and every list: the list is
  indexed with the row's indexer and de-duplicated (first failure of the indexer wins), and the result holds one entry
  per key, the last one carrying it;
* the index keys that had no theorem yet: `mount_key_*` (secrets / configs), `envFile_key_*`, `expose_key_*`,
  `device_key_*`, and the spelling independence they give (short `s1` ≡ long `{source: s1}`; `8080` ≡ `"8080"`;
  `path` ≡ `{path: path}`).

A row added to either Go table is covered automatically (the statements quantify over the regenerated lists); a row
naming a function the model does not know makes `RowLaw` / `UniqueLaw` `False` and breaks the theorem.
-/
namespace CV.C04.Rows
open CV CV.Val CV.Merge CV.Unicity CV.C04

/-- the merger a row of `mergeSpecials` names -/
def rowRule (name : String) : Rule := (ruleOfName name).getD .unknown

/-- the indexer a row of `unique` names -/
def rowIndexer (name : String) : Indexer := (indexerOfName name).getD .unknown

/-- at a path matched by a row of `mergeSpecials` the rule found is that row's, whatever the other rows are -/
theorem row_rule {pat : List String} {name : String} (h : (pat, name) ∈ CV.Gen.mergeSpecials) (p : TPath)
    (hm : TPath.pmatch pat p = true) : ruleAt p = some (rowRule name) := by
  unfold ruleAt ruleAtIn
  rw [TPath.firstMatch_eq_of_mem mergeSpecials_exclusive h hm]
  rfl

/-- … and the same for `unique` -/
theorem row_indexer {pat : List String} {name : String} (h : (pat, name) ∈ CV.Gen.unique) (p : TPath)
    (hm : TPath.pmatch pat p = true) : indexerAt p = some (rowIndexer name) := by
  unfold indexerAt indexerAtIn
  rw [TPath.firstMatch_eq_of_mem unique_exclusive h hm]
  rfl

/-- `mergeYaml` at a path matched by a row is one application of the row's merger -/
theorem row_step {pat : List String} {name : String} (h : (pat, name) ∈ CV.Gen.mergeSpecials) (p : TPath)
    (hm : TPath.pmatch pat p = true) (n : Nat) (e o : Val) :
    mergeYaml (n + 1) e o p = specialStep (mergeKVs n) (rowRule name) e o p := by
  simp only [mergeYaml, mergeStep, row_rule h p hm, mergeKVs]

/-- the closed law of each merger (what `mergeYaml (n+1) e o p` is when the rule at `p` is `r`) -/
def RowLaw (n : Nat) (r : Rule) (e o : Val) (p : TPath) : Prop :=
  match r with
  | .toSeq => mergeYaml (n + 1) e o p = .ok (.seq (seqOf e ++ seqOf o))
  | .override => mergeYaml (n + 1) e o p = .ok o
  | .extraHosts => mergeYaml (n + 1) e o p = .ok (.seq (seqOf e ++ keepNew (seqOf e) (seqOf o)))
  | .dependsOn => mergeYaml (n + 1) e o p = convMerge (mergeKVs n) (intoMap dependsOnDefault) e o p
  | .networks => mergeYaml (n + 1) e o p = convMerge (mergeKVs n) (intoMap .null) e o p
  | .build => mergeYaml (n + 1) e o p = convMerge (mergeKVs n) toBuild e o p
  | .logging => mergeYaml (n + 1) e o p = loggingStep (mergeKVs n) e o p
  | .ipam => mergeYaml (n + 1) e o p = ipamStep (mergeKVs n) e o p
  | .ulimit =>
    -- the base is not consulted at all: the later file's ulimit stands (a non-mapping value as it is)
    (∀ e' : Val, mergeYaml (n + 1) e' o p = mergeYaml (n + 1) e o p) ∧
    ((∀ kvs, o ≠ .map kvs) → mergeYaml (n + 1) e o p = .ok o)
  | .unknown => False

/-- a known rule at `p` obeys its law, for all inputs -/
theorem rule_law (n : Nat) (r : Rule) (e o : Val) (p : TPath) (hp : ruleAt p = some r) (hr : r ≠ .unknown) :
    RowLaw n r e o p := by
  cases r with
  | unknown => exact absurd rfl hr
  | ulimit =>
    refine ⟨fun e' => ?_, fun ho => ?_⟩
    · simp only [mergeYaml, mergeStep, hp, specialStep]
    · cases o with
      | map kvs => exact absurd rfl (ho kvs)
      | _ => simp only [mergeYaml, mergeStep, hp, specialStep]
  | _ => simp only [RowLaw, mergeYaml, mergeStep, hp, specialStep, mergeKVs]

/-- **every row of `mergeSpecials` has its law**: for every row of the regenerated table, every concrete path the
row's pattern matches (any names in place of `*`), every fuel and all values on both sides -/
theorem every_row_has_law (row : List String × String) (h : row ∈ CV.Gen.mergeSpecials) (p : TPath)
    (hm : TPath.pmatch row.1 p = true) (n : Nat) (e o : Val) : RowLaw n (rowRule row.2) e o p := by
  obtain ⟨pat, name⟩ := row
  refine rule_law n _ e o p (row_rule h p hm) ?_
  have hk := rows_known.1 (pat, name) h
  unfold rowRule
  intro hu
  cases hn : ruleOfName name with
  | none => exact hk hn
  | some r =>
    rw [hn] at hu
    simp only [Option.getD_some] at hu
    subst hu
    -- no name maps to `.unknown`
    unfold ruleOfName at hn
    split at hn <;> simp at hn

/-- the rows grouped by merger (a regenerated-table fact: moving an attribute to another merger breaks it) -/
theorem rows_by_rule :
    (CV.Gen.mergeSpecials.filter fun r => rowRule r.2 == .override).map Prod.fst =
      [["services", "*", "command"], ["services", "*", "entrypoint"], ["services", "*", "healthcheck", "test"]] ∧
    (CV.Gen.mergeSpecials.filter fun r => rowRule r.2 == .extraHosts).map Prod.fst =
      [["services", "*", "build", "extra_hosts"], ["services", "*", "extra_hosts"]] ∧
    (CV.Gen.mergeSpecials.filter fun r => rowRule r.2 == .toSeq).length = 17 ∧
    (CV.Gen.mergeSpecials.filter fun r => rowRule r.2 == .dependsOn).map Prod.fst = [["services", "*", "depends_on"]] ∧
    (CV.Gen.mergeSpecials.filter fun r => rowRule r.2 == .networks).map Prod.fst = [["services", "*", "networks"]] ∧
    (CV.Gen.mergeSpecials.filter fun r => rowRule r.2 == .build).map Prod.fst = [["services", "*", "build"]] ∧
    (CV.Gen.mergeSpecials.filter fun r => rowRule r.2 == .logging).map Prod.fst = [["services", "*", "logging"]] ∧
    (CV.Gen.mergeSpecials.filter fun r => rowRule r.2 == .ulimit).map Prod.fst = [["services", "*", "ulimits", "*"]] ∧
    (CV.Gen.mergeSpecials.filter fun r => rowRule r.2 == .ipam).map Prod.fst = [["networks", "*", "ipam", "config"]] ∧
    CV.Gen.mergeSpecials.length = 28 := by decide

/-! ### instances with the names left free (what the generic theorem says at concrete rows) -/

/-- `build.extra_hosts` of any service: base entries stay in front, exactly the new ones are appended -/
theorem build_extra_hosts_law (s : String) (n : Nat) (e o : Val) :
    mergeYaml (n + 1) e o ["services", s, "build", "extra_hosts"] = .ok (.seq (seqOf e ++ keepNew (seqOf e) (seqOf o))) :=
  every_row_has_law (["services", "*", "build", "extra_hosts"], "mergeExtraHosts") (by decide) _ (by simp [TPath.pmatch]) n e o

/-- any ulimit of any service: the later file's value stands whatever the earlier files said -/
theorem ulimit_base_ignored (s u : String) (n : Nat) (e e' o : Val) :
    mergeYaml (n + 1) e' o ["services", s, "ulimits", u] = mergeYaml (n + 1) e o ["services", s, "ulimits", u] :=
  (every_row_has_law (["services", "*", "ulimits", "*"], "mergeUlimit") (by decide) _ (by simp [TPath.pmatch]) n e o).1 e'

/-- a single-number ulimit replaces -/
theorem ulimit_scalar_replaces (s u : String) (n : Nat) (e : Val) (i : Int) :
    mergeYaml (n + 1) e (.int i) ["services", s, "ulimits", u] = .ok (.int i) :=
  (every_row_has_law (["services", "*", "ulimits", "*"], "mergeUlimit") (by decide) _ (by simp [TPath.pmatch]) n e (.int i)).2
    (fun kvs h => by cases h)

/-- a `{soft, hard}` ulimit replaces (the self-merge of the later file's mapping is the mapping itself when its values are numbers) -/
example : mergeYaml 2 (.map [("soft", .int 1), ("hard", .int 2)]) (.map [("soft", .int 10), ("hard", .int 20)])
    ["services", "web", "ulimits", "nofile"] = .ok (.map [("soft", .int 10), ("hard", .int 20)]) := by rfl

/-- ipam pools of any network: the pools-by-subnet fold (whose laws are `ipam_no_pool_dropped`, `ipam_unmentioned_pool_preserved`,
`ipam_new_pool_appended`, `ipam_same_subnet_merged`) is what `mergeYaml` computes there -/
theorem ipam_config_law (net : String) (n : Nat) (e o : Val) :
    mergeYaml (n + 1) e o ["networks", net, "ipam", "config"] = ipamStep (mergeKVs n) e o ["networks", net, "ipam", "config"] :=
  every_row_has_law (["networks", "*", "ipam", "config"], "mergeIPAMConfig") (by decide) _ (by simp [TPath.pmatch]) n e o

/-- every `mergeToSequence` row, any names: both spellings are turned into `KEY=VALUE` sequences and appended -/
theorem toSeq_rows (row : List String × String) (h : row ∈ CV.Gen.mergeSpecials) (hn : row.2 = "mergeToSequence")
    (p : TPath) (hm : TPath.pmatch row.1 p = true) (n : Nat) (e o : Val) :
    mergeYaml (n + 1) e o p = .ok (.seq (seqOf e ++ seqOf o)) := by
  have := every_row_has_law row h p hm n e o
  rw [hn] at this
  exact this

/-! ## `unique` -/

/-- what `enforceUnicity` does to a list at a path whose indexer is `ix` -/
def UniqueLaw (ix : Indexer) (xs : List Val) (p : TPath) : Prop :=
  ix ≠ .unknown ∧
  enforce (.seq xs) p = (indexAll ix xs).bind (fun ks => .ok (.seq (dedup ks xs))) ∧
  ∀ ks, indexAll ix xs = .ok ks →
    (keys (dedupKVs (ks.zip xs))).Nodup ∧ ∀ k, lookup k (dedupKVs (ks.zip xs)) = lastVal k (ks.zip xs)

/-- **every row of `unique` has its law**: at every concrete path a row matches, a list is indexed with the row's
indexer (first failure wins) and the result holds a single entry per key, the last one carrying it -/
theorem every_unique_row_has_law (row : List String × String) (h : row ∈ CV.Gen.unique) (p : TPath)
    (hm : TPath.pmatch row.1 p = true) (xs : List Val) : UniqueLaw (rowIndexer row.2) xs p := by
  obtain ⟨pat, name⟩ := row
  refine ⟨?_, ?_, fun ks _ => ⟨unicity_nodup_keys _, fun k => unicity_last_wins _ k⟩⟩
  · have hk := rows_known.2 (pat, name) h
    unfold rowIndexer
    intro hu
    cases hn : indexerOfName name with
    | none => exact hk hn
    | some r =>
      rw [hn] at hu
      simp only [Option.getD_some] at hu
      subst hu
      unfold indexerOfName at hn
      split at hn <;> simp at hn
  · simp only [enforce, row_indexer h p hm]

/-- the rows grouped by indexer -/
theorem unique_rows_by_indexer :
    (CV.Gen.unique.filter fun r => rowIndexer r.2 == .port).map Prod.fst = [["services", "*", "ports"]] ∧
    (CV.Gen.unique.filter fun r => rowIndexer r.2 == .volume).map Prod.fst = [["services", "*", "volumes"]] ∧
    (CV.Gen.unique.filter fun r => rowIndexer r.2 == .deviceMapping).map Prod.fst = [["services", "*", "devices"]] ∧
    (CV.Gen.unique.filter fun r => rowIndexer r.2 == .expose).map Prod.fst = [["services", "*", "expose"]] ∧
    (CV.Gen.unique.filter fun r => rowIndexer r.2 == .envFile).map Prod.fst = [["services", "*", "env_file"]] ∧
    (CV.Gen.unique.filter fun r => rowIndexer r.2 == .mount "").map Prod.fst = [["services", "*", "configs"]] ∧
    (CV.Gen.unique.filter fun r => rowIndexer r.2 == .mount "/run/secrets").map Prod.fst = [["services", "*", "secrets"]] ∧
    (CV.Gen.unique.filter fun r => rowIndexer r.2 == .keyValue).length = 23 ∧
    CV.Gen.unique.length = 30 := by decide

/-- the to-sequence rows that have **no** row in `unique`: there the two lists are appended and a repeated entry stays
twice (`build.ssh`, `label_file`); for every other to-sequence row "later wins per key" applies (`kv_later_wins`) -/
theorem toSeq_rows_without_indexer :
    ((CV.Gen.mergeSpecials.filter fun r => rowRule r.2 == .toSeq).map Prod.fst).filter
        (fun pat => !(CV.Gen.unique.map Prod.fst).contains pat) =
      [["services", "*", "build", "ssh"], ["services", "*", "label_file"]] := by decide

/-- the `unique` rows without a custom merger: default append followed by unicity (`keyed_list_later_wins`) -/
theorem keyed_rows_by_default_append :
    (CV.Gen.unique.map Prod.fst).filter (fun pat => !(CV.Gen.mergeSpecials.map Prod.fst).contains pat) =
      [["networks", "*", "ipam", "options"], ["services", "*", "build", "platform"], ["services", "*", "build", "tags"],
       ["services", "*", "cap_add"], ["services", "*", "cap_drop"], ["services", "*", "configs"], ["services", "*", "expose"],
       ["services", "*", "links"], ["services", "*", "networks", "*", "aliases"],
       ["services", "*", "networks", "*", "link_local_ips"], ["services", "*", "ports"], ["services", "*", "profiles"],
       ["services", "*", "secrets"], ["services", "*", "volumes"], ["services", "*", "devices"]] := by decide

/-! ### index keys of the indexers that had no theorem yet -/

/-- short-syntax secret / config `name`: the key is `<default dir>/name` -/
theorem mount_key_short (d s : String) : index (.mount d) (.str s) = .ok (d ++ "/" ++ s) := rfl

/-- long syntax with a `target`: the key is the target -/
theorem mount_key_target (d : String) (kvs : KVs) (t : String) (ht : lookup "target" kvs = some (.str t)) :
    index (.mount d) (.map kvs) = .ok t := by
  simp [index, ht]

/-- long syntax without a target: `<default dir>/<source>` -/
theorem mount_key_source (d : String) (kvs : KVs) (s : String) (ht : lookup "target" kvs = none)
    (hs : lookup "source" kvs = some (.str s)) : index (.mount d) (.map kvs) = .ok (d ++ "/" ++ s) := by
  simp [index, ht, hs, sprintArg]

/-- **short `s1` and long `{source: s1}` are the same entry** (so the later file's spelling replaces the earlier one) -/
theorem mount_spelling_independent (d s : String) (kvs : KVs) (ht : lookup "target" kvs = none)
    (hs : lookup "source" kvs = some (.str s)) : index (.mount d) (.map kvs) = index (.mount d) (.str s) := by
  rw [mount_key_source d kvs s ht hs, mount_key_short]

/-- env_file: the path, whichever spelling -/
theorem envFile_key_short (s : String) : index .envFile (.str s) = .ok s := rfl

theorem envFile_key_long (kvs : KVs) (s : String) (h : lookup "path" kvs = some (.str s)) :
    index .envFile (.map kvs) = .ok s := by
  simp [index, h]

theorem envFile_spelling_independent (kvs : KVs) (s : String) (h : lookup "path" kvs = some (.str s)) :
    index .envFile (.map kvs) = index .envFile (.str s) := by
  rw [envFile_key_long kvs s h, envFile_key_short]

/-- expose: a number and the string of its digits are the same entry -/
theorem expose_spelling_independent (i : Int) : index .expose (.int i) = index .expose (.str (toString i)) := rfl

/-- devices: long syntax is keyed by `target`, short syntax `a:b[:c]` by `b`, a bare path by itself -/
theorem device_key_long (kvs : KVs) (t : String) (ht : lookup "target" kvs = some (.str t)) :
    index .deviceMapping (.map kvs) = .ok t := by
  simp [index, ht]

example : index .deviceMapping (.str "/dev/sda:/dev/xvda:rwm") = .ok "/dev/xvda" ∧
    index .deviceMapping (.str "/dev/sda") = .ok "/dev/sda" ∧
    index .deviceMapping (.map [("source", .str "/dev/sda"), ("target", .str "/dev/xvda")]) = .ok "/dev/xvda" := by
  refine ⟨?_, ?_, ?_⟩ <;> rfl

-- non-vacuity of the generic theorems: a concrete row, a concrete path
example : RowLaw 3 (rowRule "mergeLogging") (.map [("driver", .str "a")]) (.map [("driver", .str "b")]) ["services", "w", "logging"] :=
  every_row_has_law (["services", "*", "logging"], "mergeLogging") (by decide) _ (by simp [TPath.pmatch]) 3 _ _

example : (UniqueLaw (rowIndexer "exposeIndexer") [.int 80, .str "80", .str "81"] ["services", "w", "expose"]) :=
  every_unique_row_has_law (["services", "*", "expose"], "exposeIndexer") (by decide) _ (by simp [TPath.pmatch]) _

example : enforce (.seq [.int 80, .str "80", .str "81"]) ["services", "w", "expose"] = .ok (.seq [.str "80", .str "81"]) := by rfl

end CV.C04.Rows
