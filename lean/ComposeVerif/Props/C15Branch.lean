import ComposeVerif.Props.C15Load
import ComposeVerif.Props.C15Comp
/-!
# C15 (round 7) — branching histories

`run` is a linear history: every operation goes to the newest project.  Callers of the library do not work like that: they
keep a loaded project and derive several selections from the SAME receiver.  `tree` is that usage in the model: every value
ever produced is kept, each step names the EARLIER value it is applied to.

The model's operations are functions `Proj → Op → Out` on values: there is no shared state they could communicate through.
That is what the theorems below say, and it is exactly what the real operations promise by starting with `deepCopy`:

* `tree_keeps_values` — a value, once produced, is never changed by a later step (on whichever receiver);
* `tree_is_paths` — every value of a branching history is the result of a LINEAR history from the root: branching adds
  nothing (so `partition_inv`, `history_conserved`, `load_then_history` speak about branching histories as well);
* `tree_good` / `tree_conserved` / `load_then_tree` — the property's clauses on every value of every branching history.

The real heap is where this can fail (a "deep" copy that shares a map): stream `c15branch` runs `tree` on the real methods,
keeps all values, and after every step compares every value with the observation taken when it was produced.
-/
namespace CV.Sel

/-- one step of a branching history: apply `op` to the value number `on` (modulo the number of values so far) -/
structure BStep where
  on : Nat
  op : Op
deriving Repr, Inhabited

/-- a branching history: a successful step appends its result, a failing one ("no such service") appends nothing -/
def tree (vals : List Proj) : List BStep → List Proj
  | [] => vals
  | s :: ss =>
    match vals[s.on % vals.length]? with
    | some p =>
      match applyOp p s.op with
      | .ok q => tree (vals ++ [q]) ss
      | _ => tree vals ss
    | none => tree vals ss

/-- **no step changes a value that exists already** (receiver, its ancestors, its other descendants) -/
theorem tree_keeps_values (steps : List BStep) (vals : List Proj) {i : Nat} (h : i < vals.length) :
    (tree vals steps)[i]? = vals[i]? := by
  induction steps generalizing vals with
  | nil => rfl
  | cons s ss ih =>
    unfold tree
    split
    · split
      · rw [ih (vals ++ [_]) (by simp; omega), List.getElem?_append_left h]
      · exact ih vals h
    · exact ih vals h

theorem run_snoc_ok {p q : Proj} (ops : List Op) (o : Op) (h : applyOp (run p ops) o = .ok q) : run p (ops ++ [o]) = q := by
  rw [run_append]
  show (match applyOp (run p ops) o with | .ok q => run q [] | _ => run (run p ops) []) = q
  rw [h]; rfl

theorem tree_inv (Q : Proj → Prop) (step : ∀ p o q, Q p → applyOp p o = .ok q → Q q) (steps : List BStep) (vals : List Proj)
    (h : ∀ v ∈ vals, Q v) : ∀ v ∈ tree vals steps, Q v := by
  induction steps generalizing vals with
  | nil => exact h
  | cons s ss ih =>
    unfold tree
    split
    · rename_i p hp
      split
      · rename_i q hq
        refine ih _ fun v hv => ?_
        rcases List.mem_append.1 hv with hv | hv
        · exact h v hv
        · rw [List.mem_singleton.1 hv]; exact step p s.op q (h p (List.mem_of_getElem? hp)) hq
      · exact ih vals h
    · exact ih vals h

/-- **branching adds nothing**: every value of a branching history from `p` is `run p ops` for a linear history `ops` -/
theorem tree_is_paths (p : Proj) (steps : List BStep) : ∀ v ∈ tree [p] steps, ∃ ops, v = run p ops :=
  tree_inv (fun v => ∃ ops, v = run p ops)
    (fun r o q ⟨ops, e⟩ hq => ⟨ops ++ [o], (run_snoc_ok ops o (e ▸ hq)).symm⟩) steps [p]
    (fun v hv => ⟨[], by rw [List.mem_singleton.1 hv]; rfl⟩)

/-- the partition invariant on every value of every branching history -/
theorem tree_good {p : Proj} (g : Good p) (steps : List BStep) : ∀ v ∈ tree [p] steps, Good v := fun v hv => by
  obtain ⟨ops, e⟩ := tree_is_paths p steps v hv
  exact e ▸ (partition_inv g ops).1

/-- `Services` and `DisabledServices` partition exactly the root's services in every value of every branching history -/
theorem tree_conserved {p : Proj} (g : Good p) (steps : List BStep) : ∀ v ∈ tree [p] steps, Conserved p v := fun v hv => by
  obtain ⟨ops, e⟩ := tree_is_paths p steps v hv
  exact e ▸ history_conserved g ops

/-- the loader first, then any branching history: every value partitions exactly the declared services -/
theorem load_then_tree {p0 : Proj} (l : Loadable p0) (P : List String) (sc sr : Bool) {q : Proj}
    (hq : loadApply p0 P sc sr = .ok q) (steps : List BStep) :
    ∀ v ∈ tree [q] steps, Partition v ∧ SameSet (known v) (keys p0.services) ∧ ProfilesOK v ∧ Conserved p0 v := fun v hv => by
  obtain ⟨ops, e⟩ := tree_is_paths q steps v hv
  exact e ▸ load_then_history l P sc sr hq ops

/-- non-vacuity: a fork — two different operations on the same receiver give two further values, the receiver stays first -/
example : (tree [fastPathProj] [⟨0, .disable ["a"]⟩, ⟨0, .profiles ["*"]⟩]).length = 3 ∧
    (tree [fastPathProj] [⟨0, .disable ["a"]⟩, ⟨0, .profiles ["*"]⟩])[0]? = some fastPathProj := by decide

end CV.Sel
