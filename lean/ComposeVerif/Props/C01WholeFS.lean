import ComposeVerif.Props.C01Whole
import ComposeVerif.Props.C05Stuck
/-!
# C01 — the "missing file is an error" clause for `extends.file`, on the composed function (round 6)

`Props/C01Whole.lean` shows that `C01PipeFS.loadFS` (the composed pipeline with the other files of `extends` inside) has
no panic outcome beyond the reviewed sites.  Here the other half of the property's sentence about referenced files:
a reference that cannot be followed is an ERROR of the whole function.  C05's `stuck_service_outcomes` says that resolving
a service whose chain gets stuck yields the class, a tracker rejection or the fuel marker; the fuel marker is a panic
outcome, which `extendsStageFS_never_panics` excludes — so it is an error, and the error travels through `processDocsFS`,
`loadYamlModelFS` and `loadFS` unchanged.
-/
namespace CV.C01.Whole
open CV CV.Pipeline CV.C01PipeFS

/-- a stuck chain at the first visited service makes the extends stage of the composition fail (it cannot load, it cannot crash) -/
theorem extendsStageFS_first_stuck_err (c : Cfg) (bs : List BaseFile) (cfg S : Val.KVs) (n cls : String)
    (rest : List String) (f : Nat)
    (hx : c.opts.skipExtends = false)
    (hS : Val.lookup "services" cfg = some (.map S)) (hk : Val.keys S = n :: rest)
    (hst : Extends.stuckClass (Extends.realEnv c.mainFile (fsOf c bs)) f S n = some cls) :
    ∃ e, extendsStageFS c bs cfg = .err e := by
  have hnp := extendsStageFS_never_panics c bs cfg
  unfold extendsStageFS at hnp ⊢
  simp only [hx, Bool.false_eq_true, if_false] at hnp ⊢
  unfold Extends.applyExtends at hnp ⊢
  simp only [hS, hk] at hnp ⊢
  unfold Extends.applyExtendsOrd at hnp ⊢
  simp only [hS, Extends.applyAll] at hnp ⊢
  rcases Extends.stuck_service_outcomes (Extends.realEnv c.mainFile (fsOf c bs)) f
      (Extends.fuelFor (Extends.realEnv c.mainFile (fsOf c bs)) S) (Extends.realEnv c.mainFile (fsOf c bs)).mainFile n S S []
      (Extends.Inv.refl _ S) hst with h | h | h
  · rw [h]; exact ⟨_, rfl⟩
  · rw [h]; exact ⟨_, rfl⟩
  · rw [h] at hnp; exact absurd rfl (hnp _)

/-- … lifted to the whole function: if the chain of the first visited service of the first document gets stuck (class
`cls`: `noFile`, `notFound`, `notFoundInFile`, `noServices`, the load error of the referenced file, …), the load is an
ERROR — never a project in which the reference was silently dropped, never a crash -/
theorem loadFS_first_stuck_err (c : Cfg) (bs : List BaseFile) (d : Val.KVs) (more : List Val.KVs) (cfg S : Val.KVs)
    (n cls : String) (rest : List String) (f : Nat)
    (hx : c.opts.skipExtends = false) (hi : interpStage c d = .ok cfg)
    (hS : Val.lookup "services" cfg = some (.map S)) (hk : Val.keys S = n :: rest)
    (hst : Extends.stuckClass (Extends.realEnv c.mainFile (fsOf c bs)) f S n = some cls) :
    ∃ e, loadFS c bs (d :: more) = .err e := by
  obtain ⟨e, he⟩ := extendsStageFS_first_stuck_err c bs cfg S n cls rest f hx hS hk hst
  refine ⟨e, ?_⟩
  unfold loadFS loadYamlModelFS
  simp only [List.isEmpty_cons, Bool.false_eq_true, if_false]
  unfold processDocsFS processDocFS
  simp only [hi, Out.bind, he]

theorem fsOf_lookup_none (c : Cfg) (fl : String) : ∀ (bs : List BaseFile), (∀ b ∈ bs, b.ref ≠ fl) →
    Extends.fsLookup fl (fsOf c bs) = none
  | [], _ => rfl
  | b :: bs, h => by
    simp only [fsOf, List.map_cons, Extends.fsLookup]
    rw [if_neg (fun hh => h b (List.mem_cons_self ..) hh.symm)]
    exact fsOf_lookup_none c fl bs (fun b' hb' => h b' (List.mem_cons_of_mem _ hb'))

/-- **the property's missing-file clause for `extends.file`, on the composed function, for all inputs**: if the first
visited service of the first document (after interpolation) extends `{file: fl, service: r}` and no file of the disk
is named `fl`, then `loadFS` returns an error — for every configuration, every other content of the documents, every
other file on disk, every option combination with extends on -/
theorem loadFS_missing_extends_file_err (c : Cfg) (bs : List BaseFile) (d : Val.KVs) (more : List Val.KVs)
    (cfg S svc m : Val.KVs) (n r fl : String) (rest : List String)
    (hx : c.opts.skipExtends = false) (hi : interpStage c d = .ok cfg)
    (hS : Val.lookup "services" cfg = some (.map S)) (hk : Val.keys S = n :: rest)
    (hn : Val.lookup n S = some (.map svc)) (he : Val.lookup "extends" svc = some (.map m))
    (hs : Val.lookup "service" m = some (.str r)) (hf : Val.lookup "file" m = some (.str fl))
    (hmiss : ∀ b ∈ bs, b.ref ≠ fl) :
    ∃ e, loadFS c bs (d :: more) = .err e := by
  refine loadFS_first_stuck_err c bs d more cfg S n "noFile" rest 1 hx hi hS hk ?_
  have hl := fsOf_lookup_none c fl bs hmiss
  simp [Extends.stuckClass, hn, he, Extends.parseExtends, hs, hf, Extends.resolveBase, Extends.baseFromFile, hl,
    Extends.realEnv]

/-- non-vacuity of the hypotheses: a one-service document that extends `nope.yaml` with nothing on disk -/
example : ∃ e, loadFS { exampleCfg with opts := { skipExtends := false, skipInterpolation := true } } []
    [[("services", .map [("a", .map [("extends", .map [("file", .str "nope.yaml"), ("service", .str "b")])])])]] = .err e :=
  loadFS_missing_extends_file_err _ [] _ [] _ _ _ _ "a" "b" "nope.yaml" [] rfl rfl rfl rfl rfl rfl rfl rfl
    (fun _ h => nomatch h)


/-! ## at any position of the document -/

/-- the loop of `ApplyExtends` cannot succeed when ANY of the services it visits has a chain that gets stuck (no service
`null`, on either side) -/
theorem applyAll_stuck_not_ok (E : Extends.Env) (hfs : Extends.NoNullFS E) (fuel f : Nat) (orig : Val.KVs) (n cls : String)
    (hnn : Extends.NoNull orig) (hst : Extends.stuckClass E f orig n = some cls) :
    ∀ (names : List String) (cur : Val.KVs), Extends.Inv E orig cur → (∀ m ∈ names, Val.lookup m orig ≠ none) →
      n ∈ names → ∀ R, Extends.applyAll E fuel names cur ≠ .ok R := by
  intro names
  induction names with
  | nil => intro cur _ _ hn; cases hn
  | cons m ms ih =>
    intro cur hi hk hn R h
    simp only [Extends.applyAll] at h
    split at h <;> try cases h
    rename_i v S' hs
    by_cases hmn : m = n
    · subst hmn
      rcases Extends.stuck_service_outcomes E f fuel E.mainFile m cur orig [] hi hst with g | g | g <;>
        (rw [g] at hs; cases hs)
    · have hkm : Val.lookup m orig ≠ none := hk m (List.mem_cons_self ..)
      obtain ⟨r1, r2, _⟩ := Extends.applySvc_sound E hfs fuel E.mainFile m cur [] orig v S' hnn hi hs
      have hflat := r1 ((hi.key_iff m).mpr hkm)
      have hn' : n ∈ ms := by
        rcases List.mem_cons.mp hn with e | e
        · exact absurd e.symm hmn
        · exact e
      exact ih (Val.insert m v S') (r2.insert hflat) (fun x hx => hk x (List.mem_cons_of_mem _ hx)) hn' R h

/-- a stuck chain at ANY service of the document makes the extends stage of the composition fail -/
theorem extendsStageFS_stuck_anywhere_err (c : Cfg) (bs : List BaseFile) (cfg S : Val.KVs) (n cls : String) (f : Nat)
    (hx : c.opts.skipExtends = false)
    (hS : Val.lookup "services" cfg = some (.map S)) (hn : Val.lookup n S ≠ none)
    (hnn : Extends.NoNull S) (hfs : Extends.NoNullFS (Extends.realEnv c.mainFile (fsOf c bs)))
    (hst : Extends.stuckClass (Extends.realEnv c.mainFile (fsOf c bs)) f S n = some cls) :
    ∃ e, extendsStageFS c bs cfg = .err e := by
  have hnp := extendsStageFS_never_panics c bs cfg
  unfold extendsStageFS at hnp ⊢
  simp only [hx, Bool.false_eq_true, if_false] at hnp ⊢
  unfold Extends.applyExtends at hnp ⊢
  simp only [hS] at hnp ⊢
  unfold Extends.applyExtendsOrd at hnp ⊢
  simp only [hS] at hnp ⊢
  have hkeys : ∀ m, m ∈ Val.keys S ↔ Val.lookup m S ≠ none := by
    intro m; rw [Ne, Merge.lookup_eq_none_iff, Classical.not_not]
  have hno := applyAll_stuck_not_ok (Extends.realEnv c.mainFile (fsOf c bs)) hfs
    (Extends.fuelFor (Extends.realEnv c.mainFile (fsOf c bs)) S) f S n cls hnn hst (Val.keys S) S
    (Extends.Inv.refl _ S) (fun m hm => (hkeys m).mp hm) ((hkeys n).mpr hn)
  cases hA : Extends.applyAll (Extends.realEnv c.mainFile (fsOf c bs))
      (Extends.fuelFor (Extends.realEnv c.mainFile (fsOf c bs)) S) (Val.keys S) S with
  | ok R => exact absurd hA (hno R)
  | err e => exact ⟨_, rfl⟩
  | panic s => rw [hA] at hnp; exact absurd rfl (hnp _)

/-- **missing-file clause, any position**: whichever service of the first document (after interpolation) has a chain that
cannot be followed — a file that is not there (`noFile`), a service that is not in it, a file without `services`, a
file whose own load fails — the composed load is an ERROR.  Hypotheses visible: no service is `null` in the document and
in the files (C05's soundness lemma for the memoised services needs it; the statement without them is not refuted) -/
theorem loadFS_stuck_anywhere_err (c : Cfg) (bs : List BaseFile) (d : Val.KVs) (more : List Val.KVs) (cfg S : Val.KVs)
    (n cls : String) (f : Nat)
    (hx : c.opts.skipExtends = false) (hi : interpStage c d = .ok cfg)
    (hS : Val.lookup "services" cfg = some (.map S)) (hn : Val.lookup n S ≠ none)
    (hnn : Extends.NoNull S) (hfs : Extends.NoNullFS (Extends.realEnv c.mainFile (fsOf c bs)))
    (hst : Extends.stuckClass (Extends.realEnv c.mainFile (fsOf c bs)) f S n = some cls) :
    ∃ e, loadFS c bs (d :: more) = .err e := by
  obtain ⟨e, he⟩ := extendsStageFS_stuck_anywhere_err c bs cfg S n cls f hx hS hn hnn hfs hst
  refine ⟨e, ?_⟩
  unfold loadFS loadYamlModelFS
  simp only [List.isEmpty_cons, Bool.false_eq_true, if_false]
  unfold processDocsFS processDocFS
  simp only [hi, Out.bind, he]

/-- non-vacuity: two services, the SECOND one extends a file that is not there; empty disk -/
example : ∃ e, loadFS { exampleCfg with opts := { skipExtends := false, skipInterpolation := true } } []
    [[("services", .map [("a", .map [("image", .str "x")]),
                         ("b", .map [("extends", .map [("file", .str "nope.yaml"), ("service", .str "z")])])])]] = .err e :=
  loadFS_stuck_anywhere_err _ [] _ [] _ _ "b" "noFile" 1 rfl rfl rfl (by decide)
    (by intro n; simp only [Val.lookup]; split <;> (try split) <;> simp)
    (by intro f S h; simp [Extends.fileServices, Extends.realEnv, fsOf, Extends.fsLookup] at h)
    rfl

end CV.C01.Whole
