import ComposeVerif.Spec.SchemaKeys
import ComposeVerif.Gen.Types
import ComposeVerif.Gen.Schema
import ComposeVerif.Lemmas.AuditCmd
/-!
# C09 — the rendering only uses keys the schema accepts (regenerated `Gen/Types` × `Gen/Schema`)

Both obligations are re-decided by the kernel whenever `types/*.go` or `schema/compose-spec.json` changes.
-/
namespace CV.C09
open CV CV.SchemaKeys

set_option maxRecDepth 100000 in
/-- **schema-key acceptance**: walking the model types from `Project`, every rendered YAML key (327 places) is a key the
    compose schema accepts at its attribute path — except under the twelve documented gaps (`SchemaKeys.knownGaps`) where
    the Go model has a field the schema does not have -/
theorem schema_accepts_rendered_keys : KeysAccepted Gen.composeSchema Gen.structs Gen.namedTypes = true := by
  decide

set_option maxRecDepth 100000 in
/-- … and every gap is an `omitempty` field: its zero value (the only one a loaded project can have there) is not rendered -/
theorem schema_gaps_are_omitempty : GapsOmitted Gen.structs Gen.namedTypes = true := by
  decide

/-- non-vacuity: the walk reaches nested list items, e.g. the keys given tags by the round-1 repair -/
example : ((fieldPaths Gen.structs Gen.namedTypes).map (·.1)).contains
    ["services", "*", "blkio_config", "weight_device", "[]", "path"] = true := by decide

example : accepted Gen.composeSchema ["services", "*", "blkio_config", "weight_device", "[]", "path"] = true := by decide

end CV.C09
