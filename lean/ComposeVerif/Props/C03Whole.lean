import ComposeVerif.Lemmas.Pipeline
import ComposeVerif.Props.C03Doc
import ComposeVerif.Props.C03Rows
/-!
# C03 — short ≡ long through the composed pipeline (`Pipeline.load`, round 6)

`Model/Pipeline.lean` is `loader.LoadModelWithContext` on parsed documents (tied to the real function by the streams
`pipeline.load` / `pipeline.loadY`).  The C03 stage inside it is `transform.Canonical`, called once per document after
`override.Merge`, `EnforceUnicity` and the schema.  This module states the property's clause about the **whole
function**: two spellings of a document that are the same tree after `Canonical` load to the same dictionary (or fail
at the same stage) — as the first document, or at any later position of a multi-file load, whatever the other
documents and all option flags are — and instantiates it with the `canonical_*_short_eq_long` theorems of
`Props/C03Doc.lean`.
-/
namespace CV.C03.Whole
open CV CV.Pipeline CV.Val

/-- `processRawYaml` from `override.Merge` up to (not including) `transform.Canonical` -/
def preCanonical (c : Cfg) (dict : Val) (cfg : Val.KVs) : Out Val :=
  (ofMerge "merge" (Merge.merge dict (.map cfg))).bind fun dict =>
  (ofMerge "unicity" (Unicity.enforceTop dict)).bind fun dict => schemaStage c.opts dict

/-- … and after it: `OmitEmpty`, `EnforceUnicity` -/
def postCanonical (c : Cfg) (dict : Val) : Out Val :=
  (omitEmpty c.omitPats dict).bind fun dict => ofMerge "unicity2" (Unicity.enforceTop dict)

/-- `mergeStages` is `preCanonical`, then `Canonical` (with `ignoreParseError = SkipInterpolation`), then `postCanonical` -/
theorem mergeStages_factor (c : Cfg) (dict : Val) (cfg : Val.KVs) :
    mergeStages c dict cfg =
      (preCanonical c dict cfg).bind fun d => (ofShort (Short.canonical c.opts.skipInterpolation d)).bind (postCanonical c) := by
  simp only [mergeStages, preCanonical, postCanonical]
  cases ofMerge "merge" (Merge.merge dict (.map cfg)) with
  | ok d1 =>
    simp only [Out.bind]
    cases ofMerge "unicity" (Unicity.enforceTop d1) with
    | ok d2 =>
      simp only [Out.bind]
      cases schemaStage c.opts d2 <;> rfl
    | err e => rfl
    | panic s => rfl
  | err e => rfl
  | panic s => rfl

/-- the stages in front of the merge: interpolation and `extends` -/
def front (c : Cfg) (cfg : Val.KVs) : Out Val.KVs := (interpStage c cfg).bind (extendsStage c)

theorem processDoc_eq (c : Cfg) (dict : Val) (cfg : Val.KVs) : processDoc c dict cfg = (front c cfg).bind (mergeStages c dict) := by
  simp only [processDoc, front]
  cases interpStage c cfg <;> rfl

/-- two documents are **the same tree from `Canonical` on** when merged into `dict`: both pass the earlier stages and
their trees have the same canonical form (the conclusion of every `canonical_*_short_eq_long` theorem) -/
def SameCanonical (c : Cfg) (dict : Val) (a b : Val.KVs) : Prop :=
  ∃ a' b' da db, front c a = .ok a' ∧ front c b = .ok b' ∧
    preCanonical c dict a' = .ok da ∧ preCanonical c dict b' = .ok db ∧
    Short.canonical c.opts.skipInterpolation da = Short.canonical c.opts.skipInterpolation db

/-- one document step does not distinguish them -/
theorem processDoc_short_eq_long (c : Cfg) (dict : Val) (a b : Val.KVs) (h : SameCanonical c dict a b) :
    processDoc c dict a = processDoc c dict b := by
  obtain ⟨a', b', da, db, ha, hb, hda, hdb, hc⟩ := h
  simp only [processDoc_eq, ha, hb, Out.bind, mergeStages_factor, hda, hdb, hc]

theorem processDocs_append (c : Cfg) : ∀ (pre rest : List Val.KVs) (dict : Val),
    processDocs c dict (pre ++ rest) =
      match processDocs c dict pre with
      | .ok d => processDocs c d rest
      | .err e => .err e
      | .panic s => .panic s
  | [], _, _ => rfl
  | d :: pre, rest, dict => by
    simp only [List.cons_append, processDocs]
    cases processDoc c dict d with
    | ok d' => exact processDocs_append c pre rest d'
    | err e => rfl
    | panic s => rfl

/-- **the whole load, first document**: if the short and the long spelling of the first file are the same tree from
`Canonical` on, `Pipeline.load` returns the same dictionary (or the same failure) for them — with any further files,
for every value of the option flags, environment, project name, working directory -/
theorem load_short_eq_long_first (c : Cfg) (a b : Val.KVs) (rest : List Val.KVs) (h : SameCanonical c (.map []) a b) :
    load c (a :: rest) = load c (b :: rest) := by
  simp only [load, List.isEmpty_cons, loadYamlModel, processDocs, processDoc_short_eq_long c _ a b h]

/-- **the whole load, any position**: the same for a file in the middle of a multi-file load, when the two spellings
agree from `Canonical` on over every model built so far -/
theorem load_short_eq_long_at (c : Cfg) (pre : List Val.KVs) (a b : Val.KVs) (rest : List Val.KVs)
    (h : ∀ dict, SameCanonical c dict a b) : load c (pre ++ a :: rest) = load c (pre ++ b :: rest) := by
  have e1 : (pre ++ a :: rest).isEmpty = false := by cases pre <;> rfl
  have e2 : (pre ++ b :: rest).isEmpty = false := by cases pre <;> rfl
  simp only [load, e1, e2, loadYamlModel, processDocs_append]
  cases processDocs c (.map []) pre with
  | ok d => simp only [processDocs, processDoc_short_eq_long c d a b (h d)]
  | err e => rfl
  | panic s => rfl

/-- with `SkipInterpolation` and `SkipExtends` the front stages are the identity -/
theorem front_skip (c : Cfg) (cfg : Val.KVs) (hi : c.opts.skipInterpolation = true) (he : c.opts.skipExtends = true) :
    front c cfg = .ok cfg := by
  simp [front, interpStage, extendsStage, hi, he, Out.bind]

/-- **instance, `depends_on`** (list of names ≡ mapping with the default condition): two single-service-attribute
spellings that reach `Canonical` unchanged load alike.  The hypotheses `hs` / `hl` say the earlier stages leave the two
documents as they are (merge into the model so far, unicity, schema): they hold for a first document with distinct keys
(the per-stage facts are C02's / C04's); the conclusion is about the composed function. -/
theorem load_dependsOn_short_eq_long (c : Cfg) (top1 top2 svcs1 svcs2 a b : Val.KVs) (n : String)
    (names : List String) (hnd : names.Nodup) (rest : List Val.KVs) (short long : Val.KVs)
    (hi : c.opts.skipInterpolation = true) (he : c.opts.skipExtends = true)
    (hs : preCanonical c (.map []) short = .ok (Short.docWith top1 top2 svcs1 svcs2 a b n "depends_on" (.seq (names.map Val.str))))
    (hl : preCanonical c (.map []) long = .ok (Short.docWith top1 top2 svcs1 svcs2 a b n "depends_on"
      (.map (names.map (fun x => (x, Short.startedRequired)))))) :
    load c (short :: rest) = load c (long :: rest) :=
  load_short_eq_long_first c short long rest
    ⟨short, long, _, _, front_skip c short hi he, front_skip c long hi he, hs, hl,
      Short.canonical_dependsOn_short_eq_long _ top1 top2 svcs1 svcs2 a b n names hnd⟩

/-- **instance, any attribute of a service**: whatever two values have the same transform at `services.n.k`
(every `transformX_short_eq_long` of `Props/C03.lean`), the two documents load alike -/
theorem load_service_attr_short_eq_long (c : Cfg) (top1 top2 svcs1 svcs2 a b : Val.KVs) (n k : String) (v v' : Val)
    (rest : List Val.KVs) (short long : Val.KVs)
    (hi : c.opts.skipInterpolation = true) (he : c.opts.skipExtends = true)
    (ht : Short.transform true (Short.attrPath n k) v = Short.transform true (Short.attrPath n k) v')
    (hs : preCanonical c (.map []) short = .ok (Short.docWith top1 top2 svcs1 svcs2 a b n k v))
    (hl : preCanonical c (.map []) long = .ok (Short.docWith top1 top2 svcs1 svcs2 a b n k v')) :
    load c (short :: rest) = load c (long :: rest) :=
  load_short_eq_long_first c short long rest
    ⟨short, long, _, _, front_skip c short hi he, front_skip c long hi he, hs, hl, by
      rw [hi]; exact Short.canonical_service_attr_congr true top1 top2 svcs1 svcs2 a b n k v v' ht⟩

theorem lookup_none' {k : String} : ∀ {m : KVs}, k ∉ m.map Prod.fst → lookup k m = none
  | [], _ => rfl
  | (k', v) :: r, h => by
    simp only [List.map_cons, List.mem_cons, not_or] at h
    simp only [lookup, h.1, if_false]
    exact lookup_none' h.2

theorem insert_absent' {k : String} {v : Val} : ∀ {m : KVs}, lookup k m = none → Val.insert k v m = m ++ [(k, v)]
  | [], _ => rfl
  | (k', v') :: r, h => by
    simp only [lookup] at h
    split at h
    · cases h
    · rename_i hne
      simp only [Val.insert, hne, if_false, List.cons_append]
      rw [insert_absent' h]

/-- merging a mapping with distinct keys into a mapping that has none of them appends it, untouched -/
theorem mergeKVsWith_fresh (f : Val → Val → TPath → Merge.Out Val) (p : TPath) : ∀ (cfg acc : KVs),
    ((acc ++ cfg).map Prod.fst).Nodup → Merge.mergeKVsWith f acc cfg p = .ok (acc ++ cfg)
  | [], acc, _ => by simp [Merge.mergeKVsWith]
  | (k, v) :: r, acc, h => by
    have hk : k ∉ acc.map Prod.fst := by
      simp only [List.map_append, List.map_cons, List.nodup_append, List.nodup_cons] at h
      intro hm
      exact h.2.2 k hm k (by simp) rfl
    have hl := lookup_none' hk
    have := mergeKVsWith_fresh f p r (acc ++ [(k, v)]) (by simpa using h)
    simp only [Merge.mergeKVsWith, hl, insert_absent' hl, this, List.append_assoc, List.singleton_append]

/-- the first document: `override.Merge` into the empty model is the document itself -/
theorem merge_into_empty (cfg : KVs) (h : (cfg.map Prod.fst).Nodup) : Merge.merge (.map []) (.map cfg) = .ok (.map cfg) := by
  have hr : Merge.ruleAt TPath.root = none := by decide
  have := mergeKVsWith_fresh (Merge.mergeYaml (Merge.depth (Val.map cfg) + 7)) TPath.root cfg [] (by simpa using h)
  have hf : Merge.fuelFor (Val.map cfg) = (Merge.depth (Val.map cfg) + 7) + 1 := rfl
  simp only [Merge.merge]
  rw [hf, Merge.mergeYaml]
  simp only [Merge.mergeStep, hr, Merge.defaultStep, this, Merge.Out.bind, List.nil_append]

/-- … so with `SkipValidation` the stages in front of `Canonical` reduce, for a first document with distinct top-level
keys, to `EnforceUnicity` of the document itself -/
theorem preCanonical_first (c : Cfg) (cfg : KVs) (h : (cfg.map Prod.fst).Nodup) (hv : c.opts.skipValidation = true) :
    preCanonical c (.map []) cfg = ofMerge "unicity" (Unicity.enforceTop (.map cfg)) := by
  have hs : ∀ d, schemaStage c.opts d = .ok d := by intro d; simp [schemaStage, hv]
  simp only [preCanonical, merge_into_empty cfg h, ofMerge, Out.bind, hs]
  cases Unicity.enforceTop (.map cfg) <;> rfl

/-- **instance, first file, any attribute of a service, no hypothesis about the pipeline's own stages**: the document
`top1 ++ services: {…, n: {…, k: v, …}, …} ++ top2` with distinct top-level keys, in which `EnforceUnicity` finds nothing to
fold (true of every document whose `ports` / `volumes` / … entries are already distinct), loads — with any further files —
exactly like the same document with `v'` for `v`, whenever `v` and `v'` have the same transform at `services.n.k` -/
theorem load_first_service_attr (c : Cfg) (top1 top2 svcs1 svcs2 a b : KVs) (n k : String) (v v' : Val) (rest : List KVs)
    (hi : c.opts.skipInterpolation = true) (he : c.opts.skipExtends = true) (hv : c.opts.skipValidation = true)
    (hk : ((top1 ++ ("services", Val.null) :: top2).map Prod.fst).Nodup)
    (hu : Unicity.enforceTop (Short.docWith top1 top2 svcs1 svcs2 a b n k v) = .ok (Short.docWith top1 top2 svcs1 svcs2 a b n k v))
    (hu' : Unicity.enforceTop (Short.docWith top1 top2 svcs1 svcs2 a b n k v') = .ok (Short.docWith top1 top2 svcs1 svcs2 a b n k v'))
    (ht : Short.transform true (Short.attrPath n k) v = Short.transform true (Short.attrPath n k) v') :
    load c ((top1 ++ ("services", .map (svcs1 ++ (n, .map (a ++ (k, v) :: b)) :: svcs2)) :: top2) :: rest)
      = load c ((top1 ++ ("services", .map (svcs1 ++ (n, .map (a ++ (k, v') :: b)) :: svcs2)) :: top2) :: rest) := by
  apply load_service_attr_short_eq_long c top1 top2 svcs1 svcs2 a b n k v v' rest _ _ hi he ht
  · rw [preCanonical_first c _ (by simpa using hk) hv]
    simp only [Short.docWith] at hu
    rw [hu]; rfl
  · rw [preCanonical_first c _ (by simpa using hk) hv]
    simp only [Short.docWith] at hu'
    rw [hu']; rfl

/-- **first file, any two spellings of a whole document** (not only a service attribute: `include`, top-level
resources, several attributes at once): distinct top-level keys, nothing for `EnforceUnicity` to fold, same canonical tree
⇒ same load, with any further files -/
theorem load_first_same_canonical (c : Cfg) (d d' : KVs) (rest : List KVs)
    (hi : c.opts.skipInterpolation = true) (he : c.opts.skipExtends = true) (hv : c.opts.skipValidation = true)
    (hk : (d.map Prod.fst).Nodup) (hk' : (d'.map Prod.fst).Nodup)
    (hu : Unicity.enforceTop (.map d) = .ok (.map d)) (hu' : Unicity.enforceTop (.map d') = .ok (.map d'))
    (hc : Short.canonical true (.map d) = Short.canonical true (.map d')) :
    load c (d :: rest) = load c (d' :: rest) :=
  load_short_eq_long_first c d d' rest
    ⟨d, d', .map d, .map d', front_skip c d hi he, front_skip c d' hi he,
      by rw [preCanonical_first c d hk hv, hu]; rfl, by rw [preCanonical_first c d' hk' hv, hu']; rfl, by rw [hi]; exact hc⟩

theorem erase_absent {k : String} : ∀ {m : KVs}, k ∉ m.map Prod.fst → Val.erase k m = m
  | [], _ => rfl
  | (k', v) :: r, h => by
    simp only [List.map_cons, List.mem_cons, not_or] at h
    simp only [Val.erase, h.1, if_false, erase_absent h.2]

/-- the stages in front of `Canonical` on a first document **with validation**: a schema-valid document without a
`version` key (the key `processRawYaml` deletes after validation) reaches `Canonical` as `EnforceUnicity` leaves it -/
theorem preCanonical_first_valid (c : Cfg) (cfg : KVs) (h : (cfg.map Prod.fst).Nodup)
    (hu : Unicity.enforceTop (.map cfg) = .ok (.map cfg))
    (hs : c.opts.skipValidation = true ∨ (Schema.conforms Gen.composeSchema (.map cfg) = true ∧ "version" ∉ cfg.map Prod.fst)) :
    preCanonical c (.map []) cfg = .ok (.map cfg) := by
  simp only [preCanonical, merge_into_empty cfg h, ofMerge, Out.bind, hu]
  rcases hs with hv | ⟨hc, hver⟩
  · simp [schemaStage, hv]
  · simp [schemaStage, hc, erase_absent hver]

/-- **first file, with schema validation on**: two schema-valid spellings (no `version` key) of a document with
distinct top-level keys and nothing for `EnforceUnicity` to fold, with the same canonical tree, load alike — any further
files; only `SkipInterpolation` and `SkipExtends` are still assumed -/
theorem load_first_same_canonical_valid (c : Cfg) (d d' : KVs) (rest : List KVs)
    (hi : c.opts.skipInterpolation = true) (he : c.opts.skipExtends = true)
    (hk : (d.map Prod.fst).Nodup) (hk' : (d'.map Prod.fst).Nodup)
    (hu : Unicity.enforceTop (.map d) = .ok (.map d)) (hu' : Unicity.enforceTop (.map d') = .ok (.map d'))
    (hs : Schema.conforms Gen.composeSchema (.map d) = true ∧ "version" ∉ d.map Prod.fst)
    (hs' : Schema.conforms Gen.composeSchema (.map d') = true ∧ "version" ∉ d'.map Prod.fst)
    (hc : Short.canonical true (.map d) = Short.canonical true (.map d')) :
    load c (d :: rest) = load c (d' :: rest) :=
  load_short_eq_long_first c d d' rest
    ⟨d, d', .map d, .map d', front_skip c d hi he, front_skip c d' hi he,
      preCanonical_first_valid c d hk hu (Or.inr hs), preCanonical_first_valid c d' hk' hu' (Or.inr hs'), by rw [hi]; exact hc⟩

/-- **instance, `include`**: `include: [path]` ≡ `include: [{path: path}]` through the whole load (the include list is
canonicalised before `ApplyInclude` reads it; the composed model runs with `SkipInclude`) -/
theorem load_first_include (c : Cfg) (top1 top2 : KVs) (pre post : List Val) (s : String) (rest : List KVs)
    (hi : c.opts.skipInterpolation = true) (he : c.opts.skipExtends = true) (hv : c.opts.skipValidation = true)
    (hk : ((top1 ++ ("include", Val.null) :: top2).map Prod.fst).Nodup)
    (hu : Unicity.enforceTop (.map (top1 ++ ("include", .seq (pre ++ .str s :: post)) :: top2))
      = .ok (.map (top1 ++ ("include", .seq (pre ++ .str s :: post)) :: top2)))
    (hu' : Unicity.enforceTop (.map (top1 ++ ("include", .seq (pre ++ .map [("path", .str s)] :: post)) :: top2))
      = .ok (.map (top1 ++ ("include", .seq (pre ++ .map [("path", .str s)] :: post)) :: top2))) :
    load c ((top1 ++ ("include", .seq (pre ++ .str s :: post)) :: top2) :: rest)
      = load c ((top1 ++ ("include", .seq (pre ++ .map [("path", .str s)] :: post)) :: top2) :: rest) :=
  load_first_same_canonical c _ _ rest hi he hv (by simpa using hk) (by simpa using hk) hu hu'
    (Short.canonical_include_short_eq_long true top1 top2 pre post s)

/-- non-vacuity: `depends_on: [db]` vs `depends_on: {db: {condition: service_started, required: true}}` in a two-service file -/
example (c : Cfg) (rest : List KVs) (hi : c.opts.skipInterpolation = true) (he : c.opts.skipExtends = true)
    (hv : c.opts.skipValidation = true) :
    load c ([("services", .map [("web", .map [("image", .str "i"), ("depends_on", .seq [.str "db"])]), ("db", .map [("image", .str "d")])])] :: rest)
      = load c ([("services", .map [("web", .map [("image", .str "i"), ("depends_on", .map [("db", Short.startedRequired)])]), ("db", .map [("image", .str "d")])])] :: rest) := by
  have ht := Short.transformDependsOn_short_eq_long ["db"] (by simp)
  exact load_first_service_attr c [] [] [] [("db", .map [("image", .str "d")])] [("image", .str "i")] [] "web" "depends_on"
    (.seq [.str "db"]) (.map [("db", Short.startedRequired)]) rest hi he hv (by decide) (by rfl) (by rfl) (by
      have hp := (Short.dispatch (Short.seg "web") "").2.2.2.2.2.2.2.2.2.2.1
      rw [Short.attrPath_eq, Short.seg_depends_on, Short.transform_leaf_at true _ _ _ hp (by decide), Short.transform_leaf_at true _ _ _ hp (by decide)]
      simpa [Short.leaf] using ht.1.trans ht.2.symm)

end CV.C03.Whole
