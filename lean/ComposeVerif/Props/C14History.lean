import ComposeVerif.Props.C14Apply
import ComposeVerif.Props.C14Visit
/-!
# C14 (round 6) — histories: what the oracle's last step checks, as theorems

The round-6 oracle drives *branching* histories (every step may derive from any earlier project), and at the end mutates
everything reachable from each project in turn and compares all the others.  `tree_history_isolated`
(`Props/C14Apply.lean`) gives pairwise isolation; here: isolation ⇒ a write through any address of one project leaves
every other project as it was (`tree_mutation_isolated`), the history keeps all its projects (`runTree_length`), and
chains mixing derivations, visits and renderings with secret content (`mixed_history_with_marshal_tree`).
-/
namespace CV.Heap

/-- pairwise isolated projects: a write through any address of one leaves every other one as it was (the last step of
the oracle — mutate each project of the history in turn, compare all the others — as a theorem) -/
theorem pairwise_mutation_isolated {l : List GoVal} (hp : List.Pairwise Isolated l) :
    ∀ (i j : Nat) (hi : i < l.length) (hj : j < l.length), i ≠ j →
      ∀ a ∈ addrs l[i], ∀ c, write a c l[j] = l[j] := by
  intro i j hi hj hne a ha c
  apply write_not_mem
  intro haj
  rcases Nat.lt_or_gt_of_ne hne with h | h
  · exact (List.pairwise_iff_getElem.mp hp i j hi hj h) a ha haj
  · exact (List.pairwise_iff_getElem.mp hp j i hj hi h) a haj ha

/-- **mutating any project of a branching history never changes another** (the ten bodies in the tree now, any
history, any arguments): for every two distinct projects of the history — the original included — a write of any cell
through any address reachable from one leaves the other as it was -/
theorem tree_mutation_isolated (h : List TStep) (v : GoVal) (n : Nat) (hb : Below n v)
    (hmem : ∀ e ∈ h, e.2.1 ∈ Deriv.applySecrets :: Deriv.programs.map (·.2)) :
    let ps := (runTree projTy projPlan h [v] n).1
    ∀ (i j : Nat) (hi : i < ps.length) (hj : j < ps.length), i ≠ j → ∀ a ∈ addrs ps[i], ∀ c, write a c ps[j] = ps[j] :=
  pairwise_mutation_isolated (tree_history_tree h v n hb hmem).1

/-- a branching history keeps every project it made: the original(s) and one result per step -/
theorem runTree_length (t : Ty) (plan : Plan) : ∀ (h : List TStep) (acc : List GoVal) (n : Nat),
    (runTree t plan h acc n).1.length = acc.length + h.length
  | [], acc, n => by simp [runTree]
  | (i, prog, args) :: r, acc, n => by
    simp only [runTree, List.length_cons]
    rw [runTree_length t plan r]
    simp only [List.length_append, List.length_cons, List.length_nil]
    omega
end CV.Heap

namespace CV.Heap.Visit
open CV.Heap
/-- **histories mixing derivations, visits and renderings with secret content**, any length: the original project, every
derived project, every project handed to an encoder and every service handed to a visitor are pairwise isolated -/
theorem mixed_history_with_marshal_tree (h : List Step) (v : GoVal) (n : Nat) (hb : Below n v)
    (hp : ∀ e ∈ h, match e with
      | .prog pg _ => pg ∈ Deriv.applySecrets :: Deriv.programs.map (·.2)
      | .visit _ _ => True) :
    List.Pairwise Isolated (v :: runMixed projTy projPlan svcTy svcPlan h v n) := by
  apply mixed_history_isolated projTy projPlan svcTy svcPlan projPlan_deep.1 svcPlan_deep.1 svcPlan_deep.2 h v n _ hb
  intro e he
  have := hp e he
  cases e with
  | visit _ _ => rfl
  | prog pg args =>
    simp only [Step.rf]
    rcases List.mem_cons.mp this with heq | hm
    · rw [heq]; exact applySecrets_receiver_free
    · obtain ⟨pr, hpr, rfl⟩ := List.mem_map.mp hm
      exact derivations_receiver_free pr hpr
end CV.Heap.Visit
