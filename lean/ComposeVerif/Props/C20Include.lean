import ComposeVerif.Props.C20
import ComposeVerif.Lemmas.SecretsInclude
import ComposeVerif.Gen.SecretsIncludeFacts
/-!
# C20 — secrets and configs declared in an included file (round 5)

An included model is resolved twice: by its own `loadYamlModel` with the include's environment (the including
environment merged with the include's env file) and, after `importResources`, by the including model with its own
environment.  Property theorems only; model in `Model/SecretsInclude.lean`, lemmas in `Lemmas/SecretsInclude.lean`.
-/
namespace CV.Secrets
open CV CV.Val

/-! ## the source the model was written against -/

/-- `Mapping.Merge` keeps what is defined, `ResolveEnvironment` calls the three resolvers, `loadYamlModel` ends with
the modelled resolution statement (an included model resolves services and secrets only) followed by the `return`,
`ApplyInclude` loads the included model with `environment.Clone().Merge(envFromFile)`, `importResource` has the
modelled body -/
theorem include_functions_are_modelled :
    CV.Gen.SecretsInclude.body_Mapping_Merge = "{ for k, v := range o { if _, set := m[k]; !set { m[k] = v } } return m }" ∧
    CV.Gen.SecretsInclude.body_Mapping_Clone = "{ clone := Mapping{} for k, v := range m { clone[k] = v } return clone }" ∧
    CV.Gen.SecretsInclude.body_ResolveEnvironment = "{ resolveServicesEnvironment(dict, environment) resolveSecretsEnvironment(dict, environment) resolveConfigsEnvironment(dict, environment) }" ∧
    CV.Gen.SecretsInclude.loadYamlModel_resolution = ["if len(included) == 0 { ResolveEnvironment(dict, config.Environment) } else { resolveServicesEnvironment(dict, config.Environment) resolveSecretsEnvironment(dict, config.Environment) }"] ∧
    CV.Gen.SecretsInclude.loadYamlModel_after_resolution = ["return dict, nil"] ∧
    CV.Gen.SecretsInclude.applyInclude_environment = "environment.Clone().Merge(envFromFile)" ∧
    CV.Gen.SecretsInclude.applyInclude_envFromFile = ["envFromFile, err := dotenv.GetEnvFromFile(environment, r.EnvFile)"] ∧
    CV.Gen.SecretsInclude.applyInclude_load = "imported, err := loadYamlModel(ctx, config, loadOptions, &cycleTracker{}, included)" ∧
    CV.Gen.SecretsInclude.body_importResource = "{ from := source[key] if from != nil { var to map[string]any if v, ok := target[key]; ok && v != nil { to, ok = v.(map[string]any) if !ok { return fmt.Errorf(\"%s must be a mapping\", key) } } else { to = map[string]any{} } resources, ok := from.(map[string]any) if !ok { return fmt.Errorf(\"%s must be a mapping\", key) } for name, a := range resources { if conflict, ok := to[name]; ok { if same(key, name, a, conflict) { continue } return fmt.Errorf(\"%s.%s conflicts with imported resource\", key, name) } to[name] = a } target[key] = to } return nil }" :=
  ⟨rfl, rfl, rfl, rfl, rfl, rfl, rfl, rfl, rfl⟩

/-- **no other path for the value** (whole library, regenerated): the resolvers are called from `ResolveEnvironment` and
from the last statement of `loadYamlModel` only; the carrier key is used by `resolveSecretsEnvironment` (write) and
`secretConfigDecoderHook` (read, delete) only; the rendering flag is written by `marshallOptions.apply` (and copied by the
generated deep copies) and read by the two secret renderers only -/
theorem no_other_path_for_the_value :
    CV.Gen.SecretsInclude.resolver_call_sites =
      ["loader/environment.go:ResolveEnvironment:resolveConfigsEnvironment", "loader/environment.go:ResolveEnvironment:resolveSecretsEnvironment",
       "loader/loader.go:loadYamlModel:ResolveEnvironment", "loader/loader.go:loadYamlModel:resolveSecretsEnvironment"] ∧
    CV.Gen.SecretsInclude.carrier_uses =
      ["loader/environment.go:resolveSecretsEnvironment:SecretConfigXValue", "loader/loader.go:processExtensions:SecretConfigXValue",
       "loader/loader.go:secretConfigDecoderHook:SecretConfigXValue", "loader/loader.go:secretConfigDecoderHook:SecretConfigXValue"] ∧
    CV.Gen.SecretsInclude.flag_writes =
      ["types/derived.gen.go:deriveDeepCopy_*:dst.marshallContent = src.marshallContent", "types/derived.gen.go:deriveDeepCopy_*:dst.marshallContent = src.marshallContent",
       "types/project.go:marshallOptions.apply:config.marshallContent = true"] ∧
    CV.Gen.SecretsInclude.flag_uses =
      ["types/derived.gen.go:deriveDeepCopy_*:marshallContent", "types/derived.gen.go:deriveDeepCopy_*:marshallContent",
       "types/derived.gen.go:deriveDeepCopy_*:marshallContent", "types/derived.gen.go:deriveDeepCopy_*:marshallContent",
       "types/project.go:marshallOptions.apply:marshallContent", "types/types.go:SecretConfig.MarshalJSON:marshallContent",
       "types/types.go:SecretConfig.MarshalYAML:marshallContent"] := ⟨rfl, rfl, rfl, rfl⟩

/-! ## the two environments and the two resolutions -/

/-- **the include's environment**: what the including environment defines wins; the include's env file only adds -/
theorem merge_top_wins (top file : Env) (k : String) :
    (mergeEnv top file).lookup k = match top.lookup k with | some v => some v | none => file.lookup k :=
  lookup_mergeEnv top file k

/-- **the second resolution keeps the value**: resolving with the including environment an object already resolved
with the include's environment changes nothing — whether or not the including environment defines the variable
(for any carrier other than `environment`: `x-#value`, `content`) -/
theorem second_resolution_keeps_value (c : String) (hc : c ≠ "environment") (top file : Env) (v : Val) :
    resolveObj c top (resolveObj c (mergeEnv top file) v) = resolveObj c (mergeEnv top file) v :=
  resolveObj_second c hc top file v

/-- **nested includes**: the model of the innermost file is resolved again by every model on the way up; as long as the
innermost environment extends each of them (it does: every include merges its env file *under* the environment it
is given, `merge_extends`), the value found first survives any number of later resolutions.  The outermost resolution is
the head of `outer`. -/
theorem resolution_chain_keeps_value (c : String) (hc : c ≠ "environment") {big : Env} (v : Val)
    (outer : List Env) (h : ∀ e ∈ outer, EnvExtends e big) :
    outer.foldr (fun e acc => resolveObj c e acc) (resolveObj c big v) = resolveObj c big v :=
  resolveObj_chain c hc v outer h

/-- the include's environment extends the including one, and so on transitively -/
theorem merge_extends (top file file2 : Env) :
    EnvExtends top (mergeEnv top file) ∧ EnvExtends top (mergeEnv (mergeEnv top file) file2) :=
  ⟨EnvExtends_mergeEnv top file, EnvExtends_trans (EnvExtends_mergeEnv top file) (EnvExtends_mergeEnv _ file2)⟩

/-- non-vacuity: two levels of include, the variable is defined by the innermost env file only -/
example : [[("A", "a")], mergeEnv [("A", "a")] [("B", "b")]].foldr (fun e acc => resolveObj xValue e acc)
      (resolveObj xValue (mergeEnv (mergeEnv [("A", "a")] [("B", "b")]) [("V", "inner")]) (.map [("environment", .str "V")])) =
    .map [("environment", .str "V"), (xValue, .str "inner")] := by rfl

/-- the same for a whole section of a model -/
theorem second_resolution_keeps_section (sect c : String) (hc : c ≠ "environment") (top file : Env) (dict : KVs) :
    resolveSection sect c top (resolveSection sect c (mergeEnv top file) dict) = resolveSection sect c (mergeEnv top file) dict :=
  resolveSection_second sect c hc top file dict

/-- **taint confinement survives a second resolution**: an object whose only taint is a string under the first carrier
entry (what a first resolution leaves) still is after another resolution, with any environment -/
theorem taint_confined_second_resolution {P : String → Prop} {c : String} (hc : P c) (env : Env) {v : Val}
    (h : ValOkF P c v) : ValOkF P c (resolveObj c env v) := ValOkF_resolveObj_again hc env h

/-- a secret of an included file that names a variable its include's environment defines carries that value after
both resolutions -/
theorem included_secret_carries_value {top file : Env} {kvs : KVs} {e v : String}
    (he : Val.lookup "environment" kvs = some (.str e)) (hee : e ≠ "") (hv : (mergeEnv top file).lookup e = some v) :
    resolveObj xValue top (resolveObj xValue (mergeEnv top file) (.map kvs)) = .map (Val.insert xValue (.str v) kvs) := by
  rw [resolveObj_second xValue (by decide)]
  simp only [resolveObj, he, hv, if_neg hee]

/-- non-vacuity: a variable only the include's env file defines; the including environment alone resolves nothing -/
example : resolveObj xValue [("TOP", "t")] (resolveObj xValue (mergeEnv [("TOP", "t")] [("V", "canary"), ("TOP", "shadowed")])
      (.map [("environment", .str "V")])) = .map [("environment", .str "V"), (xValue, .str "canary")] ∧
    resolveObj xValue [("TOP", "t")] (.map [("environment", .str "V")]) = .map [("environment", .str "V")] ∧
    (mergeEnv [("TOP", "t")] [("V", "canary"), ("TOP", "shadowed")]).lookup "TOP" = some "t" := ⟨by rfl, by rfl, by rfl⟩

/-- **value availability, carrier form**: a raw secret object that carries `v` under `x-#value` (and has no `content`
key of its own) is decoded — at any path whose keys are not user defined — with `Content = v`, whatever resolution
put the value there -/
theorem secret_carrier_value_loaded {kvs1 : KVs} {v pname n : String} {p : TPath}
    (hx : Val.lookup xValue kvs1 = some (.str v)) (hnc : Val.lookup "content" kvs1 = none)
    (hp : isUserDefined p = false) {o : FileObj}
    (hd : decodeSecret (pxVal p (.map (setNameKVs pname n kvs1))) = .ok o) : o.content = v := by
  simp only [pxVal, decodeSecret, hp] at hd
  generalize hk2 : setNameKVs pname n kvs1 = kvs2 at hd
  have hx2 : Val.lookup xValue kvs2 = some (.str v) := by
    rw [← hk2, lookup_setNameKVs_ne (by decide)]; exact hx
  have hc2 : Val.lookup "content" kvs2 = none := by
    rw [← hk2, lookup_setNameKVs_ne (by decide)]; exact hnc
  have hex : Val.lookup xValue (extrasOf false kvs2) = some (.str v) := by
    simp only [extrasOf, Bool.false_eq_true, if_false]
    rw [lookup_filter_ext isExtKey_xValue]; exact hx2
  have hne : (extrasOf false kvs2).isEmpty = false := by
    cases hq : extrasOf false kvs2 with
    | nil => rw [hq] at hex; simp [Val.lookup] at hex
    | cons _ _ => rfl
  generalize hkeep : pxKVs p false kvs2 = keep at hd
  have hck : Val.lookup "content" keep = none := by
    rw [← hkeep, lookup_pxKVs p false isExtKey_content, hc2]; rfl
  generalize hexs : extrasOf false kvs2 = ex at hd hex hne
  have hl3 : Val.lookup extKey (withExtras ex keep) = some (.map ex) := by
    simp only [withExtras, hne, Bool.false_eq_true, if_false, lookup_insert_self]
  have hcont : contentField (hook (withExtras ex keep)) = some v := by
    unfold hook
    simp only [hl3, hex]
    have hcw : Val.lookup "content" (withExtras ex keep) = none := by
      rw [lookup_withExtras_ne (by decide)]; exact hck
    split
    · unfold contentField
      rw [lookup_erase_ne (by decide), lookup_insert_ne (by decide), hcw]
      simp only [strField]
      rw [lookup_erase_ne (by decide), lookup_insert_self]
    · unfold contentField
      rw [lookup_insert_ne (by decide), lookup_insert_ne (by decide), hcw]
      simp only [strField]
      rw [lookup_insert_ne (by decide), lookup_insert_self]
  unfold decodeFields at hd
  rw [hcont] at hd
  split at hd
  · rename_i h4 _ _ _ _ _ _
    split at hd
    · cases hd; cases h4; rfl
    · cases hd
  · cases hd

/-- **value availability for a secret of an included file**: whenever the model with its include loads, a secret the
included file declares (and the including file does not) that names a non-empty variable the *include's* environment
defines — the including environment, or else the include's env file — is on the project with `Content` equal to that
value: the second resolution, by the including model, does not lose it -/
theorem included_secret_value_available_on_project {top file : Env} {pname : String} {main inc : KVs} {p : Proj}
    (h : loadInc top file pname main inc = .ok p) {objs kvs : KVs} {n e v : String}
    (hS : lookup "secrets" inc = some (.map objs)) (hl : lookup n objs = some (.map kvs))
    (hmain : ∀ to, lookup "secrets" main = some (.map to) → lookup n to = none)
    (he : lookup "environment" kvs = some (.str e)) (hee : e ≠ "") (hv : (mergeEnv top file).lookup e = some v)
    (hnc : lookup "content" kvs = none) :
    ∃ o, (n, o) ∈ p.secrets ∧ o.content = v := by
  unfold loadInc at h
  obtain ⟨m, hm, hload⟩ := Out.bind_eq_ok.1 h
  unfold includeModel at hm
  obtain ⟨m1, h1, h2⟩ := Out.bind_eq_ok.1 hm
  -- the secrets section of the included model after its own resolution
  have hS' : lookup "secrets" (resolveModel true (mergeEnv top file) inc) =
      some (.map (resolveObjs xValue (mergeEnv top file) objs)) := by
    simp only [resolveModel, if_true, resolveSecretsEnv, lookup_resolveSection_self, hS, rsv]
  -- the imported entry
  have hent : lookup n (resolveObjs xValue (mergeEnv top file) objs) = some (.map (Val.insert xValue (.str v) kvs)) := by
    rw [lookup_resolveObjs, hl]
    simp only [Option.map, resolveObj, he, hv, if_neg hee]
  have hsec : ∃ to', lookup "secrets" m1 = some (.map to') ∧ lookup n to' = some (.map (Val.insert xValue (.str v) kvs)) := by
    rcases importSection_spec h1 with ⟨hno, _⟩ | ⟨res, to, to', hres, hto, himp, rfl⟩
    · rw [hS'] at hno; rcases hno with hno | hno <;> cases hno
    · rw [hS'] at hres; cases hres
      refine ⟨to', lookup_insert_self _ _ _, importObjs_adds himp ?_ hent⟩
      rcases hto with hto | ⟨rfl, _⟩
      · exact hmain to hto
      · rfl
  obtain ⟨to', hm1, hn⟩ := hsec
  have hm' : lookup "secrets" m = some (.map to') := by
    rw [importSection_lookup_ne (by decide) h2]; exact hm1
  -- the including model's own pipeline
  unfold load at hload
  obtain ⟨ss, hss, h'⟩ := Out.bind_eq_ok.1 hload
  obtain ⟨cs, _, hp⟩ := Out.bind_eq_ok.1 h'
  cases hp
  unfold loadSection at hss
  simp only [if_true, hm'] at hss
  obtain ⟨objs2, h2', h3⟩ := Out.bind_eq_ok.1 hss
  have hmem := lookup_some_mem hn
  have m1' := mem_resolveObjs (c := xValue) (env := top) hmem
  -- the second resolution leaves the object as it is
  have hsame : resolveObj xValue top (.map (Val.insert xValue (.str v) kvs)) = .map (Val.insert xValue (.str v) kvs) := by
    have := included_secret_carries_value (top := top) (file := file) he hee hv
    have h1st : resolveObj xValue (mergeEnv top file) (.map kvs) = .map (Val.insert xValue (.str v) kvs) := by
      simp only [resolveObj, he, hv, if_neg hee]
    rw [h1st] at this; exact this
  rw [hsame] at m1'
  obtain ⟨v', hv', m2⟩ := mem_setNameObjs h2' m1'
  simp only [setNameObj] at hv'
  cases hv'
  rw [pxKVs_true_eq_map] at h3
  have m3 : (n, pxVal (childPath ["secrets"] n (.map (setNameKVs pname n (Val.insert xValue (.str v) kvs))))
        (.map (setNameKVs pname n (Val.insert xValue (.str v) kvs)))) ∈
      objs2.map (fun kv => (kv.1, pxVal (childPath ["secrets"] kv.1 kv.2) kv.2)) :=
    List.mem_map.2 ⟨_, m2, rfl⟩
  obtain ⟨o, ho, mo⟩ := mem_decodeObjs h3 m3
  refine ⟨o, mo, secret_carrier_value_loaded (lookup_insert_self _ _ _) ?_ (secret_paths_not_user_defined n) ho⟩
  rw [lookup_insert_ne (by decide)]; exact hnc

/-- **requested content is exact for a secret of an included file**: under the hypotheses of
`included_secret_value_available_on_project`, with a non-empty value, both renderers with secret content requested write
exactly that value under `content` of the secret (composition with `render_with_content_exact`) -/
theorem included_secret_content_rendered_exactly {top file : Env} {pname : String} {main inc : KVs} {p : Proj}
    (h : loadInc top file pname main inc = .ok p) {objs kvs : KVs} {n e v : String}
    (hS : lookup "secrets" inc = some (.map objs)) (hl : lookup n objs = some (.map kvs))
    (hmain : ∀ to, lookup "secrets" main = some (.map to) → lookup n to = none)
    (he : lookup "environment" kvs = some (.str e)) (hee : e ≠ "") (hv : (mergeEnv top file).lookup e = some v)
    (hnc : lookup "content" kvs = none) (hvne : v ≠ "") (r : Renderer) :
    ∃ o, (n, o) ∈ p.secrets ∧ ∃ out, renderSecret r { o with marshallContent := true } = .map out ∧
      lookup "content" out = some (.str v) := by
  obtain ⟨o, mo, hc⟩ := included_secret_value_available_on_project h hS hl hmain he hee hv hnc
  obtain ⟨out, h1, h2⟩ := render_with_content_exact o r
  refine ⟨o, mo, out, h1, ?_⟩
  rw [h2, hc, if_neg hvne]

/-- the same composition for a single-file model (`secret_value_available_on_project` ∘ `render_with_content_exact`):
"rendering with secret content requested reproduces the value exactly", from the raw model to the rendered tree -/
theorem secret_content_rendered_exactly {env : Env} {pname : String} {dict : KVs} {p : Proj}
    (h : load env pname dict = .ok p) {objs kvs : KVs} {n e v : String}
    (hS : lookup "secrets" dict = some (.map objs)) (hm : (n, Val.map kvs) ∈ objs)
    (he : lookup "environment" kvs = some (.str e)) (hee : e ≠ "") (hv : env.lookup e = some v)
    (hnc : lookup "content" kvs = none) (hvne : v ≠ "") (r : Renderer) :
    ∃ o, (n, o) ∈ p.secrets ∧ ∃ out, renderSecret r { o with marshallContent := true } = .map out ∧
      lookup "content" out = some (.str v) := by
  obtain ⟨o, mo, hc⟩ := secret_value_available_on_project h hS hm he hee hv hnc
  obtain ⟨out, h1, h2⟩ := render_with_content_exact o r
  refine ⟨o, mo, out, h1, ?_⟩
  rw [h2, hc, if_neg hvne]

/-- the literal composition and the section-wise pipeline agree for a model with an include too -/
theorem loadDictInc_agrees_with_loadInc (top file : Env) (pname : String) (main inc : KVs) (p : Proj) :
    loadDictInc top file pname main inc = .ok p ↔ loadInc top file pname main inc = .ok p := by
  unfold loadDictInc loadInc
  simp only [Out.bind_eq_ok, loadDict_ok_iff_load]

/-! ## taint confinement and the default rendering with an include -/

/-- **taint_confined (secrets, resolved input)**: the whole-pipeline confinement of `taint_confined_secrets` for a model
whose secrets may already have been resolved (a string under the first `x-#value` entry is exempt on input too) — the
state of the including model after the import -/
theorem taint_confined_secrets_resolved {P : String → Prop} (hx : P extKey) (hxv : P xValue) (hn : P "name")
    (hemp : P "") (hnil : P "<nil>") (hcut : CutClosed P)
    {env : Env} {pname : String} {dict : KVs}
    (hsec : ∀ objs, lookup "secrets" dict = some (.map objs) →
      ∀ e ∈ objs, P e.1 ∧ P (pname ++ "_" ++ e.1) ∧ ValOkF P xValue e.2)
    {ss : List (String × FileObj)} (h : loadSection true env pname dict = .ok ss) :
    ∀ e ∈ ss, P e.1 ∧ e.2.CleanBut P ∧ e.2.marshallContent = false := by
  unfold loadSection at h
  simp only [if_true] at h
  split at h
  · cases h; simp
  · rename_i objs hl
    have h0 := hsec objs hl
    have h1 := forall_resolveObjs (Q0 := fun n v => P n ∧ P (pname ++ "_" ++ n) ∧ ValOkF P xValue v)
      (Q1 := fun n v => P n ∧ P (pname ++ "_" ++ n) ∧ ValOkF P xValue v) xValue env
      (fun n v hq => ⟨hq.1, hq.2.1, ValOkF_resolveObj_again hxv env hq.2.2⟩) h0
    cases hs : setNameObjs pname (resolveObjs xValue env objs) with
    | ok objs2 =>
      rw [hs] at h
      simp only [Out.bind] at h
      have h2 := forall_setNameObjs (Q1 := fun n v => P n ∧ P (pname ++ "_" ++ n) ∧ ValOkF P xValue v)
        (Q2 := fun n v => P n ∧ ∃ kvs, v = .map kvs ∧ ObjOkF P xValue kvs) pname
        (fun n v v' hq hv => by
          obtain ⟨kvs, rfl, hk⟩ := setNameObj_ok hv
          refine ⟨hq.1, _, rfl, ?_⟩
          rcases hk with rfl | ⟨rfl, rfl⟩
          · exact ObjOkF_setNameKVs (by decide) hn hq.1 hq.2.1 hq.2.2
          · exact ObjOkF_setNameKVs (by decide) hn hq.1 hq.2.1 (by simp [ObjOkF])) hs h1
      exact forall_decodeObjs (Q2 := fun n v => P n ∧ ∃ kvs, v = .map kvs ∧ ObjOkF P xValue kvs)
        (Q3 := fun n o => P n ∧ o.CleanBut P ∧ o.marshallContent = false) decodeSecret ["secrets"]
        (fun n v o q hq ho => by
          obtain ⟨hn', kvs, rfl, hk⟩ := hq
          exact ⟨hn', secret_obj_clean hx hemp hnil hcut hk ho⟩) h h2
    | err e => rw [hs] at h; simp [Out.bind] at h
    | panic s => rw [hs] at h; simp [Out.bind] at h
  · cases h

/-- **the including model after the import**: when both files are untainted (and the generated names are), every secret
of the merged model is untainted except a string under its first `x-#value` entry — the values of *both* environments
sit only there — and the configs section is untainted (an included model does not resolve its configs) -/
theorem include_confines_taint {P : String → Prop} (hxv : P xValue) {top file : Env} {pname : String} {main inc m : KVs}
    (hmain : AllStrKV P main) (hinc : AllStrKV P inc)
    (hgm : GenNamesOk P pname "secrets" main) (hgi : GenNamesOk P pname "secrets" inc)
    (hcm : GenNamesOk P pname "configs" main) (hci : GenNamesOk P pname "configs" inc)
    (h : includeModel top file main inc = .ok m) :
    (∀ objs, lookup "secrets" m = some (.map objs) → ∀ e ∈ objs, P e.1 ∧ P (pname ++ "_" ++ e.1) ∧ ValOkF P xValue e.2) ∧
    (∀ v, lookup "configs" m = some v → AllStr P v) ∧ GenNamesOk P pname "configs" m := by
  unfold includeModel at h
  obtain ⟨m1, h1, h2⟩ := Out.bind_eq_ok.1 h
  have hsecM : ∀ objs, lookup "secrets" main = some (.map objs) →
      ∀ e ∈ objs, P e.1 ∧ P (pname ++ "_" ++ e.1) ∧ ValOkF P xValue e.2 := fun objs hl e he => by
    have := AllStrKV_lookup hmain hl
    simp only [AllStr] at this
    exact ⟨(AllStrKV_forall this e he).1, hgm objs hl e he, ValOkF_of_AllStr (AllStrKV_forall this e he).2⟩
  have hsecI : ∀ objs, lookup "secrets" (resolveModel true (mergeEnv top file) inc) = some (.map objs) →
      ∀ e ∈ objs, P e.1 ∧ P (pname ++ "_" ++ e.1) ∧ ValOkF P xValue e.2 := fun objs hl => by
    simp only [resolveModel, if_true, resolveSecretsEnv, lookup_resolveSection_self] at hl
    cases hi : lookup "secrets" inc with
    | none => rw [hi] at hl; simp [rsv] at hl
    | some v =>
      rw [hi] at hl
      cases v with
      | map objs0 =>
        simp only [rsv] at hl
        cases hl
        have := AllStrKV_lookup hinc hi
        simp only [AllStr] at this
        exact forall_resolveObjs (Q0 := fun n v => P n ∧ P (pname ++ "_" ++ n) ∧ AllStr P v)
          (Q1 := fun n v => P n ∧ P (pname ++ "_" ++ n) ∧ ValOkF P xValue v) xValue _
          (fun n v hq => ⟨hq.1, hq.2.1, ValOkF_resolveObj hxv _ hq.2.2⟩)
          (fun e he => ⟨(AllStrKV_forall this e he).1, hgi objs0 hi e he, (AllStrKV_forall this e he).2⟩)
      | _ => simp [rsv] at hl
  have hcfgI : lookup "configs" (resolveModel true (mergeEnv top file) inc) = lookup "configs" inc := by
    simp only [resolveModel, if_true, resolveSecretsEnv]
    exact lookup_resolveSection_ne (by decide) _ _ _
  have hcfg1 : lookup "configs" m1 = lookup "configs" main := importSection_lookup_ne (by decide) h1
  refine ⟨?_, ?_, ?_⟩
  · intro objs hl
    rw [importSection_lookup_ne (by decide) h2] at hl
    exact importSection_forall (Q := fun n v => P n ∧ P (pname ++ "_" ++ n) ∧ ValOkF P xValue v) h1 hsecI hsecM objs hl
  · refine importSection_AllStr h2 ?_ ?_
    · intro v hl; rw [hcfgI] at hl; exact AllStrKV_lookup hinc hl
    · intro v hl; rw [hcfg1] at hl; exact AllStrKV_lookup hmain hl
  · exact importSection_forall (Q := fun n _ => P (pname ++ "_" ++ n)) h2
      (fun objs hl => by rw [hcfgI] at hl; exact hci objs hl)
      (fun objs hl => by rw [hcfg1] at hl; exact hcm objs hl)

/-- **render_default_clean with an include (full strength)**: for every including and included model, every including
environment and every env file of the include, the default YAML and JSON renderings of the secrets and configs sections
of the loaded project are untainted: neither environment's values reach them -/
theorem render_default_clean_included {P : String → Prop} (hv : VocabOk P)
    {top file : Env} {pname : String} {main inc : KVs}
    (hmain : AllStrKV P main) (hinc : AllStrKV P inc)
    (hgm : GenNamesOk P pname "secrets" main) (hgi : GenNamesOk P pname "secrets" inc)
    (hcm : GenNamesOk P pname "configs" main) (hci : GenNamesOk P pname "configs" inc)
    {p : Proj} (h : loadInc top file pname main inc = .ok p) (r : Renderer) :
    AllStr P (render r false p) := by
  unfold loadInc at h
  obtain ⟨m, hm, hload⟩ := Out.bind_eq_ok.1 h
  obtain ⟨hsec, hcfg, hgc⟩ := include_confines_taint (hv.carriers _ (by decide)) hmain hinc hgm hgi hcm hci hm
  unfold load at hload
  obtain ⟨ss, hss, h'⟩ := Out.bind_eq_ok.1 hload
  obtain ⟨cs, hcs, hp⟩ := Out.bind_eq_ok.1 h'
  cases hp
  have hS := taint_confined_secrets_resolved (hv.carriers _ (by decide)) (hv.carriers _ (by decide)) (hv.carriers _ (by decide))
    (hv.vocab _ (by decide)) (hv.vocab _ (by decide)) hv.cut hsec hss
  -- the configs section alone is an untainted model
  have hC : ∀ e ∈ cs, P e.1 ∧ e.2.CleanBut P ∧ (e.2.environment ≠ "" ∨ OptP P e.2.content) := by
    cases hl : lookup "configs" m with
    | none =>
      have : loadSection false top pname m = loadSection false top pname [] :=
        loadSection_congr false top pname (by simpa [Val.lookup] using hl)
      rw [this] at hcs
      simp [loadSection, Val.lookup] at hcs
      cases hcs; simp
    | some v =>
      have hc' : loadSection false top pname m = loadSection false top pname [("configs", v)] :=
        loadSection_congr false top pname (by simpa [Val.lookup] using hl)
      rw [hc'] at hcs
      refine taint_confined_configs (hv.carriers _ (by decide)) (hv.carriers _ (by decide)) (hv.carriers _ (by decide))
        (hv.vocab _ (by decide)) (hv.vocab _ (by decide)) hv.cut (dict := [("configs", v)]) ?_ ?_ hcs
      · simp only [AllStrKV]; exact ⟨hv.vocab _ (by decide), hcfg v hl, trivial⟩
      · intro objs ho e he
        simp only [Val.lookup, if_true] at ho
        cases ho
        exact hgc objs hl e he
  simp only [render, applyOpts, Bool.false_eq_true, if_false, AllStr]
  refine AllStrKV_append (AllStrKV_sectionKV (hv.vocab _ (by decide)) ?_) (AllStrKV_sectionKV (hv.vocab _ (by decide)) ?_)
  · exact AllStrKV_mapVals fun e he => ⟨(hS e he).1, AllStr_renderSecret hv.vocab (hS e he).2.1 (hS e he).2.2 r⟩
  · exact AllStrKV_mapVals fun e he => ⟨(hC e he).1, AllStr_renderConfig hv.vocab (hC e he).2.1 (hC e he).2.2 r⟩

/-- the property's wording for a model with an include: a canary that occurs in neither file (nor in the vocabulary or
the generated names) occurs nowhere in the default rendering — whatever the including environment *and the include's
env file* hold -/
theorem canary_absent_from_default_rendering_included (c : List Char) (hv : VocabOk (fun s => ¬ occurs c s))
    {top file : Env} {pname : String} {main inc : KVs} (hmain : Clean c (.map main)) (hinc : Clean c (.map inc))
    (hgm : GenNamesOk (fun s => ¬ occurs c s) pname "secrets" main) (hgi : GenNamesOk (fun s => ¬ occurs c s) pname "secrets" inc)
    (hcm : GenNamesOk (fun s => ¬ occurs c s) pname "configs" main) (hci : GenNamesOk (fun s => ¬ occurs c s) pname "configs" inc)
    {p : Proj} (h : loadInc top file pname main inc = .ok p) (r : Renderer) :
    Clean c (render r false p) :=
  render_default_clean_included hv (by simpa [Clean, AllStr] using hmain) (by simpa [Clean, AllStr] using hinc) hgm hgi hcm hci h r

/-! ## non-vacuity: a model with an include that has its own env file -/
namespace ExampleInc

def canary : List Char := "CANARY-9: {x}".toList

def main : KVs :=
  [("services", .map [("web", .map [("image", .str "nginx"), ("secrets", .seq [.str "token"])])]),
   ("secrets", .map [("local", .map [("environment", .str "LOCAL_TOKEN")])])]

def inc : KVs :=
  [("secrets", .map [("token", .map [("environment", .str "MODULE_TOKEN")]), ("both", .map [("environment", .str "LOCAL_TOKEN")])]),
   ("configs", .map [("cfg", .map [("environment", .str "MODULE_CFG")])])]

def top : Env := [("LOCAL_TOKEN", "local-value")]
def file : Env := [("MODULE_TOKEN", "CANARY-9: {x}"), ("MODULE_CFG", "cfg CANARY-9: {x}"), ("LOCAL_TOKEN", "shadowed CANARY-9: {x}")]

def proj : Proj :=
  { secrets := [("local", { name := "p_local", environment := "LOCAL_TOKEN", content := "local-value" }),
                ("token", { name := "p_token", environment := "MODULE_TOKEN", content := "CANARY-9: {x}" }),
                ("both", { name := "p_both", environment := "LOCAL_TOKEN", content := "local-value" })],
    configs := [("cfg", { name := "p_cfg", environment := "MODULE_CFG" })] }

/-- it loads; the secret of the included file carries the value only the include's env file defines; a variable both
define has the including environment's value; the included config is not resolved by the include's env file -/
example : loadInc top file "p" main inc = .ok proj := by rfl
example : loadDictInc top file "p" main inc = .ok proj := by rfl
example : Clean canary (.map main) ∧ Clean canary (.map inc) := by decide
example : Clean canary (render .yaml false proj) ∧ Clean canary (render .json false proj) := by decide
example : ¬ Clean canary (render .yaml true proj) := by decide
example : render .json false proj ≠ .map [] := by simp [render, proj, applyOpts, sectionKV, mapVals]

end ExampleInc

end CV.Secrets
